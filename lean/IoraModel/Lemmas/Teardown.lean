import IoraModel.Model.Teardown
/-! Invariants of the teardown model (C05) and their preservation by every step that respects the environment contract. -/
namespace Iora.Teardown
set_option linter.unusedSimpArgs false
set_option linter.unusedVariables false

/-- the program counter fits the kind of call -/
def kindOk (t : Thread) : Bool :=
  match t.kind, t.pc with
  | _, .notStarted | _, .done _ => true
  | .recv _, .parked _ => true
  | .conn, .parked _ | .conn, .window | .conn, .relock => true
  | .flush, .floop | .flush, .fcb | .flush, .fend _ => true
  | _, _ => false

theorem inside_counted {t : Thread} (hk : kindOk t = true) (hi : inside t.pc = true) :
    countedRecv t = true ∨ countedConn t = true ∨ countedFlush t = true := by
  cases t with
  | mk kind pc completed =>
    cases kind <;> cases pc <;> simp_all [kindOk, inside, countedRecv, countedConn, countedFlush]

theorem get_set {l : List Thread} {i j : Nat} {x u : Thread} (hj : (l.set i x)[j]? = some u) :
    (j = i ∧ u = x) ∨ (j ≠ i ∧ l[j]? = some u) := by
  rw [List.getElem?_set] at hj
  split at hj
  · rename_i h; split at hj
    · simp at hj; exact Or.inl ⟨h.symm, hj.symm⟩
    · simp at hj
  · rename_i h; exact Or.inr ⟨fun h' => h h'.symm, hj⟩

theorem lt_of_get {l : List Thread} {i : Nat} {t : Thread} (h : l[i]? = some t) : i < l.length := by
  rcases Nat.lt_or_ge i l.length with h' | h'
  · exact h'
  · simp [List.getElem?_eq_none h'] at h

theorem countP_set_add (p : Thread → Bool) {l : List Thread} {i : Nat} {t : Thread} (x : Thread) (h : l[i]? = some t) :
    (l.set i x).countP p + (if p t = true then 1 else 0) = l.countP p + (if p x = true then 1 else 0) := by
  induction l generalizing i with
  | nil => simp at h
  | cons a rest ih =>
    cases i with
    | zero =>
      simp at h; subst h
      simp [List.countP_cons]; omega
    | succ n =>
      simp at h
      have := ih h
      simp [List.set_cons_succ, List.countP_cons]; omega

theorem countP_pos_of_get (p : Thread → Bool) {l : List Thread} {i : Nat} {t : Thread} (h : l[i]? = some t) (hp : p t = true) :
    0 < l.countP p := by
  have hm : t ∈ l := List.mem_iff_getElem?.mpr ⟨i, h⟩
  exact List.countP_pos_iff.mpr ⟨t, hm, hp⟩

/-- `wakeAll` only flips `awake` flags -/
def woken (t : Thread) : Thread := match t.pc with | .parked _ => { t with pc := .parked true } | _ => t

theorem get_wakeAll {q : Thread → Bool} {l : List Thread} {j : Nat} {u : Thread} (hj : (wakeAll q l)[j]? = some u) :
    ∃ t, l[j]? = some t ∧ u = (if q t = true then woken t else t) := by
  unfold wakeAll at hj
  rw [List.getElem?_map] at hj
  cases ht : l[j]? with
  | none => simp [ht] at hj
  | some t =>
    simp [ht] at hj
    refine ⟨t, rfl, ?_⟩
    cases hp : t.pc <;> simp_all [woken]
    all_goals (split <;> simp_all)

theorem woken_props (t : Thread) :
    (woken t).kind = t.kind ∧ (woken t).completed = t.completed ∧ kindOk (woken t) = kindOk t ∧
    inside (woken t).pc = inside t.pc ∧ countedRecv (woken t) = countedRecv t ∧ countedConn (woken t) = countedConn t ∧
    countedFlush (woken t) = countedFlush t := by
  cases t with
  | mk kind pc completed => cases kind <;> cases pc <;> simp [woken, kindOk, inside, countedRecv, countedConn, countedFlush]

theorem countP_wakeAll (p : Thread → Bool) (hp : ∀ t, p (woken t) = p t) (q : Thread → Bool) (l : List Thread) :
    (wakeAll q l).countP p = l.countP p := by
  unfold wakeAll
  rw [List.countP_map]
  congr 1
  funext t
  simp only [Function.comp]
  have := hp t
  cases h : t.pc <;> simp_all [woken]
  split <;> simp_all

theorem countP_zero_get (p : Thread → Bool) {l : List Thread} (h : l.countP p = 0) {j : Nat} {t : Thread} (hj : l[j]? = some t) :
    p t = false := by
  have := (List.countP_eq_zero.mp h) t (List.mem_iff_getElem?.mpr ⟨j, hj⟩)
  simpa using this

structure Inv (s : State) : Prop where
  KP : ∀ (j : Nat) (t : Thread), s.threads[j]? = some t → kindOk t = true
  CR : s.activeReceives = s.threads.countP countedRecv
  CC : s.activeConnects = s.threads.countP countedConn
  CF : s.activeFlushes = s.threads.countP countedFlush
  WC : waitCompleted s.td = true → ∀ (j : Nat) (t : Thread), s.threads[j]? = some t → inside t.pc = false
  IA : s.implAlive = false → waitCompleted s.td = true
  UAF : s.uaf = false
  FS : s.td ≠ .idle → s.shuttingDown = true
  RN : s.recvNotified = true → s.shuttingDown = true
  Wc : s.shuttingDown = true → ∀ (j : Nat) (t : Thread) (a : Bool), s.threads[j]? = some t → t.kind = .conn → t.pc = .parked a → a = true
  Wd : ∀ (j : Nat) (t : Thread) (a : Bool), s.threads[j]? = some t → t.kind = .conn → t.completed = true → t.pc = .parked a → a = true
  Wr : ∀ (j : Nat) (t : Thread) (sid : Nat) (a : Bool), s.threads[j]? = some t → t.kind = .recv sid → s.closed sid = true → t.pc = .parked a → a = true
  Wn : s.recvNotified = true → ∀ (j : Nat) (t : Thread) (a : Bool), s.threads[j]? = some t → isRecv t = true → t.pc = .parked a → a = true
  Wt : s.td = .waiting false ∨ s.td = .ioWaiting false → gate s = false
  IO1 : Ev.stopReturned ∈ s.log → s.ioAlive = false
  IO2 : s.running = false → s.stopJoining = true ∨ s.td ≠ .idle ∨ s.ioAlive = false

theorem Inv_mk (threads : List Thread) (live : List Nat) (h : ∀ t ∈ threads, t.pc = .notStarted) : Inv (mk threads live) := by
  have hget : ∀ (j : Nat) (t : Thread), threads[j]? = some t → t.pc = .notStarted :=
    fun j t hj => h t (List.mem_iff_getElem?.mpr ⟨j, hj⟩)
  have hz : ∀ (p : Thread → Bool), (∀ t, t.pc = .notStarted → p t = false) → threads.countP p = 0 := by
    intro p hp
    apply List.countP_eq_zero.mpr
    intro t ht; simp [hp t (h t ht)]
  constructor
  · intro j t hj; have := hget j t hj; cases t with | mk k pc c => simp_all [kindOk]
  · exact (hz countedRecv (by intro t ht; cases t with | mk k pc c => simp_all [countedRecv])).symm
  · exact (hz countedConn (by intro t ht; cases t with | mk k pc c => simp_all [countedConn])).symm
  · exact (hz countedFlush (by intro t ht; cases t with | mk k pc c => simp_all [countedFlush])).symm
  · simp [mk, waitCompleted]
  · simp [mk]
  · simp [mk]
  · simp [mk]
  · simp [mk]
  · intro _ j t a hj _ hp; have := hget j t hj; simp_all [mk]
  · intro j t a hj _ _ hp; have := hget j t hj; simp_all [mk]
  · intro j t sid a hj _ _ hp; have := hget j t hj; simp_all [mk]
  · simp [mk]
  · simp [mk]
  · simp [mk]
  · simp [mk]

theorem notifyTd_cases (td : Td) :
    (notifyTd td = td ∧ td ≠ .waiting false ∧ td ≠ .ioWaiting false) ∨ (td = .waiting false ∧ notifyTd td = .waiting true) ∨
    (td = .ioWaiting false ∧ notifyTd td = .ioWaiting true) := by
  cases td <;> simp [notifyTd]
  all_goals (rename_i a; cases a <;> simp)

theorem waitCompleted_notifyTd (td : Td) : waitCompleted (notifyTd td) = waitCompleted td := by
  cases td <;> simp [notifyTd, waitCompleted]

theorem notifyTd_idle (td : Td) : notifyTd td = .idle ↔ td = .idle := by
  cases td <;> simp [notifyTd]

/-- generic preservation lemma for a step of ONE application thread: thread `i` goes from `t` to `t'` -/
theorem upd_inv {s s' : State} (h : Inv s) {i : Nat} {t t' : Thread} (hi : s.threads[i]? = some t)
    (hth : s'.threads = s.threads.set i t') (hk : kindOk t' = true) (hkind : t'.kind = t.kind)
    (hR : s'.activeReceives + (if countedRecv t = true then 1 else 0) = s.activeReceives + (if countedRecv t' = true then 1 else 0))
    (hC : s'.activeConnects + (if countedConn t = true then 1 else 0) = s.activeConnects + (if countedConn t' = true then 1 else 0))
    (hF : s'.activeFlushes + (if countedFlush t = true then 1 else 0) = s.activeFlushes + (if countedFlush t' = true then 1 else 0))
    (hsh : s'.shuttingDown = s.shuttingDown) (hcl : s'.closed = s.closed) (hrn : s'.recvNotified = s.recvNotified)
    (htd : (s'.td = s.td ∧ s.activeReceives ≤ s'.activeReceives ∧ s.activeConnects ≤ s'.activeConnects ∧
             s.activeFlushes ≤ s'.activeFlushes) ∨ s'.td = notifyTd s.td)
    (hia : s'.implAlive = s.implAlive) (hio : s'.ioAlive = s.ioAlive) (hrun : s'.running = s.running)
    (hsj : s'.stopJoining = s.stopJoining) (huaf : s'.uaf = false)
    (hin : waitCompleted s.td = true → inside t'.pc = false)
    (hpk : ∀ a, t'.pc = .parked a → a = true ∨ (s.shuttingDown = false ∧ (t'.kind = .conn → t'.completed = false) ∧
              ∀ sid, t'.kind = .recv sid → s.closed sid = false))
    (hlog : Ev.stopReturned ∈ s'.log → Ev.stopReturned ∈ s.log) : Inv s' := by
  have hwc' : waitCompleted s'.td = waitCompleted s.td := by
    rcases htd with ⟨h1, _⟩ | h1
    · rw [h1]
    · rw [h1, waitCompleted_notifyTd]
  have hidle : s'.td = .idle ↔ s.td = .idle := by
    rcases htd with ⟨h1, _⟩ | h1
    · rw [h1]
    · rw [h1, notifyTd_idle]
  constructor
  · intro j u hj; rw [hth] at hj
    rcases get_set hj with ⟨_, rfl⟩ | ⟨_, h'⟩
    · exact hk
    · exact h.KP j u h'
  · have := countP_set_add countedRecv t' hi; rw [hth]; have := h.CR; omega
  · have := countP_set_add countedConn t' hi; rw [hth]; have := h.CC; omega
  · have := countP_set_add countedFlush t' hi; rw [hth]; have := h.CF; omega
  · intro hw j u hj; rw [hth] at hj; rw [hwc'] at hw
    rcases get_set hj with ⟨_, rfl⟩ | ⟨_, h'⟩
    · exact hin hw
    · exact h.WC hw j u h'
  · intro hf; rw [hia] at hf; rw [hwc']; exact h.IA hf
  · exact huaf
  · intro hne; rw [hsh]; exact h.FS (fun hh => hne (hidle.mpr hh))
  · intro hh; rw [hrn] at hh; rw [hsh]; exact h.RN hh
  · intro hs j u a hj hku hpu; rw [hth] at hj; rw [hsh] at hs
    rcases get_set hj with ⟨_, rfl⟩ | ⟨_, h'⟩
    · rcases hpk a hpu with h1 | ⟨h1, _⟩
      · exact h1
      · simp [hs] at h1
    · exact h.Wc hs j u a h' hku hpu
  · intro j u a hj hku hcu hpu; rw [hth] at hj
    rcases get_set hj with ⟨_, rfl⟩ | ⟨_, h'⟩
    · rcases hpk a hpu with h1 | ⟨_, h1, _⟩
      · exact h1
      · have := h1 hku; simp [hcu] at this
    · exact h.Wd j u a h' hku hcu hpu
  · intro j u sid a hj hku hcs hpu; rw [hth] at hj; rw [hcl] at hcs
    rcases get_set hj with ⟨_, rfl⟩ | ⟨_, h'⟩
    · rcases hpk a hpu with h1 | ⟨_, _, h1⟩
      · exact h1
      · have := h1 sid hku; simp [hcs] at this
    · exact h.Wr j u sid a h' hku hcs hpu
  · intro hr j u a hj hru hpu; rw [hth] at hj; rw [hrn] at hr
    rcases get_set hj with ⟨_, rfl⟩ | ⟨_, h'⟩
    · rcases hpk a hpu with h1 | ⟨h1, _⟩
      · exact h1
      · have := h.RN hr; simp [this] at h1
    · exact h.Wn hr j u a h' hru hpu
  · intro hw
    rcases htd with ⟨h1, h2, h3, h4⟩ | h1
    · rw [h1] at hw
      have := h.Wt hw
      simp only [gate, Bool.and_eq_false_iff, beq_eq_false_iff_ne] at this ⊢
      rcases this with (hx | hx) | hx
      · exact Or.inl (Or.inl (by omega))
      · exact Or.inl (Or.inr (by omega))
      · exact Or.inr (by omega)
    · rw [h1] at hw
      rcases notifyTd_cases s.td with ⟨h2, h3, h4⟩ | ⟨_, h2⟩ | ⟨_, h2⟩
      · rw [h2] at hw; rcases hw with hw | hw
        · exact absurd hw h3
        · exact absurd hw h4
      · rw [h2] at hw; simp at hw
      · rw [h2] at hw; simp at hw
  · intro hl; rw [hio]; exact h.IO1 (hlog hl)
  · intro hr; rw [hrun] at hr; rw [hsj, hio]
    rcases h.IO2 hr with h1 | h1 | h1
    · exact Or.inl h1
    · exact Or.inr (Or.inl (fun hh => h1 (hidle.mp hh)))
    · exact Or.inr (Or.inr h1)

theorem alive_of_not_completed {s : State} (h : Inv s) (hw : waitCompleted s.td = false) : s.implAlive = true := by
  cases hia : s.implAlive with
  | true => rfl
  | false => have := h.IA hia; simp [hw] at this

theorem touch_id {s : State} (h : Inv s) (hw : waitCompleted s.td = false) : touch s = s := by
  simp [touch, alive_of_not_completed h hw]

theorem not_completed_of_inside {s : State} (h : Inv s) {i : Nat} {t : Thread} (hi : s.threads[i]? = some t)
    (hin : inside t.pc = true) : waitCompleted s.td = false := by
  cases hw : waitCompleted s.td with
  | false => rfl
  | true => have := h.WC hw i t hi; simp [hin] at this

macro "side" : tactic =>
  `(tactic| first
    | rfl
    | (simp_all [kindOk, inside, countedRecv, countedConn, countedFlush, setT, notifyTd]; done)
    | (simp_all [kindOk, inside, countedRecv, countedConn, countedFlush, setT, notifyTd]; omega))

theorem doEnter_inv {s : State} (h : Inv s) (i : Nat) (hok : ok s (.enter i) = true) : Inv (doEnter s i) := by
  have hw : waitCompleted s.td = false := by simpa [ok] using hok
  have ht := touch_id h hw
  unfold doEnter
  split
  · rename_i t hi
    split
    · rename_i hpc
      simp only [ht]
      have hkp := h.KP i t hi
      split
      · -- fence: rejected without parking
        refine upd_inv h hi rfl ?_ rfl ?_ ?_ ?_ rfl rfl rfl (Or.inl ⟨rfl, Nat.le_refl _, Nat.le_refl _, Nat.le_refl _⟩)
          rfl rfl rfl rfl h.UAF ?_ ?_ ?_
        all_goals (cases t with | mk k pc c => cases k <;> simp_all [kindOk, inside, countedRecv, countedConn, countedFlush])
      · rename_i hsh
        have hsh' : s.shuttingDown = false := by simpa using hsh
        cases hk : t.kind with
        | recv sid =>
          simp only []
          split
          · refine upd_inv h hi rfl ?_ (by simp [hk]) ?_ ?_ ?_ rfl rfl rfl (Or.inl ⟨rfl, Nat.le_refl _, Nat.le_refl _, Nat.le_refl _⟩)
              rfl rfl rfl rfl h.UAF ?_ ?_ ?_
            all_goals (cases t with | mk k pc c => simp_all [kindOk, inside, countedRecv, countedConn, countedFlush])
          · rename_i hcl
            refine upd_inv h hi rfl ?_ (by simp [hk]) ?_ ?_ ?_ rfl rfl rfl (Or.inl ⟨rfl, Nat.le_succ _, Nat.le_refl _, Nat.le_refl _⟩)
              rfl rfl rfl rfl h.UAF ?_ ?_ ?_
            all_goals (cases t with | mk k pc c => simp_all [kindOk, inside, countedRecv, countedConn, countedFlush])
        | conn =>
          simp only []
          refine upd_inv h hi rfl ?_ (by simp [hk]) ?_ ?_ ?_ rfl rfl rfl (Or.inl ⟨rfl, Nat.le_refl _, Nat.le_succ _, Nat.le_refl _⟩)
            rfl rfl rfl rfl h.UAF ?_ ?_ ?_
          all_goals (cases t with | mk k pc c => simp_all [kindOk, inside, countedRecv, countedConn, countedFlush])
        | flush =>
          simp only []
          refine upd_inv h hi rfl ?_ (by simp [hk]) ?_ ?_ ?_ rfl rfl rfl (Or.inl ⟨rfl, Nat.le_refl _, Nat.le_refl _, Nat.le_succ _⟩)
            rfl rfl rfl rfl h.UAF ?_ ?_ ?_
          all_goals (cases t with | mk k pc c => simp_all [kindOk, inside, countedRecv, countedConn, countedFlush])
    · exact h
  · exact h

theorem doWake_inv {s : State} (h : Inv s) (i : Nat) (to : Bool) : Inv (doWake s i to) := by
  unfold doWake
  split
  · rename_i t hi
    obtain ⟨k, pc, c⟩ := t
    cases pc <;> try exact h
    rename_i a
    have hw := not_completed_of_inside h hi (by simp [inside])
    have hkp := h.KP i _ hi
    simp only [touch_id h hw]
    cases k with
    | recv sid =>
      simp only []
      have hpos : 0 < s.activeReceives := by rw [h.CR]; exact countP_pos_of_get _ hi (by simp [countedRecv])
      split
      · refine upd_inv h hi rfl ?_ rfl ?_ ?_ ?_ rfl rfl rfl (Or.inr rfl) rfl rfl rfl rfl h.UAF ?_ ?_ ?_
        all_goals (first | (simp_all [kindOk, inside, countedRecv, countedConn, countedFlush]; done) | (simp_all [kindOk, inside, countedRecv, countedConn, countedFlush]; omega))
      · rename_i hc
        simp only [Bool.or_eq_true, not_or, Bool.not_eq_true] at hc
        refine upd_inv h hi rfl ?_ rfl ?_ ?_ ?_ rfl rfl rfl (Or.inl ⟨rfl, Nat.le_refl _, Nat.le_refl _, Nat.le_refl _⟩)
          rfl rfl rfl rfl h.UAF ?_ ?_ ?_
        all_goals (first | (simp_all [kindOk, inside, countedRecv, countedConn, countedFlush]; done) | (simp_all [kindOk, inside, countedRecv, countedConn, countedFlush]; omega))
    | conn =>
      simp only []
      have hpos : 0 < s.activeConnects := by rw [h.CC]; exact countP_pos_of_get _ hi (by simp [countedConn])
      split
      · refine upd_inv h hi rfl ?_ rfl ?_ ?_ ?_ rfl rfl rfl (Or.inr rfl) rfl rfl rfl rfl h.UAF ?_ ?_ ?_
        all_goals (first | (simp_all [kindOk, inside, countedRecv, countedConn, countedFlush]; done) | (simp_all [kindOk, inside, countedRecv, countedConn, countedFlush]; omega))
      · split
        · refine upd_inv h hi rfl ?_ rfl ?_ ?_ ?_ rfl rfl rfl (Or.inr rfl) rfl rfl rfl rfl h.UAF ?_ ?_ ?_
          all_goals (first | (simp_all [kindOk, inside, countedRecv, countedConn, countedFlush]; done) | (simp_all [kindOk, inside, countedRecv, countedConn, countedFlush]; omega))
        · split
          · refine upd_inv h hi rfl ?_ rfl ?_ ?_ ?_ rfl rfl rfl (Or.inl ⟨rfl, Nat.le_refl _, Nat.le_refl _, Nat.le_refl _⟩)
              rfl rfl rfl rfl h.UAF ?_ ?_ ?_
            all_goals (first | (simp_all [kindOk, inside, countedRecv, countedConn, countedFlush]; done) | (simp_all [kindOk, inside, countedRecv, countedConn, countedFlush]; omega))
          · refine upd_inv h hi rfl ?_ rfl ?_ ?_ ?_ rfl rfl rfl (Or.inl ⟨rfl, Nat.le_refl _, Nat.le_refl _, Nat.le_refl _⟩)
              rfl rfl rfl rfl h.UAF ?_ ?_ ?_
            all_goals (first | (simp_all [kindOk, inside, countedRecv, countedConn, countedFlush]; done) | (simp_all [kindOk, inside, countedRecv, countedConn, countedFlush]; omega))
    | flush => exact h
  · exact h

theorem doConnClose_inv {s : State} (h : Inv s) (i : Nat) : Inv (doConnClose s i) := by
  unfold doConnClose
  split
  · rename_i t hi
    obtain ⟨k, pc, c⟩ := t
    cases pc <;> try exact h
    have hw := not_completed_of_inside h hi (by simp [inside])
    have hkp := h.KP i _ hi
    simp only [touch_id h hw]
    refine upd_inv h hi rfl ?_ rfl ?_ ?_ ?_ rfl rfl rfl (Or.inl ⟨rfl, Nat.le_refl _, Nat.le_refl _, Nat.le_refl _⟩)
      rfl rfl rfl rfl h.UAF ?_ ?_ ?_
    all_goals (cases k <;> simp_all [kindOk, inside, countedRecv, countedConn, countedFlush])
  · exact h

theorem doConnRelock_inv {s : State} (h : Inv s) (i : Nat) : Inv (doConnRelock s i) := by
  unfold doConnRelock
  split
  · rename_i t hi
    obtain ⟨k, pc, c⟩ := t
    cases pc <;> try exact h
    have hw := not_completed_of_inside h hi (by simp [inside])
    have hkp := h.KP i _ hi
    simp only [touch_id h hw]
    cases k <;> simp [kindOk] at hkp
    have hpos : 0 < s.activeConnects := by rw [h.CC]; exact countP_pos_of_get _ hi (by simp [countedConn])
    refine upd_inv h hi rfl ?_ rfl ?_ ?_ ?_ rfl rfl rfl (Or.inr rfl) rfl rfl rfl rfl h.UAF ?_ ?_ ?_
    all_goals (first | (simp_all [kindOk, inside, countedRecv, countedConn, countedFlush]; done) | (simp_all [kindOk, inside, countedRecv, countedConn, countedFlush]; omega))
  · exact h

theorem doFlushStep_inv {s : State} (h : Inv s) (i : Nat) (more : Bool) : Inv (doFlushStep s i more) := by
  unfold doFlushStep
  split
  · rename_i t hi
    obtain ⟨k, pc, c⟩ := t
    have hkp := h.KP i _ hi
    cases pc <;> try exact h
    · -- floop
      have hw := not_completed_of_inside h hi (by simp [inside])
      simp only [touch_id h hw]
      cases k <;> simp [kindOk] at hkp
      split
      · refine upd_inv h hi rfl ?_ rfl ?_ ?_ ?_ rfl rfl rfl (Or.inl ⟨rfl, Nat.le_refl _, Nat.le_refl _, Nat.le_refl _⟩)
          rfl rfl rfl rfl h.UAF ?_ ?_ ?_
        all_goals (simp_all [kindOk, inside, countedRecv, countedConn, countedFlush])
      · split
        · refine upd_inv h hi rfl ?_ rfl ?_ ?_ ?_ rfl rfl rfl (Or.inl ⟨rfl, Nat.le_refl _, Nat.le_refl _, Nat.le_refl _⟩)
            rfl rfl rfl rfl h.UAF ?_ ?_ ?_
          all_goals (simp_all [kindOk, inside, countedRecv, countedConn, countedFlush])
        · refine upd_inv h hi rfl ?_ rfl ?_ ?_ ?_ rfl rfl rfl (Or.inl ⟨rfl, Nat.le_refl _, Nat.le_refl _, Nat.le_refl _⟩)
            rfl rfl rfl rfl h.UAF ?_ ?_ ?_
          all_goals (simp_all [kindOk, inside, countedRecv, countedConn, countedFlush])
    · -- fcb
      have hw := not_completed_of_inside h hi (by simp [inside])
      cases k <;> simp [kindOk] at hkp
      refine upd_inv h hi rfl ?_ rfl ?_ ?_ ?_ rfl rfl rfl (Or.inl ⟨rfl, Nat.le_refl _, Nat.le_refl _, Nat.le_refl _⟩)
        rfl rfl rfl rfl h.UAF ?_ ?_ ?_
      all_goals (simp_all [kindOk, inside, countedRecv, countedConn, countedFlush])
    · -- fend
      have hw := not_completed_of_inside h hi (by simp [inside])
      simp only [touch_id h hw]
      cases k <;> simp [kindOk] at hkp
      have hpos : 0 < s.activeFlushes := by rw [h.CF]; exact countP_pos_of_get _ hi (by simp [countedFlush])
      refine upd_inv h hi rfl ?_ rfl ?_ ?_ ?_ rfl rfl rfl (Or.inr rfl) rfl rfl rfl rfl h.UAF ?_ ?_ ?_
      all_goals (first | (simp_all [kindOk, inside, countedRecv, countedConn, countedFlush]; done) | (simp_all [kindOk, inside, countedRecv, countedConn, countedFlush]; omega))
  · exact h

theorem doIoConnDone_inv {s : State} (h : Inv s) (i : Nat) : Inv (doIoConnDone s i) := by
  unfold doIoConnDone
  split
  · split
    · rename_i t hi
      obtain ⟨k, pc, c⟩ := t
      have hkp := h.KP i _ hi
      split
      · rename_i a hk hpc
        simp only at hk hpc; subst hk; subst hpc
        refine upd_inv h hi rfl ?_ rfl ?_ ?_ ?_ rfl rfl rfl (Or.inl ⟨rfl, Nat.le_refl _, Nat.le_refl _, Nat.le_refl _⟩)
          rfl rfl rfl rfl h.UAF ?_ ?_ ?_
        all_goals (first | (simp_all [kindOk, inside, countedRecv, countedConn, countedFlush]; done) | skip)
        · intro hwc; have := not_completed_of_inside h hi (by simp [inside]); simp [hwc] at this
      · exact h
    · exact h
  · exact h

theorem woken_parked {t : Thread} {a : Bool} (h : (woken t).pc = .parked a) : a = true ∧ ∃ b, t.pc = .parked b := by
  cases t with
  | mk k pc c => cases pc <;> simp_all [woken]

theorem gate_no_inside {s : State} (h : Inv s) (hg : gate s = true) :
    ∀ (j : Nat) (t : Thread), s.threads[j]? = some t → inside t.pc = false := by
  intro j t hj
  simp only [gate, Bool.and_eq_true, beq_iff_eq] at hg
  obtain ⟨⟨h1, h2⟩, h3⟩ := hg
  have c1 := countP_zero_get countedRecv (by rw [← h.CR]; exact h1) hj
  have c2 := countP_zero_get countedConn (by rw [← h.CC]; exact h2) hj
  have c3 := countP_zero_get countedFlush (by rw [← h.CF]; exact h3) hj
  cases hi : inside t.pc with
  | false => rfl
  | true => rcases inside_counted (h.KP j t hj) hi with h' | h' | h' <;> simp_all

/-- generic preservation lemma for a step that only flips `awake` flags (`wakeAll q`) and raises flags -/
theorem wake_inv {s s' : State} (h : Inv s) (q : Thread → Bool) (hth : s'.threads = wakeAll q s.threads)
    (hR : s'.activeReceives = s.activeReceives) (hC : s'.activeConnects = s.activeConnects)
    (hF : s'.activeFlushes = s.activeFlushes) (htd : s'.td = s.td) (hia : s'.implAlive = s.implAlive)
    (hio : s'.ioAlive = s.ioAlive) (hrun : s'.running = s.running) (hsj : s'.stopJoining = s.stopJoining)
    (huaf : s'.uaf = s.uaf) (hlog : Ev.stopReturned ∈ s'.log → Ev.stopReturned ∈ s.log)
    (hsh : s.shuttingDown = true → s'.shuttingDown = true)
    (hrn : s'.recvNotified = true → s'.shuttingDown = true)
    (hfs : s.td ≠ .idle → s'.shuttingDown = true)
    (hWc : s'.shuttingDown = true → s.shuttingDown = true ∨ ∀ t, t.kind = .conn → q t = true)
    (hWr : ∀ sid, s'.closed sid = true → s.closed sid = true ∨ ∀ t, t.kind = .recv sid → q t = true)
    (hWn : s'.recvNotified = true → s.recvNotified = true ∨ ∀ t, isRecv t = true → q t = true) : Inv s' := by
  have key : ∀ (j : Nat) (u : Thread), s'.threads[j]? = some u →
      ∃ t, s.threads[j]? = some t ∧ u = (if q t = true then woken t else t) := by
    intro j u hj; rw [hth] at hj; exact get_wakeAll hj
  constructor
  · intro j u hj; obtain ⟨t, ht, rfl⟩ := key j u hj
    split
    · rw [(woken_props t).2.2.1]; exact h.KP j t ht
    · exact h.KP j t ht
  · rw [hth, hR, countP_wakeAll _ (fun t => (woken_props t).2.2.2.2.1)]; exact h.CR
  · rw [hth, hC, countP_wakeAll _ (fun t => (woken_props t).2.2.2.2.2.1)]; exact h.CC
  · rw [hth, hF, countP_wakeAll _ (fun t => (woken_props t).2.2.2.2.2.2)]; exact h.CF
  · intro hw j u hj; rw [htd] at hw; obtain ⟨t, ht, rfl⟩ := key j u hj
    split
    · rw [(woken_props t).2.2.2.1]; exact h.WC hw j t ht
    · exact h.WC hw j t ht
  · intro hf; rw [hia] at hf; rw [htd]; exact h.IA hf
  · rw [huaf]; exact h.UAF
  · intro hne; rw [htd] at hne; exact hfs hne
  · exact hrn
  · intro hs j u a hj hku hpu; obtain ⟨t, ht, rfl⟩ := key j u hj
    split at hpu
    · exact (woken_parked hpu).1
    · rename_i hq
      simp only [hq, if_false] at hku
      rcases hWc hs with h1 | h1
      · exact h.Wc h1 j t a ht hku hpu
      · exact absurd (h1 t hku) hq
  · intro j u a hj hku hcu hpu; obtain ⟨t, ht, rfl⟩ := key j u hj
    split at hpu
    · exact (woken_parked hpu).1
    · rename_i hq
      simp only [hq, if_false] at hku hcu
      exact h.Wd j t a ht hku hcu hpu
  · intro j u sid a hj hku hcs hpu; obtain ⟨t, ht, rfl⟩ := key j u hj
    split at hpu
    · exact (woken_parked hpu).1
    · rename_i hq
      simp only [hq, if_false] at hku
      rcases hWr sid hcs with h1 | h1
      · exact h.Wr j t sid a ht hku h1 hpu
      · exact absurd (h1 t hku) hq
  · intro hr j u a hj hru hpu; obtain ⟨t, ht, rfl⟩ := key j u hj
    split at hpu
    · exact (woken_parked hpu).1
    · rename_i hq
      simp only [hq, if_false] at hru
      rcases hWn hr with h1 | h1
      · exact h.Wn h1 j t a ht hru hpu
      · exact absurd (h1 t hru) hq
  · intro hw; rw [htd] at hw
    have := h.Wt hw
    simpa [gate, hR, hC, hF] using this
  · intro hl; rw [hio]; exact h.IO1 (hlog hl)
  · intro hr; rw [hrun] at hr; rw [hsj, hio, htd]; exact h.IO2 hr

/-- generic preservation lemma for a step that leaves threads, counters and the wake-relevant flags alone -/
theorem frame_inv {s s' : State} (h : Inv s) (hth : s'.threads = s.threads)
    (hR : s'.activeReceives = s.activeReceives) (hC : s'.activeConnects = s.activeConnects)
    (hF : s'.activeFlushes = s.activeFlushes) (hsh : s'.shuttingDown = s.shuttingDown) (hcl : s'.closed = s.closed)
    (hrn : s'.recvNotified = s.recvNotified) (huaf : s'.uaf = false)
    (hWC : waitCompleted s'.td = true → ∀ (j : Nat) (t : Thread), s.threads[j]? = some t → inside t.pc = false)
    (hIA : s'.implAlive = false → waitCompleted s'.td = true)
    (hFS : s'.td ≠ .idle → s.shuttingDown = true)
    (hWt : s'.td = .waiting false ∨ s'.td = .ioWaiting false → gate s = false)
    (hIO1 : Ev.stopReturned ∈ s'.log → s'.ioAlive = false)
    (hIO2 : s'.running = false → s'.stopJoining = true ∨ s'.td ≠ .idle ∨ s'.ioAlive = false) : Inv s' := by
  constructor
  · intro j t hj; rw [hth] at hj; exact h.KP j t hj
  · rw [hth, hR]; exact h.CR
  · rw [hth, hC]; exact h.CC
  · rw [hth, hF]; exact h.CF
  · intro hw j t hj; rw [hth] at hj; exact hWC hw j t hj
  · exact hIA
  · exact huaf
  · intro hne; rw [hsh]; exact hFS hne
  · intro hr; rw [hrn] at hr; rw [hsh]; exact h.RN hr
  · intro hs j t a hj; rw [hth] at hj; rw [hsh] at hs; exact h.Wc hs j t a hj
  · intro j t a hj; rw [hth] at hj; exact h.Wd j t a hj
  · intro j t sid a hj hk hc; rw [hth] at hj; rw [hcl] at hc; exact h.Wr j t sid a hj hk hc
  · intro hr j t a hj; rw [hth] at hj; rw [hrn] at hr; exact h.Wn hr j t a hj
  · intro hw; have := hWt hw; simpa [gate, hR, hC, hF] using this
  · exact hIO1
  · exact hIO2

theorem closeSess_inv {s : State} (h : Inv s) (sid : Nat) : Inv (closeSess s sid) := by
  refine wake_inv h (isRecvOf sid) rfl rfl rfl rfl rfl rfl rfl rfl rfl rfl ?_ (fun hs => hs) h.RN h.FS
    (fun hs => Or.inl hs) ?_ (fun hr => Or.inl hr)
  · intro hl; simpa [closeSess] using hl
  · intro sid' hc
    simp only [closeSess] at hc
    by_cases hs : sid' = sid
    · subst hs; right; intro t hk; simp [isRecvOf, hk]
    · left; simpa [hs] using hc

theorem waitOut_inv {s : State} (h : Inv s) (nr : Bool) : Inv (waitOutEntry s nr) := by
  refine wake_inv h (fun t => isConn t || (nr && isRecv t)) rfl rfl rfl rfl rfl rfl rfl rfl rfl rfl (fun hl => hl)
    (fun _ => rfl) (fun _ => rfl) (fun _ => rfl) ?_ (fun sid hc => Or.inl hc) ?_
  · intro _; right; intro t hk; simp [isConn, hk]
  · intro hr
    simp only [waitOutEntry, Bool.or_eq_true] at hr
    rcases hr with hr | hr
    · exact Or.inl hr
    · right; intro t ht; simp [hr, ht]

theorem waitCompleted_cases (td : Td) : waitCompleted td = true ↔ td = .waited ∨ td = .ioReleased ∨ td = .destroyed := by
  cases td <;> simp [waitCompleted]

/-- after an entry section of `teardownWaitOut`: either the gate is already open or the thread goes to sleep -/
theorem gated_inv {s : State} (h : Inv s) (hnc : waitCompleted s.td = false) (hsh : s.shuttingDown = true)
    (done sleep : Td) (hd : waitCompleted done = true) (hd' : done ≠ .idle) (hs : waitCompleted sleep = false) (hs' : sleep ≠ .idle)
    (hsl : sleep = .waiting false ∨ sleep = .ioWaiting false ∨ (sleep ≠ .waiting false ∧ sleep ≠ .ioWaiting false))
    (s' : State) (hs'eq : s' = if gate s = true then { s with td := done } else { s with td := sleep })
    (hio2 : s.running = false → s.stopJoining = true ∨ True ∨ s.ioAlive = false) : Inv s' := by
  have hal := alive_of_not_completed h hnc
  subst hs'eq
  split
  · rename_i hg
    refine frame_inv h rfl rfl rfl rfl rfl rfl rfl h.UAF (fun _ => gate_no_inside h hg) ?_ (fun _ => hsh) ?_ h.IO1 ?_
    · intro hf; simp [hal] at hf
    · intro hw; rcases hw with hw | hw <;> (simp only [] at hw; rw [hw] at hd; simp [waitCompleted] at hd)
    · intro _; exact Or.inr (Or.inl hd')
  · rename_i hg
    refine frame_inv h rfl rfl rfl rfl rfl rfl rfl h.UAF ?_ ?_ (fun _ => hsh) ?_ h.IO1 ?_
    · intro hw; simp only [] at hw; rw [hs] at hw; simp at hw
    · intro hf; simp [hal] at hf
    · intro _; simpa using hg
    · intro _; exact Or.inr (Or.inl hs')

theorem doIoCloseSess_inv {s : State} (h : Inv s) (sid : Nat) : Inv (doIoCloseSess s sid) := by
  unfold doIoCloseSess; split
  · exact closeSess_inv h sid
  · exact h

theorem ioFree_alive {s : State} (hf : ioFree s = true) : s.ioAlive = true := by
  simp only [ioFree, Bool.and_eq_true] at hf; exact hf.1

theorem doIoDrain_inv {s : State} (h : Inv s) (sid : Option Nat) : Inv (doIoDrain s sid) := by
  unfold doIoDrain
  split
  · rename_i hc
    simp only [Bool.and_eq_true, Bool.not_eq_true'] at hc
    cases sid with
    | some sid => simp only []; split
                  · exact closeSess_inv h sid
                  · exact h
    | none =>
      simp only []
      split
      · split
        · -- the self-destruct deleter runs: Impl is deleted by the I/O thread's epilogue
          rename_i htd
          have hwc : waitCompleted s.td = true := by simp [htd, waitCompleted]
          refine frame_inv h rfl rfl rfl rfl rfl rfl rfl h.UAF (fun _ => h.WC hwc) (fun _ => rfl) ?_ ?_ (fun _ => rfl)
            (fun _ => Or.inr (Or.inr rfl))
          · intro _; exact h.FS (by simp [htd])
          · intro hw; rcases hw with hw | hw <;> simp at hw
        · refine frame_inv h rfl rfl rfl rfl rfl rfl rfl h.UAF h.WC h.IA h.FS h.Wt (fun _ => rfl) (fun _ => Or.inr (Or.inr rfl))
      · exact h
  · exact h

theorem doStopCall_inv {s : State} (h : Inv s) (hok : ok s .stopCall = true) : Inv (doStopCall s) := by
  have hidle : s.td = .idle := by simpa [ok] using hok
  unfold doStopCall
  split
  · exact h
  · rename_i hsj
    split
    · refine frame_inv h rfl rfl rfl rfl rfl rfl rfl h.UAF h.WC h.IA h.FS h.Wt h.IO1 (fun _ => Or.inl rfl)
    · rename_i hr
      have hr' : s.running = false := by simpa using hr
      have hio : s.ioAlive = false := by
        rcases h.IO2 hr' with h1 | h1 | h1
        · exact absurd h1 hsj
        · exact absurd hidle h1
        · exact h1
      refine frame_inv h rfl rfl rfl rfl rfl rfl rfl h.UAF h.WC h.IA h.FS h.Wt (fun _ => hio) h.IO2

theorem doStopJoin_inv {s : State} (h : Inv s) : Inv (doStopJoin s) := by
  unfold doStopJoin
  split
  · rename_i hc
    simp only [Bool.and_eq_true, Bool.not_eq_true'] at hc
    refine frame_inv h rfl rfl rfl rfl rfl rfl rfl h.UAF h.WC h.IA h.FS h.Wt (fun _ => hc.2) (fun _ => Or.inr (Or.inr hc.2))
  · exact h

theorem waitOut_fields (s : State) (nr : Bool) :
    (waitOutEntry s nr).td = s.td ∧ (waitOutEntry s nr).shuttingDown = true ∧ (waitOutEntry s nr).running = s.running ∧
    (waitOutEntry s nr).ioAlive = s.ioAlive ∧ (waitOutEntry s nr).stopJoining = s.stopJoining ∧
    (waitOutEntry s nr).log = s.log ∧ (waitOutEntry s nr).implAlive = s.implAlive := by
  simp [waitOutEntry]

theorem doTdBegin_inv {s : State} (h : Inv s) : Inv (doTdBegin s) := by
  unfold doTdBegin
  split
  · rename_i htd
    split
    · -- NORMAL: fence
      have h1 := waitOut_inv h false
      have hf := waitOut_fields s false
      refine frame_inv h1 rfl rfl rfl rfl rfl rfl rfl h1.UAF ?_ ?_ (fun _ => hf.2.1) ?_ ?_ ?_
      · intro hw; simp [waitCompleted] at hw
      · intro hf'; simp only [] at hf'; rw [hf.2.2.2.2.2.2] at hf'
        have := h.IA hf'; simp [htd, waitCompleted] at this
      · intro hw; rcases hw with hw | hw <;> simp at hw
      · intro hl; simp only [] at hl ⊢; rw [hf.2.2.2.2.2.1] at hl; rw [hf.2.2.2.1]; exact h.IO1 hl
      · intro _; exact Or.inr (Or.inl (by simp))
    · -- ALREADY-STOPPED: teardownWaitOut(true)
      have h1 := waitOut_inv h true
      have hf := waitOut_fields s true
      exact gated_inv h1 (by rw [hf.1, htd]; rfl) hf.2.1 .waited (.waiting false) rfl (by simp) rfl (by simp)
        (Or.inl rfl) _ rfl (fun _ => Or.inr (Or.inl trivial))
  · exact h

theorem doTdStop_inv {s : State} (h : Inv s) : Inv (doTdStop s) := by
  unfold doTdStop
  split
  · rename_i htd
    have hsh := h.FS (by simp [htd])
    split
    · refine frame_inv h rfl rfl rfl rfl rfl rfl rfl h.UAF ?_ ?_ (fun _ => hsh) ?_ h.IO1 (fun _ => Or.inr (Or.inl (by simp)))
      · intro hw; simp [waitCompleted] at hw
      · intro hf; have := h.IA hf; simp [htd, waitCompleted] at this
      · intro hw; rcases hw with hw | hw <;> simp at hw
    · have h1 := waitOut_inv h false
      have hf := waitOut_fields s false
      exact gated_inv h1 (by rw [hf.1, htd]; rfl) hf.2.1 .waited (.waiting false) rfl (by simp) rfl (by simp)
        (Or.inl rfl) _ rfl (fun _ => Or.inr (Or.inl trivial))
  · exact h

theorem doTdJoined_inv {s : State} (h : Inv s) : Inv (doTdJoined s) := by
  unfold doTdJoined
  split
  · rename_i htd
    split
    · exact h
    · have h1 := waitOut_inv h false
      have hf := waitOut_fields s false
      exact gated_inv h1 (by rw [hf.1, htd]; rfl) hf.2.1 .waited (.waiting false) rfl (by simp) rfl (by simp)
        (Or.inl rfl) _ rfl (fun _ => Or.inr (Or.inl trivial))
  · exact h

theorem doTdWake_inv {s : State} (h : Inv s) : Inv (doTdWake s) := by
  unfold doTdWake
  split
  · rename_i a htd
    have hsh := h.FS (by simp [htd])
    exact gated_inv h (by rw [htd]; rfl) hsh .waited (.waiting false) rfl (by simp) rfl (by simp)
      (Or.inl rfl) _ rfl (fun _ => Or.inr (Or.inl trivial))
  · rename_i a htd
    have hsh := h.FS (by simp [htd])
    have hal := alive_of_not_completed h (by rw [htd]; rfl)
    split
    · rename_i hg
      refine frame_inv h rfl rfl rfl rfl rfl rfl rfl h.UAF (fun _ => gate_no_inside h hg) ?_ (fun _ => hsh) ?_ h.IO1
        (fun _ => Or.inr (Or.inl (by simp)))
      · intro hf; simp [hal] at hf
      · intro hw; rcases hw with hw | hw <;> simp at hw
    · rename_i hg
      refine frame_inv h rfl rfl rfl rfl rfl rfl rfl h.UAF ?_ ?_ (fun _ => hsh) ?_ h.IO1 ?_
      · intro hw; simp [waitCompleted] at hw
      · intro hf; simp [hal] at hf
      · intro _; simpa using hg
      · intro hr; simp only [] at hr ⊢
        rcases h.IO2 hr with h1 | h1 | h1
        · exact Or.inl h1
        · exact Or.inr (Or.inl (by simp))
        · exact Or.inr (Or.inr h1)
  · exact h

theorem doTdDestroy_inv {s : State} (h : Inv s) : Inv (doTdDestroy s) := by
  unfold doTdDestroy
  split
  · rename_i htd
    have hwc : waitCompleted s.td = true := by simp [htd, waitCompleted]
    have hsh := h.FS (by simp [htd])
    refine frame_inv h rfl rfl rfl rfl rfl rfl rfl h.UAF (fun _ => h.WC hwc) (fun _ => rfl) (fun _ => hsh) ?_ ?_ ?_
    · intro hw; rcases hw with hw | hw <;> simp at hw
    · intro hl; simp only [List.mem_append, List.mem_singleton] at hl
      rcases hl with hl | hl
      · exact h.IO1 hl
      · cases hl
    · intro _; exact Or.inr (Or.inl (by simp))
  · exact h

theorem doIoSelfDestruct_inv {s : State} (h : Inv s) : Inv (doIoSelfDestruct s) := by
  unfold doIoSelfDestruct
  split
  · rename_i htd
    split
    · have h1 := waitOut_inv h true
      have hf := waitOut_fields s true
      have hal := alive_of_not_completed h1 (by rw [hf.1, htd]; rfl)
      simp only []
      split
      · rename_i hg
        refine frame_inv h1 rfl rfl rfl rfl rfl rfl rfl h1.UAF (fun _ => gate_no_inside h1 hg) ?_ (fun _ => hf.2.1) ?_ h1.IO1
          (fun _ => Or.inr (Or.inl (by simp)))
        · intro hf'; simp [hal] at hf'
        · intro hw; rcases hw with hw | hw <;> simp at hw
      · rename_i hg
        refine frame_inv h1 rfl rfl rfl rfl rfl rfl rfl h1.UAF ?_ ?_ (fun _ => hf.2.1) ?_ h1.IO1
          (fun _ => Or.inr (Or.inl (by simp)))
        · intro hw; simp [waitCompleted] at hw
        · intro hf'; simp [hal] at hf'
        · intro _; simpa using hg
    · exact h
  · exact h

theorem step_inv {s : State} (h : Inv s) (st : Step) (hok : ok s st = true) : Inv (step s st) := by
  cases st with
  | enter i => exact doEnter_inv h i hok
  | wake i t => exact doWake_inv h i t
  | connClose i => exact doConnClose_inv h i
  | connRelock i => exact doConnRelock_inv h i
  | flushStep i m => exact doFlushStep_inv h i m
  | ioCloseSess sid => exact doIoCloseSess_inv h sid
  | ioConnDone i => exact doIoConnDone_inv h i
  | ioDrain sid => exact doIoDrain_inv h sid
  | stopCall => exact doStopCall_inv h hok
  | stopJoin => exact doStopJoin_inv h
  | tdBegin => exact doTdBegin_inv h
  | tdStop => exact doTdStop_inv h
  | tdJoined => exact doTdJoined_inv h
  | tdWake => exact doTdWake_inv h
  | tdDestroy => exact doTdDestroy_inv h
  | ioSelfDestruct => exact doIoSelfDestruct_inv h

theorem run_inv : ∀ (steps : List Step) (s : State), Inv s → Disciplined s steps → Inv (run s steps) := by
  intro steps
  induction steps with
  | nil => intro s h _; exact h
  | cons st rest ih => intro s h hd; exact ih _ (step_inv h st hd.1) hd.2

/-! ## consequences used by the property theorems -/

theorem counted_inside (t : Thread) :
    (countedRecv t = true → inside t.pc = true) ∧ (countedConn t = true → inside t.pc = true) ∧
    (countedFlush t = true → inside t.pc = true) := by
  cases t with
  | mk k pc c => cases k <;> cases pc <;> simp [countedRecv, countedConn, countedFlush, inside]

theorem gate_of_no_inside {s : State} (h : Inv s)
    (hn : ∀ (j : Nat) (t : Thread), s.threads[j]? = some t → inside t.pc = false) : gate s = true := by
  have z : ∀ (p : Thread → Bool), (∀ t, p t = true → inside t.pc = true) → s.threads.countP p = 0 := by
    intro p hp
    apply List.countP_eq_zero.mpr
    intro t ht hpt
    obtain ⟨j, hj⟩ := List.mem_iff_getElem?.mp ht
    have := hn j t hj
    simp [hp t hpt] at this
  simp only [gate, Bool.and_eq_true, beq_iff_eq]
  refine ⟨⟨?_, ?_⟩, ?_⟩
  · rw [h.CR]; exact z _ (fun t => (counted_inside t).1)
  · rw [h.CC]; exact z _ (fun t => (counted_inside t).2.1)
  · rw [h.CF]; exact z _ (fun t => (counted_inside t).2.2)

theorem get_set_self {l : List Thread} {i : Nat} {t x : Thread} (h : l[i]? = some t) : (l.set i x)[i]? = some x :=
  List.getElem?_set_self (lt_of_get h)

@[simp] theorem touch_threads (s : State) : (touch s).threads = s.threads := by unfold touch; split <;> rfl
@[simp] theorem touch_sh (s : State) : (touch s).shuttingDown = s.shuttingDown := by unfold touch; split <;> rfl
@[simp] theorem touch_closed (s : State) : (touch s).closed = s.closed := by unfold touch; split <;> rfl

/-- what one own step does to the program counter of a thread that is inside a call -/
theorem wake_pc {s : State} {i : Nat} {t : Thread} {a : Bool} (hi : s.threads[i]? = some t) (hpc : t.pc = .parked a)
    (hk : kindOk t = true) :
    ∃ t', (doWake s i true).threads[i]? = some t' ∧ t'.kind = t.kind ∧ kindOk t' = true ∧
      ((∃ r, t'.pc = .done r) ∨ t'.pc = .window) := by
  obtain ⟨k, pc, c⟩ := t
  simp only at hpc; subst hpc
  unfold doWake
  simp only [hi]
  cases k with
  | recv sid =>
    simp only [touch_closed, touch_sh, touch_threads, Bool.or_true, if_true, setT]
    exact ⟨_, get_set_self hi, rfl, by simp [kindOk], Or.inl ⟨_, rfl⟩⟩
  | conn =>
    simp only [touch_sh, touch_threads, setT]
    split
    · exact ⟨_, get_set_self hi, rfl, by simp [kindOk], Or.inl ⟨_, rfl⟩⟩
    · split
      · exact ⟨_, get_set_self hi, rfl, by simp [kindOk], Or.inl ⟨_, rfl⟩⟩
      · simp only [if_true]
        exact ⟨_, get_set_self hi, rfl, by simp [kindOk], Or.inr rfl⟩
  | flush => simp [kindOk] at hk

theorem connClose_pc {s : State} {i : Nat} {t : Thread} (hi : s.threads[i]? = some t) (hpc : t.pc = .window) :
    ∃ t', (doConnClose s i).threads[i]? = some t' ∧ t'.kind = t.kind ∧ t'.pc = .relock := by
  obtain ⟨k, pc, c⟩ := t
  simp only at hpc; subst hpc
  unfold doConnClose
  simp only [hi, setT]
  exact ⟨_, get_set_self hi, rfl, rfl⟩

theorem connRelock_pc {s : State} {i : Nat} {t : Thread} (hi : s.threads[i]? = some t) (hpc : t.pc = .relock) :
    ∃ t' r, (doConnRelock s i).threads[i]? = some t' ∧ t'.pc = .done r := by
  obtain ⟨k, pc, c⟩ := t
  simp only at hpc; subst hpc
  unfold doConnRelock
  simp only [hi, setT, touch_threads]
  exact ⟨_, _, get_set_self hi, rfl⟩

theorem flush_pc {s : State} {i : Nat} {t : Thread} (hi : s.threads[i]? = some t) :
    (t.pc = .floop → ∃ t' r, (doFlushStep s i false).threads[i]? = some t' ∧ t'.kind = t.kind ∧ t'.pc = .fend r) ∧
    (t.pc = .fcb → ∃ t', (doFlushStep s i false).threads[i]? = some t' ∧ t'.kind = t.kind ∧ t'.pc = .floop) ∧
    (∀ r, t.pc = .fend r → ∃ t' r', (doFlushStep s i false).threads[i]? = some t' ∧ t'.pc = .done r') := by
  obtain ⟨k, pc, c⟩ := t
  refine ⟨?_, ?_, ?_⟩
  · intro hpc; simp only at hpc; subst hpc
    unfold doFlushStep
    simp only [hi, setT, touch_threads, touch_sh]
    split
    · exact ⟨_, _, get_set_self hi, rfl, rfl⟩
    · simp only [Bool.false_eq_true, if_false]
      exact ⟨_, _, get_set_self hi, rfl, rfl⟩
  · intro hpc; simp only at hpc; subst hpc
    unfold doFlushStep
    simp only [hi, setT]
    exact ⟨_, get_set_self hi, rfl, rfl⟩
  · intro r hpc; simp only at hpc; subst hpc
    unfold doFlushStep
    simp only [hi, setT, touch_threads]
    exact ⟨_, _, get_set_self hi, rfl⟩

/-- a thread inside a call reaches `done` within three steps of its own (timeouts are always available) -/
theorem finite_path {s : State} {i : Nat} {t : Thread} (hi : s.threads[i]? = some t) (hk : kindOk t = true)
    (hin : inside t.pc = true) :
    ∃ steps : List Step, steps.length ≤ 3 ∧ ∃ t' r, (run s steps).threads[i]? = some t' ∧ t'.pc = .done r := by
  have relock_done : ∀ (s : State) (t : Thread), s.threads[i]? = some t → t.pc = .relock →
      ∃ t' r, (run s [.connRelock i]).threads[i]? = some t' ∧ t'.pc = .done r := by
    intro s t h1 h2; exact connRelock_pc h1 h2
  have window_done : ∀ (s : State) (t : Thread), s.threads[i]? = some t → t.pc = .window →
      ∃ t' r, (run s [.connClose i, .connRelock i]).threads[i]? = some t' ∧ t'.pc = .done r := by
    intro s t h1 h2
    obtain ⟨t1, h3, _, h4⟩ := connClose_pc h1 h2
    exact connRelock_pc h3 h4
  have fend_done : ∀ (s : State) (t : Thread) (r : Bool), s.threads[i]? = some t → t.pc = .fend r →
      ∃ t' r', (run s [.flushStep i false]).threads[i]? = some t' ∧ t'.pc = .done r' := by
    intro s t r h1 h2; exact (flush_pc h1).2.2 r h2
  have floop_done : ∀ (s : State) (t : Thread), s.threads[i]? = some t → t.pc = .floop →
      ∃ t' r', (run s [.flushStep i false, .flushStep i false]).threads[i]? = some t' ∧ t'.pc = .done r' := by
    intro s t h1 h2
    obtain ⟨t1, r, h3, _, h4⟩ := (flush_pc h1).1 h2
    exact (flush_pc h3).2.2 r h4
  cases hpc : t.pc with
  | notStarted => simp [hpc, inside] at hin
  | done r => simp [hpc, inside] at hin
  | parked a =>
    obtain ⟨t1, h1, hk1, hko, h2⟩ := wake_pc hi hpc hk
    rcases h2 with ⟨r, h2⟩ | h2
    · exact ⟨[.wake i true], by simp, t1, r, h1, h2⟩
    · obtain ⟨t', r, h3, h4⟩ := window_done _ t1 h1 h2
      exact ⟨[.wake i true, .connClose i, .connRelock i], by simp, t', r, h3, h4⟩
  | window =>
    obtain ⟨t', r, h3, h4⟩ := window_done _ t hi hpc
    exact ⟨[.connClose i, .connRelock i], by simp, t', r, h3, h4⟩
  | relock =>
    obtain ⟨t', r, h3, h4⟩ := relock_done _ t hi hpc
    exact ⟨[.connRelock i], by simp, t', r, h3, h4⟩
  | floop =>
    obtain ⟨t', r, h3, h4⟩ := floop_done _ t hi hpc
    exact ⟨[.flushStep i false, .flushStep i false], by simp, t', r, h3, h4⟩
  | fcb =>
    obtain ⟨t1, h1, _, h2⟩ := (flush_pc hi).2.1 hpc
    obtain ⟨t', r, h3, h4⟩ := floop_done _ t1 h1 h2
    exact ⟨[.flushStep i false, .flushStep i false, .flushStep i false], by simp, t', r, h3, h4⟩
  | fend r0 =>
    obtain ⟨t', r, h3, h4⟩ := fend_done _ t r0 hi hpc
    exact ⟨[.flushStep i false], by simp, t', r, h3, h4⟩


theorem closeSess_log (s : State) (sid : Nat) : (closeSess s sid).log = s.log ++ [.cbClose sid] := rfl

/-- close callbacks come only from I/O-thread steps -/
theorem cb_confined (s : State) (st : Step) (sid : Nat) (h : Ev.cbClose sid ∈ (step s st).log) :
    Ev.cbClose sid ∈ s.log ∨ (s.ioAlive = true ∧ ((∃ x, st = .ioCloseSess x) ∨ (∃ x, st = .ioDrain x))) := by
  cases st with
  | ioCloseSess x =>
    simp only [step, doIoCloseSess] at h
    split at h
    · rename_i hc; simp only [Bool.and_eq_true] at hc
      exact Or.inr ⟨ioFree_alive hc.1, Or.inl ⟨x, rfl⟩⟩
    · exact Or.inl h
  | ioDrain x =>
    simp only [step, doIoDrain] at h
    split at h
    · rename_i hc; simp only [Bool.and_eq_true] at hc
      exact Or.inr ⟨ioFree_alive hc.1, Or.inr ⟨x, rfl⟩⟩
    · exact Or.inl h
  | enter i =>
    left
    simp only [step, doEnter] at h
    (repeat' split at h) <;> simp_all [touch] <;> (try (split at h <;> simp_all))
  | wake i t =>
    left
    simp only [step, doWake] at h
    (repeat' split at h) <;> simp_all [touch] <;> (try (split at h <;> simp_all))
  | connClose i =>
    left
    simp only [step, doConnClose] at h
    (repeat' split at h) <;> simp_all [touch] <;> (try (split at h <;> simp_all))
  | connRelock i =>
    left
    simp only [step, doConnRelock] at h
    (repeat' split at h) <;> simp_all [touch] <;> (try (split at h <;> simp_all))
  | flushStep i m =>
    left
    simp only [step, doFlushStep] at h
    (repeat' split at h) <;> simp_all [touch] <;> (try (split at h <;> simp_all))
  | ioConnDone i =>
    left
    simp only [step, doIoConnDone] at h
    (repeat' split at h) <;> simp_all
  | stopCall =>
    left
    simp only [step, doStopCall] at h
    (repeat' split at h) <;> simp_all
  | stopJoin =>
    left
    simp only [step, doStopJoin] at h
    (repeat' split at h) <;> simp_all
  | tdBegin =>
    left
    simp only [step, doTdBegin, waitOutEntry] at h
    (repeat' split at h) <;> simp_all <;> (try (split at h <;> simp_all))
  | tdStop =>
    left
    simp only [step, doTdStop, waitOutEntry] at h
    (repeat' split at h) <;> simp_all <;> (try (split at h <;> simp_all))
  | tdJoined =>
    left
    simp only [step, doTdJoined, waitOutEntry] at h
    (repeat' split at h) <;> simp_all <;> (try (split at h <;> simp_all))
  | tdWake =>
    left
    simp only [step, doTdWake] at h
    (repeat' split at h) <;> simp_all
  | tdDestroy =>
    left
    simp only [step, doTdDestroy] at h
    (repeat' split at h) <;> simp_all
  | ioSelfDestruct =>
    left
    simp only [step, doIoSelfDestruct, waitOutEntry] at h
    (repeat' split at h) <;> simp_all <;> (try (split at h <;> simp_all))

end Iora.Teardown
