import IoraModel.Model.WsHandover
import IoraModel.Lemmas.WsServer
/-
The hand-over invariant: under EVERY interleaving of the pool thread and the I/O thread, what the WebSocket session has
been fed so far is a segmentation of a prefix of `trailing ++ reads`, the rest of it waits - in order - in the drain
loop's hand and the session buffer, and nothing is fed before the 101 response.
-/
namespace Iora.Ws

theorem run_append (max : Nat) (cb : Cbs) : ∀ (a b : List AppOp) (s : Sess),
    run max cb s (a ++ b) = ((run max cb (run max cb s a).1 b).1, (run max cb s a).2 ++ (run max cb (run max cb s a).1 b).2) := by
  intro a
  induction a with
  | nil => intro b s; simp [run]
  | cons op ops ih => intro b s; simp only [List.cons_append, run, ih, List.append_assoc]

theorem run_snoc_data (max : Nat) (cb : Cbs) (segs : List Bytes) (d : Bytes) :
    run max cb {} ((segs ++ [d]).map AppOp.data) =
      ((onData max cb (run max cb {} (segs.map AppOp.data)).1 d).1,
       (run max cb {} (segs.map AppOp.data)).2 ++ (onData max cb (run max cb {} (segs.map AppOp.data)).1 d).2) := by
  rw [List.map_append, run_append]
  simp [run, step]

/-- an erased session stays erased, whatever is still done under its id -/
theorem step_erased (max : Nat) (cb : Cbs) (op : AppOp) : (step max cb { alive := false } op).1 = { alive := false } := by
  cases op <;> simp [step, sendStep, appSend, sendPing, sendClose, onData, erase] <;> split <;> rfl

theorem run_erased (max : Nat) (cb : Cbs) : ∀ (ops : List AppOp), (run max cb { alive := false } ops).1 = { alive := false } := by
  intro ops
  induction ops with
  | nil => rfl
  | cons op ops ih => simp only [run, step_erased, ih]

/-- `segs` = the reads the session has been fed so far -/
structure HInv (max : Nat) (cb : Cbs) (total : Bytes) (segs : List Bytes) (h : Hand) (evs : List Ev) : Prop where
  evs_eq : evs = h.pc.pre ++ (run max cb {} (segs.map AppOp.data)).2
  sess_eq : h.pc ≠ .mark → h.pc ≠ .create → h.sess = (run max cb {} (segs.map AppOp.data)).1
  early : (h.pc = .mark ∨ h.pc = .create ∨ h.pc = .connect ∨ h.pc = .respond) → segs = []
  bytes : segs.flatten ++ h.pc.inflight ++ h.httpBuf = total
  pend : h.pending = true ↔ h.pc ≠ .done
  upg : h.pc ≠ .mark → h.upgraded = true
  drained : h.pc = .done → h.httpBuf = []

theorem hInit_inv (max : Nat) (cb : Cbs) (trailing : Bytes) : HInv max cb trailing [] (hInit trailing) [] where
  evs_eq := by simp [hInit, HPc.pre, run]
  sess_eq := by intro h; simp [hInit] at h
  early := fun _ => rfl
  bytes := by simp [hInit, HPc.inflight]
  pend := by simp [hInit]
  upg := by intro h; simp [hInit] at h
  drained := by intro h; simp [hInit] at h

theorem hWorker_inv (max : Nat) (cb : Cbs) (total : Bytes) (segs : List Bytes) (h : Hand) (evs : List Ev)
    (hi : HInv max cb total segs h evs) :
    ∃ segs', HInv max cb total segs' (hWorker max cb h).1 (evs ++ (hWorker max cb h).2) := by
  obtain ⟨pc, pending, upgraded, httpBuf, sess⟩ := h
  obtain ⟨he, hs, hearly, hb, hp, hu, hd⟩ := hi
  simp only at he hs hearly hb hp hu hd
  cases pc with
  | mark =>
    have : segs = [] := hearly (.inl rfl)
    subst this
    exact ⟨[], ⟨by simpa [hWorker, HPc.pre] using he, by simp [hWorker], fun _ => rfl, by simpa [hWorker, HPc.inflight] using hb,
      by simpa [hWorker] using hp, by simp [hWorker], by simp [hWorker]⟩⟩
  | create =>
    have : segs = [] := hearly (.inr (.inl rfl))
    subst this
    exact ⟨[], ⟨by simpa [hWorker, HPc.pre] using he, by simp [hWorker, run], fun _ => rfl, by simpa [hWorker, HPc.inflight] using hb,
      by simpa [hWorker] using hp, fun _ => by simpa [hWorker] using hu (by simp), by simp [hWorker]⟩⟩
  | connect =>
    have : segs = [] := hearly (.inr (.inr (.inl rfl)))
    subst this
    refine ⟨[], ⟨?_, ?_, fun _ => rfl, by simpa [hWorker, HPc.inflight] using hb, by simpa [hWorker] using hp,
      fun _ => by simpa [hWorker] using hu (by simp), by simp [hWorker]⟩⟩
    · simp only [HPc.pre, List.map_nil, run, List.append_nil, List.nil_append] at he
      subst he
      simp [hWorker, HPc.pre, run]
    · intro _ _; simpa [hWorker] using hs (by simp) (by simp)
  | respond =>
    have : segs = [] := hearly (.inr (.inr (.inr rfl)))
    subst this
    refine ⟨[], ⟨?_, ?_, fun _ => rfl, by simpa [hWorker, HPc.inflight] using hb, by simpa [hWorker] using hp,
      fun _ => by simpa [hWorker] using hu (by simp), by simp [hWorker]⟩⟩
    · simp only [HPc.pre, List.map_nil, run, List.append_nil] at he
      subst he
      simp [hWorker, HPc.pre, run]
    · intro _ _; simpa [hWorker] using hs (by simp) (by simp)
  | drain =>
    by_cases hem : httpBuf.isEmpty = true
    · have hnil : httpBuf = [] := List.isEmpty_iff.mp hem
      subst hnil
      refine ⟨segs, ⟨?_, ?_, ?_, ?_, ?_, ?_, ?_⟩⟩
      · simpa [hWorker, HPc.pre] using he
      · intro _ _; simpa [hWorker] using hs (by simp) (by simp)
      · intro h; simp [hWorker] at h
      · simpa [hWorker, HPc.inflight] using hb
      · simp [hWorker]
      · intro _; simpa [hWorker] using hu (by simp)
      · simp [hWorker]
    · refine ⟨segs, ⟨?_, ?_, ?_, ?_, ?_, ?_, ?_⟩⟩
      · simpa [hWorker, hem, HPc.pre] using he
      · intro _ _; simpa [hWorker, hem] using hs (by simp) (by simp)
      · intro h; simp [hWorker, hem] at h
      · simpa [hWorker, hem, HPc.inflight] using hb
      · simpa [hWorker, hem] using hp
      · intro _; simpa [hWorker, hem] using hu (by simp)
      · intro h; simp [hWorker, hem] at h
  | feed d =>
    refine ⟨segs ++ [d], ⟨?_, ?_, ?_, ?_, ?_, ?_, ?_⟩⟩
    · have hs' := hs (by simp) (by simp)
      simp only [HPc.pre] at he
      subst he
      simp only [hWorker, HPc.pre, run_snoc_data, hs', List.append_assoc]
    · intro _ _
      have hs' := hs (by simp) (by simp)
      simp only [hWorker, run_snoc_data, hs']
    · intro h; simp [hWorker] at h
    · simpa [hWorker, HPc.inflight] using hb
    · simpa [hWorker] using hp
    · intro _; simpa [hWorker] using hu (by simp)
    · intro h; simp [hWorker] at h
  | done =>
    exact ⟨segs, ⟨by simpa [hWorker] using he, by simpa [hWorker] using hs, by simpa [hWorker] using hearly, by simpa [hWorker] using hb,
      by simpa [hWorker] using hp, by simpa [hWorker] using hu, by simpa [hWorker] using hd⟩⟩

theorem hRead_inv (maxBuf max : Nat) (cb : Cbs) (total : Bytes) (segs : List Bytes) (h : Hand) (evs : List Ev) (d : Bytes)
    (hi : HInv max cb total segs h evs) (hfit : (total ++ d).length ≤ maxBuf) :
    ∃ segs', HInv max cb (total ++ d) segs' (hRead maxBuf max cb h d).1 (evs ++ (hRead maxBuf max cb h d).2) := by
  obtain ⟨pc, pending, upgraded, httpBuf, sess⟩ := h
  obtain ⟨he, hs, hearly, hb, hp, hu, hd⟩ := hi
  simp only at he hs hearly hb hp hu hd
  by_cases hpe : pending = true
  · -- held back: queued behind what is already waiting
    have hlen : ¬ (httpBuf.length + d.length > maxBuf) := by
      have : httpBuf.length ≤ total.length := by rw [← hb]; simp only [List.length_append]; omega
      simp only [List.length_append] at hfit
      omega
    refine ⟨segs, ⟨?_, ?_, ?_, ?_, ?_, ?_, ?_⟩⟩
    · simpa [hRead, hpe, hlen] using he
    · simpa [hRead, hpe, hlen] using hs
    · simpa [hRead, hpe, hlen] using hearly
    · simp only [hRead, hpe, hlen, if_true, if_false]
      rw [← hb]; simp
    · simpa [hRead, hpe, hlen] using hp
    · simpa [hRead, hpe, hlen] using hu
    · intro hdone
      have : pc ≠ .done := hp.mp hpe
      simp [hRead, hpe, hlen] at hdone
      exact absurd hdone this
  · -- the hold has been released: the pool thread is done, the buffer drained, reads go straight through
    have hdone : pc = .done := by
      by_cases hc : pc = .done
      · exact hc
      · exact absurd (hp.mpr hc) hpe
    subst hdone
    have hup : upgraded = true := hu (by simp)
    have hbuf : httpBuf = [] := hd rfl
    subst hbuf
    have hpf : pending = false := by simpa using hpe
    have hs' := hs (by simp) (by simp)
    refine ⟨segs ++ [d], ⟨?_, ?_, ?_, ?_, ?_, ?_, ?_⟩⟩
    · subst he
      simp only [hRead, hpf, hup, HPc.pre, run_snoc_data, hs', List.append_assoc, if_true, Bool.false_eq_true, if_false]
    · intro _ _
      simp only [hRead, hpf, hup, run_snoc_data, hs', if_true, Bool.false_eq_true, if_false]
    · intro h; simp [hRead, hpf, hup] at h
    · simp only [hRead, hpf, hup, if_true, Bool.false_eq_true, if_false, HPc.inflight]
      rw [← hb]; simp [HPc.inflight]
    · simp [hRead, hpf, hup]
    · intro _; simp [hRead, hpf, hup]
    · intro _; simp [hRead, hpf, hup]

/-- **the hand-over invariant for every schedule** -/
theorem hRun_inv (maxBuf max : Nat) (cb : Cbs) : ∀ (sched : List HStep) (total : Bytes) (segs : List Bytes) (h : Hand) (evs : List Ev),
    HInv max cb total segs h evs → (total ++ readsOf sched).length ≤ maxBuf →
    ∃ segs', HInv max cb (total ++ readsOf sched) segs' (hRun maxBuf max cb h sched).1 (evs ++ (hRun maxBuf max cb h sched).2) := by
  intro sched
  induction sched with
  | nil => intro total segs h evs hi _; exact ⟨segs, by simpa [hRun, readsOf] using hi⟩
  | cons st rest ih =>
    intro total segs h evs hi hfit
    cases st with
    | worker =>
      obtain ⟨segs1, h1⟩ := hWorker_inv max cb total segs h evs hi
      obtain ⟨segs2, h2⟩ := ih total segs1 _ _ h1 (by simpa [readsOf] using hfit)
      exact ⟨segs2, by simpa [hRun, hStep, readsOf, List.append_assoc] using h2⟩
    | read d =>
      have hfit1 : (total ++ d).length ≤ maxBuf := by
        simp only [readsOf, List.length_append] at hfit ⊢
        omega
      obtain ⟨segs1, h1⟩ := hRead_inv maxBuf max cb total segs h evs d hi hfit1
      obtain ⟨segs2, h2⟩ := ih (total ++ d) segs1 _ _ h1 (by simpa [readsOf, List.append_assoc] using hfit)
      exact ⟨segs2, by simpa [hRun, hStep, readsOf, List.append_assoc] using h2⟩

/-- the worker, left alone, finishes: from any state `k` further worker steps with `k` large enough reach `done`
(used for non-vacuity; the schedule theorem itself holds for unfinished schedules too) -/
theorem hRun_total (maxBuf max : Nat) (cb : Cbs) (trailing : Bytes) (sched : List HStep)
    (hfit : (trailing ++ readsOf sched).length ≤ maxBuf) :
    ∃ segs, HInv max cb (trailing ++ readsOf sched) segs (hRun maxBuf max cb (hInit trailing) sched).1
      (hRun maxBuf max cb (hInit trailing) sched).2 := by
  simpa using hRun_inv maxBuf max cb sched trailing [] (hInit trailing) [] (hInit_inv max cb trailing) hfit

end Iora.Ws
