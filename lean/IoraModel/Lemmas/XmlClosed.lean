import IoraModel.Model.Xml
/-!
Closed forms of the XML tokenizer: every loop of `Model/Xml.lean` (which mirrors the C++ read by read, guard by guard) summarised
as a pure scan of the remaining input followed by `advN`.  These are proof devices only; `Lemmas/XmlExplicit.lean` proves that
each explicit function equals its closed form, and the specifications are then proved about the closed forms.
-/
namespace Iora.Xml
open Iora

/-- number of leading bytes satisfying `p` (how often a `while (!eof() && p(peek())) advance();` loop runs) -/
def spanLen (p : UInt8 → Bool) : Bytes → Nat
  | [] => 0
  | ch :: r => if p ch then spanLen p r + 1 else 0

/-- mirrors `skipSpaces` -/
def skipSpacesC (c : Cur) : Res Unit := advR (spanLen isSpace c.rest) c

/-- mirrors `skipWhitespaceOutsideText` **as repaired (F29)**: look ahead over the white space; consume it only when markup
(`<`) or the end of input follows.  (The unrepaired function consumed it unconditionally, i.e. was `skipSpaces`.) -/
def skipWhitespaceOutsideTextC (c : Cur) : Res Unit :=
  let k := spanLen isSpace c.rest
  match c.rest[k]? with
  | some ch => if ch ≠ 0x3C then .ok () c else advR k c
  | none => advR k c

/-- mirrors `matchString(s)`: on a match the cursor moves over `s` -/
def matchStringC (s : Bytes) (c : Cur) : Res Bool :=
  if startsWith s c.rest then (advR s.length c).bind fun _ c' => .ok true c' else .ok false c

/-- the case-insensitive comparison loop of `matchWordCaseInsensitive` -/
def startsWithCI : Bytes → Bytes → Bool
  | [], _ => true
  | _ :: _, [] => false
  | p :: ps, x :: xs => lowerAscii x = lowerAscii p && startsWithCI ps xs

/-- mirrors `matchWordCaseInsensitive(s)`: the word, then a boundary byte (white space, `>` or `[`; at the end of the input the
code substitutes `'\0'`, which is none of them) -/
def matchWordCIC (w : Bytes) (c : Cur) : Res Bool :=
  if startsWithCI w c.rest then
    match c.rest[w.length]? with
    | none => .ok false c
    | some nx =>
      if isSpace nx || nx = 0x3E || nx = 0x5B then (advR w.length c).bind fun _ c' => .ok true c'
      else .ok false c
  else .ok false c

/-- mirrors `readName`: `none` is the empty view.  When the name is longer than `maxNameLength` the code calls
`fail("name too long")` and returns the empty view; every caller then calls `fail` again with its own message at the same cursor,
so only the cursor (after the over-long name) is observable. -/
def readNameC (o : Options) (c : Cur) : Res (Option Slice) :=
  match c.rest with
  | [] => .ok none c
  | ch :: r =>
    if !isNameStart ch then .ok none c
    else
      (advR (1 + spanLen isNameChar r) c).bind fun _ c' =>
        let len := c'.pos - c.pos
        if len > o.maxName then (if o.throwing then .fail .nameTooLong c' else .ok none c') else .ok (some ⟨c.pos, len⟩) c'

/-- mirrors `readUntil(endSeq, start, len)`: `none` = returned false (cursor untouched) -/
def readUntilC (endSeq : Bytes) (c : Cur) : Res (Option Slice) :=
  match findSub endSeq c.rest with
  | none => .ok none c
  | some k => (advR (k + endSeq.length) c).bind fun _ c' => .ok (some ⟨c.pos, k⟩) c'

/-- mirrors `readQuotedValue` -/
def readQuotedValueC (o : Options) (c : Cur) : Res Slice :=
  match c.rest with
  | [] => .fail .expectedQuote c
  | q :: _ =>
    if q ≠ 0x22 && q ≠ 0x27 then .fail .expectedQuoteChar c
    else
      (advR 1 c).bind fun _ c0 =>
      (advR (spanLen (fun x => x ≠ q) c0.rest) c0).bind fun _ c1 =>
        if c1.eof then .fail .unterminatedAttr c1
        else
          (advR 1 c1).bind fun _ c2 =>
            let out : Slice := ⟨c0.pos, c1.pos - c0.pos⟩
            if out.len > o.maxText then .fail .attrTooLong c2 else .ok out c2

/-- mirrors `readAttributes` (`fuel` bounds the `while (true)`; each round consumes at least the attribute name) -/
def readAttributesC (o : Options) : Nat → List Attr → Cur → Res (List Attr)
  | 0, _, _ => .bad .fuel
  | fuel + 1, acc, c =>
    (skipSpacesC c).bind fun _ c1 =>
      match c1.rest with
      | [] => .fail .eofInAttrs c1
      | ch :: _ =>
        if ch = 0x2F || ch = 0x3E then .ok acc c1
        else
          (readNameC o c1).bind fun name c2 =>
            match name with
            | none => .fail .badAttrName c2
            | some nm =>
              (skipSpacesC c2).bind fun _ c3 =>
                match c3.rest with
                | [] => .fail .expectedEq c3
                | e :: _ =>
                  if e ≠ 0x3D then .fail .expectedEq c3
                  else
                    (advR 1 c3).bind fun _ c4 =>
                    (skipSpacesC c4).bind fun _ c5 =>
                    (readQuotedValueC o c5).bind fun v c6 =>
                      let acc' := acc ++ [⟨nm, v⟩]
                      if acc'.length > o.maxAttrs then .fail .tooManyAttrs c6
                      else readAttributesC o fuel acc' c6

/-- mirrors `readProcessingInstruction` -/
def readPIC (o : Options) (s : St) (start : Cur) (c : Cur) : Step :=
  (readNameC o c).toStep fun target c1 =>
    match target with
    | none => .err .badPiTarget c1
    | some tg =>
      match findSub [0x3F, 0x3E] c1.rest with
      | none => .err .unterminatedPi c1
      | some k =>
        (advR (k + 2) c1).toStep fun _ c2 =>
          emit s c2 { kind := .pi, name := tg, text := ⟨c1.pos, k⟩, depth := s.depth,
                      offset := start.pos, line := start.line, column := start.col }

/-- mirrors `readComment` (after `<!--`) -/
def readCommentC (s : St) (start : Cur) (c : Cur) : Step :=
  (readUntilC [0x2D, 0x2D, 0x3E] c).toStep fun r c1 =>
    match r with
    | none => .err .unterminatedComment c1
    | some sl => emit s c1 { kind := .comment, text := sl, depth := s.depth,
                             offset := start.pos, line := start.line, column := start.col }

/-- mirrors `readCData` (after `<![CDATA[`) -/
def readCDataC (s : St) (start : Cur) (c : Cur) : Step :=
  (readUntilC [0x5D, 0x5D, 0x3E] c).toStep fun r c1 =>
    match r with
    | none => .err .unterminatedCData c1
    | some sl => emit s c1 { kind := .cdata, text := sl, depth := s.depth,
                             offset := start.pos, line := start.line, column := start.col }

/-- the scan loop of `readDoctype`: index of the first `>` outside `[...]` (`bracket` never goes below zero) -/
def doctypeScan : Bytes → Nat → Option Nat
  | [], _ => none
  | ch :: r, b =>
    if ch = 0x5B then (doctypeScan r (b + 1)).map (· + 1)
    else if ch = 0x5D then (doctypeScan r (b - 1)).map (· + 1)
    else if ch = 0x3E && b = 0 then some 0
    else (doctypeScan r b).map (· + 1)

/-- mirrors `readDoctype` (after `<!DOCTYPE`) -/
def readDoctypeC (s : St) (start : Cur) (c : Cur) : Step :=
  match doctypeScan c.rest 0 with
  | none => .err .unterminatedDoctype c
  | some k =>
    (advR (k + 1) c).toStep fun _ c1 =>
      emit s c1 { kind := .doctype, text := ⟨c.pos, k⟩, depth := s.depth,
                  offset := start.pos, line := start.line, column := start.col }

/-- mirrors `readEndTag` (after `</`) -/
def readEndTagC (o : Options) (s : St) (start : Cur) (c : Cur) : Step :=
  (readNameC o c).toStep fun name c1 =>
    match name with
    | none => .err .badEndName c1
    | some nm =>
      (skipSpacesC c1).toStep fun _ c2 =>
        match c2.rest with
        | [] => .err .expectedGtEnd c2
        | g :: _ =>
          if g ≠ 0x3E then .err .expectedGtEnd c2
          else
            (advR 1 c2).toStep fun _ c3 =>
              match s.stack with
              | [] => .err .strayEnd c3
              | top :: below =>
                -- `_elementStack.back() != name`: the name's bytes are the `nm.len` bytes the cursor `c` stood on
                if top ≠ c.rest.take nm.len then .err .mismatch c3
                else
                  .tok { kind := .endElement, name := nm, depth := (s.depth - 1) + 1,
                         offset := start.pos, line := start.line, column := start.col }
                       { cur := c3, depth := s.depth - 1, stack := below, produced := s.produced + 1 }

/-- mirrors `readStartOrEmptyTag` (after `<`) -/
def readStartOrEmptyTagC (o : Options) (s : St) (start : Cur) (c : Cur) : Step :=
  (readNameC o c).toStep fun name c1 =>
    match name with
    | none => .err .badStartName c1
    | some nm =>
      (readAttributesC o (c1.rest.length + 1) [] c1).toStep fun attrs c2 =>
        -- `peek()` without an `eof()` test: safe only because `readAttributes` returned true on `/` or `>`
        match c2.rest with
        | [] => .bad .oob
        | p :: _ =>
          let empty := p = 0x2F
          (if empty then advR 1 c2 else .ok () c2).toStep fun _ c3 =>
            match c3.rest with
            | [] => .err .expectedGtStart c3
            | g :: _ =>
              if g ≠ 0x3E then .err .expectedGtStart c3
              else
                (advR 1 c3).toStep fun _ c4 =>
                  if s.depth + 1 > o.maxDepth then .err .depthExceeded c4
                  else if empty then
                    .tok { kind := .emptyElement, name := nm, attrs := attrs, selfClosing := true, depth := s.depth + 1,
                           offset := start.pos, line := start.line, column := start.col }
                         { s with cur := c4, produced := s.produced + 1 }
                  else
                    .tok { kind := .startElement, name := nm, attrs := attrs, depth := s.depth + 1,
                           offset := start.pos, line := start.line, column := start.col }
                         { cur := c4, depth := s.depth + 1, stack := c.rest.take nm.len :: s.stack,
                           produced := s.produced + 1 }

/-- the loop condition of `readText`: `peek() != '<'` -/
def notLt (x : UInt8) : Bool := x ≠ 0x3C

/-- mirrors `readText`, entered with a byte other than `<` under the cursor (the only call site has just tested exactly that, so
the `sv.empty()` re-entry into `next()` is dead code).  The loop fails at the first byte for which `_cur - start ≥ maxTextSpan`. -/
def readTextC (o : Options) (s : St) (c : Cur) (r : Bytes) : Step :=
  let k := 1 + spanLen notLt r
  if k > o.maxText then
    (advR o.maxText c).toStep fun _ c1 => .err .textTooLarge c1
  else
    (advR k c).toStep fun _ c1 =>
      emit s c1 { kind := .text, text := ⟨c.pos, c1.pos - c.pos⟩, depth := s.depth,
                  offset := c.pos, line := c.line, column := c.col }

/-- mirrors `Parser::next()` for a parser that has neither failed nor emitted Eof yet -/
def nextC (o : Options) (s : St) : Step :=
  if o.maxTokens ≠ 0 && s.produced ≥ o.maxTokens then .err .tokenLimit s.cur
  else
    (skipWhitespaceOutsideTextC s.cur).toStep fun _ c =>
      match c.rest with
      | [] => emitEof s c
      | ch :: r =>
        if ch = 0x3C then
          (advR 1 c).toStep fun _ c1 =>
            match c1.rest with
            | [] => .err .eofAfterLt c1
            | n :: _ =>
              if n = 0x3F then (advR 1 c1).toStep fun _ c2 => readPIC o s c c2
              else if n = 0x21 then
                (advR 1 c1).toStep fun _ c2 =>
                  (matchStringC [0x2D, 0x2D] c2).toStep fun m c3 =>
                    if m then readCommentC s c c3
                    else
                      (matchStringC [0x5B, 0x43, 0x44, 0x41, 0x54, 0x41, 0x5B] c3).toStep fun m c4 =>
                        if m then readCDataC s c c4
                        else
                          (matchWordCIC [0x44, 0x4F, 0x43, 0x54, 0x59, 0x50, 0x45] c4).toStep fun m c5 =>
                            if m then readDoctypeC s c c5 else .err .badDecl c5
              else if n = 0x2F then (advR 1 c1).toStep fun _ c2 => readEndTagC o s c c2
              else readStartOrEmptyTagC o s c c1
        else readTextC o s c r

/-- the tokens `next()` returns true for, then how it stopped -/
def runC (o : Options) : Nat → St → List Token × Outcome
  | 0, _ => ([], .bad .fuel)
  | fuel + 1, s =>
    match nextC o s with
    | .tok t s' => let (ts, out) := runC o fuel s'; (t :: ts, out)
    | .eof t s' => ([], .accepted t s')
    | .err e c => ([], .error e c s)
    | .bad b => ([], .bad b)

/-- the whole pull API on one document.  `length + 2` calls suffice (X3). -/
def tokensC (o : Options) (bs : Bytes) : List Token × Outcome := runC o (bs.length + 2) (St.init bs)


end Iora.Xml
