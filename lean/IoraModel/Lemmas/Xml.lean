import IoraModel.Lemmas.XmlClosed
set_option linter.unusedSimpArgs false
set_option linter.unusedVariables false
/-! Helper lemmas about the XML tokenizer model: cursor discipline, reader specifications, the per-call specification of
`next`, and the run-level invariants (no property statements here; see `Props/C14.lean`). -/
namespace Iora.Xml
open Iora

/-! ### cursor -/

/-- `c'` is `c` after `k` reads: the position grew by `k`, and `rest` lost its first `k` bytes -/
def Cur.Reach (c c' : Cur) : Prop :=
  ∃ k, k ≤ c.rest.length ∧ c'.pos = c.pos + k ∧ c'.rest = c.rest.drop k

theorem Cur.Reach.refl (c : Cur) : c.Reach c := ⟨0, by simp, by simp, by simp⟩

theorem Cur.Reach.trans {a b c : Cur} (h1 : a.Reach b) (h2 : b.Reach c) : a.Reach c := by
  obtain ⟨k1, hk1, hp1, hr1⟩ := h1
  obtain ⟨k2, hk2, hp2, hr2⟩ := h2
  refine ⟨k1 + k2, ?_, ?_, ?_⟩
  · rw [hr1, List.length_drop] at hk2; omega
  · omega
  · rw [hr2, hr1, List.drop_drop]

theorem Cur.Reach.pos_le {a b : Cur} (h : a.Reach b) : a.pos ≤ b.pos := by
  obtain ⟨k, _, hp, _⟩ := h; omega

/-- position + remaining bytes is constant along a run -/
theorem Cur.Reach.total {a b : Cur} (h : a.Reach b) : b.pos + b.rest.length = a.pos + a.rest.length := by
  obtain ⟨k, hk, hp, hr⟩ := h
  rw [hr, List.length_drop]; omega

theorem Cur.Reach.at {bs : Bytes} {a b : Cur} (ha : a.At bs) (h : a.Reach b) : b.At bs := by
  obtain ⟨k, hk, hp, hr⟩ := h
  obtain ⟨hle, hrest⟩ := ha
  constructor
  · rw [hrest, List.length_drop] at hk; omega
  · rw [hr, hrest, List.drop_drop, hp]

theorem Cur.At.total {bs : Bytes} {c : Cur} (h : c.At bs) : c.pos + c.rest.length = bs.length := by
  obtain ⟨hle, hr⟩ := h
  rw [hr, List.length_drop]; omega

theorem Cur.init_at (bs : Bytes) : (Cur.init bs).At bs := ⟨by simp [Cur.init], by simp [Cur.init]⟩

/-- the byte under the cursor is the byte of the input at `pos` -/
theorem Cur.peek_eq_get {bs : Bytes} {c : Cur} (h : c.At bs) : c.rest.head? = bs[c.pos]? := by
  rw [h.2, List.head?_drop]

/-- the bytes of a slice that starts at the cursor are the next `len` bytes of `rest` -/
theorem Cur.At.slice {bs : Bytes} {c : Cur} (h : c.At bs) (len : Nat) :
    (⟨c.pos, len⟩ : Slice).bytes bs = c.rest.take len := by
  simp [Slice.bytes, h.2]

theorem Cur.adv_some {c c' : Cur} (h : c.adv = some c') :
    c'.pos = c.pos + 1 ∧ c'.rest = c.rest.drop 1 ∧ 1 ≤ c.rest.length := by
  unfold Cur.adv at h
  split at h
  · cases h
  · rename_i ch r hr
    cases h
    rw [hr]
    split <;> simp

theorem Cur.adv_none {c : Cur} (h : c.adv = none) : c.rest = [] := by
  unfold Cur.adv at h
  split at h
  · assumption
  · cases h

theorem advN_some : ∀ (k : Nat) (c c' : Cur), advN k c = some c' →
    k ≤ c.rest.length ∧ c'.pos = c.pos + k ∧ c'.rest = c.rest.drop k := by
  intro k
  induction k with
  | zero => intro c c' h; simp [advN] at h; subst h; simp
  | succ k ih =>
    intro c c' h
    simp only [advN] at h
    split at h
    · cases h
    · rename_i c1 h1
      obtain ⟨p1, r1, l1⟩ := Cur.adv_some h1
      obtain ⟨p2, r2, l2⟩ := ih c1 c' h
      rw [r1, List.length_drop] at p2
      refine ⟨by omega, by omega, ?_⟩
      rw [l2, r1, List.drop_drop, Nat.add_comm]

theorem advN_none : ∀ (k : Nat) (c : Cur), advN k c = none → c.rest.length < k := by
  intro k
  induction k with
  | zero => intro c h; simp [advN] at h
  | succ k ih =>
    intro c h
    simp only [advN] at h
    split at h
    · rename_i h1
      rw [Cur.adv_none h1]; simp
    · rename_i c1 h1
      obtain ⟨p1, r1, l1⟩ := Cur.adv_some h1
      have := ih c1 h
      rw [r1, List.length_drop] at this
      omega

/-! ### reader specifications -/

/-- the two messages only `DomBuilder` produces -/
def ErrKind.isDom : ErrKind → Bool
  | .domUnbalancedEnd | .domUnclosed => true
  | _ => false

/-- what a reader started at `c` must satisfy: it stops at a cursor reachable from `c` (value subject to `Q`), or fails at one;
it never reads out of range -/
def Res.Sat {α : Type} (r : Res α) (c : Cur) (Q : α → Cur → Prop) : Prop :=
  match r with
  | .ok a c' => c.Reach c' ∧ Q a c'
  | .fail e c' => c.Reach c' ∧ e.isDom = false
  | .bad _ => False

theorem Res.Sat.mono {α : Type} {r : Res α} {c : Cur} {P Q : α → Cur → Prop}
    (h : r.Sat c P) (hpq : ∀ a c', c.Reach c' → P a c' → Q a c') : r.Sat c Q := by
  cases r with
  | ok a c' => exact ⟨h.1, hpq a c' h.1 h.2⟩
  | fail e c' => exact h
  | bad b => exact h

theorem Res.bind_sat {α β : Type} {r : Res α} {c : Cur} {P : α → Cur → Prop} {k : α → Cur → Res β}
    {Q : β → Cur → Prop} (h : r.Sat c P)
    (hk : ∀ a c', c.Reach c' → P a c' → (k a c').Sat c' Q) : (r.bind k).Sat c Q := by
  cases r with
  | ok a c' =>
    have := hk a c' h.1 h.2
    simp only [Res.bind]
    cases hr : k a c' with
    | ok b c'' => rw [hr] at this; exact ⟨h.1.trans this.1, this.2⟩
    | fail e c'' => rw [hr] at this; exact ⟨h.1.trans this.1, this.2⟩
    | bad b => rw [hr] at this; exact this
  | fail e c' => exact h
  | bad b => exact h

/-- re-base a specification to an earlier cursor -/
theorem Res.Sat.rebase {α : Type} {r : Res α} {c0 c : Cur} {Q : α → Cur → Prop}
    (h0 : c0.Reach c) (h : r.Sat c Q) : r.Sat c0 Q := by
  cases r with
  | ok a c' => exact ⟨h0.trans h.1, h.2⟩
  | fail e c' => exact ⟨h0.trans h.1, h.2⟩
  | bad b => exact h

theorem advR_sat {k : Nat} {c : Cur} (hk : k ≤ c.rest.length) :
    (advR k c).Sat c (fun _ c' => c'.pos = c.pos + k ∧ c'.rest = c.rest.drop k) := by
  unfold advR
  cases h : advN k c with
  | none => have := advN_none k c h; omega
  | some c' =>
    obtain ⟨h1, h2, h3⟩ := advN_some k c c' h
    exact ⟨⟨k, h1, h2, h3⟩, h2, h3⟩

theorem spanLen_le (p : UInt8 → Bool) : ∀ r : Bytes, spanLen p r ≤ r.length := by
  intro r
  induction r with
  | nil => simp [spanLen]
  | cons ch r ih => simp only [spanLen]; split <;> simp <;> omega

theorem skipSpaces_sat (c : Cur) : (skipSpacesC c).Sat c (fun _ _ => True) := by
  unfold skipSpacesC
  exact (advR_sat (spanLen_le _ _)).mono (fun _ _ _ _ => trivial)

theorem skipWs_sat (c : Cur) : (skipWhitespaceOutsideTextC c).Sat c (fun _ _ => True) := by
  unfold skipWhitespaceOutsideTextC
  simp only
  split
  · split
    · exact ⟨Cur.Reach.refl c, trivial⟩
    · exact (advR_sat (spanLen_le _ _)).mono (fun _ _ _ _ => trivial)
  · exact (advR_sat (spanLen_le _ _)).mono (fun _ _ _ _ => trivial)

theorem startsWith_length : ∀ (p r : Bytes), startsWith p r = true → p.length ≤ r.length := by
  intro p
  induction p with
  | nil => intro r _; simp
  | cons x xs ih =>
    intro r h
    cases r with
    | nil => simp [startsWith] at h
    | cons y ys =>
      simp only [startsWith, Bool.and_eq_true] at h
      have := ih ys h.2
      simp; omega

theorem startsWithCI_length : ∀ (p r : Bytes), startsWithCI p r = true → p.length ≤ r.length := by
  intro p
  induction p with
  | nil => intro r _; simp
  | cons x xs ih =>
    intro r h
    cases r with
    | nil => simp [startsWithCI] at h
    | cons y ys =>
      simp only [startsWithCI, Bool.and_eq_true] at h
      have := ih ys h.2
      simp; omega

/-- `matchString`: on `true` the cursor moved by exactly `|s|`, on `false` it did not move -/
theorem matchString_sat (s : Bytes) (c : Cur) :
    (matchStringC s c).Sat c (fun m c' => if m then c'.pos = c.pos + s.length else c' = c) := by
  unfold matchStringC
  split
  · rename_i h
    apply Res.bind_sat (advR_sat (startsWith_length _ _ h))
    intro _ c' hr hp
    exact ⟨Cur.Reach.refl c', by simp [hp.1]⟩
  · exact ⟨Cur.Reach.refl c, by simp⟩

theorem matchWordCI_sat (w : Bytes) (c : Cur) :
    (matchWordCIC w c).Sat c (fun m c' => if m then c'.pos = c.pos + w.length else c' = c) := by
  unfold matchWordCIC
  split
  · rename_i h
    split
    · exact ⟨Cur.Reach.refl c, by simp⟩
    · split
      · apply Res.bind_sat (advR_sat (startsWithCI_length _ _ h))
        intro _ c' hr hp
        exact ⟨Cur.Reach.refl c', by simp [hp.1]⟩
      · exact ⟨Cur.Reach.refl c, by simp⟩
  · exact ⟨Cur.Reach.refl c, by simp⟩

/-- `readName`: a returned name starts at the cursor, is non-empty, within `maxNameLength`, and ends at the new cursor -/
theorem readName_sat (o : Options) (c : Cur) :
    (readNameC o c).Sat c (fun r c' => match r with
      | none => True
      | some sl => sl.off = c.pos ∧ 0 < sl.len ∧ sl.len ≤ o.maxName ∧ c'.pos = c.pos + sl.len) := by
  unfold readNameC
  split
  · exact ⟨Cur.Reach.refl c, trivial⟩
  · rename_i ch r hr
    split
    · exact ⟨Cur.Reach.refl c, trivial⟩
    · have hk : 1 + spanLen isNameChar r ≤ c.rest.length := by
        rw [hr]; have := spanLen_le isNameChar r; simp; omega
      apply Res.bind_sat (advR_sat hk)
      intro _ c' hrch hp
      simp only
      split
      · split
        · exact ⟨Cur.Reach.refl c', rfl⟩
        · exact ⟨Cur.Reach.refl c', trivial⟩
      · rename_i hlen
        refine ⟨Cur.Reach.refl c', rfl, ?_, ?_, ?_⟩ <;> simp only [hp.1] <;> omega

theorem findSub_bound (pat : Bytes) : ∀ (r : Bytes) (k : Nat), findSub pat r = some k → k + pat.length ≤ r.length := by
  intro r
  induction r with
  | nil => intro k h; simp [findSub] at h
  | cons ch r ih =>
    intro k h
    simp only [findSub] at h
    split at h
    · rename_i hs
      cases h
      have := startsWith_length _ _ hs
      simpa using this
    · split at h
      · cases h
      · rename_i k' hk'
        cases h
        have := ih k' hk'
        simp; omega

/-- `readUntil`: the slice starts at the cursor and ends before the terminator, which ends at the new cursor -/
theorem readUntil_sat (e : Bytes) (c : Cur) :
    (readUntilC e c).Sat c (fun r c' => match r with
      | none => c' = c
      | some sl => sl.off = c.pos ∧ c'.pos = c.pos + sl.len + e.length) := by
  unfold readUntilC
  split
  · exact ⟨Cur.Reach.refl c, rfl⟩
  · rename_i k hk
    apply Res.bind_sat (advR_sat (findSub_bound _ _ _ hk))
    intro _ c' hr hp
    exact ⟨Cur.Reach.refl c', rfl, by simp [hp.1]; omega⟩

/-- `readQuotedValue`: the value lies strictly inside what was consumed and respects `maxTextSpan` -/
theorem readQuotedValue_sat (o : Options) (c : Cur) :
    (readQuotedValueC o c).Sat c (fun sl c' => c.pos < sl.off ∧ sl.off + sl.len < c'.pos ∧ sl.len ≤ o.maxText) := by
  unfold readQuotedValueC
  split
  · exact ⟨Cur.Reach.refl c, rfl⟩
  · rename_i q r hr
    split
    · exact ⟨Cur.Reach.refl c, rfl⟩
    · have h1 : 1 ≤ c.rest.length := by rw [hr]; simp
      apply Res.bind_sat (advR_sat h1)
      intro _ c0 hr0 hp0
      apply Res.bind_sat (advR_sat (spanLen_le _ _))
      intro _ c1 hr1 hp1
      split
      · exact ⟨Cur.Reach.refl c1, rfl⟩
      · rename_i hne
        have h2 : 1 ≤ c1.rest.length := by
          cases hc : c1.rest with
          | nil => simp [Cur.eof, hc] at hne
          | cons _ _ => simp
        apply Res.bind_sat (advR_sat h2)
        intro _ c2 hr2 hp2
        simp only
        split
        · exact ⟨Cur.Reach.refl c2, rfl⟩
        · rename_i hlen
          refine ⟨Cur.Reach.refl c2, ?_, ?_, ?_⟩
          · simp only [hp0.1]; omega
          · simp only [hp2.1, hp1.1, hp0.1]; omega
          · dsimp only at hlen ⊢; omega

/-! ### attributes -/

/-- every slice of an attribute ends at or before `hi`, names within `maxNameLength`, values within `maxTextSpan` -/
def Attr.Ok (o : Options) (hi : Nat) (a : Attr) : Prop :=
  a.name.off + a.name.len ≤ hi ∧ a.value.off + a.value.len ≤ hi ∧ 0 < a.name.len ∧ a.name.len ≤ o.maxName ∧
  a.value.len ≤ o.maxText

theorem Attr.Ok.mono {o : Options} {hi hi' : Nat} {a : Attr} (h : a.Ok o hi) (hle : hi ≤ hi') : a.Ok o hi' := by
  obtain ⟨h1, h2, h3, h4, h5⟩ := h
  exact ⟨by omega, by omega, h3, h4, h5⟩

/-- `readAttributes`: with a budget larger than the bytes that are left it never runs out; on success the cursor stands on `/` or `>`,
the list respects `maxAttrsPerElement` and every attribute lies in the consumed range -/
theorem readAttributes_sat (o : Options) : ∀ (fuel : Nat) (acc : List Attr) (c : Cur),
    c.rest.length < fuel → acc.length ≤ o.maxAttrs → (∀ a ∈ acc, a.Ok o c.pos) →
    (readAttributesC o fuel acc c).Sat c (fun as c' =>
      as.length ≤ o.maxAttrs ∧ (∀ a ∈ as, a.Ok o c'.pos) ∧ (∃ ch r, c'.rest = ch :: r ∧ (ch = 0x2F ∨ ch = 0x3E)) ∧
      acc.length ≤ as.length) := by
  intro fuel
  induction fuel with
  | zero => intro acc c h; omega
  | succ fuel ih =>
    intro acc c hfuel hacc hok
    simp only [readAttributesC]
    apply Res.bind_sat (skipSpaces_sat c)
    intro _ c1 hr1 _
    split
    · exact ⟨Cur.Reach.refl c1, rfl⟩
    · rename_i ch r hrest
      split
      · rename_i hch
        refine ⟨Cur.Reach.refl c1, hacc, ?_, ⟨ch, r, hrest, by simpa using hch⟩, Nat.le_refl _⟩
        intro a ha
        exact (hok a ha).mono hr1.pos_le
      · apply Res.bind_sat (readName_sat o c1)
        intro name c2 hr2 hp2
        split
        · exact ⟨Cur.Reach.refl c2, rfl⟩
        · rename_i nm
          apply Res.bind_sat (skipSpaces_sat c2)
          intro _ c3 hr3 _
          split
          · exact ⟨Cur.Reach.refl c3, rfl⟩
          · rename_i e r3 hrest3
            split
            · exact ⟨Cur.Reach.refl c3, rfl⟩
            · have h1 : 1 ≤ c3.rest.length := by rw [hrest3]; simp
              apply Res.bind_sat (advR_sat h1)
              intro _ c4 hr4 hp4
              apply Res.bind_sat (skipSpaces_sat c4)
              intro _ c5 hr5 _
              apply Res.bind_sat (readQuotedValue_sat o c5)
              intro v c6 hr6 hp6
              split
              · exact ⟨Cur.Reach.refl c6, rfl⟩
              · rename_i hlen
                have hreach16 : c1.Reach c6 := hr2.trans (hr3.trans (hr4.trans (hr5.trans hr6)))
                have hreach06 : c.Reach c6 := hr1.trans hreach16
                have hp12 := hr1.pos_le
                have hp23 := hr3.pos_le
                have hp34 := hr4.pos_le
                have hp45 := hr5.pos_le
                have hp56 := hr6.pos_le
                have hfuel' : c6.rest.length < fuel := by
                  have t1 := hreach06.total
                  have : c.pos < c6.pos := by omega
                  omega
                have hacc' : (acc ++ [(⟨nm, v⟩ : Attr)]).length ≤ o.maxAttrs := by omega
                have hok' : ∀ a ∈ acc ++ [(⟨nm, v⟩ : Attr)], a.Ok o c6.pos := by
                  intro a ha
                  rw [List.mem_append] at ha
                  cases ha with
                  | inl h => exact (hok a h).mono hreach06.pos_le
                  | inr h =>
                    simp at h; subst h
                    refine ⟨?_, ?_, hp2.2.1, hp2.2.2.1, hp6.2.2⟩ <;> simp only <;> omega
                have := ih (acc ++ [(⟨nm, v⟩ : Attr)]) c6 hfuel' hacc' hok'
                apply this.mono
                intro as c' _ hq
                refine ⟨hq.1, hq.2.1, hq.2.2.1, ?_⟩
                have := hq.2.2.2
                simp at this; omega

/-! ### one call of `next()` -/

/-- all slices of a token, and its start offset, lie at or before `hi` -/
def Token.Below (t : Token) (hi : Nat) : Prop :=
  t.name.off + t.name.len ≤ hi ∧ t.text.off + t.text.len ≤ hi ∧ t.offset ≤ hi ∧
  ∀ a ∈ t.attrs, a.name.off + a.name.len ≤ hi ∧ a.value.off + a.value.len ≤ hi

theorem Token.Below.mono {t : Token} {hi hi' : Nat} (h : t.Below hi) (hle : hi ≤ hi') : t.Below hi' := by
  obtain ⟨h1, h2, h3, h4⟩ := h
  refine ⟨by omega, by omega, by omega, ?_⟩
  intro a ha
  have := h4 a ha
  omega

/-- the limits a produced token respects (the depth bound of an end tag is that of its start tag: run-level invariant) -/
def Token.Limits (o : Options) (t : Token) : Prop :=
  t.name.len ≤ o.maxName ∧ t.attrs.length ≤ o.maxAttrs ∧
  (∀ a ∈ t.attrs, a.name.len ≤ o.maxName ∧ a.value.len ≤ o.maxText) ∧
  (t.kind = .text → t.text.len ≤ o.maxText) ∧
  ((t.kind = .startElement ∨ t.kind = .emptyElement) → t.depth ≤ o.maxDepth)

/-- how a produced token changes `_elementStack` / `_depth`, and the depth it reports -/
def Trans (bs : Bytes) (s : St) (t : Token) (s' : St) : Prop :=
  match t.kind with
  | .startElement => s'.stack = t.name.bytes bs :: s.stack ∧ s'.depth = s.depth + 1 ∧ t.depth = s.depth + 1
  | .endElement => s.stack = t.name.bytes bs :: s'.stack ∧ s'.depth = s.depth - 1 ∧ t.depth = (s.depth - 1) + 1
  | .emptyElement => s'.stack = s.stack ∧ s'.depth = s.depth ∧ t.depth = s.depth + 1
  | .eof | .invalid | .xmlDecl => False
  | _ => s'.stack = s.stack ∧ s'.depth = s.depth ∧ t.depth = s.depth

/-- specification of one call of `next()` from state `s` -/
def Step.Sat (bs : Bytes) (o : Options) (s : St) (st : Step) : Prop :=
  match st with
  | .tok t s' => s.cur.Reach s'.cur ∧ s.cur.pos < s'.cur.pos ∧ t.Below s'.cur.pos ∧ s.cur.pos ≤ t.offset ∧ t.Limits o ∧
                 s'.produced = s.produced + 1 ∧ Trans bs s t s'
  | .eof t s' => s.cur.Reach s'.cur ∧ s.stack = [] ∧ s'.stack = [] ∧ s'.depth = s.depth ∧ s'.produced = s.produced ∧
                 t.kind = .eof ∧ t.offset = s'.cur.pos ∧ s'.cur.rest = []
  | .err e c => s.cur.Reach c ∧ e.isDom = false
  | .bad _ => False

theorem toStep_sat {α : Type} {bs : Bytes} {o : Options} {s : St} {r : Res α} {c : Cur} {P : α → Cur → Prop}
    {k : α → Cur → Step} (hc : s.cur.Reach c) (h : r.Sat c P)
    (hk : ∀ a c', c.Reach c' → P a c' → Step.Sat bs o s (k a c')) : Step.Sat bs o s (r.toStep k) := by
  cases r with
  | ok a c' => exact hk a c' h.1 h.2
  | fail e c' => exact ⟨hc.trans h.1, h.2⟩
  | bad b => exact h

/-- `emit` of a token that is not an element tag -/
theorem emit_sat {bs : Bytes} {o : Options} {s : St} {c : Cur} {t : Token}
    (hr : s.cur.Reach c) (hlt : s.cur.pos < c.pos) (hb : t.Below c.pos) (hoff : s.cur.pos ≤ t.offset)
    (hl : t.Limits o) (hd : t.depth = s.depth)
    (hk : t.kind = .text ∨ t.kind = .cdata ∨ t.kind = .comment ∨ t.kind = .pi ∨ t.kind = .doctype) :
    Step.Sat bs o s (emit s c t) := by
  refine ⟨hr, hlt, hb, hoff, hl, rfl, ?_⟩
  unfold Trans
  rcases hk with h | h | h | h | h <;> rw [h] <;> exact ⟨rfl, rfl, hd⟩

theorem readPI_sat {bs : Bytes} {o : Options} {s : St} {start c : Cur}
    (h0 : s.cur.Reach start) (h1 : start.Reach c) (hlt : start.pos < c.pos) :
    Step.Sat bs o s (readPIC o s start c) := by
  unfold readPIC
  apply toStep_sat (h0.trans h1) (readName_sat o c)
  intro target c1 hr1 hp1
  split
  · exact ⟨h0.trans (h1.trans hr1), rfl⟩
  · rename_i tg
    split
    · exact ⟨h0.trans (h1.trans hr1), rfl⟩
    · rename_i k hk
      have hb := findSub_bound _ _ _ hk
      simp at hb
      apply toStep_sat (h0.trans (h1.trans hr1)) (advR_sat hb)
      intro _ c2 hr2 hp2
      have p0 := h0.pos_le
      have p1 := h1.pos_le
      have p2 := hr1.pos_le
      apply emit_sat (h0.trans (h1.trans (hr1.trans hr2)))
      · omega
      · refine ⟨?_, ?_, ?_, ?_⟩ <;> simp only [hp2.1] <;> try omega
        intro a ha; simp at ha
      · simp only; omega
      · refine ⟨hp1.2.2.1, by simp, by simp, by simp, by simp⟩
      · rfl
      · simp

theorem readUntilTok_sat {bs : Bytes} {o : Options} {s : St} {start c : Cur} (e : Bytes) (kd : Kind) (ek : ErrKind)
    (hkd : kd = .comment ∨ kd = .cdata) (hek : ek.isDom = false)
    (h0 : s.cur.Reach start) (h1 : start.Reach c) (hlt : start.pos < c.pos) :
    Step.Sat bs o s ((readUntilC e c).toStep fun r c1 =>
      match r with
      | none => .err ek c1
      | some sl => emit s c1 { kind := kd, text := sl, depth := s.depth,
                               offset := start.pos, line := start.line, column := start.col }) := by
  apply toStep_sat (h0.trans h1) (readUntil_sat e c)
  intro r c1 hr1 hp1
  split
  · exact ⟨h0.trans (h1.trans hr1), hek⟩
  · rename_i sl
    have p0 := h0.pos_le
    have p1 := h1.pos_le
    have p2 := hr1.pos_le
    apply emit_sat (h0.trans (h1.trans hr1))
    · omega
    · refine ⟨?_, ?_, ?_, ?_⟩ <;> simp only <;> try omega
      intro a ha; simp at ha
    · simp only; omega
    · refine ⟨by simp, by simp, by simp, ?_, ?_⟩
      · intro h; rcases hkd with h' | h' <;> rw [h'] at h <;> cases h
      · intro h; rcases hkd with h' | h' <;> rw [h'] at h <;> rcases h with h | h <;> cases h
    · rfl
    · rcases hkd with h | h <;> simp [h]

theorem readComment_sat {bs : Bytes} {o : Options} {s : St} {start c : Cur}
    (h0 : s.cur.Reach start) (h1 : start.Reach c) (hlt : start.pos < c.pos) :
    Step.Sat bs o s (readCommentC s start c) :=
  readUntilTok_sat _ .comment _ (Or.inl rfl) rfl h0 h1 hlt

theorem readCData_sat {bs : Bytes} {o : Options} {s : St} {start c : Cur}
    (h0 : s.cur.Reach start) (h1 : start.Reach c) (hlt : start.pos < c.pos) :
    Step.Sat bs o s (readCDataC s start c) :=
  readUntilTok_sat _ .cdata _ (Or.inr rfl) rfl h0 h1 hlt

theorem doctypeScan_bound : ∀ (r : Bytes) (b k : Nat), doctypeScan r b = some k → k + 1 ≤ r.length := by
  intro r
  induction r with
  | nil => intro b k h; simp [doctypeScan] at h
  | cons ch r ih =>
    intro b k h
    simp only [doctypeScan] at h
    split at h
    · simp only [Option.map_eq_some_iff] at h
      obtain ⟨k', hk', rfl⟩ := h
      have := ih _ _ hk'; simp; omega
    · split at h
      · simp only [Option.map_eq_some_iff] at h
        obtain ⟨k', hk', rfl⟩ := h
        have := ih _ _ hk'; simp; omega
      · split at h
        · cases h; simp
        · simp only [Option.map_eq_some_iff] at h
          obtain ⟨k', hk', rfl⟩ := h
          have := ih _ _ hk'; simp; omega

theorem readDoctype_sat {bs : Bytes} {o : Options} {s : St} {start c : Cur}
    (h0 : s.cur.Reach start) (h1 : start.Reach c) (hlt : start.pos < c.pos) :
    Step.Sat bs o s (readDoctypeC s start c) := by
  unfold readDoctypeC
  split
  · exact ⟨h0.trans h1, rfl⟩
  · rename_i k hk
    apply toStep_sat (h0.trans h1) (advR_sat (doctypeScan_bound _ _ _ hk))
    intro _ c1 hr1 hp1
    have p0 := h0.pos_le
    have p1 := h1.pos_le
    apply emit_sat (h0.trans (h1.trans hr1))
    · omega
    · refine ⟨?_, ?_, ?_, ?_⟩ <;> simp only [hp1.1] <;> try omega
      intro a ha; simp at ha
    · simp only; omega
    · refine ⟨by simp, by simp, by simp, by simp, by simp⟩
    · rfl
    · simp

theorem readEndTag_sat {bs : Bytes} {o : Options} {s : St} {start c : Cur} (hat : s.cur.At bs)
    (h0 : s.cur.Reach start) (h1 : start.Reach c) (hlt : start.pos < c.pos) :
    Step.Sat bs o s (readEndTagC o s start c) := by
  unfold readEndTagC
  have hc : s.cur.Reach c := h0.trans h1
  apply toStep_sat hc (readName_sat o c)
  intro name c1 hr1 hp1
  split
  · exact ⟨hc.trans hr1, rfl⟩
  · rename_i nm
    apply toStep_sat (hc.trans hr1) (skipSpaces_sat c1)
    intro _ c2 hr2 _
    split
    · exact ⟨hc.trans (hr1.trans hr2), rfl⟩
    · rename_i g r hrest
      split
      · exact ⟨hc.trans (hr1.trans hr2), rfl⟩
      · have h1' : 1 ≤ c2.rest.length := by rw [hrest]; simp
        apply toStep_sat (hc.trans (hr1.trans hr2)) (advR_sat h1')
        intro _ c3 hr3 hp3
        have hr03 : s.cur.Reach c3 := hc.trans (hr1.trans (hr2.trans hr3))
        split
        · exact ⟨hr03, rfl⟩
        · rename_i top below hstack
          split
          · exact ⟨hr03, rfl⟩
          · rename_i heq
            have p0 := h0.pos_le
            have p1 := h1.pos_le
            have p2 := hr1.pos_le
            have p3 := hr2.pos_le
            have p4 := hr3.pos_le
            refine ⟨hr03, by simp only; omega, ⟨?_, ?_, ?_, ?_⟩, by simp only; omega, ?_, rfl, ?_⟩
            · simp only; omega
            · simp only; omega
            · simp only; omega
            · intro a ha; simp at ha
            · refine ⟨hp1.2.2.1, by simp, by simp, by simp, by simp⟩
            · simp only [Trans]
              refine ⟨?_, trivial, trivial⟩
              have hcat : c.At bs := Cur.Reach.at hat hc
              have := hcat.slice nm.len
              have hnm : nm = ⟨c.pos, nm.len⟩ := by
                cases nm; simp only at hp1; simp [hp1.1]
              rw [hstack, hnm, this]
              simp only [ne_eq, Decidable.not_not] at heq
              rw [heq]

theorem readStartOrEmptyTag_sat {bs : Bytes} {o : Options} {s : St} {start c : Cur} (hat : s.cur.At bs)
    (h0 : s.cur.Reach start) (h1 : start.Reach c) (hlt : start.pos < c.pos) :
    Step.Sat bs o s (readStartOrEmptyTagC o s start c) := by
  unfold readStartOrEmptyTagC
  have hc : s.cur.Reach c := h0.trans h1
  apply toStep_sat hc (readName_sat o c)
  intro name c1 hr1 hp1
  split
  · exact ⟨hc.trans hr1, rfl⟩
  · rename_i nm
    have hra := readAttributes_sat o (c1.rest.length + 1) [] c1 (by omega) (by simp) (by simp)
    apply toStep_sat (hc.trans hr1) hra
    intro attrs c2 hr2 hp2
    obtain ⟨hlen, hok, ⟨p, r, hrest2, hp⟩, _⟩ := hp2
    rw [hrest2]
    simp only
    have hr02 : s.cur.Reach c2 := hc.trans (hr1.trans hr2)
    have hsat3 : (if p = 0x2F then advR 1 c2 else Res.ok () c2).Sat c2 (fun _ _ => True) := by
      split
      · have : 1 ≤ c2.rest.length := by rw [hrest2]; simp
        exact (advR_sat this).mono (fun _ _ _ _ => trivial)
      · exact ⟨Cur.Reach.refl c2, trivial⟩
    apply toStep_sat hr02 hsat3
    intro _ c3 hr3 _
    split
    · exact ⟨hr02.trans hr3, rfl⟩
    · rename_i g r3 hrest3
      split
      · exact ⟨hr02.trans hr3, rfl⟩
      · have h1' : 1 ≤ c3.rest.length := by rw [hrest3]; simp
        apply toStep_sat (hr02.trans hr3) (advR_sat h1')
        intro _ c4 hr4 hp4
        have hr04 : s.cur.Reach c4 := hr02.trans (hr3.trans hr4)
        have p0 := h0.pos_le
        have p1 := h1.pos_le
        have p2 := hr1.pos_le
        have p3 := hr2.pos_le
        have p4 := hr3.pos_le
        have p5 := hr4.pos_le
        have hattrs : ∀ a ∈ attrs, a.name.off + a.name.len ≤ c4.pos ∧ a.value.off + a.value.len ≤ c4.pos := by
          intro a ha
          have := hok a ha
          exact ⟨by have := this.1; omega, by have := this.2.1; omega⟩
        have hattrl : ∀ a ∈ attrs, a.name.len ≤ o.maxName ∧ a.value.len ≤ o.maxText := by
          intro a ha
          have := hok a ha
          exact ⟨this.2.2.2.1, this.2.2.2.2⟩
        split
        · exact ⟨hr04, rfl⟩
        · rename_i hdepth
          split
          · refine ⟨hr04, by simp only; omega, ⟨?_, ?_, ?_, hattrs⟩, by simp only; omega, ?_, rfl, ?_⟩
            · simp only; omega
            · simp only; omega
            · simp only; omega
            · refine ⟨hp1.2.2.1, hlen, hattrl, by simp, ?_⟩
              intro _; simp only; omega
            · simp only [Trans]; refine ⟨?_, ?_, ?_⟩ <;> first | trivial | rfl
          · refine ⟨hr04, by simp only; omega, ⟨?_, ?_, ?_, hattrs⟩, by simp only; omega, ?_, rfl, ?_⟩
            · simp only; omega
            · simp only; omega
            · simp only; omega
            · refine ⟨hp1.2.2.1, hlen, hattrl, by simp, ?_⟩
              intro _; simp only; omega
            · simp only [Trans]
              refine ⟨?_, trivial, trivial⟩
              have hcat : c.At bs := Cur.Reach.at hat hc
              have := hcat.slice nm.len
              have hnm : nm = ⟨c.pos, nm.len⟩ := by
                cases nm; simp only at hp1; simp [hp1.1]
              rw [hnm, this]

theorem readText_sat {bs : Bytes} {o : Options} {s : St} {c : Cur} {ch : UInt8} {r : Bytes}
    (h0 : s.cur.Reach c) (hrest : c.rest = ch :: r) :
    Step.Sat bs o s (readTextC o s c r) := by
  unfold readTextC
  simp only
  have hk : 1 + spanLen notLt r ≤ c.rest.length := by
    rw [hrest]; have := spanLen_le notLt r; simp; omega
  split
  · rename_i hgt
    apply toStep_sat h0 (advR_sat (by omega : o.maxText ≤ c.rest.length))
    intro _ c1 hr1 _
    exact ⟨h0.trans hr1, rfl⟩
  · rename_i hle
    apply toStep_sat h0 (advR_sat hk)
    intro _ c1 hr1 hp1
    have p0 := h0.pos_le
    apply emit_sat (h0.trans hr1)
    · omega
    · refine ⟨?_, ?_, ?_, ?_⟩ <;> simp only [hp1.1] <;> try omega
      intro a ha; simp at ha
    · simp only; omega
    · refine ⟨by simp, by simp, by simp, ?_, by simp⟩
      intro _; simp only [hp1.1]; omega
    · rfl
    · simp

/-- **the per-call specification**: from a state whose cursor is consistent with the input, `next()` either produces a token
(strict progress, slices inside the consumed range, limits respected, stack discipline), or Eof with an empty stack, or an error;
it never reads out of range -/
theorem next_sat (bs : Bytes) (o : Options) (s : St) (hat : s.cur.At bs) : Step.Sat bs o s (nextC o s) := by
  unfold nextC
  split
  · exact ⟨Cur.Reach.refl _, rfl⟩
  · apply toStep_sat (Cur.Reach.refl _) (skipWs_sat s.cur)
    intro _ c hr _
    split
    · rename_i hrest
      unfold emitEof
      split
      · exact ⟨hr, rfl⟩
      · rename_i hst
        refine ⟨hr, ?_, ?_, rfl, rfl, rfl, rfl, hrest⟩ <;>
        · cases hs : s.stack with
          | nil => rfl
          | cons _ _ => simp [hs] at hst
    · rename_i ch r hrest
      split
      · have h1 : 1 ≤ c.rest.length := by rw [hrest]; simp
        apply toStep_sat hr (advR_sat h1)
        intro _ c1 hr1 hp1
        have hlt1 : c.pos < c1.pos := by omega
        split
        · exact ⟨hr.trans hr1, rfl⟩
        · rename_i n r1 hrest1
          have h1' : 1 ≤ c1.rest.length := by rw [hrest1]; simp
          split
          · apply toStep_sat (hr.trans hr1) (advR_sat h1')
            intro _ c2 hr2 _
            exact readPI_sat hr (hr1.trans hr2) (by have := hr2.pos_le; omega)
          · split
            · apply toStep_sat (hr.trans hr1) (advR_sat h1')
              intro _ c2 hr2 _
              have hr02 := hr.trans (hr1.trans hr2)
              have hlt2 : c.pos < c2.pos := by have := hr2.pos_le; omega
              apply toStep_sat hr02 (matchString_sat _ c2)
              intro m c3 hr3 _
              have hlt3 : c.pos < c3.pos := by have := hr3.pos_le; omega
              split
              · exact readComment_sat hr (hr1.trans (hr2.trans hr3)) hlt3
              · apply toStep_sat (hr02.trans hr3) (matchString_sat _ c3)
                intro m c4 hr4 _
                have hlt4 : c.pos < c4.pos := by have := hr4.pos_le; omega
                split
                · exact readCData_sat hr (hr1.trans (hr2.trans (hr3.trans hr4))) hlt4
                · apply toStep_sat (hr02.trans (hr3.trans hr4)) (matchWordCI_sat _ c4)
                  intro m c5 hr5 _
                  have hlt5 : c.pos < c5.pos := by have := hr5.pos_le; omega
                  split
                  · exact readDoctype_sat hr (hr1.trans (hr2.trans (hr3.trans (hr4.trans hr5)))) hlt5
                  · exact ⟨hr02.trans (hr3.trans (hr4.trans hr5)), rfl⟩
            · split
              · apply toStep_sat (hr.trans hr1) (advR_sat h1')
                intro _ c2 hr2 _
                exact readEndTag_sat hat hr (hr1.trans hr2) (by have := hr2.pos_le; omega)
              · exact readStartOrEmptyTag_sat hat hr hr1 hlt1
      · exact readText_sat hr hrest

/-- the token budget is tested before anything else -/
theorem next_budget (o : Options) (s : St) (t : Token) (s' : St) (h : nextC o s = .tok t s') :
    o.maxTokens ≠ 0 → s.produced < o.maxTokens := by
  intro hne
  unfold nextC at h
  split at h
  · cases h
  · rename_i hc
    simp only [Bool.and_eq_true, decide_eq_true_eq, not_and] at hc
    have := hc (by simpa using hne)
    omega

/-! ### whole runs -/

/-- the stack discipline of the Start/End tokens of a token list, names compared as the bytes their slices denote:
`some st'` = no end tag was unmatched or mismatched, `st'` = names still open at the end (innermost first) -/
def sm (bs : Bytes) : List Bytes → List Token → Option (List Bytes)
  | st, [] => some st
  | st, t :: ts =>
    match t.kind with
    | .startElement => sm bs (t.name.bytes bs :: st) ts
    | .endElement =>
      match st with
      | top :: below => if top = t.name.bytes bs then sm bs below ts else none
      | [] => none
    | _ => sm bs st ts

/-- **balance, as a grammar** (independent of any stack): a token list is well nested when it is empty, or a non-tag token
followed by a well-nested list, or `start inner end rest` with `inner` and `rest` well nested and the two names byte-equal -/
inductive Nest (bs : Bytes) : List Token → Prop where
  | nil : Nest bs []
  | flat (t : Token) (ts : List Token) : t.kind ≠ .startElement → t.kind ≠ .endElement → Nest bs ts → Nest bs (t :: ts)
  | elem (s e : Token) (inner rest : List Token) : s.kind = .startElement → e.kind = .endElement →
      s.name.bytes bs = e.name.bytes bs → Nest bs inner → Nest bs rest → Nest bs (s :: inner ++ e :: rest)

/-- what is left to close, outermost last: the list splits into well-nested pieces separated by the end tags of `st` -/
def Closes (bs : Bytes) : List Bytes → List Token → Prop
  | [], ts => Nest bs ts
  | n :: st, ts => ∃ inner e rest, ts = inner ++ e :: rest ∧ Nest bs inner ∧ e.kind = .endElement ∧
      e.name.bytes bs = n ∧ Closes bs st rest

theorem sm_closes (bs : Bytes) : ∀ (ts : List Token) (st : List Bytes), sm bs st ts = some [] → Closes bs st ts := by
  intro ts
  induction ts with
  | nil =>
    intro st h
    simp only [sm, Option.some.injEq] at h
    subst h
    exact Nest.nil
  | cons t ts ih =>
    intro st h
    simp only [sm] at h
    split at h
    · -- start tag
      rename_i hk
      have := ih _ h
      obtain ⟨inner, e, rest, hts, hin, hek, hen, hrest⟩ := this
      cases st with
      | nil =>
        simp only [Closes] at hrest ⊢
        rw [hts]
        exact Nest.elem t e inner rest hk hek hen.symm hin hrest
      | cons n st' =>
        simp only [Closes] at hrest ⊢
        obtain ⟨inner2, e2, rest2, hts2, hin2, hek2, hen2, hrest2⟩ := hrest
        refine ⟨t :: inner ++ e :: inner2, e2, rest2, ?_, ?_, hek2, hen2, hrest2⟩
        · rw [hts, hts2]; simp
        · exact Nest.elem t e inner inner2 hk hek hen.symm hin hin2
    · -- end tag
      rename_i hk
      split at h
      · rename_i top below
        split at h
        · rename_i heq
          have := ih _ h
          simp only [Closes]
          exact ⟨[], t, ts, by simp, Nest.nil, hk, heq.symm, this⟩
        · cases h
      · cases h
    · -- any other token
      rename_i hk1 hk2
      have := ih _ h
      cases st with
      | nil =>
        simp only [Closes] at this ⊢
        exact Nest.flat t ts hk1 hk2 this
      | cons n st' =>
        simp only [Closes] at this ⊢
        obtain ⟨inner, e, rest, hts, hin, hek, hen, hrest⟩ := this
        exact ⟨t :: inner, e, rest, by rw [hts]; simp, Nest.flat t inner hk1 hk2 hin, hek, hen, hrest⟩

theorem sm_nest (bs : Bytes) (ts : List Token) (h : sm bs [] ts = some []) : Nest bs ts := sm_closes bs ts [] h

/-- state invariant of the parser -/
structure Inv (bs : Bytes) (o : Options) (s : St) : Prop where
  cur : s.cur.At bs
  depth : s.depth = s.stack.length
  maxd : s.depth ≤ o.maxDepth
  prod : o.maxTokens ≠ 0 → s.produced ≤ o.maxTokens

theorem Inv.init (bs : Bytes) (o : Options) : Inv bs o (St.init bs) :=
  ⟨Cur.init_at bs, rfl, Nat.zero_le _, fun _ => Nat.zero_le _⟩

/-- the limits, including the depth of end tags -/
def Token.LimitsAll (o : Options) (t : Token) : Prop :=
  t.Limits o ∧ (t.kind = .endElement → t.depth ≤ o.maxDepth)

theorem Inv.step {bs : Bytes} {o : Options} {s s' : St} {t : Token} (hi : Inv bs o s)
    (h : Step.Sat bs o s (.tok t s')) (hbud : o.maxTokens ≠ 0 → s.produced < o.maxTokens) :
    Inv bs o s' ∧ t.LimitsAll o := by
  obtain ⟨hr, hlt, hb, hoff, hl, hp, htr⟩ := h
  have hpr : o.maxTokens ≠ 0 → s'.produced ≤ o.maxTokens := by
    intro hne; have := hbud hne; omega
  have hat := Cur.Reach.at hi.cur hr
  unfold Trans at htr
  have hd := hi.depth
  have hm := hi.maxd
  split at htr
  · rename_i hk
    obtain ⟨h1, h2, h3⟩ := htr
    have := hl.2.2.2.2 (Or.inl hk)
    exact ⟨⟨hat, by rw [h1, h2, hd]; simp, by omega, hpr⟩, hl, by intro h; rw [hk] at h; cases h⟩
  · rename_i hk
    obtain ⟨h1, h2, h3⟩ := htr
    rw [h1] at hd
    simp at hd
    exact ⟨⟨hat, by omega, by omega, hpr⟩, hl, by intro _; omega⟩
  · rename_i hk
    obtain ⟨h1, h2, h3⟩ := htr
    exact ⟨⟨hat, by rw [h1, h2, hd], by omega, hpr⟩, hl, by intro h; rw [hk] at h; cases h⟩
  · exact htr.elim
  · exact htr.elim
  · exact htr.elim
  · rename_i hk1 hk2 hk3 hk4 hk5 hk6
    obtain ⟨h1, h2, h3⟩ := htr
    exact ⟨⟨hat, by rw [h1, h2, hd], by omega, hpr⟩, hl, by intro h; exact (hk2 h).elim⟩

/-- one step of the stack machine is one `Trans` -/
theorem sm_step {bs : Bytes} {s s' : St} {t : Token} (ts : List Token) (h : Trans bs s t s') :
    sm bs s.stack (t :: ts) = sm bs s'.stack ts := by
  unfold Trans at h
  simp only [sm]
  split at h
  · rename_i hk; simp only [hk]; rw [h.1]
  · rename_i hk; simp only [hk]; rw [h.1]; simp
  · rename_i hk; simp only [hk]; rw [h.1]
  · exact h.elim
  · exact h.elim
  · exact h.elim
  · rename_i hk1 hk2 hk3 hk4 hk5 hk6
    rw [h.1]
    cases hk : t.kind <;> simp_all

theorem Trans.kind_ok {bs : Bytes} {s s' : St} {t : Token} (h : Trans bs s t s') :
    t.kind ≠ .eof ∧ t.kind ≠ .invalid ∧ t.kind ≠ .xmlDecl := by
  unfold Trans at h
  cases hk : t.kind <;> simp [hk] at h ⊢

/-- the stack discipline of a finished run: an accepted run closes everything; a failed run leaves the names that were open -/
def StackP (bs : Bytes) (s : St) (ts : List Token) : Outcome → Prop
  | .accepted _ _ => sm bs s.stack ts = some []
  | .error _ _ s' => sm bs s.stack ts = some s'.stack
  | .bad _ => True

/-- where a finished run stands -/
def FinalP (bs : Bytes) (s : St) (ts : List Token) : Outcome → Prop
  | .accepted t s' => t.kind = .eof ∧ t.offset = bs.length ∧ s'.cur.pos = bs.length ∧ s'.stack = [] ∧
      s'.produced = s.produced + ts.length
  | .error e c s' => c.pos ≤ bs.length ∧ s'.produced = s.produced + ts.length ∧ s'.depth = s'.stack.length ∧
      e.isDom = false
  | .bad _ => True

/-- everything the run-level theorems need, about `run o fuel s` from an invariant state with enough fuel -/
structure RunOk (bs : Bytes) (o : Options) (s : St) (ts : List Token) (out : Outcome) : Prop where
  notBad : ∀ b, out ≠ .bad b
  count : ts.length + s.cur.pos ≤ bs.length
  below : ∀ t ∈ ts, t.Below bs.length
  limits : ∀ t ∈ ts, t.LimitsAll o
  budget : o.maxTokens ≠ 0 → s.produced + ts.length ≤ o.maxTokens
  kinds : ∀ t ∈ ts, t.kind ≠ .eof ∧ t.kind ≠ .invalid ∧ t.kind ≠ .xmlDecl
  stack : StackP bs s ts out
  final : FinalP bs s ts out

theorem run_ok (bs : Bytes) (o : Options) : ∀ (fuel : Nat) (s : St), Inv bs o s → bs.length - s.cur.pos < fuel →
    RunOk bs o s (runC o fuel s).1 (runC o fuel s).2 := by
  intro fuel
  induction fuel with
  | zero => intro s _ h; omega
  | succ fuel ih =>
    intro s hi hfuel
    have hsat := next_sat bs o s hi.cur
    simp only [runC]
    cases hn : nextC o s with
    | tok t s' =>
      rw [hn] at hsat
      obtain ⟨hi', hlim⟩ := hi.step hsat (next_budget o s t s' hn)
      obtain ⟨hr, hlt, hb, hoff, hl, hp, htr⟩ := hsat
      have hbound : s'.cur.pos ≤ bs.length := hi'.cur.1
      have := ih s' hi' (by omega)
      simp only
      cases hrun : runC o fuel s' with
      | mk ts out =>
        rw [hrun] at this
        simp only at this ⊢
        have hbud := next_budget o s t s' hn
        refine ⟨this.notBad, ?_, ?_, ?_, ?_, ?_, ?_, ?_⟩
        · have := this.count; simp; omega
        · intro t' ht'
          simp at ht'
          cases ht' with
          | inl h => subst h; exact hb.mono hbound
          | inr h => exact this.below t' h
        · intro t' ht'
          simp at ht'
          cases ht' with
          | inl h => subst h; exact hlim
          | inr h => exact this.limits t' h
        · intro hne
          have h1 := this.budget hne
          have h2 := hbud hne
          simp; omega
        · intro t' ht'
          simp at ht'
          cases ht' with
          | inl h => subst h; exact Trans.kind_ok htr
          | inr h => exact this.kinds t' h
        · have hs := this.stack
          cases out with
          | accepted _ _ => simp only [StackP] at hs ⊢; rw [sm_step ts htr]; exact hs
          | error _ _ _ => simp only [StackP] at hs ⊢; rw [sm_step ts htr]; exact hs
          | bad _ => trivial
        · have hf := this.final
          cases out with
          | accepted _ _ =>
            simp only [FinalP] at hf ⊢
            obtain ⟨h1, h2, h3, h4, h5⟩ := hf
            refine ⟨h1, h2, h3, h4, ?_⟩
            simp; omega
          | error _ _ _ =>
            simp only [FinalP] at hf ⊢
            obtain ⟨h1, h2, h3⟩ := hf
            refine ⟨h1, ?_, h3⟩
            simp; omega
          | bad _ => trivial
    | eof t s' =>
      rw [hn] at hsat
      simp only
      obtain ⟨hr, hs0, hs1, hd, hp, hk, hoff, hrest⟩ := hsat
      have hat' := Cur.Reach.at hi.cur hr
      have htot := hat'.total
      rw [hrest] at htot
      simp at htot
      refine ⟨(by intro b h; cases h), (by simp; exact hi.cur.1), (by simp), (by simp), (by intro hne; have := hi.prod hne; simp; omega), (by simp), ?_, ?_⟩
      · simp only [StackP, sm]; rw [hs0]
      · simp only [FinalP]
        exact ⟨hk, by omega, htot, hs1, by simp; omega⟩
    | err e c =>
      rw [hn] at hsat
      simp only
      have hat' := Cur.Reach.at hi.cur hsat.1
      refine ⟨(by intro b h; cases h), (by simp; exact hi.cur.1), (by simp), (by simp), (by intro hne; have := hi.prod hne; simp; omega), (by simp), ?_, ?_⟩
      · simp only [StackP, sm]
      · simp only [FinalP]
        exact ⟨hat'.1, by simp, hi.depth, hsat.2⟩
    | bad b =>
      rw [hn] at hsat
      exact hsat.elim

theorem tokens_ok (o : Options) (bs : Bytes) : RunOk bs o (St.init bs) (tokensC o bs).1 (tokensC o bs).2 := by
  unfold tokensC
  exact run_ok bs o _ _ (Inv.init bs o) (by simp [St.init, Cur.init])

end Iora.Xml
