import IoraModel.Model.Xml
set_option linter.unusedSimpArgs false
set_option linter.unusedVariables false
/-! `Node::~Node` (FC14a): the work-list loop visits every node of the subtree exactly once, each with no children left. -/
namespace Iora.Xml
open Iora

mutual
  /-- every node of a subtree, children stripped, in pre-order -/
  def Node.labels : Node → List Node
    | .elem n as ch => .elem n as [] :: labelsList ch
    | .text v => [.text v]
    | .cdata v => [.cdata v]
    | .comment v => [.comment v]
    | .pi n v => [.pi n v]
  def labelsList : List Node → List Node
    | [] => []
    | n :: r => n.labels ++ labelsList r
end

theorem Node.labels_eq (n : Node) : n.labels = n.shallow :: labelsList n.kids := by
  cases n <;> simp [Node.labels, Node.shallow, Node.kids, labelsList]

theorem Node.size_eq (n : Node) : n.size = 1 + sizeList n.kids := by
  cases n <;> simp [Node.size, Node.kids, sizeList]

theorem labelsList_append : ∀ a b : List Node, labelsList (a ++ b) = labelsList a ++ labelsList b := by
  intro a
  induction a with
  | nil => intro b; simp [labelsList]
  | cons n r ih => intro b; simp [labelsList, ih]

theorem sizeList_append : ∀ a b : List Node, sizeList (a ++ b) = sizeList a + sizeList b := by
  intro a
  induction a with
  | nil => intro b; simp [sizeList]
  | cons n r ih => intro b; simp [sizeList, ih]; omega

theorem sizeList_reverse : ∀ a : List Node, sizeList a.reverse = sizeList a := by
  intro a
  induction a with
  | nil => rfl
  | cons n r ih => simp [sizeList_append, sizeList, ih]; omega

theorem labelsList_reverse_perm : ∀ a : List Node, (labelsList a.reverse).Perm (labelsList a) := by
  intro a
  induction a with
  | nil => exact List.Perm.refl _
  | cons n r ih =>
    simp only [List.reverse_cons, labelsList_append, labelsList, List.append_nil]
    exact (List.perm_append_comm).trans (List.Perm.append_left _ ih)

theorem mutual_len : ∀ a : List Node, (labelsList a).length = sizeList a ∧ ∀ n ∈ a, n.labels.length = n.size := by
  intro a
  -- by strong induction on the total size, via the work-list argument below we only need the list statement; prove it directly
  induction a with
  | nil => exact ⟨rfl, by intro n hn; simp at hn⟩
  | cons n r ih =>
    have hn : n.labels.length = n.size := by
      -- structural: a node's labels are itself plus its children's
      have : ∀ m : Node, m.labels.length = m.size := by
        intro m
        exact Node.rec (motive_1 := fun m => m.labels.length = m.size) (motive_2 := fun l => (labelsList l).length = sizeList l)
          (by intro nm as ch ihc; simp [Node.labels, Node.size, ihc]; omega)
          (by intro v; rfl) (by intro v; rfl) (by intro v; rfl) (by intro nm v; rfl)
          (by rfl) (by intro h t ih1 ih2; simp [labelsList, sizeList, ih1, ih2]) m
      exact this n
    refine ⟨by simp [labelsList, sizeList, hn, ih.1], ?_⟩
    intro m hm
    simp only [List.mem_cons] at hm
    rcases hm with rfl | hm
    · exact hn
    · exact ih.2 m hm

/-- the loop visits exactly the nodes of the pending subtrees, each once (a permutation of their pre-order listing), given one
unit of fuel per node -/
theorem destroyLoop_perm : ∀ (fuel : Nat) (pending : List Node), sizeList pending ≤ fuel →
    ((destroyLoop fuel pending).map (·.node)).Perm (labelsList pending) := by
  intro fuel
  induction fuel with
  | zero =>
    intro pending h
    cases pending with
    | nil => exact List.Perm.refl _
    | cons n r => have := Node.size_eq n; simp [sizeList] at h; omega
  | succ f ih =>
    intro pending h
    cases pending with
    | nil => exact List.Perm.refl _
    | cons n rest =>
      simp only [destroyLoop, List.map_cons, labelsList, Node.labels_eq n, List.cons_append]
      apply List.Perm.cons
      have hsz : sizeList (n.kids.reverse ++ rest) ≤ f := by
        rw [sizeList_append, sizeList_reverse]
        have := Node.size_eq n
        simp only [sizeList] at h
        omega
      refine (ih _ hsz).trans ?_
      rw [labelsList_append]
      exact List.Perm.append_right _ (labelsList_reverse_perm _)

theorem destroyLoop_childless : ∀ (fuel : Nat) (pending : List Node), ∀ d ∈ destroyLoop fuel pending,
    d.kidsLeft = 0 ∧ d.node.kids = [] := by
  intro fuel
  induction fuel with
  | zero => intro pending d hd; simp [destroyLoop] at hd
  | succ f ih =>
    intro pending d hd
    cases pending with
    | nil => simp [destroyLoop] at hd
    | cons n rest =>
      simp only [destroyLoop, List.mem_cons] at hd
      rcases hd with rfl | hd
      · exact ⟨rfl, by cases n <;> rfl⟩
      · exact ih _ d hd

end Iora.Xml
