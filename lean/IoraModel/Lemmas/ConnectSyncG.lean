import IoraModel.Lemmas.ConnectSync
import IoraModel.Model.ConnectSyncX
import IoraModel.Lemmas.ConnectSyncG0
/-! Second invariant of the C04 control model (what a finished attempt's result says about its session) and the invariant of the
argument layer (`Model/ConnectSyncX.lean`: the session of an attempt was created with the TLS mode the call requested). -/
namespace Iora.ConnectSync
set_option linter.unusedSimpArgs false
set_option linter.unusedVariables false

structure Inv2 (s : State) : Prop where
  /-- every attempt that is over has a return event -/
  CL : ∀ c sid, Ev.created c sid ∈ s.log → att (s.callers c).pc ≠ some sid → ∃ r, Ev.attemptRet c (some sid) r ∈ s.log
  /-- an attempt returns the engine-reported close error only if the onClose handler delivered it for THIS session -/
  RC2 : ∀ c sid, Ev.attemptRet c (some sid) (.err .closed) ∈ s.log → Ev.delivered sid false ∈ s.log
  /-- ShuttingDown is only returned once the fence is set -/
  RS : ∀ c o, Ev.attemptRet c o (.err .shuttingDown) ∈ s.log → s.shuttingDown = true
  /-- a refused attempt never had a session -/
  RF : ∀ c o, Ev.attemptRet c o (.err .refused) ∈ s.log → o = none
  /-- connectSync itself never returns Cancelled (only the wrapper does) -/
  RCn : ∀ c o, Ev.attemptRet c o (.err .cancelled) ∉ s.log
  /-- the fence is never lowered -/
  FM : Ev.fenceSet ∈ s.log → s.shuttingDown = true

theorem Inv2_init : Inv2 init := by
  constructor <;> simp [init]

/-- no step other than `cConnect` starts an attempt: if thread `c` is in the middle of attempt `sid` after the step, it was before -/
theorem att_mono (s : State) (st : Step) (c sid : Nat) (hst : ∀ c', st ≠ .cConnect c')
    (h : att ((step s st).callers c).pc = some sid) : att (s.callers c).pc = some sid := by
  cases st with
  | call c w => exact att_doCall _ _ _ _ _ h
  | cancel c => exact att_doCancel _ _ _ _ h
  | cEnter c => exact att_doEnter _ _ _ _ h
  | cConnect c => exact absurd rfl (hst c)
  | cRefuse c => exact att_doRefuse _ _ _ _ h
  | cRegister c => exact att_doRegister _ _ _ _ h
  | cPark c => exact att_doPark _ _ _ _ h
  | cWake c t => exact att_doWake _ _ _ _ _ h
  | cClose c => exact att_doClose _ _ _ _ h
  | cRelock c => exact att_doRelock _ _ _ _ h
  | wLoop c d => exact att_doWLoop _ _ _ _ _ h
  | ioPop b => exact att_doPop _ _ _ _ h
  | ioComplete x => exact att_doComplete _ _ _ _ h
  | ioFail x => exact att_doFail _ _ _ _ h
  | ioPeerClose x => exact att_doPeerClose _ _ _ _ h
  | timerClose x => exact att_doFail _ _ _ _ h
  | ioStep => exact att_doIoStep _ _ _ h
  | fence => exact att_doFence _ _ _ h

theorem att_cConnect (s : State) (c' c sid : Nat) (h : att ((step s (.cConnect c')).callers c).pc = some sid) :
    att (s.callers c).pc = some sid ∨ (c = c' ∧ sid = s.nextSid ∧ (s.callers c').pc = .haveLock) :=
  att_doConnect s c' c sid h

/-- a thread whose pc is idle or finished is not in the middle of an attempt, and `call` only moves such a thread -/
theorem call_att (s : State) (c w : _) (j sid : Nat) (h : att ((step s (.call c w)).callers j).pc = some sid) :
    att (s.callers j).pc = some sid ∧ (j = c → ¬ ((s.callers c).pc = .idle ∨ (s.callers c).pc = .finished)) := by
  refine ⟨att_doCall _ _ _ _ _ h, ?_⟩
  rintro rfl
  have h' := att_doCall _ _ _ _ _ h
  intro hh
  rcases hh with hh | hh <;> simp [hh, att] at h'

theorem Inv2_of_sum {s s' : State} (h2 : Inv2 s) (hs : StepSum s s') : Inv2 s' := by
  obtain ⟨CL, RC2, RS, RF, RCn, FM⟩ := h2
  obtain ⟨mono, cr, ar, fs, fwd, sd⟩ := hs
  constructor
  · intro c sid hc ha
    rcases cr c sid hc with hc' | hc'
    · by_cases hb : att (s.callers c).pc = some sid
      · rcases fwd c sid hb with h | h
        · exact absurd h ha
        · exact h
      · obtain ⟨r, hr⟩ := CL c sid hc' hb
        exact ⟨r, mono _ hr⟩
    · exact absurd hc' ha
  · intro c sid hr
    rcases ar _ _ _ hr with h | ⟨h, _⟩
    · exact mono _ (RC2 c sid h)
    · exact mono _ (h rfl sid rfl)
  · intro c o hr
    rcases ar _ _ _ hr with h | ⟨_, h, _⟩
    · exact sd (RS c o h)
    · exact sd (h rfl)
  · intro c o hr
    rcases ar _ _ _ hr with h | ⟨_, _, h, _⟩
    · exact RF c o h
    · exact h rfl
  · intro c o hr
    rcases ar _ _ _ hr with h | ⟨_, _, _, h⟩
    · exact RCn c o h
    · exact h rfl
  · intro hf
    rcases fs hf with h | h
    · exact sd (FM h)
    · exact h

theorem step_inv2 {s : State} (h : Inv s) (h2 : Inv2 s) (st : Step) : Inv2 (step s st) :=
  Inv2_of_sum h2 (sum_step h st)

theorem run_inv2 : ∀ (steps : List Step) (s : State), Inv s → Inv2 s → Inv2 (run s steps) := by
  intro steps
  induction steps with
  | nil => intro s _ h2; exact h2
  | cons st rest ih => intro s h h2; exact ih _ (step_inv h st) (step_inv2 h h2 st)

theorem reachable_inv2 (steps : List Step) : Inv2 (run init steps) := run_inv2 steps init Inv_init Inv2_init

/-! ## argument layer -/

/-- the session an attempt is working on was created with the TLS mode its call requested -/
def InvX (x : XState) : Prop :=
  ∀ c sid, att (x.core.callers c).pc = some sid → x.sessTls sid = x.reqTls c

theorem InvX_init : InvX xinit := by
  intro c sid h; simp [xinit, att] at h

/-- outside `call` and `cConnect` the argument layer only records close reasons -/
theorem xstep_other (cfg : Cfg) (x : XState) (st : Step) (n : Nat) (h1 : ∀ c w, st ≠ .call c w) (h2 : ∀ c, st ≠ .cConnect c) :
    (xstep cfg x st n).sessTls = x.sessTls ∧ (xstep cfg x st n).reqTls = x.reqTls := by
  unfold xstep
  cases st <;> first | exact absurd rfl (h1 _ _) | exact absurd rfl (h2 _) | (dsimp only; split <;> exact ⟨rfl, rfl⟩)

theorem xstep_invX {cfg : Cfg} (hg : cfg.Good) {x : XState} (h : Inv x.core) (hx : InvX x) (st : Step) (n : Nat) :
    InvX (xstep cfg x st n) := by
  intro j sid ha
  rw [xstep_core, stepC_good hg] at ha
  by_cases hc : ∃ c w, st = .call c w
  · obtain ⟨c, w, rfl⟩ := hc
    obtain ⟨h1, h3⟩ := call_att _ _ _ _ _ ha
    have h0 := hx j sid h1
    unfold xstep
    dsimp only
    split
    · rename_i hpc
      have hne : j ≠ c := by
        intro e; apply h3 e
        simpa using hpc
      simpa [setN, hne] using h0
    · exact h0
  by_cases hc' : ∃ c, st = .cConnect c
  · obtain ⟨c, rfl⟩ := hc'
    unfold xstep
    dsimp only
    rcases att_cConnect _ _ _ _ ha with h1 | ⟨rfl, rfl, hp⟩
    · have h0 := hx j sid h1
      have hlt := h.F_att j sid h1
      split
      · have hne : sid ≠ x.core.nextSid := Nat.ne_of_lt hlt
        simpa [setN, hne] using h0
      · exact h0
    · simp [hp, setN, hg.2.2.2.2.1]
  · have h1 : ∀ c w, st ≠ .call c w := fun c w e => hc ⟨c, w, e⟩
    have h2 : ∀ c, st ≠ .cConnect c := fun c e => hc' ⟨c, e⟩
    obtain ⟨e1, e2⟩ := xstep_other cfg x st n h1 h2
    rw [e1, e2]
    exact hx j sid (att_mono _ _ _ _ h2 ha)

theorem xrun_inv {cfg : Cfg} (hg : cfg.Good) : ∀ (steps : List (Step × Nat)) (x : XState), Inv x.core → InvX x →
    Inv (xrun cfg x steps).core ∧ InvX (xrun cfg x steps) := by
  intro steps
  induction steps with
  | nil => intro x h hx; exact ⟨h, hx⟩
  | cons p rest ih =>
    intro x h hx
    obtain ⟨st, n⟩ := p
    have h' : Inv (xstep cfg x st n).core := by rw [xstep_core, stepC_good hg]; exact step_inv h st
    exact ih _ h' (xstep_invX hg h hx st n)

end Iora.ConnectSync
