import IoraModel.Model.WsServer
import IoraModel.Lemmas.WsFrame
set_option linter.unusedSimpArgs false
set_option linter.unusedVariables false
/-! Helper lemmas about the WebSocket server session model. -/
namespace Iora.Ws
open Iora

/-- opcode carried by the first byte of bytes handed to the transport -/
def wireOpcode : Bytes → Option Nat
  | [] => none
  | b0 :: _ => some (b0.toNat % 16)

def isDataSend : Ev → Bool
  | .sent w => wireOpcode w = some 0 || wireOpcode w = some 1 || wireOpcode w = some 2
  | _ => false

def isCloseSend : Ev → Bool
  | .sent w => wireOpcode w = some 8
  | _ => false

theorem wireOpcode_serialize (f : Frame) (h : f.opcode < 16) : wireOpcode (serialize f) = some f.opcode := by
  obtain ⟨t, ht⟩ := serialize_head f
  rw [ht]
  simp only [wireOpcode, b8_toNat]
  exact congrArg some (hdr0 f.opcode f.fin h).1

@[simp] theorem wireOpcode_makeClose (c : Nat) (r : Bytes) : wireOpcode (serialize (makeClose c r)) = some 8 :=
  wireOpcode_serialize _ (by simp [makeClose])

@[simp] theorem wireOpcode_mkFrame (op : Nat) (fin : Bool) (pl : Bytes) (h : op < 16) :
    wireOpcode (serialize (mkFrame op fin pl)) = some op :=
  wireOpcode_serialize _ (by simpa [mkFrame] using h)

/-- the session can no longer emit data frames: close already sent, or session gone -/
def Closed (s : Sess) : Prop := s.closeSent = true ∨ s.alive = false

/-- no event of the list is a data-frame send -/
def NoData (evs : List Ev) : Prop := ∀ e ∈ evs, isDataSend e = false

/-- after a close-frame send, no data-frame send follows -/
def NoDataAfterClose : List Ev → Prop
  | [] => True
  | e :: rest => (isCloseSend e = true → NoData rest) ∧ NoDataAfterClose rest

theorem NoData_nil : NoData [] := by intro e h; cases h
theorem NoData_append {a b : List Ev} (ha : NoData a) (hb : NoData b) : NoData (a ++ b) := by
  intro e h
  rcases List.mem_append.mp h with h | h
  · exact ha e h
  · exact hb e h
theorem NoData_cons {e : Ev} {a : List Ev} (he : isDataSend e = false) (ha : NoData a) : NoData (e :: a) := by
  intro e' h
  rcases List.mem_cons.mp h with h | h
  · subst h; exact he
  · exact ha e' h

theorem NoDataAfterClose_of_NoData : ∀ evs : List Ev, NoData evs → NoDataAfterClose evs := by
  intro evs
  induction evs with
  | nil => intro _; trivial
  | cons e rest ih =>
    intro h
    have hr : NoData rest := fun e' h' => h e' (List.mem_cons_of_mem _ h')
    exact ⟨fun _ => hr, ih hr⟩

theorem NoDataAfterClose_append : ∀ (a b : List Ev), NoDataAfterClose a → NoDataAfterClose b →
    ((∃ e ∈ a, isCloseSend e = true) → NoData b) → NoDataAfterClose (a ++ b) := by
  intro a
  induction a with
  | nil => intro b _ hb _; simpa using hb
  | cons e rest ih =>
    intro b ha hb hc
    obtain ⟨h1, h2⟩ := ha
    refine ⟨?_, ih b h2 hb (fun ⟨e', he', hce⟩ => hc ⟨e', List.mem_cons_of_mem _ he', hce⟩)⟩
    intro hce
    exact NoData_append (h1 hce) (hc ⟨e, List.mem_cons_self .., hce⟩)


def closedB (s : Sess) : Bool := s.closeSent || !s.alive
theorem closed_iff (s : Sess) : Closed s ↔ closedB s = true := by
  unfold Closed closedB; cases s.closeSent <;> cases s.alive <;> simp

theorem NoData_iff (evs : List Ev) : NoData evs ↔ evs.all (fun e => !isDataSend e) = true := by
  simp [NoData]

/-! ### sends touch nothing but `closeSent` -/

@[simp] theorem sendClose_alive (s : Sess) (c : Nat) (r : Bytes) : (sendClose s c r).1.alive = s.alive := rfl
@[simp] theorem sendClose_buffer (s : Sess) (c : Nat) (r : Bytes) : (sendClose s c r).1.buffer = s.buffer := rfl
@[simp] theorem sendClose_fragBuf (s : Sess) (c : Nat) (r : Bytes) : (sendClose s c r).1.fragBuf = s.fragBuf := rfl
@[simp] theorem sendClose_fragOp (s : Sess) (c : Nat) (r : Bytes) : (sendClose s c r).1.fragOp = s.fragOp := rfl
@[simp] theorem appSend_state (s : Sess) (op : Nat) (pl : Bytes) : (appSend s op pl).1 = s := by
  unfold appSend; split <;> rfl
@[simp] theorem sendPing_state (s : Sess) (pl : Bytes) : (sendPing s pl).1 = s := by
  unfold sendPing; split <;> simp

/-- the fields a send can not change -/
def SameBut (s s' : Sess) : Prop :=
  s'.alive = s.alive ∧ s'.buffer = s.buffer ∧ s'.fragBuf = s.fragBuf ∧ s'.fragOp = s.fragOp

theorem SameBut.rfl' (s : Sess) : SameBut s s := ⟨rfl, rfl, rfl, rfl⟩
theorem SameBut.trans {a b c : Sess} (h1 : SameBut a b) (h2 : SameBut b c) : SameBut a c :=
  ⟨h2.1.trans h1.1, h2.2.1.trans h1.2.1, h2.2.2.1.trans h1.2.2.1, h2.2.2.2.trans h1.2.2.2⟩

theorem sendStep_same (s : Sess) (a : Send) : SameBut s (sendStep s a).1 := by
  cases a <;> simp [sendStep, SameBut]

theorem runSends_same : ∀ (as : List Send) (s : Sess), SameBut s (runSends s as).1 := by
  intro as
  induction as with
  | nil => intro s; exact SameBut.rfl' s
  | cons a as ih => intro s; simp only [runSends]; exact (sendStep_same s a).trans (ih _)

theorem fire_same (s : Sess) (e : Ev) (sc : List Send) : SameBut s (fire s e sc).1 := by
  simp only [fire]; exact runSends_same sc s

theorem deliver_same (cb : Cbs) (s : Sess) (op : Nat) (pl : Bytes) : SameBut s (deliver cb s op pl).1 := by
  unfold deliver
  split
  · split
    · simp [SameBut]
    · exact fire_same ..
  · split
    · exact fire_same ..
    · exact SameBut.rfl' s

@[simp] theorem failSession_state (cb : Cbs) (s : Sess) (c : Nat) (r : Bytes) :
    (failSession cb s c r).1 = { alive := false } := rfl

/-! ### the close discipline, compositionally -/

/-- a piece of behaviour `s --ev--> s'` that respects the close discipline: once closed no data frame is sent, closed
stays closed, a close-frame send leaves the session closed, and inside `ev` nothing follows a close frame -/
structure Tr (s : Sess) (ev : List Ev) (s' : Sess) : Prop where
  nodata : closedB s = true → NoData ev
  mono : closedB s = true → closedB s' = true
  close : ev.any isCloseSend = true → closedB s' = true
  ndac : NoDataAfterClose ev

theorem Tr.comp {s s1 s2 : Sess} {e1 e2 : List Ev} (h1 : Tr s e1 s1) (h2 : Tr s1 e2 s2) : Tr s (e1 ++ e2) s2 where
  nodata h := NoData_append (h1.nodata h) (h2.nodata (h1.mono h))
  mono h := h2.mono (h1.mono h)
  close h := by
    simp only [List.any_append, Bool.or_eq_true] at h
    rcases h with h | h
    · exact h2.mono (h1.close h)
    · exact h2.close h
  ndac := by
    apply NoDataAfterClose_append _ _ h1.ndac h2.ndac
    intro ⟨e, he, hce⟩
    exact h2.nodata (h1.close (List.any_eq_true.mpr ⟨e, he, hce⟩))

theorem Tr.state {s s' : Sess} (h : closedB s = true → closedB s' = true) : Tr s [] s' where
  nodata _ := NoData_nil
  mono := h
  close h := by simp at h
  ndac := trivial

theorem Tr.refl (s : Sess) : Tr s [] s := Tr.state id

theorem Tr.dead (s s' : Sess) (h : closedB s' = true) : Tr s [] s' := Tr.state (fun _ => h)

/-- an event that is not a frame send (a callback, `closeSession`, …) -/
theorem Tr.ev (s : Sess) (e : Ev) (hd : isDataSend e = false) (hc : isCloseSend e = false) : Tr s [e] s where
  nodata _ := NoData_cons hd NoData_nil
  mono := id
  close h := by simp [hc] at h
  ndac := ⟨fun _ => NoData_nil, trivial⟩

/-- a close-frame send that leaves the session closed -/
theorem Tr.closeSend (s s' : Sess) (w : Bytes) (hw : wireOpcode w = some 8) (h : closedB s' = true) : Tr s [.sent w] s' where
  nodata _ := NoData_cons (by simp [isDataSend, hw]) NoData_nil
  mono _ := h
  close _ := h
  ndac := ⟨fun _ => NoData_nil, trivial⟩

theorem Tr.sendClose (s : Sess) (c : Nat) (r : Bytes) : Tr s (sendClose s c r).2 (sendClose s c r).1 := by
  apply Tr.closeSend _ _ _ (wireOpcode_makeClose c r)
  unfold closedB Iora.Ws.sendClose
  cases s.alive <;> simp

theorem Tr.appSend (s : Sess) (op : Nat) (pl : Bytes) (h16 : op < 16) (h8 : op ≠ 8) :
    Tr s (appSend s op pl).2 (appSend s op pl).1 := by
  rw [appSend_state]
  unfold Iora.Ws.appSend
  split
  · exact Tr.refl s
  · rename_i hc
    refine ⟨?_, id, ?_, ⟨fun _ => NoData_nil, trivial⟩⟩
    · intro h; unfold closedB at h; simp_all
    · intro h
      simp [isCloseSend, wireOpcode_mkFrame op true pl h16, h8] at h

theorem Tr.sendStep (s : Sess) (a : Send) : Tr s (sendStep s a).2 (sendStep s a).1 := by
  cases a with
  | text bs => exact Tr.appSend s 1 bs (by omega) (by omega)
  | binary bs => exact Tr.appSend s 2 bs (by omega) (by omega)
  | ping bs =>
    simp only [Iora.Ws.sendStep, sendPing]
    split
    · exact Tr.refl s
    · exact Tr.appSend s 9 bs (by omega) (by omega)
  | close c r => exact Tr.sendClose s c r

theorem Tr.runSends : ∀ (as : List Send) (s : Sess), Tr s (runSends s as).2 (runSends s as).1 := by
  intro as
  induction as with
  | nil => intro s; exact Tr.refl s
  | cons a as ih => intro s; simp only [Iora.Ws.runSends]; exact (Tr.sendStep s a).comp (ih _)

theorem Tr.fire (s : Sess) (e : Ev) (sc : List Send) (hd : isDataSend e = false) (hc : isCloseSend e = false) :
    Tr s (fire s e sc).2 (fire s e sc).1 := by
  simp only [Iora.Ws.fire]
  exact (Tr.ev s e hd hc).comp (Tr.runSends sc s)

theorem Tr.deliver (cb : Cbs) (s : Sess) (op : Nat) (pl : Bytes) : Tr s (deliver cb s op pl).2 (deliver cb s op pl).1 := by
  unfold Iora.Ws.deliver
  split
  · split
    · exact Tr.sendClose ..
    · exact Tr.fire _ _ _ rfl rfl
  · split
    · exact Tr.fire _ _ _ rfl rfl
    · exact Tr.refl s

/-- an event that is not a frame send, with a state change that keeps closed sessions closed -/
theorem Tr.ev' (s s' : Sess) (e : Ev) (hd : isDataSend e = false) (hc : isCloseSend e = false)
    (h : closedB s = true → closedB s' = true) : Tr s [e] s' := by
  have := (Tr.ev s e hd hc).comp (Tr.state h)
  simpa using this

theorem Tr.failSession (cb : Cbs) (s : Sess) (c : Nat) (r : Bytes) :
    Tr s (failSession cb s c r).2 (failSession cb s c r).1 := by
  simp only [Iora.Ws.failSession]
  exact ((Tr.sendClose s c r).comp (Tr.fire _ .onError cb.onError rfl rfl)).comp
    (Tr.ev' _ _ .closeSession rfl rfl (fun _ => rfl))

@[simp] theorem accumulate_alive (s : Sess) (f : Frame) : (accumulate s f).alive = s.alive := by
  unfold accumulate; split
  · rfl
  · split <;> rfl
@[simp] theorem accumulate_closeSent (s : Sess) (f : Frame) : (accumulate s f).closeSent = s.closeSent := by
  unfold accumulate; split
  · rfl
  · split <;> rfl
@[simp] theorem accumulate_buffer (s : Sess) (f : Frame) : (accumulate s f).buffer = s.buffer := by
  unfold accumulate; split
  · rfl
  · split <;> rfl

theorem Tr.handleDataFrame (max : Nat) (cb : Cbs) (s : Sess) (f : Frame) :
    Tr s (handleDataFrame max cb s f).2 (handleDataFrame max cb s f).1 := by
  unfold Iora.Ws.handleDataFrame
  split
  · exact Tr.refl s
  · simp only
    have hst : ∀ s1 : Sess, s1.closeSent = s.closeSent → s1.alive = s.alive → Tr s [] s1 := by
      intro s1 h1 h2; apply Tr.state; unfold closedB; rw [h1, h2]; exact id
    split
    · have := (hst { accumulate s f with fragBuf := [], fragOp := 0 } (by simp) (by simp)).comp
        (Tr.failSession cb _ 1009 (str "Message Too Big"))
      simpa using this
    · split
      · have := (hst { accumulate s f with fragBuf := [], fragOp := 0 } (by simp) (by simp)).comp
          (Tr.deliver cb _ (accumulate s f).fragOp (accumulate s f).fragBuf)
        simpa using this
      · exact hst _ (by simp) (by simp)

theorem Tr.handleFrame (max : Nat) (cb : Cbs) (s : Sess) (f : Frame) :
    Tr s (handleFrame max cb s f).2 (handleFrame max cb s f).1 := by
  unfold Iora.Ws.handleFrame
  split
  · exact Tr.handleDataFrame max cb s f
  · split
    · exact Tr.ev s _ (by simp [isDataSend, wireOpcode_mkFrame]) (by simp [isCloseSend, wireOpcode_mkFrame])
    · split
      · exact Tr.refl s
      · split
        · -- CLOSE: echo (flag and send in one section), `_onClose`, erase, closeSession
          simp only
          have hecho : Tr s (if (s.alive && !s.closeSent) = true then [Ev.sent (serialize (makeClose (closePayload f.payload).1 (closePayload f.payload).2))] else [])
              (if (s.alive && !s.closeSent) = true then { s with closeSent := true } else s) := by
            split
            · exact Tr.closeSend _ _ _ (wireOpcode_makeClose _ _) (by simp [closedB])
            · exact Tr.refl s
          have := (hecho.comp (Tr.fire _ (.onClose (closePayload f.payload).1 (closePayload f.payload).2) cb.onClose rfl rfl)).comp
            (Tr.ev' _ ({ alive := false } : Sess) .closeSession rfl rfl (fun _ => rfl))
          simpa [erase, List.append_assoc] using this
        · simp only
          exact (Tr.sendClose s 1002 _).comp (Tr.fire _ .onError cb.onError rfl rfl)

theorem Tr.loop (max : Nat) (cb : Cbs) : ∀ (fuel : Nat) (s : Sess) (d : Bytes),
    Tr s (loop max cb fuel s d).2.1 (loop max cb fuel s d).1 := by
  intro fuel
  induction fuel with
  | zero => intro s d; exact Tr.refl s
  | succ fuel ih =>
    intro s d
    unfold Iora.Ws.loop
    split
    · exact Tr.refl s
    · split
      · exact Tr.refl s
      · exact Tr.failSession cb s 1002 _
      · exact Tr.failSession cb s 1009 _
      · rename_i f n hp
        exact (Tr.handleFrame max cb s f).comp (ih _ _)

theorem Tr.onData (max : Nat) (cb : Cbs) (s : Sess) (data : Bytes) :
    Tr s (onData max cb s data).2 (onData max cb s data).1 := by
  unfold Iora.Ws.onData
  split
  · exact Tr.refl s
  · have h := Tr.loop max cb ((s.buffer ++ data).length + 1) { s with buffer := [] } (s.buffer ++ data)
    simp only
    rcases hL : Iora.Ws.loop max cb ((s.buffer ++ data).length + 1) { s with buffer := [] } (s.buffer ++ data) with ⟨s1, ev, r⟩
    rw [hL] at h
    have h' : Tr s ev s1 := by simpa using (Tr.state (s := s) (s' := { s with buffer := [] }) id).comp h
    cases r with
    | none => exact h'
    | some rest =>
      simp only
      split
      · simpa using h'.comp (Tr.state (s' := { s1 with buffer := rest }) id)
      · exact h'

theorem Tr.step (max : Nat) (cb : Cbs) (s : Sess) (op : AppOp) : Tr s (step max cb s op).2 (step max cb s op).1 := by
  cases op with
  | data bs => exact Tr.onData max cb s bs
  | sendClose c r => exact Tr.sendStep s _
  | sendText bs => exact Tr.sendStep s _
  | sendBinary bs => exact Tr.sendStep s _
  | sendPing bs => exact Tr.sendStep s _
  | transportClosed => exact Tr.dead s _ (by simp [Iora.Ws.step, erase, closedB])

theorem Tr.run (max : Nat) (cb : Cbs) : ∀ (ops : List AppOp) (s : Sess), Tr s (run max cb s ops).2 (run max cb s ops).1 := by
  intro ops
  induction ops with
  | nil => intro s; exact Tr.refl s
  | cons op ops ih => intro s; simp only [Iora.Ws.run]; exact (Tr.step max cb s op).comp (ih _)

/-- For every operation history (application sends, reads, and whatever the application sends from inside its
callbacks): after a close frame has been handed to the transport, no data frame follows. -/
theorem run_noDataAfterClose (max : Nat) (cb : Cbs) (ops : List AppOp) (s : Sess) : NoDataAfterClose (run max cb s ops).2 :=
  (Tr.run max cb ops s).ndac

/-! ### bounded buffering: the unparsed remainder and the fragment (reassembly) buffer -/

/-- an incomplete buffer is short, for ARBITRARY bytes (an RSV-flagged buffer of ≥ 2 bytes is never "incomplete") -/
theorem parse_incomplete_short' (max : Nat) (d : Bytes) (h : parse max d = .incomplete) : d.length < 14 + max := by
  match d with
  | [] => simp; omega
  | [_] => simp; omega
  | b0 :: b1 :: rest =>
    by_cases hr : (b0.toNat / 16) % 8 = 0
    · exact parse_incomplete_short max (b0 :: b1 :: rest) hr h
    · simp [parse, hr] at h

/-- the four ways `handleDataFrame` can leave the session -/
theorem handleDataFrame_cases (max : Nat) (cb : Cbs) (s : Sess) (f : Frame) :
    (handleDataFrame max cb s f).1 = s ∨
    (handleDataFrame max cb s f).1 = { alive := false } ∨
    SameBut { accumulate s f with fragBuf := [], fragOp := 0 } (handleDataFrame max cb s f).1 ∨
    ((handleDataFrame max cb s f).1 = accumulate s f ∧ (accumulate s f).fragBuf.length ≤ max) := by
  unfold handleDataFrame
  split
  · exact .inl rfl
  · simp only
    split
    · exact .inr (.inl rfl)
    · split
      · exact .inr (.inr (.inl (deliver_same ..)))
      · exact .inr (.inr (.inr ⟨rfl, by omega⟩))

/-- what every frame handler guarantees about the two buffers -/
def Bufs (max : Nat) (s : Sess) : Prop := s.buffer = [] ∧ s.fragBuf.length ≤ max

theorem handleDataFrame_bufs (max : Nat) (cb : Cbs) (s : Sess) (f : Frame) (h : Bufs max s) :
    Bufs max (handleDataFrame max cb s f).1 := by
  rcases handleDataFrame_cases max cb s f with h1 | h1 | h1 | ⟨h1, h2⟩
  · rw [h1]; exact h
  · rw [h1]; exact ⟨rfl, by simp⟩
  · obtain ⟨_, hb, hf, _⟩ := h1
    exact ⟨by rw [hb]; simpa using h.1, by rw [hf]; simp⟩
  · rw [h1]; exact ⟨by simpa using h.1, h2⟩

theorem handleFrame_bufs (max : Nat) (cb : Cbs) (s : Sess) (f : Frame) (h : Bufs max s) :
    Bufs max (handleFrame max cb s f).1 := by
  unfold handleFrame
  split
  · exact handleDataFrame_bufs max cb s f h
  · split
    · exact h
    · split
      · exact h
      · split
        · exact ⟨rfl, by simp [erase]⟩
        · simp only
          have h1 := fire_same (sendClose s 1002 (str "Unsupported opcode")).1 .onError cb.onError
          obtain ⟨_, hb, hf, _⟩ := h1
          exact ⟨by rw [hb]; exact h.1, by rw [hf]; exact h.2⟩

theorem handleFrame_buffer (max : Nat) (cb : Cbs) (s : Sess) (f : Frame) (h : s.buffer = []) :
    (handleFrame max cb s f).1.buffer = [] := by
  have hf : s.fragBuf.length ≤ s.fragBuf.length + max := by omega
  -- the buffer part of `Bufs` does not depend on the bound
  unfold handleFrame
  split
  · rcases handleDataFrame_cases max cb s f with h1 | h1 | h1 | ⟨h1, _⟩
    · rw [h1]; exact h
    · rw [h1]
    · rw [h1.2.1]; simpa using h
    · rw [h1]; simpa using h
  · split
    · exact h
    · split
      · exact h
      · split
        · rfl
        · simp only
          rw [(fire_same (sendClose s 1002 (str "Unsupported opcode")).1 .onError cb.onError).2.1]; exact h

theorem loop_bufs (max : Nat) (cb : Cbs) : ∀ (fuel : Nat) (s : Sess) (d : Bytes), d.length < fuel → Bufs max s →
    Bufs max (loop max cb fuel s d).1 ∧
    ∀ r, (loop max cb fuel s d).2.2 = some r → r.length < 14 + max := by
  intro fuel
  induction fuel with
  | zero => intro s d h; omega
  | succ fuel ih =>
    intro s d hf hb
    unfold loop
    split
    · rename_i he
      refine ⟨hb, ?_⟩
      intro r hr; cases hr
      simp at he; subst he; simp; omega
    · split
      · rename_i hp
        refine ⟨hb, ?_⟩
        intro r hr; cases hr
        exact parse_incomplete_short' max d hp
      · refine ⟨⟨rfl, by simp⟩, ?_⟩
        intro r hr; cases hr
      · refine ⟨⟨rfl, by simp⟩, ?_⟩
        intro r hr; cases hr
      · rename_i f n hp
        obtain ⟨h2, hnl, _, _⟩ := parse_frame_bounds max d f n hp
        have hl : (d.drop n).length < fuel := by simp [List.length_drop]; omega
        exact ih (handleFrame max cb s f).1 (d.drop n) hl (handleFrame_bufs max cb s f hb)

/-- the session-level invariant: the unparsed remainder is shorter than `14 + max`, the fragment buffer at most `max` -/
def Bounded (max : Nat) (s : Sess) : Prop := s.buffer.length < 14 + max ∧ s.fragBuf.length ≤ max

theorem onData_bounded (max : Nat) (cb : Cbs) (s : Sess) (data : Bytes) (h : Bounded max s) :
    Bounded max (onData max cb s data).1 := by
  unfold onData
  split
  · exact h
  · obtain ⟨h1, h2⟩ := loop_bufs max cb ((s.buffer ++ data).length + 1) { s with buffer := [] } (s.buffer ++ data) (by omega)
      ⟨rfl, h.2⟩
    simp only
    split
    · rename_i rest hr
      split
      · exact ⟨h2 rest hr, h1.2⟩
      · exact ⟨by rw [h1.1]; simp; omega, h1.2⟩
    · exact ⟨by rw [h1.1]; simp; omega, h1.2⟩

theorem sendStep_bounded (max : Nat) (s : Sess) (a : Send) (h : Bounded max s) : Bounded max (sendStep s a).1 := by
  obtain ⟨_, hb, hf, _⟩ := sendStep_same s a
  exact ⟨by rw [hb]; exact h.1, by rw [hf]; exact h.2⟩

theorem step_bounded (max : Nat) (cb : Cbs) (s : Sess) (op : AppOp) (h : Bounded max s) :
    Bounded max (step max cb s op).1 := by
  cases op with
  | data bs => exact onData_bounded max cb s bs h
  | sendClose c r => exact sendStep_bounded max s _ h
  | sendText bs => exact sendStep_bounded max s _ h
  | sendBinary bs => exact sendStep_bounded max s _ h
  | sendPing bs => exact sendStep_bounded max s _ h
  | transportClosed => exact ⟨by simp [step, erase]; omega, by simp [step, erase]⟩

theorem run_bounded (max : Nat) (cb : Cbs) : ∀ (ops : List AppOp) (s : Sess), Bounded max s →
    Bounded max (run max cb s ops).1 := by
  intro ops
  induction ops with
  | nil => intro s h; exact h
  | cons op ops ih => intro s h; simp only [run]; exact ih _ (step_bounded max cb s op h)

/-- the upgrade boundary: what was received with the upgrade request is handled exactly like a first read -/
theorem upgrade_bounded (max : Nat) (cb : Cbs) (t : Bytes) : Bounded max (upgrade max cb t).1 := by
  unfold upgrade
  simp only
  split
  · exact ⟨by simp; omega, by simp⟩
  · exact onData_bounded max cb {} t ⟨by simp; omega, by simp⟩

end Iora.Ws
