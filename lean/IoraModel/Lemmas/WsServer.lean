import IoraModel.Model.WsServer
import IoraModel.Lemmas.WsFrame
set_option linter.unusedSimpArgs false
set_option linter.unusedVariables false
/-! Helper lemmas about the WebSocket server session model. -/
namespace Iora.Ws
open Iora

/-- opcode carried by the first byte of bytes handed to the transport -/
def wireOpcode : Bytes → Option Nat
  | [] => none
  | b0 :: _ => some (b0.toNat % 16)

def isDataSend : Ev → Bool
  | .sent w => wireOpcode w = some 0 || wireOpcode w = some 1 || wireOpcode w = some 2
  | _ => false

def isCloseSend : Ev → Bool
  | .sent w => wireOpcode w = some 8
  | _ => false

theorem wireOpcode_serialize (f : Frame) (h : f.opcode < 16) : wireOpcode (serialize f) = some f.opcode := by
  obtain ⟨t, ht⟩ := serialize_head f
  rw [ht]
  simp only [wireOpcode, b8_toNat]
  exact congrArg some (hdr0 f.opcode f.fin h).1

@[simp] theorem wireOpcode_makeClose (c : Nat) (r : Bytes) : wireOpcode (serialize (makeClose c r)) = some 8 :=
  wireOpcode_serialize _ (by simp [makeClose])

@[simp] theorem wireOpcode_mkFrame (op : Nat) (fin : Bool) (pl : Bytes) (h : op < 16) :
    wireOpcode (serialize (mkFrame op fin pl)) = some op :=
  wireOpcode_serialize _ (by simpa [mkFrame] using h)

/-- the session can no longer emit data frames: close already sent, or session gone -/
def Closed (s : Sess) : Prop := s.closeSent = true ∨ s.alive = false

/-- no event of the list is a data-frame send -/
def NoData (evs : List Ev) : Prop := ∀ e ∈ evs, isDataSend e = false

/-- after a close-frame send, no data-frame send follows -/
def NoDataAfterClose : List Ev → Prop
  | [] => True
  | e :: rest => (isCloseSend e = true → NoData rest) ∧ NoDataAfterClose rest

theorem NoData_nil : NoData [] := by intro e h; cases h
theorem NoData_append {a b : List Ev} (ha : NoData a) (hb : NoData b) : NoData (a ++ b) := by
  intro e h
  rcases List.mem_append.mp h with h | h
  · exact ha e h
  · exact hb e h
theorem NoData_cons {e : Ev} {a : List Ev} (he : isDataSend e = false) (ha : NoData a) : NoData (e :: a) := by
  intro e' h
  rcases List.mem_cons.mp h with h | h
  · subst h; exact he
  · exact ha e' h

theorem NoDataAfterClose_of_NoData : ∀ evs : List Ev, NoData evs → NoDataAfterClose evs := by
  intro evs
  induction evs with
  | nil => intro _; trivial
  | cons e rest ih =>
    intro h
    have hr : NoData rest := fun e' h' => h e' (List.mem_cons_of_mem _ h')
    exact ⟨fun _ => hr, ih hr⟩

theorem NoDataAfterClose_append : ∀ (a b : List Ev), NoDataAfterClose a → NoDataAfterClose b →
    ((∃ e ∈ a, isCloseSend e = true) → NoData b) → NoDataAfterClose (a ++ b) := by
  intro a
  induction a with
  | nil => intro b _ hb _; simpa using hb
  | cons e rest ih =>
    intro b ha hb hc
    obtain ⟨h1, h2⟩ := ha
    refine ⟨?_, ih b h2 hb (fun ⟨e', he', hce⟩ => hc ⟨e', List.mem_cons_of_mem _ he', hce⟩)⟩
    intro hce
    exact NoData_append (h1 hce) (hc ⟨e, List.mem_cons_self .., hce⟩)

/-- `sendClose` emits exactly one close-frame send and leaves the session `Closed` -/
theorem sendClose_spec (s : Sess) (c : Nat) (r : Bytes) :
    NoData (sendClose s c r).2 ∧ Closed (sendClose s c r).1 ∧ (sendClose s c r).1.alive = s.alive := by
  refine ⟨?_, ?_, rfl⟩
  · intro e he
    simp only [sendClose, List.mem_singleton] at he
    subst he
    simp [isDataSend]
  · unfold Closed sendClose
    cases h : s.alive <;> simp [h]

theorem sendClose_closed_mono (s : Sess) (c : Nat) (r : Bytes) (h : Closed s) : Closed (sendClose s c r).1 :=
  (sendClose_spec s c r).2.1

end Iora.Ws

namespace Iora.Ws
open Iora

theorem NoData_iff (evs : List Ev) : NoData evs ↔ evs.all (fun e => !isDataSend e) = true := by
  simp [NoData]

theorem handleDataFrame_noData (max : Nat) (s : Sess) (f : Frame) : NoData (handleDataFrame max s f).2 := by
  rw [NoData_iff]
  unfold handleDataFrame sendClose
  simp only
  repeat' split
  all_goals simp [isDataSend]

theorem handleFrame_noData (max : Nat) (s : Sess) (f : Frame) : NoData (handleFrame max s f).2 := by
  unfold handleFrame
  split
  · exact handleDataFrame_noData max s f
  · rw [NoData_iff]
    unfold sendClose
    simp only
    repeat' split
    all_goals simp [isDataSend]

end Iora.Ws

namespace Iora.Ws
open Iora

def closedB (s : Sess) : Bool := s.closeSent || !s.alive
theorem closed_iff (s : Sess) : Closed s ↔ closedB s = true := by
  unfold Closed closedB; cases s.closeSent <;> cases s.alive <;> simp

theorem handleDataFrame_closed (max : Nat) (s : Sess) (f : Frame) (h : closedB s = true) :
    closedB (handleDataFrame max s f).1 = true := by
  unfold handleDataFrame sendClose
  unfold closedB at *
  simp only
  repeat' split
  all_goals simp_all

theorem handleDataFrame_close (max : Nat) (s : Sess) (f : Frame)
    (h : (handleDataFrame max s f).2.any isCloseSend = true) : closedB (handleDataFrame max s f).1 = true := by
  unfold handleDataFrame sendClose at *
  unfold closedB
  simp only at *
  repeat' split
  all_goals (repeat' split at h)
  all_goals simp_all [isCloseSend]

theorem handleFrame_closed (max : Nat) (s : Sess) (f : Frame) (h : closedB s = true) :
    closedB (handleFrame max s f).1 = true := by
  unfold handleFrame
  split
  · exact handleDataFrame_closed max s f h
  · unfold sendClose erase
    unfold closedB at *
    simp only
    repeat' split
    all_goals simp_all

theorem handleFrame_close (max : Nat) (s : Sess) (f : Frame)
    (h : (handleFrame max s f).2.any isCloseSend = true) : closedB (handleFrame max s f).1 = true := by
  unfold handleFrame at *
  split
  · rename_i hc; simp only [hc, ↓reduceIte] at h; exact handleDataFrame_close max s f h
  · rename_i hc
    simp only [hc] at h
    unfold sendClose erase at *
    unfold closedB
    simp only at *
    repeat' split
    all_goals (repeat' split at h)
    all_goals simp_all [isCloseSend]

end Iora.Ws

namespace Iora.Ws
open Iora

theorem any_append_close (a b : List Ev) : (a ++ b).any isCloseSend = (a.any isCloseSend || b.any isCloseSend) := by
  simp [List.any_append]

theorem loop_spec (max : Nat) : ∀ (fuel : Nat) (s : Sess) (d : Bytes),
    NoData (loop max fuel s d).2.1 ∧
    (closedB s = true → closedB (loop max fuel s d).1 = true) ∧
    ((loop max fuel s d).2.1.any isCloseSend = true → closedB (loop max fuel s d).1 = true) := by
  intro fuel
  induction fuel with
  | zero => intro s d; simp [loop, NoData]
  | succ fuel ih =>
    intro s d
    unfold loop
    split
    · simp [NoData]
    · split
      · simp [NoData]
      · -- protocolError
        refine ⟨?_, ?_, ?_⟩
        · rw [NoData_iff]; simp [sendClose, isDataSend]
        · intro _; simp [closedB, erase]
        · intro _; simp [closedB, erase]
      · refine ⟨?_, ?_, ?_⟩
        · rw [NoData_iff]; simp [sendClose, isDataSend]
        · intro _; simp [closedB, erase]
        · intro _; simp [closedB, erase]
      · rename_i f n hp
        obtain ⟨i1, i2, i3⟩ := ih (handleFrame max s f).1 (d.drop n)
        refine ⟨?_, ?_, ?_⟩
        · exact NoData_append (handleFrame_noData max s f) i1
        · intro h; exact i2 (handleFrame_closed max s f h)
        · intro h
          simp only [any_append_close, Bool.or_eq_true] at h
          rcases h with h | h
          · exact i2 (handleFrame_close max s f h)
          · exact i3 h

theorem onData_spec (max : Nat) (s : Sess) (data : Bytes) :
    NoData (onData max s data).2 ∧
    (closedB s = true → closedB (onData max s data).1 = true) ∧
    ((onData max s data).2.any isCloseSend = true → closedB (onData max s data).1 = true) := by
  unfold onData
  split
  · simp [NoData]
  · obtain ⟨i1, i2, i3⟩ := loop_spec max ((s.buffer ++ data).length + 1) { s with buffer := [] } (s.buffer ++ data)
    have hb : closedB { s with buffer := [] } = closedB s := rfl
    simp only
    split
    · rename_i rest hr
      refine ⟨i1, ?_, ?_⟩
      · intro h; have := i2 (hb ▸ h); split <;> simpa [closedB] using this
      · intro h; have := i3 h; split <;> simpa [closedB] using this
    · exact ⟨i1, fun h => i2 (hb ▸ h), i3⟩

theorem step_spec (max : Nat) (s : Sess) (op : AppOp) :
    (closedB s = true → NoData (step max s op).2) ∧
    (closedB s = true → closedB (step max s op).1 = true) ∧
    ((step max s op).2.any isCloseSend = true → closedB (step max s op).1 = true) ∧
    NoDataAfterClose (step max s op).2 := by
  cases op with
  | data bs =>
    obtain ⟨i1, i2, i3⟩ := onData_spec max s bs
    exact ⟨fun _ => i1, i2, i3, NoDataAfterClose_of_NoData _ i1⟩
  | sendClose c r =>
    have := sendClose_spec s c r
    refine ⟨fun _ => this.1, fun _ => (closed_iff _).mp this.2.1, fun _ => (closed_iff _).mp this.2.1,
      NoDataAfterClose_of_NoData _ this.1⟩
  | sendText bs =>
    simp only [step, appSend]
    refine ⟨?_, ?_, ?_, ?_⟩
    · intro h; unfold closedB at h; split <;> simp_all [NoData]
    · intro h; split <;> exact h
    · intro h; split at h <;> simp_all [isCloseSend]
    · split <;> simp [NoDataAfterClose, NoData]
  | sendBinary bs =>
    simp only [step, appSend]
    refine ⟨?_, ?_, ?_, ?_⟩
    · intro h; unfold closedB at h; split <;> simp_all [NoData]
    · intro h; split <;> exact h
    · intro h; split at h <;> simp_all [isCloseSend]
    · split <;> simp [NoDataAfterClose, NoData]
  | sendPing bs =>
    simp only [step, appSend]
    refine ⟨?_, ?_, ?_, ?_⟩
    · intro h; unfold closedB at h; split <;> simp_all [NoData]
    · intro h; split <;> exact h
    · intro h; split at h <;> simp_all [isCloseSend]
    · split <;> simp [NoDataAfterClose, NoData]

/-- For every operation history: after a close frame has been handed to the transport, no data frame follows. -/
theorem run_noDataAfterClose (max : Nat) : ∀ (ops : List AppOp) (s : Sess),
    (closedB s = true → NoData (run max s ops).2) ∧ NoDataAfterClose (run max s ops).2 := by
  intro ops
  induction ops with
  | nil => intro s; simp [run, NoData, NoDataAfterClose]
  | cons op ops ih =>
    intro s
    obtain ⟨j1, j2, j3, j4⟩ := step_spec max s op
    obtain ⟨k1, k2⟩ := ih (step max s op).1
    simp only [run]
    refine ⟨?_, ?_⟩
    · intro h; exact NoData_append (j1 h) (k1 (j2 h))
    · apply NoDataAfterClose_append _ _ j4 k2
      intro ⟨e, he, hce⟩
      apply k1
      apply j3
      simp only [List.any_eq_true]
      exact ⟨e, he, hce⟩

end Iora.Ws

namespace Iora.Ws
open Iora

/-- an incomplete buffer is short, for ARBITRARY bytes (an RSV-flagged buffer of ≥ 2 bytes is never "incomplete") -/
theorem parse_incomplete_short' (max : Nat) (d : Bytes) (h : parse max d = .incomplete) : d.length < 14 + max := by
  match d with
  | [] => simp; omega
  | [_] => simp; omega
  | b0 :: b1 :: rest =>
    by_cases hr : (b0.toNat / 16) % 8 = 0
    · exact parse_incomplete_short max (b0 :: b1 :: rest) hr h
    · simp [parse, hr] at h

theorem handleFrame_buffer (max : Nat) (s : Sess) (f : Frame) (h : s.buffer = []) :
    (handleFrame max s f).1.buffer = [] := by
  unfold handleFrame handleDataFrame sendClose erase
  simp only
  repeat' split
  all_goals simp_all

theorem loop_rest (max : Nat) : ∀ (fuel : Nat) (s : Sess) (d : Bytes), d.length < fuel → s.buffer = [] →
    (loop max fuel s d).1.buffer = [] ∧
    ∀ r, (loop max fuel s d).2.2 = some r → r.length < 14 + max := by
  intro fuel
  induction fuel with
  | zero => intro s d h; omega
  | succ fuel ih =>
    intro s d hf hb
    unfold loop
    split
    · rename_i he
      refine ⟨hb, ?_⟩
      intro r hr; cases hr
      simp at he; subst he; simp; omega
    · split
      · rename_i hp
        refine ⟨hb, ?_⟩
        intro r hr; cases hr
        exact parse_incomplete_short' max d hp
      · refine ⟨by simp [erase], ?_⟩
        intro r hr; cases hr
      · refine ⟨by simp [erase], ?_⟩
        intro r hr; cases hr
      · rename_i f n hp
        obtain ⟨h2, hnl, _, _⟩ := parse_frame_bounds max d f n hp
        have hl : (d.drop n).length < fuel := by simp [List.length_drop]; omega
        exact ih (handleFrame max s f).1 (d.drop n) hl (handleFrame_buffer max s f hb)

theorem onData_buffer (max : Nat) (s : Sess) (data : Bytes) (h : s.buffer.length < 14 + max) :
    (onData max s data).1.buffer.length < 14 + max := by
  unfold onData
  split
  · exact h
  · obtain ⟨h1, h2⟩ := loop_rest max ((s.buffer ++ data).length + 1) { s with buffer := [] } (s.buffer ++ data) (by omega) rfl
    simp only
    split
    · rename_i rest hr
      split
      · exact h2 rest hr
      · rw [h1]; simp; omega
    · rw [h1]; simp; omega

theorem step_buffer (max : Nat) (s : Sess) (op : AppOp) (h : s.buffer.length < 14 + max) :
    (step max s op).1.buffer.length < 14 + max := by
  cases op with
  | data bs => exact onData_buffer max s bs h
  | sendClose c r => exact h
  | sendText bs => simp only [step, appSend]; split <;> exact h
  | sendBinary bs => simp only [step, appSend]; split <;> exact h
  | sendPing bs => simp only [step, appSend]; split <;> exact h

theorem run_buffer (max : Nat) : ∀ (ops : List AppOp) (s : Sess), s.buffer.length < 14 + max →
    (run max s ops).1.buffer.length < 14 + max := by
  intro ops
  induction ops with
  | nil => intro s h; exact h
  | cons op ops ih => intro s h; simp only [run]; exact ih _ (step_buffer max s op h)

end Iora.Ws
