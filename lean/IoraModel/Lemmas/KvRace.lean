import IoraModel.Model.KvRace
/-!
# `get()` on a cache miss ∥ one writer: cache coherence for every schedule (and its refutation for the other lock scope)
-/
namespace Iora.Kv.Race
open Iora Iora.Kv

/-- the inductive invariant, for the lock scopes of the working tree (both facts `true`) -/
structure Inv (sh : Shape) (o : WOp) (s : St) : Prop where
  /-- `_mutex`: never a shared and an exclusive holder at once -/
  muEx : ¬ (rHoldsMu sh s.r = true ∧ wHoldsMu sh s.w = true)
  /-- `_cacheMutex`: never two exclusive holders -/
  cEx : ¬ (rHoldsC s.r = true ∧ wHoldsC s.w = true)
  nr : s.r ≠ .released
  nw : s.w ≠ .released
  /-- the reader's locals are what `_kv` holds, as long as it keeps its shared hold -/
  tmpOk : (s.r = .loaded ∨ s.r = .hasC ∨ s.r = .wrote ∨ s.r = .relC) → s.tmp = s.kv
  /-- once the writer has stored, `_kv` holds what it stored -/
  wk : (s.w = .wroteKv ∨ s.w = .hasC ∨ s.w = .wroteC ∨ s.w = .relC ∨ s.w = .done) → s.kv = o.kv
  /-- the cache entry is coherent, except between the writer's two assignments (it then holds `_mutex` exclusively) -/
  coh : (s.w = .wroteKv ∨ s.w = .hasC) ∨ s.Coherent

theorem inv_init (sh : Shape) (o : WOp) (kv cache : Option Ent) (h0 : cache = none ∨ cache = kv) :
    Inv sh o (St.init kv cache) where
  muEx := by simp [St.init, rHoldsMu]
  cEx := by simp [St.init, rHoldsC]
  nr := by simp [St.init]
  nw := by simp [St.init]
  tmpOk := by simp [St.init]
  wk := by simp [St.init]
  coh := Or.inr h0

theorem inv_stepR (sh : Shape) (h1 : sh.refillUnderStoreLock = true) (h2 : sh.writerCacheUnderStoreLock = true)
    (fresh : Ent → Bool) (o : WOp) (s : St) (hi : Inv sh o s) : Inv sh o (stepR sh fresh s) := by
  have _ := h2
  obtain ⟨muEx, cEx, nr, nw, tmpOk, wk, coh⟩ := hi
  unfold stepR
  cases hr : s.r with
  | start =>
    simp only
    cases hw : wHoldsMu sh s.w with
    | true => simp only [if_true]; exact ⟨muEx, cEx, nr, nw, tmpOk, wk, coh⟩
    | false =>
      simp only [Bool.false_eq_true, if_false]
      exact ⟨by simp [hw], by simp [rHoldsC], by simp, nw, by simp, wk, coh⟩
  | hasS =>
    simp only
    cases hk : s.kv with
    | none => exact ⟨by simp [rHoldsMu], by simp [rHoldsC], by simp, nw, by simp, by simpa [hk] using wk, by simpa [St.Coherent, hk] using coh⟩
    | some e =>
      simp only
      cases fresh e with
      | false =>
        simp only [Bool.false_eq_true, if_false]
        exact ⟨by simp [rHoldsMu], by simp [rHoldsC], by simp, nw, by simp, by simpa [hk] using wk, by simpa [St.Coherent, hk] using coh⟩
      | true =>
        simp only [if_true]
        refine ⟨?_, by simp [rHoldsC], by simp, nw, by simp, by simpa [hk] using wk, by simpa [St.Coherent, hk] using coh⟩
        simpa [rHoldsMu, hr] using muEx
  | loaded =>
    simp only [h1, if_true]
    cases hw : wHoldsC s.w with
    | true => simp only [if_true]; exact ⟨muEx, cEx, nr, nw, tmpOk, wk, coh⟩
    | false =>
      simp only [Bool.false_eq_true, if_false]
      refine ⟨?_, by simp [hw], by simp, nw, fun _ => tmpOk (Or.inl hr), wk, coh⟩
      simpa [rHoldsMu, hr, h1] using muEx
  | released => exact absurd hr nr
  | hasC =>
    simp only
    have ht := tmpOk (Or.inr (Or.inl hr))
    have hmu : wHoldsMu sh s.w = false := by
      cases h : wHoldsMu sh s.w with
      | false => rfl
      | true => exact absurd ⟨by simp [rHoldsMu, hr, h1], h⟩ muEx
    refine ⟨by simpa [rHoldsMu, hr, h1] using muEx, ?_, by simp, nw, fun _ => ht, wk, ?_⟩
    · simpa [rHoldsC, hr] using cEx
    · right; right; exact ht
  | wrote =>
    simp only
    refine ⟨by simpa [rHoldsMu, hr, h1] using muEx, by simp [rHoldsC], by simp, nw, fun _ => tmpOk (Or.inr (Or.inr (Or.inl hr))), wk, coh⟩
  | relC =>
    simp only
    exact ⟨by simp [rHoldsMu], by simp [rHoldsC], by simp, nw, by simp, wk, coh⟩
  | done => simp only; exact ⟨muEx, cEx, nr, nw, tmpOk, wk, coh⟩

theorem inv_stepW (sh : Shape) (h1 : sh.refillUnderStoreLock = true) (h2 : sh.writerCacheUnderStoreLock = true)
    (o : WOp) (ho : o.OK) (s : St) (hi : Inv sh o s) : Inv sh o (stepW sh o s) := by
  obtain ⟨muEx, cEx, nr, nw, tmpOk, wk, coh⟩ := hi
  -- the reader is outside its shared hold whenever the writer holds `_mutex`
  have rOut : wHoldsMu sh s.w = true → ¬ (s.r = .loaded ∨ s.r = .hasC ∨ s.r = .wrote ∨ s.r = .relC) := by
    intro hw hr
    apply muEx
    refine ⟨?_, hw⟩
    rcases hr with h | h | h | h <;> simp [rHoldsMu, h, h1]
  unfold stepW
  cases hw : s.w with
  | start =>
    simp only
    cases hr : rHoldsMu sh s.r with
    | true => simp only [if_true]; exact ⟨muEx, cEx, nr, nw, tmpOk, wk, coh⟩
    | false =>
      simp only [Bool.false_eq_true, if_false]
      refine ⟨by simp [hr], by simp [wHoldsC], nr, by simp, tmpOk, by simp, ?_⟩
      rcases coh with h | h
      · rw [hw] at h; simp at h
      · exact Or.inr h
  | hasX =>
    simp only
    have hout := rOut (by simp [wHoldsMu, hw])
    refine ⟨by simpa [wHoldsMu, hw] using muEx, by simp [wHoldsC], nr, by simp, fun h => absurd h hout, by simp, Or.inl (Or.inl rfl)⟩
  | wroteKv =>
    simp only [h2, if_true]
    cases hr : rHoldsC s.r with
    | true => simp only [if_true]; exact ⟨muEx, cEx, nr, nw, tmpOk, wk, coh⟩
    | false =>
      simp only [Bool.false_eq_true, if_false]
      refine ⟨by simpa [wHoldsMu, hw, h2] using muEx, by simp [hr], nr, by simp, tmpOk, fun _ => wk (Or.inl hw), Or.inl (Or.inr rfl)⟩
  | released => exact absurd hw nw
  | hasC =>
    simp only
    have hk := wk (Or.inr (Or.inl hw))
    refine ⟨by simpa [wHoldsMu, hw, h2] using muEx, by simpa [wHoldsC, hw] using cEx, nr, by simp, tmpOk, fun _ => hk, ?_⟩
    right
    show o.cache = none ∨ o.cache = s.kv
    rw [hk]; exact ho
  | wroteC =>
    simp only
    refine ⟨by simpa [wHoldsMu, hw, h2] using muEx, by simp [wHoldsC], nr, by simp, tmpOk, fun _ => wk (Or.inr (Or.inr (Or.inl hw))), ?_⟩
    rcases coh with h | h
    · rw [hw] at h; simp at h
    · exact Or.inr h
  | relC =>
    simp only
    refine ⟨by simp [wHoldsMu], by simp [wHoldsC], nr, by simp, tmpOk, fun _ => wk (Or.inr (Or.inr (Or.inr (Or.inl hw)))), ?_⟩
    rcases coh with h | h
    · rw [hw] at h; simp at h
    · exact Or.inr h
  | done =>
    simp only
    exact ⟨muEx, cEx, nr, nw, tmpOk, wk, coh⟩

theorem inv_run (sh : Shape) (h1 : sh.refillUnderStoreLock = true) (h2 : sh.writerCacheUnderStoreLock = true)
    (fresh : Ent → Bool) (o : WOp) (ho : o.OK) (sched : List Bool) :
    ∀ s : St, Inv sh o s → Inv sh o (run sh fresh o s sched) := by
  induction sched with
  | nil => intro s hi; exact hi
  | cons t rest ih =>
    intro s hi
    unfold run
    simp only [List.foldl_cons]
    cases t with
    | true => exact ih _ (inv_stepR sh h1 h2 fresh o s hi)
    | false => exact ih _ (inv_stepW sh h1 h2 o ho s hi)

/-- **cache coherence for every schedule.**  With the refill under the store lock and the writers' cache update under
the store lock: whatever the key held, whatever the writer stores, however the steps of `get()`'s miss path and of the
writer are interleaved, and wherever the schedule stops, the cache entry of the key is absent or exactly the stored entry
— except between the writer's two assignments, which no `get()` refill can observe.  In particular after both calls have
returned; and `_kv` then holds what the writer stored. -/
theorem race_coherent (sh : Shape) (h1 : sh.refillUnderStoreLock = true) (h2 : sh.writerCacheUnderStoreLock = true)
    (fresh : Ent → Bool) (o : WOp) (ho : o.OK) (kv cache : Option Ent) (h0 : cache = none ∨ cache = kv) (sched : List Bool) :
    let s := run sh fresh o (St.init kv cache) sched
    ((s.w ≠ .wroteKv ∧ s.w ≠ .hasC) → s.Coherent) ∧ (s.w = .done → s.kv = o.kv) := by
  intro s
  have hi := inv_run sh h1 h2 fresh o ho sched _ (inv_init sh o kv cache h0)
  refine ⟨fun hne => ?_, fun hd => hi.wk (Or.inr (Or.inr (Or.inr (Or.inr hd))))⟩
  rcases hi.coh with h | h
  · rcases h with h | h
    · exact absurd h hne.1
    · exact absurd h hne.2
  · exact h

/-- **no deadlock**: in every reachable state in which a call has not returned yet, at least one thread can move -/
theorem race_no_deadlock (sh : Shape) (h1 : sh.refillUnderStoreLock = true) (h2 : sh.writerCacheUnderStoreLock = true)
    (fresh : Ent → Bool) (o : WOp) (s : St) (hi : Inv sh o s) (hnd : ¬ (s.r = .done ∧ s.w = .done)) :
    (stepR sh fresh s).r ≠ s.r ∨ (stepW sh o s).w ≠ s.w := by
  have muEx := hi.muEx
  have cEx := hi.cEx
  have nr := hi.nr
  have nw := hi.nw
  clear hi
  unfold stepR stepW
  cases hr : s.r <;> cases hw : s.w <;>
    simp_all [rHoldsMu, rHoldsC, wHoldsMu, wHoldsC]
  all_goals (split <;> (try split) <;> simp)

/-- every call returns: the schedule "reader to the end, then writer to the end" terminates from every initial state -/
theorem race_terminates (sh : Shape) (h1 : sh.refillUnderStoreLock = true) (h2 : sh.writerCacheUnderStoreLock = true)
    (fresh : Ent → Bool) (o : WOp) (kv cache : Option Ent) :
    let s := run sh fresh o (St.init kv cache) (List.replicate 7 true ++ List.replicate 7 false)
    s.r = .done ∧ s.w = .done := by
  cases kv with
  | none => simp [run, St.init, stepR, stepW, rHoldsMu, rHoldsC, wHoldsMu, wHoldsC, h1, h2, List.replicate]
  | some e =>
    cases hf : fresh e <;>
      simp [run, St.init, stepR, stepW, rHoldsMu, rHoldsC, wHoldsMu, wHoldsC, h1, h2, hf, List.replicate]

/-- **the other lock scope is refuted.**  If `get()` gives `_mutex` back before it refills the cache (`refillUnderStoreLock
= false`), there is a schedule — reader up to the release, the whole `remove`, the rest of the reader — after which both
calls have returned, the key is gone from `_kv` and the cache still serves its old value: the property fails. -/
theorem race_refuted :
    ∃ (o : WOp) (kv : Option Ent) (sched : List Bool), o.OK ∧
      let s := run { refillUnderStoreLock := false, writerCacheUnderStoreLock := true } (fun _ => true) o (St.init kv none) sched
      s.r = .done ∧ s.w = .done ∧ s.kv = none ∧ s.cache = kv ∧ kv ≠ none ∧ ¬ s.Coherent := by
  refine ⟨{ kv := none, cache := none }, some ([1], none),
    [true, true, true, false, false, false, false, false, false, false, true, true, true, true], Or.inl rfl, ?_⟩
  simp [run, St.init, stepR, stepW, rHoldsMu, rHoldsC, wHoldsMu, wHoldsC, St.Coherent]

end Iora.Kv.Race
