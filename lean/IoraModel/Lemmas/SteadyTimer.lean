import IoraModel.Model.SteadyTimer
import IoraModel.Lemmas.TimerService
/-! Lemmas for `Model/SteadyTimer.lean`: after `cancel() = true` the user's handler of that arm never starts. -/
namespace Iora.Steady
open Iora.Tsvc

/-! ### `_nextId` never decreases -/

theorem nextId_mono (L : Limits) (s : Svc) (op : Tsvc.Op) : s.nextId ≤ (Tsvc.step L s op).1.nextId := by
  cases op with
  | schedAt now tp =>
    simp only [Tsvc.step, scheduleAt]
    repeat' split
    all_goals simp
  | schedPer now iv =>
    simp only [Tsvc.step, schedulePeriodic]
    repeat' split
    all_goals simp
  | cancel id =>
    simp only [Tsvc.step, Tsvc.cancel, Tsvc.cancelWith]
    split <;> simp
  | collect now ax =>
    simp only [Tsvc.step, collect]
    split <;> simp
  | hstart =>
    simp only [Tsvc.step, hstart]
    repeat' split
    all_goals simp
  | hend =>
    simp only [Tsvc.step, hend]
    split <;> simp
  | loopExit =>
    simp only [Tsvc.step, loopExit]
    split <;> simp
  | drainGate =>
    simp only [Tsvc.step, drainGate]
    split <;> simp
  | drainSweep now t =>
    simp only [Tsvc.step, drainSweep]
    repeat' split
    all_goals simp
  | drainDone =>
    simp only [Tsvc.step, drainDone]
    split <;> simp
  | drainTimeout =>
    simp only [Tsvc.step, drainTimeout]
    split <;> simp
  | drainRestore =>
    simp only [Tsvc.step, drainRestore]
    repeat' split
    all_goals simp
  | stopFlag =>
    simp only [Tsvc.step, stopFlag]
    split <;> simp
  | stopHalt =>
    simp only [Tsvc.step, stopHalt]
    split <;> simp
  | stopFinish =>
    simp only [Tsvc.step, stopFinish]
    split <;> simp

theorem cancel_nextId0 (s : Svc) (id : Nat) : (Tsvc.cancel s id).1.nextId = s.nextId := by
  simp only [Tsvc.cancel, Tsvc.cancelWith]
  split <;> rfl

/-- a successful `scheduleAt` hands out `_nextId + 1` and stores it -/
theorem scheduleAt_id (L : Limits) (s : Svc) (now tp : Int) (h : (scheduleAt L s now tp).2 ≠ 0) :
    (scheduleAt L s now tp).2 = s.nextId + 1 ∧ (scheduleAt L s now tp).1.nextId = s.nextId + 1 := by
  unfold scheduleAt at h ⊢
  by_cases h1 : (!s.accepting) = true
  · simp [h1] at h
  · by_cases h2 : tp - now > L.maxTimeoutNs
    · simp [h2] at h
    · by_cases h3 : s.records.length ≥ L.maxTimers
      · simp [h3] at h
      · simp [h1, h2, h3]

theorem scheduleAt_mono (L : Limits) (s : Svc) (now tp : Int) : s.nextId ≤ (scheduleAt L s now tp).1.nextId := by
  have := nextId_mono L s (.schedAt now tp)
  simpa [Tsvc.step] using this

/-! ### the arm table -/

theorem armState_cons_ne (arms : List (Nat × Sh)) (k tok : Nat) (v : Sh) (h : k ≠ tok) :
    armState ((k, v) :: arms) tok = armState arms tok := by
  have : (k == tok) = false := by simpa using h
  simp [armState, List.find?, this]

theorem armState_setArm_ne : ∀ (arms : List (Nat × Sh)) (k tok : Nat) (v : Sh), k ≠ tok → armState (setArm arms k v) tok = armState arms tok
  | [], _, _, _, _ => rfl
  | a :: arms, k, tok, v, h => by
    have ih := armState_setArm_ne arms k tok v h
    unfold armState at ih ⊢
    unfold setArm at ih ⊢
    simp only [List.map_cons, List.find?]
    by_cases ha : a.1 = k
    · have hk : (a.1 == k) = true := by simpa using ha
      have hne : (a.1 == tok) = false := by
        have : a.1 ≠ tok := by rw [ha]; exact h
        simpa using this
      simp only [hk, if_true, hne]
      exact ih
    · have hk : (a.1 == k) = false := by simpa using ha
      simp only [hk, Bool.false_eq_true, if_false]
      cases hq : (a.1 == tok)
      · exact ih
      · rfl

theorem armState_setArm_same : ∀ (arms : List (Nat × Sh)) (tok : Nat) (v x : Sh),
    armState arms tok = some x → armState (setArm arms tok v) tok = some v
  | [], _, _, _, h => by simp [armState] at h
  | a :: arms, tok, v, x, h => by
    unfold armState at h ⊢
    unfold setArm
    simp only [List.map_cons, List.find?] at h ⊢
    by_cases ha : a.1 = tok
    · have hk : (a.1 == tok) = true := by simpa using ha
      simp [hk]
    · have hk : (a.1 == tok) = false := by simpa using ha
      simp only [hk, Bool.false_eq_true, if_false] at h ⊢
      exact armState_setArm_same arms tok v x h

theorem armState_of_key : ∀ (arms : List (Nat × Sh)) (tok : Nat), tok ∈ arms.map (·.1) → ∃ x, armState arms tok = some x
  | [], _, h => by simp at h
  | a :: arms, tok, h => by
    unfold armState
    simp only [List.find?]
    by_cases ha : a.1 = tok
    · have hk : (a.1 == tok) = true := by simpa using ha
      exact ⟨a.2, by simp [hk]⟩
    · have hk : (a.1 == tok) = false := by simpa using ha
      simp only [hk]
      simp only [List.map_cons, List.mem_cons] at h
      rcases h with h | h
      · exact absurd h.symm ha
      · exact armState_of_key arms tok h

theorem keys_setArm (arms : List (Nat × Sh)) (k : Nat) (v : Sh) : (setArm arms k v).map (·.1) = arms.map (·.1) := by
  unfold setArm
  rw [List.map_map]
  apply List.map_congr_left
  intro a _
  simp only [Function.comp]
  split <;> rfl

theorem wrapperStart_keys (arms : List (Nat × Sh)) (tok : Nat) : (wrapperStart arms tok).1.map (·.1) = arms.map (·.1) := by
  unfold wrapperStart
  split
  · exact keys_setArm _ _ _
  · rfl
  · rfl

/-! ### `cancel` -/

theorem cancel_s (l : Lay) (i : Nat) (b : Bool) :
    (cancelWith b l i).1.s = (match getTok l i with | some tok => (Tsvc.cancel l.s tok).1 | none => l.s) := by
  cases hq : getTok l i <;> simp [cancelWith, hq]

theorem cancel_keys (l : Lay) (i : Nat) (b : Bool) : (cancelWith b l i).1.arms.map (·.1) = l.arms.map (·.1) := by
  cases hq : getTok l i
  · simp [cancelWith, hq]
  · simp only [cancelWith, hq]
    split
    · exact keys_setArm _ _ _
    · rfl

theorem cancel_nextId (l : Lay) (i : Nat) (b : Bool) : (cancelWith b l i).1.s.nextId = l.s.nextId := by
  rw [cancel_s]
  split
  · exact cancel_nextId0 _ _
  · rfl

theorem cancel_armState_gone (l : Lay) (i tok : Nat) (b : Bool) (h : armState l.arms tok = some .cancelled) :
    armState (cancelWith b l i).1.arms tok = some .cancelled := by
  cases hq : getTok l i with
  | none => simpa [cancelWith, hq] using h
  | some tk =>
    simp only [cancelWith, hq]
    split
    · rename_i hs
      by_cases he : tk = tok
      · subst he
        rw [h] at hs
        simp at hs
      · rw [armState_setArm_ne _ _ _ _ he]; exact h
    · exact h

/-- keys of the arm table are bounded by `_nextId`: a new id is fresh -/
def KB (l : Lay) : Prop := ∀ k ∈ l.arms.map (·.1), k ≤ l.s.nextId

theorem kb_cancel (l : Lay) (i : Nat) (b : Bool) (k : KB l) : KB (cancelWith b l i).1 := by
  intro x hx
  rw [cancel_keys] at hx
  rw [cancel_nextId]
  exact k x hx

theorem kb_armAfter (L : Limits) (l1 : Lay) (i : Nat) (now tp : Int) (k1 : KB l1) : KB (armAfter L l1 i now tp).1 := by
  unfold armAfter
  split
  · intro x hx
    exact Nat.le_trans (k1 x hx) (scheduleAt_mono L l1.s now tp)
  · rename_i h0
    obtain ⟨h1, h2⟩ := scheduleAt_id L l1.s now tp h0
    intro x hx
    simp only [List.map_cons, List.mem_cons] at hx
    show x ≤ (scheduleAt L l1.s now tp).1.nextId
    rw [h2]
    rcases hx with hx | hx
    · rw [hx, h1]; exact Nat.le_refl _
    · exact Nat.le_succ_of_le (k1 x hx)

theorem kb_step (L : Limits) (l : Lay) (op : Op) (k : KB l) : KB (step L l op).1 := by
  cases op with
  | svc sop =>
    simp only [step]
    have hm := nextId_mono L l.s sop
    cases hq : startedId (Tsvc.step L l.s sop).2 with
    | none => intro x hx; exact Nat.le_trans (k x hx) hm
    | some id =>
      intro x hx
      simp only at hx
      rw [wrapperStart_keys] at hx
      exact Nat.le_trans (k x hx) hm
  | sat i now tp => exact kb_armAfter L _ i now tp (kb_cancel l i _ k)
  | scancel i => exact kb_cancel l i _ k

/-! ### the two ways a `cancel() = true` kills an arm -/

/-- the arm's shared state is `Canceled` (absorbing), and new ids are fresh with respect to every arm key -/
structure Gone (tok : Nat) (l : Lay) : Prop where
  st : armState l.arms tok = some .cancelled
  le : tok ≤ l.s.nextId
  kb : KB l

theorem gone_cancel (tok : Nat) (l : Lay) (i : Nat) (b : Bool) (g : Gone tok l) : Gone tok (cancelWith b l i).1 :=
  ⟨cancel_armState_gone l i tok b g.st, by rw [cancel_nextId]; exact g.le, kb_cancel l i b g.kb⟩

theorem gone_armAfter (L : Limits) (tok : Nat) (l1 : Lay) (i : Nat) (now tp : Int) (g : Gone tok l1) : Gone tok (armAfter L l1 i now tp).1 := by
  have kb' := kb_armAfter L l1 i now tp g.kb
  have hm := scheduleAt_mono L l1.s now tp
  unfold armAfter at kb' ⊢
  split
  · rename_i h0
    simp only [h0, if_true] at kb'
    exact ⟨g.st, Nat.le_trans g.le hm, kb'⟩
  · rename_i h0
    simp only [h0, if_false] at kb'
    obtain ⟨h1, h2⟩ := scheduleAt_id L l1.s now tp h0
    refine ⟨?_, Nat.le_trans g.le hm, kb'⟩
    show armState (((scheduleAt L l1.s now tp).2, Sh.armed) :: l1.arms) tok = some .cancelled
    rw [armState_cons_ne _ _ _ _ (by have := g.le; omega)]
    exact g.st

theorem userStartedOf_svc (op : Op) (o : Tsvc.Out) : userStartedOf (op, Out.svc o) = [] := rfl
theorem userStartedOf_id (op : Op) (n : Nat) : userStartedOf (op, Out.id n) = [] := rfl
theorem userStartedOf_bool (op : Op) (b : Bool) : userStartedOf (op, Out.bool b) = [] := rfl
theorem userStartedOf_hstart (op : Op) (id : Nat) (b : Bool) : userStartedOf (op, Out.hstart id b) = if b then [id] else [] := by
  cases b <;> rfl

theorem gone_step (L : Limits) (tok : Nat) (l : Lay) (op : Op) (g : Gone tok l) :
    Gone tok (step L l op).1 ∧ tok ∉ userStartedOf (op, (step L l op).2) := by
  cases op with
  | svc sop =>
    have kb' := kb_step L l (.svc sop) g.kb
    have hm := nextId_mono L l.s sop
    simp only [step] at kb' ⊢
    cases hq : startedId (Tsvc.step L l.s sop).2 with
    | none =>
      simp only [hq] at kb'
      exact ⟨⟨g.st, Nat.le_trans g.le hm, kb'⟩, by simp [userStartedOf_svc]⟩
    | some id =>
      simp only [hq] at kb'
      by_cases he : id = tok
      · have hw : wrapperStart l.arms id = (l.arms, false) := by
          unfold wrapperStart
          rw [he, g.st]
        simp only [hw] at kb' ⊢
        exact ⟨⟨g.st, Nat.le_trans g.le hm, kb'⟩, by rw [userStartedOf_hstart]; simp⟩
      · refine ⟨⟨?_, Nat.le_trans g.le hm, kb'⟩, ?_⟩
        · show armState (wrapperStart l.arms id).1 tok = some .cancelled
          unfold wrapperStart
          split
          · rw [armState_setArm_ne _ _ _ _ he]; exact g.st
          · exact g.st
          · exact g.st
        · show tok ∉ userStartedOf (Op.svc sop, Out.hstart id (wrapperStart l.arms id).2)
          rw [userStartedOf_hstart]
          cases (wrapperStart l.arms id).2
          · simp
          · simp only [if_true, List.mem_singleton]
            exact fun hc => he hc.symm
  | sat i now tp =>
    exact ⟨gone_armAfter L tok _ i now tp (gone_cancel tok l i _ g), by simp [step, userStartedOf_id]⟩
  | scancel i =>
    exact ⟨gone_cancel tok l i _ g, by simp [step, userStartedOf_bool]⟩

/-- the service-level cancel answered `true`: no record of the id can ever start -/
structure Dead' (tok : Nat) (l : Lay) : Prop where
  d : Dead tok l.s
  le : tok ≤ l.s.nextId

theorem dead_cancel (L : Limits) (tok : Nat) (l : Lay) (i : Nat) (b : Bool) (g : Dead' tok l) : Dead' tok (cancelWith b l i).1 := by
  have : Dead tok (cancelWith b l i).1.s ∧ tok ≤ (cancelWith b l i).1.s.nextId := by
    rw [cancel_s]
    split
    · rename_i tk _
      obtain ⟨d1, d2, _⟩ := dead_step L tok l.s (.cancel tk) g.d g.le
      exact ⟨by simpa [Tsvc.step] using d1, by simpa [Tsvc.step] using d2⟩
    · exact ⟨g.d, g.le⟩
  exact ⟨this.1, this.2⟩

theorem dead_armAfter (L : Limits) (tok : Nat) (l1 : Lay) (i : Nat) (now tp : Int) (g : Dead' tok l1) : Dead' tok (armAfter L l1 i now tp).1 := by
  obtain ⟨d1, d2, _⟩ := dead_step L tok l1.s (.schedAt now tp) g.d g.le
  simp only [Tsvc.step] at d1 d2
  unfold armAfter
  split <;> exact ⟨d1, d2⟩

theorem startedId_some {o : Tsvc.Out} {id : Nat} (h : startedId o = some id) : ∃ hd, o = .start (.started hd) ∧ hd.id = id := by
  unfold startedId at h
  split at h
  · rename_i hd
    exact ⟨hd, rfl, by simpa using h⟩
  · cases h

theorem dead_step' (L : Limits) (tok : Nat) (l : Lay) (op : Op) (g : Dead' tok l) :
    Dead' tok (step L l op).1 ∧ tok ∉ userStartedOf (op, (step L l op).2) := by
  cases op with
  | svc sop =>
    obtain ⟨d1, d2, d3⟩ := dead_step L tok l.s sop g.d g.le
    simp only [step]
    cases hq : startedId (Tsvc.step L l.s sop).2 with
    | none => exact ⟨⟨d1, d2⟩, by simp [userStartedOf_svc]⟩
    | some id =>
      refine ⟨⟨d1, d2⟩, ?_⟩
      obtain ⟨hd, ho, hid⟩ := startedId_some hq
      have : hd ∈ startedOf (sop, (Tsvc.step L l.s sop).2) := by rw [ho]; simp [startedOf]
      have hne := d3 hd this
      show tok ∉ userStartedOf (Op.svc sop, Out.hstart id (wrapperStart l.arms id).2)
      rw [userStartedOf_hstart]
      cases (wrapperStart l.arms id).2
      · simp
      · simp only [if_true, List.mem_singleton]
        intro hc; exact hne (by rw [hid]; exact hc.symm)
  | sat i now tp =>
    exact ⟨dead_armAfter L tok _ i now tp (dead_cancel L tok l i _ g), by simp [step, userStartedOf_id]⟩
  | scancel i =>
    exact ⟨dead_cancel L tok l i _ g, by simp [step, userStartedOf_bool]⟩

/-- the arm can never start: its shared state is `Canceled`, or the service-level cancel succeeded -/
def Never (tok : Nat) (l : Lay) : Prop := Gone tok l ∨ Dead' tok l

theorem never_trace (L : Limits) (tok : Nat) : ∀ (ops : List Op) (l : Lay), Never tok l → tok ∉ userStarted (trace L l ops)
  | [], _, _ => by simp [trace, userStarted]
  | op :: ops, l, n => by
    simp only [trace, userStarted, List.flatMap_cons, List.mem_append, not_or]
    rcases n with g | g
    · obtain ⟨g1, g2⟩ := gone_step L tok l op g
      exact ⟨g2, never_trace L tok ops _ (Or.inl g1)⟩
    · obtain ⟨g1, g2⟩ := dead_step' L tok l op g
      exact ⟨g2, never_trace L tok ops _ (Or.inr g1)⟩

/-! ### reachable layers: the service part is a first-layer run, arm keys are bounded by `_nextId` -/

structure Reach (L : Limits) (l : Lay) : Prop where
  ref : ∃ sops, (Tsvc.run L sops).1 = l.s
  kb : KB l
  /-- every token is the key of an arm -/
  tk : ∀ i tok, getTok l i = some tok → tok ∈ l.arms.map (·.1)

theorem run_snoc_state (L : Limits) (sops : List Tsvc.Op) (op : Tsvc.Op) :
    (Tsvc.run L (sops ++ [op])).1 = (Tsvc.step L (Tsvc.run L sops).1 op).1 := by
  unfold Tsvc.run
  rw [runFrom_append]
  rfl

theorem ref_cancel (L : Limits) (l : Lay) (i : Nat) (b : Bool) (r : ∃ sops, (Tsvc.run L sops).1 = l.s) :
    ∃ sops, (Tsvc.run L sops).1 = (cancelWith b l i).1.s := by
  rw [cancel_s]
  obtain ⟨sops, hs⟩ := r
  split
  · rename_i tk _
    exact ⟨sops ++ [.cancel tk], by rw [run_snoc_state, hs]; rfl⟩
  · exact ⟨sops, hs⟩

theorem ref_armAfter (L : Limits) (l1 : Lay) (i : Nat) (now tp : Int) (r : ∃ sops, (Tsvc.run L sops).1 = l1.s) :
    ∃ sops, (Tsvc.run L sops).1 = (armAfter L l1 i now tp).1.s := by
  obtain ⟨sops, hs⟩ := r
  unfold armAfter
  split <;> exact ⟨sops ++ [.schedAt now tp], by rw [run_snoc_state, hs]; rfl⟩

theorem tk_cancel (l : Lay) (i : Nat) (b : Bool) (h : ∀ j tok, getTok l j = some tok → tok ∈ l.arms.map (·.1)) :
    ∀ j tok, getTok (cancelWith b l i).1 j = some tok → tok ∈ (cancelWith b l i).1.arms.map (·.1) := by
  intro j tok hj
  rw [cancel_keys]
  cases hq : getTok l i with
  | none =>
    have : (cancelWith b l i).1 = l := by simp [cancelWith, hq]
    rw [this] at hj
    exact h j tok hj
  | some tk =>
    have : (cancelWith b l i).1.tokens = setTok l.tokens i none := by simp [cancelWith, hq]
    unfold getTok at hj
    rw [this] at hj
    unfold setTok at hj
    split at hj
    · cases hj
    · exact h j tok hj

theorem tk_armAfter (L : Limits) (l1 : Lay) (i : Nat) (now tp : Int) (h : ∀ j tok, getTok l1 j = some tok → tok ∈ l1.arms.map (·.1)) :
    ∀ j tok, getTok (armAfter L l1 i now tp).1 j = some tok → tok ∈ (armAfter L l1 i now tp).1.arms.map (·.1) := by
  intro j tok
  unfold armAfter
  split
  · intro hj
    unfold getTok setTok at hj
    simp only at hj
    split at hj
    · cases hj
    · exact h j tok hj
  · intro hj
    unfold getTok setTok at hj
    simp only at hj
    simp only [List.map_cons, List.mem_cons]
    split at hj
    · left; exact (Option.some.inj hj).symm
    · right; exact h j tok hj

theorem reach_step (L : Limits) (l : Lay) (op : Op) (r : Reach L l) : Reach L (step L l op).1 := by
  refine ⟨?_, kb_step L l op r.kb, ?_⟩
  · cases op with
    | svc sop =>
      obtain ⟨sops, hs⟩ := r.ref
      simp only [step]
      cases hq : startedId (Tsvc.step L l.s sop).2 <;> exact ⟨sops ++ [sop], by rw [run_snoc_state, hs]⟩
    | sat i now tp => exact ref_armAfter L _ i now tp (ref_cancel L l i _ r.ref)
    | scancel i => exact ref_cancel L l i _ r.ref
  · cases op with
    | svc sop =>
      simp only [step]
      cases hq : startedId (Tsvc.step L l.s sop).2 with
      | none => exact r.tk
      | some id =>
        intro j tok hj
        show tok ∈ (wrapperStart l.arms id).1.map (·.1)
        rw [wrapperStart_keys]
        exact r.tk j tok hj
    | sat i now tp => exact tk_armAfter L _ i now tp (tk_cancel l i _ r.tk)
    | scancel i => exact tk_cancel l i _ r.tk

theorem reach_runFrom (L : Limits) : ∀ (ops : List Op) (l : Lay), Reach L l → Reach L (runFrom L l ops)
  | [], _, r => r
  | op :: ops, l, r => reach_runFrom L ops _ (reach_step L l op r)

theorem reach_run (L : Limits) (ops : List Op) : Reach L (run L ops) :=
  reach_runFrom L ops _ ⟨⟨[], rfl⟩, by intro k hk; simp [run] at hk, by intro i tok h; simp [run, getTok] at h⟩

end Iora.Steady
