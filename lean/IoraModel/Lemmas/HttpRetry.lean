import IoraModel.Model.HttpRetry
/-!
Helper lemmas for C17.  Part 1 instantiates the table-driven pieces of `Model/HttpRetry.lean` with the facts of the
regenerated `Gen/HttpRetry.lean` (every lemma of this part is a closed computation: if a classification fact of the
source changes — a catch clause moves, a receive branch throws another type, `retryEligible` gains a disjunct — it no
longer builds).  Part 2 is the reasoning about attempts, the retry loop, the cache and the trace.
-/
namespace Iora.HttpRetry
open Iora

/-! ## Part 1 — what the extracted tables say -/

theorem dispatch_framing : dispatch .framing = .rethrow := by decide
theorem dispatch_notSent : dispatch .notSent = .retry := by decide
theorem dispatch_runtime : dispatch .runtime = .retry := by decide
theorem dispatch_invalidArg : dispatch .invalidArg = .retry := by decide
theorem dispatch_other : dispatch .other = .retry := by decide

theorem isA_notSent (e : Exn) : e.isA "HttpRequestNotSentError" = decide (e = .notSent) := by
  cases e <;> decide

theorem retryEligible_eq (m : String) (e : Exn) : retryEligible m e = (isIdempotent m || decide (e = .notSent)) := by
  simp [retryEligible, Gen.HttpRetry.retryEligibleAtoms, evalAtom, isA_notSent]

theorem budgetExhausted_eq (a : Nat) (r : Int) : budgetExhausted a r = decide ((a : Int) ≥ r) := by
  simp [budgetExhausted, Gen.HttpRetry.budgetCmp]

theorem wrapPreSend_eq (e : Exn) : wrapPreSend e = if e = .framing then .framing else .notSent := by
  cases e <;> decide

theorem connectFail_exn : exnOfName Gen.HttpRetry.connectFailThrow = .runtime := by decide
theorem setSyncFail_exn : exnOfName Gen.HttpRetry.setSyncFailThrow = .runtime := by decide
theorem sendFail_exn : exnOfName Gen.HttpRetry.sendFailThrow = .runtime := by decide
theorem leaseFail_exn : exnOfName Gen.HttpRetry.leaseFailThrow = .runtime := by decide
theorem urlFail_exn : exnOfName Gen.HttpRetry.urlFailThrow = .invalidArg := by decide
theorem cap_exn : exnOfName Gen.HttpRetry.capThrow = .framing := by decide
theorem framingExn_eq : framingExn = .framing := by decide

theorem recvErr_timeout : recvErr "Timeout" none = some (.fail .runtime) := by decide
theorem recvErr_overflow : recvErr "BufferOverflow" none = some (.fail .framing) := by decide
theorem recvErr_shutdown : recvErr "ShuttingDown" none = some (.fail .runtime) := by decide
theorem recvErr_other : recvErr "Socket" none = some (.fail .runtime) := by decide
theorem recvErr_closed_none : recvErr "PeerClosed" none = some (.fail .runtime) := by decide
theorem recvErr_closed_some (r : RespInfo) : recvErr "PeerClosed" (some r) = some (.done r true true) := by
  simp [recvErr, recvBranch, Gen.HttpRetry.recvBranches, List.lookup]

theorem reusable_eq (cfg : Cfg) (r : RespInfo) (fe cd res : Bool) :
    reusable cfg r fe cd res = (cfg.reuse && !responseRequestsClose r.conn r.version && !fe && !cd && !res) := by
  simp [reusable, Gen.HttpRetry.reusableAtoms, evalReuse, Bool.and_assoc]


/-! ## Part 2 — the receive loop -/

/-- what the loop does on an event other than `more` -/
def terminalRes : RecvEv → RecvRes
  | .complete r => .done r r.surplus false
  | .malformed => .fail .framing
  | .capExceeded => .fail .framing
  | .overflow => .fail .framing
  | .peerClosed (some r) => .done r true true
  | _ => .fail .runtime

def isMore : RecvEv → Bool
  | .more => true
  | _ => false

theorem recvLoop_nil (n : Nat) : recvLoop [] n = (.fail .runtime, n + 1) := by
  simp [recvLoop, recvErr_timeout]

theorem recvLoop_more (rs : List RecvEv) (n : Nat) : recvLoop (.more :: rs) n = recvLoop rs (n + 1) := by
  simp [recvLoop]

theorem recvLoop_term (e : RecvEv) (rs : List RecvEv) (n : Nat) (he : isMore e = false) :
    recvLoop (e :: rs) n = (terminalRes e, n + 1) := by
  cases e with
  | more => simp [isMore] at he
  | complete r => simp [recvLoop, terminalRes]
  | malformed => simp [recvLoop, terminalRes, framingExn_eq]
  | capExceeded => simp [recvLoop, terminalRes, cap_exn]
  | timeout => simp [recvLoop, terminalRes, errCode, recvErr_timeout]
  | overflow => simp [recvLoop, terminalRes, errCode, recvErr_overflow]
  | shuttingDown => simp [recvLoop, terminalRes, errCode, recvErr_shutdown]
  | peerClosed cd =>
    cases cd with
    | none => simp [recvLoop, terminalRes, recvErr_closed_none]
    | some r => simp [recvLoop, terminalRes, recvErr_closed_some]
  | otherErr => simp [recvLoop, terminalRes, errCode, recvErr_other]

/-- outcome of the loop: decided by the first event that is not `more` (silence = time-out if there is none) -/
def loopRes (rs : List RecvEv) : RecvRes :=
  match rs.dropWhile isMore with
  | [] => .fail .runtime
  | e :: _ => terminalRes e

theorem recvLoop_eq (rs : List RecvEv) (n : Nat) :
    recvLoop rs n = (loopRes rs, n + (rs.takeWhile isMore).length + 1) := by
  induction rs generalizing n with
  | nil => simp [recvLoop_nil, loopRes]
  | cons e rs ih =>
    by_cases he : isMore e = true
    · have : e = .more := by cases e <;> simp_all [isMore]
      subst this
      rw [recvLoop_more, ih]
      simp [loopRes, isMore, List.dropWhile, List.takeWhile]
      omega
    · have he' : isMore e = false := by simpa using he
      rw [recvLoop_term e rs n he']
      simp [loopRes, List.dropWhile, List.takeWhile, he']

theorem terminalRes_ne_notSent (e : RecvEv) : terminalRes e ≠ .fail .notSent := by
  cases e with
  | peerClosed cd => cases cd <;> simp [terminalRes]
  | _ => simp [terminalRes]

theorem loopRes_ne_notSent (rs : List RecvEv) : loopRes rs ≠ .fail .notSent := by
  unfold loopRes
  split
  · simp
  · exact terminalRes_ne_notSent _


/-! ## Part 3 — one attempt -/

theorem connectNew_error (c : Client) (h : Host) (a : Attempt) (e : Exn)
    (he : (connectNew c h a).2.1 = .error e) : e = .runtime := by
  unfold connectNew at he
  split at he <;> simp [connectFail_exn] at he <;> exact he.symm

theorem acquireConnection_error (c : Client) (h : Host) (a : Attempt) (e : Exn)
    (he : (acquireConnection c h a).2.1 = .error e) : e = .runtime := by
  unfold acquireConnection at he
  split at he
  · split at he
    · simp at he
    · exact connectNew_error _ _ _ _ he
  · exact connectNew_error _ _ _ _ he

theorem preSend_error (c : Client) (h : Host) (a : Attempt) (e : Exn)
    (he : (preSend c h a).2.1 = .error e) : e = .runtime := by
  unfold preSend at he
  split at he
  · rename_i c1 e' ev heq
    simp at he
    subst he
    exact acquireConnection_error c h a e' (by rw [heq])
  · split at he
    · simp at he
    · simp [setSyncFail_exn] at he
      exact he.symm

/-- the log entry of the part under the lease -/
theorem underLease_log (cfg : Cfg) (c : Client) (h : Host) (a : Attempt) :
    (underLease cfg c h a).2.1 =
      match (preSend c h a).2.1 with
      | .error _ => ⟨.error .notSent, false, 0⟩
      | .ok _ =>
        if !a.send then ⟨.error .runtime, true, 0⟩
        else match loopRes a.recvs with
          | .fail e => ⟨.error e, true, (a.recvs.takeWhile isMore).length + 1⟩
          | .done r _ _ => ⟨.ok r, true, (a.recvs.takeWhile isMore).length + 1⟩ := by
  unfold underLease
  split
  · rename_i c1 e ev heq
    have : e = .runtime := preSend_error c h a e (by rw [heq])
    subst this
    simp [heq, wrapPreSend_eq]
  · rename_i c1 sid ev heq
    simp only [heq]
    by_cases hs : a.send = true
    · simp only [hs, Bool.not_true, Bool.false_eq_true, if_false]
      rw [recvLoop_eq]
      cases hl : loopRes a.recvs with
      | fail e => simp
      | done r fe cd =>
        simp only [Nat.zero_add]
        split <;> simp
    · have hs' : a.send = false := by simpa using hs
      simp [hs', dropConnection, sendFail_exn]


/-- the log entry of `executeRequest` -/
theorem exec_log (cfg : Cfg) (c : Client) (urlOk : Bool) (h : Host) (a : Attempt) :
    (executeRequest cfg c urlOk h a).2.1 =
      if !urlOk then ⟨.error .invalidArg, false, 0⟩
      else match a.lease with
        | .granted => (underLease cfg { c with leased := h :: c.leased } h a).2.1
        | _ => ⟨.error .runtime, false, 0⟩ := by
  unfold executeRequest
  by_cases hu : urlOk = true
  · simp only [hu, Bool.not_true, Bool.false_eq_true, if_false]
    cases a.lease <;> simp [leaseFail_exn]
  · have : urlOk = false := by simpa using hu
    simp [this, urlFail_exn]

/-- **not-sent means not sent**: an attempt that ends in `HttpRequestNotSentError` never called `sendSync` -/
theorem exec_notSent_not_reached (cfg : Cfg) (c : Client) (urlOk : Bool) (h : Host) (a : Attempt)
    (hr : (executeRequest cfg c urlOk h a).2.1.result = .error .notSent) :
    (executeRequest cfg c urlOk h a).2.1.reachedSend = false := by
  rw [exec_log] at hr ⊢
  by_cases hu : urlOk = true
  · simp only [hu, Bool.not_true, Bool.false_eq_true, if_false] at hr ⊢
    cases hl : a.lease with
    | granted =>
      simp only [hl] at hr ⊢
      rw [underLease_log] at hr ⊢
      split
      · rfl
      · rename_i sid hp
        simp only [hp] at hr
        by_cases hs : a.send = true
        · simp only [hs, Bool.not_true, Bool.false_eq_true, if_false] at hr ⊢
          cases hlr : loopRes a.recvs with
          | fail e =>
            simp only [hlr] at hr
            have : e = .notSent := by simpa using hr
            subst this
            exact absurd hlr (loopRes_ne_notSent _)
          | done r fe cd => simp [hlr] at hr
        · have hs' : a.send = false := by simpa using hs
          simp [hs'] at hr
    | timedOut => simp [hl] at hr
    | closing => simp [hl] at hr
  · have : urlOk = false := by simpa using hu
    simp [this] at hr

/-- an attempt that did not reach `sendSync` made no receive -/
theorem exec_not_reached_no_receive (cfg : Cfg) (c : Client) (urlOk : Bool) (h : Host) (a : Attempt)
    (hr : (executeRequest cfg c urlOk h a).2.1.reachedSend = false) :
    (executeRequest cfg c urlOk h a).2.1.receives = 0 := by
  rw [exec_log] at hr ⊢
  by_cases hu : urlOk = true
  · simp only [hu, Bool.not_true, Bool.false_eq_true, if_false] at hr ⊢
    cases hl : a.lease with
    | granted =>
      simp only [hl] at hr ⊢
      rw [underLease_log] at hr ⊢
      split
      · rfl
      · rename_i sid hp
        simp only [hp] at hr
        by_cases hs : a.send = true
        · simp only [hs, Bool.not_true, Bool.false_eq_true, if_false] at hr
          cases hlr : loopRes a.recvs <;> simp [hlr] at hr
        · have hs' : a.send = false := by simpa using hs
          simp [hs'] at hr
    | timedOut => simp
    | closing => simp
  · have : urlOk = false := by simpa using hu
    simp [this]

/-! ## Part 4 — the retry loop -/

theorem mem_dropLast_cons {α : Type} {x a : α} {l : List α} (h : x ∈ (a :: l).dropLast) :
    (x = a ∧ l ≠ []) ∨ x ∈ l.dropLast := by
  cases l with
  | nil => simp at h
  | cons b t =>
    simp only [List.dropLast_cons_cons, List.mem_cons] at h
    rcases h with h | h
    · exact .inl ⟨h, by simp⟩
    · exact .inr h

/-- what is known about every attempt that was followed by another one -/
def Retried (m : String) (lg : AttemptLog) : Prop :=
  ∃ e, lg.result = .error e ∧ e ≠ .framing ∧
    (isIdempotent m = true ∨ (e = .notSent ∧ lg.reachedSend = false ∧ lg.receives = 0))

theorem performLoop_retried (cfg : Cfg) (rq : Request) :
    ∀ (fuel attempt : Nat) (c : Client), ∀ lg ∈ (performLoop cfg rq fuel attempt c).log.dropLast, Retried rq.method lg := by
  intro fuel
  induction fuel with
  | zero => intro attempt c lg h; simp [performLoop] at h
  | succ fuel ih =>
    intro attempt c lg hmem
    generalize hx : executeRequest cfg c rq.urlOk rq.host (rq.script attempt) = x at hmem
    obtain ⟨c1, lg1, ev⟩ := x
    have hns := exec_notSent_not_reached cfg c rq.urlOk rq.host (rq.script attempt)
    have hnr := exec_not_reached_no_receive cfg c rq.urlOk rq.host (rq.script attempt)
    rw [hx] at hns hnr
    simp only [performLoop, hx] at hmem
    cases hres : lg1.result with
    | ok r => simp [hres] at hmem
    | error e =>
      simp only [hres] at hmem
      cases hd : dispatch e with
      | rethrow => simp [hd] at hmem
      | uncaught => simp [hd] at hmem
      | retry =>
        simp only [hd] at hmem
        by_cases he : retryEligible rq.method e = true
        · simp only [he, Bool.not_true, Bool.false_eq_true, if_false] at hmem
          by_cases hb : budgetExhausted attempt rq.retries = true
          · simp [hb] at hmem
          · simp only [hb, Bool.false_eq_true, if_false] at hmem
            rcases mem_dropLast_cons hmem with ⟨rfl, _⟩ | h
            · refine ⟨e, hres, ?_, ?_⟩
              · intro hf; subst hf; rw [dispatch_framing] at hd; cases hd
              · rw [retryEligible_eq] at he
                simp only [Bool.or_eq_true, decide_eq_true_eq] at he
                rcases he with he | he
                · exact .inl he
                · subst he
                  have h1 := hns hres
                  exact .inr ⟨rfl, h1, hnr h1⟩
            · exact ih (attempt + 1) c1 lg h
        · have he' : retryEligible rq.method e = false := by simpa using he
          simp [he'] at hmem

/-- attempts ≤ (budget − attempts already made) + 1 -/
theorem performLoop_length (cfg : Cfg) (rq : Request) :
    ∀ (fuel attempt : Nat) (c : Client), (performLoop cfg rq fuel attempt c).log.length ≤ (rq.retries.toNat - attempt) + 1 := by
  intro fuel
  induction fuel with
  | zero => intro attempt c; simp [performLoop]
  | succ fuel ih =>
    intro attempt c
    generalize hx : executeRequest cfg c rq.urlOk rq.host (rq.script attempt) = x
    obtain ⟨c1, lg1, ev⟩ := x
    simp only [performLoop, hx]
    cases hres : lg1.result with
    | ok r => simp
    | error e =>
      simp only
      cases hd : dispatch e with
      | rethrow => simp
      | uncaught => simp
      | retry =>
        simp only
        by_cases he : retryEligible rq.method e = true
        · simp only [he, Bool.not_true, Bool.false_eq_true, if_false]
          by_cases hb : budgetExhausted attempt rq.retries = true
          · simp [hb]
          · simp only [hb, Bool.false_eq_true, if_false, List.length_cons]
            rw [budgetExhausted_eq] at hb
            simp only [decide_eq_true_eq, ge_iff_le, Int.not_le] at hb
            have := ih (attempt + 1) c1
            omega
        · have he' : retryEligible rq.method e = false := by simpa using he
          simp [he']

/-- the model's recursion bound is never the reason the loop stops -/
theorem performLoop_fuel (cfg : Cfg) (rq : Request) :
    ∀ (fuel attempt : Nat) (c : Client), (rq.retries.toNat - attempt) + 1 ≤ fuel →
      (performLoop cfg rq fuel attempt c).fuelOut = false := by
  intro fuel
  induction fuel with
  | zero => intro attempt c h; omega
  | succ fuel ih =>
    intro attempt c hf
    generalize hx : executeRequest cfg c rq.urlOk rq.host (rq.script attempt) = x
    obtain ⟨c1, lg1, ev⟩ := x
    simp only [performLoop, hx]
    cases hres : lg1.result with
    | ok r => simp
    | error e =>
      simp only
      cases hd : dispatch e with
      | rethrow => simp
      | uncaught => simp
      | retry =>
        simp only
        by_cases he : retryEligible rq.method e = true
        · simp only [he, Bool.not_true, Bool.false_eq_true, if_false]
          by_cases hb : budgetExhausted attempt rq.retries = true
          · simp [hb]
          · simp only [hb, Bool.false_eq_true, if_false]
            rw [budgetExhausted_eq] at hb
            simp only [decide_eq_true_eq, ge_iff_le, Int.not_le] at hb
            apply ih
            omega
        · have he' : retryEligible rq.method e = false := by simpa using he
          simp [he']


theorem performLoop_log_nil (cfg : Cfg) (rq : Request) (fuel attempt : Nat) (c : Client)
    (h : (performLoop cfg rq fuel attempt c).log = []) : (performLoop cfg rq fuel attempt c).fuelOut = true := by
  cases fuel with
  | zero => simp [performLoop]
  | succ fuel =>
    exfalso
    revert h
    generalize hx : executeRequest cfg c rq.urlOk rq.host (rq.script attempt) = x
    obtain ⟨c1, lg1, ev⟩ := x
    simp only [performLoop, hx]
    cases lg1.result with
    | ok r => simp
    | error e =>
      simp only
      cases dispatch e with
      | rethrow => simp
      | uncaught => simp
      | retry =>
        simp only
        split
        · simp
        · split <;> simp

/-- the caller gets the outcome of the last attempt -/
theorem performLoop_result (cfg : Cfg) (rq : Request) :
    ∀ (fuel attempt : Nat) (c : Client) (lg : AttemptLog),
      (performLoop cfg rq fuel attempt c).fuelOut = false →
      (performLoop cfg rq fuel attempt c).log.getLast? = some lg → lg.result = (performLoop cfg rq fuel attempt c).result := by
  intro fuel
  induction fuel with
  | zero => intro attempt c lg _ h; simp [performLoop] at h
  | succ fuel ih =>
    intro attempt c lg
    generalize hx : executeRequest cfg c rq.urlOk rq.host (rq.script attempt) = x
    obtain ⟨c1, lg1, ev⟩ := x
    simp only [performLoop, hx]
    cases hres : lg1.result with
    | ok r => simp; intro h; subst h; exact hres
    | error e =>
      simp only
      cases hd : dispatch e with
      | rethrow => simp; intro h; subst h; exact hres
      | uncaught => simp; intro h; subst h; exact hres
      | retry =>
        simp only
        by_cases he : retryEligible rq.method e = true
        · simp only [he, Bool.not_true, Bool.false_eq_true, if_false]
          by_cases hb : budgetExhausted attempt rq.retries = true
          · simp [hb]; intro h; subst h; exact hres
          · simp only [hb, Bool.false_eq_true, if_false]
            intro hfo hl
            cases hlog : (performLoop cfg rq fuel (attempt + 1) c1).log with
            | nil =>
              have := performLoop_log_nil cfg rq fuel (attempt + 1) c1 hlog
              rw [this] at hfo
              cases hfo
            | cons b t =>
              rw [hlog, List.getLast?_cons_cons] at hl
              exact ih (attempt + 1) c1 lg hfo (by rw [hlog]; exact hl)
        · have he' : retryEligible rq.method e = false := by simpa using he
          simp [he']; intro h; subst h; exact hres


theorem countP_le_one_of_dropLast {α : Type} (p : α → Bool) :
    ∀ (l : List α), (∀ x ∈ l.dropLast, p x = false) → l.countP p ≤ 1 := by
  intro l
  induction l with
  | nil => intro _; simp
  | cons a t ih =>
    intro h
    cases t with
    | nil => simp [List.countP_cons]; split <;> omega
    | cons b t' =>
      have ha : p a = false := h a (by simp)
      have := ih (fun x hx => h x (by simp only [List.dropLast_cons_cons, List.mem_cons]; exact .inr hx))
      simp only [List.countP_cons, ha] at this ⊢
      simpa using this

/-- when the lease is granted, the pre-send region succeeds and `sendSync` accepts the request, the attempt's outcome is the
receive loop's outcome -/
theorem exec_log_received (cfg : Cfg) (c : Client) (h : Host) (a : Attempt) (sid : Sid)
    (hl : a.lease = .granted) (hp : (preSend { c with leased := h :: c.leased } h a).2.1 = .ok sid) (hs : a.send = true) :
    (executeRequest cfg c true h a).2.1 =
      match loopRes a.recvs with
      | .fail e => ⟨.error e, true, (a.recvs.takeWhile isMore).length + 1⟩
      | .done r _ _ => ⟨.ok r, true, (a.recvs.takeWhile isMore).length + 1⟩ := by
  rw [exec_log]
  simp only [Bool.not_true, Bool.false_eq_true, if_false, hl]
  rw [underLease_log, hp]
  simp [hs]

/-- number of `receiveSync` calls of an attempt: one per `more`, plus the one that ends it -/
theorem exec_receives_le (cfg : Cfg) (c : Client) (urlOk : Bool) (h : Host) (a : Attempt) :
    (executeRequest cfg c urlOk h a).2.1.receives ≤ (a.recvs.takeWhile isMore).length + 1 := by
  rw [exec_log]
  by_cases hu : urlOk = true
  · simp only [hu, Bool.not_true, Bool.false_eq_true, if_false]
    cases hl : a.lease with
    | granted =>
      simp only
      rw [underLease_log]
      split
      · simp
      · by_cases hs : a.send = true
        · simp only [hs, Bool.not_true, Bool.false_eq_true, if_false]
          cases loopRes a.recvs <;> simp
        · have hs' : a.send = false := by simpa using hs
          simp [hs']
    | timedOut => simp
    | closing => simp
  · have : urlOk = false := by simpa using hu
    simp [this]

end Iora.HttpRetry
