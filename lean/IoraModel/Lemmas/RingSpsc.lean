import IoraModel.Model.RingSpsc
/-!
Invariant of the SPSC view model and its consequences: FIFO / lossless / bounded for every interleaving (also with
stale counter reads), and data-race freedom when the extracted memory orders are acquire/release.
-/
namespace Iora.Spsc

def pK : PPc → Nat
  | .writing _ _ k => k
  | .idle => 0

structure Inv (c : Cfg) (s : S) : Prop where
  ht : s.tail ≤ s.head
  ps : s.pSeen ≤ s.tail
  qs : s.qSeen ≤ s.head
  tq : s.tail ≤ s.qSeen
  cap2 : s.head ≤ s.pSeen + c.C
  rm : s.rmax ≤ s.qSeen
  hl : s.hist.length = s.head + pK s.pPc
  pw : ∀ ts n k, s.pPc = .writing ts n k → ts = s.pSeen ∧ k ≤ n ∧ s.head + n ≤ ts + c.C ∧
        ∃ op rest, s.pTodo = op :: rest ∧ n ≤ op.items.length ∧ s.hist.drop s.head = op.items.take k
  qr : ∀ hs n got, s.qPc = .reading hs n got → hs = s.qSeen ∧ got.length ≤ n ∧ s.tail + n ≤ hs ∧
        got = (s.hist.drop s.tail).take got.length
  content : ∀ i, s.tail ≤ i → i < s.hist.length → s.hist[i]? = some (s.buf (i % c.C))
  accI : s.acc = s.hist.take s.head
  recvI : s.recv = s.hist.take s.tail

/-- clock part of the invariant: needs the acquire/release orders -/
structure InvK (s : S) : Prop where
  pk : s.pSeen ≤ s.pKq
  qk : s.qSeen ≤ s.qKp

theorem inv_init (c : Cfg) (p : List POp) (q : List QOp) : Inv c (init p q) := by
  constructor <;> simp [init, pK]

theorem invK_init (p : List POp) (q : List QOp) : InvK (init p q) := by
  constructor <;> simp [init]

theorem pcount_le (c : Nat) (head ts : Nat) (op : POp) (h1 : ts ≤ head) (h2 : head ≤ ts + c) :
    op.count c head ts ≤ op.items.length ∧ head + op.count c head ts ≤ ts + c := by
  cases op with
  | push x =>
    simp only [POp.count, POp.items, List.length_singleton]
    split <;> omega
  | pushBatch xs =>
    simp only [POp.count, POp.items]
    omega

theorem qcount_le (tail hs : Nat) (op : QOp) (h : tail ≤ hs) : tail + op.count tail hs ≤ hs := by
  cases op <;> simp only [QOp.count] <;> (try split) <;> omega

theorem mod_ne_of_lt {a b c : Nat} (h1 : a < b) (h2 : b - a < c) : a % c ≠ b % c := by
  intro e
  have := Nat.sub_mod_eq_zero_of_mod_eq e.symm
  rw [Nat.mod_eq_of_lt h2] at this
  omega

theorem getElem?_append_one {α : Type} (l : List α) (x : α) (i : Nat) (h : i < l.length) : (l ++ [x])[i]? = l[i]? := by
  rw [List.getElem?_append_left h]

theorem take_drop_append_one {α : Type} (l : List α) (x : α) (t g : Nat) (h : t + g ≤ l.length) :
    ((l ++ [x]).drop t).take g = (l.drop t).take g := by
  rw [List.drop_append_of_le_length (by omega), List.take_append_of_le_length (by simp; omega)]

theorem step_pLoad (c : Cfg) (s : S) (v : Nat) (h : Inv c s) : Inv c (step c s (.pLoad v)) := by
  simp only [step]
  split
  · rename_i op rest hpc htodo
    split
    · rename_i g
      obtain ⟨g1, g2⟩ := g
      have hcnt := pcount_le c.C s.head v op (by have := h.ht; omega) (by have := h.cap2; omega)
      refine ⟨h.ht, g2, h.qs, h.tq, by have := h.cap2; show s.head ≤ v + c.C; omega, h.rm, ?_, ?_, h.qr, h.content, h.accI, h.recvI⟩
      · have := h.hl; rw [hpc] at this; simpa [pK] using this
      · intro ts n k e
        cases e
        refine ⟨rfl, Nat.zero_le _, hcnt.2, op, rest, htodo, hcnt.1, ?_⟩
        have := h.hl; rw [hpc] at this
        simp only [pK, Nat.add_zero] at this
        show s.hist.drop s.head = _
        rw [← this]; simp
    · exact h
  · exact h

theorem step_pWrite (c : Cfg) (s : S) (h : Inv c s) : Inv c (step c s .pWrite) := by
  simp only [step]
  split
  · rename_i ts n k op rest hpc htodo
    split
    · rename_i hk
      split
      · rename_i x hx
        obtain ⟨e1, e2, e3, op', rest', ht', hn', hd'⟩ := h.pw ts n k hpc
        rw [htodo] at ht'; cases ht'
        have hlen := h.hl; rw [hpc] at hlen; simp only [pK] at hlen
        have hps := h.ps
        refine ⟨h.ht, h.ps, h.qs, h.tq, h.cap2, h.rm, ?_, ?_, ?_, ?_, ?_, ?_⟩
        · show (s.hist ++ [x]).length = s.head + (k + 1); simp [hlen]; omega
        · intro ts' n' k' e
          cases e
          refine ⟨e1, by omega, e3, op, rest, htodo, hn', ?_⟩
          show (s.hist ++ [x]).drop s.head = _
          rw [List.drop_append_of_le_length (by omega), hd', List.take_succ, hx]; rfl
        · intro hs n' got e
          obtain ⟨q1, q2, q3, q4⟩ := h.qr hs n' got e
          refine ⟨q1, q2, q3, ?_⟩
          show got = ((s.hist ++ [x]).drop s.tail).take got.length
          rw [take_drop_append_one _ _ _ _ (by have := h.qs; omega)]; exact q4
        · intro i hi1 hi2
          show (s.hist ++ [x])[i]? = some (upd s.buf ((s.head + k) % c.C) x (i % c.C))
          simp only [List.length_append, List.length_singleton] at hi2
          by_cases hi : i = s.hist.length
          · subst hi
            simp [upd, hlen]
          · have hi3 : i < s.hist.length := by omega
            have hi1' : s.tail ≤ i := hi1
            rw [getElem?_append_one _ _ _ hi3, h.content i hi1' hi3]
            have : i % c.C ≠ (s.head + k) % c.C := mod_ne_of_lt (by omega) (by omega)
            simp [upd, this]
        · show s.acc = (s.hist ++ [x]).take s.head
          rw [List.take_append_of_le_length (by omega)]; exact h.accI
        · show s.recv = (s.hist ++ [x]).take s.tail
          rw [List.take_append_of_le_length (by have := h.ht; omega)]; exact h.recvI
      · exact h
    · exact h
  · exact h

theorem step_pStore (c : Cfg) (s : S) (h : Inv c s) : Inv c (step c s .pStore) := by
  simp only [step]
  split
  · rename_i ts n k op rest hpc htodo
    split
    · rename_i hk
      subst hk
      obtain ⟨e1, e2, e3, op', rest', ht', hn', hd'⟩ := h.pw ts k k hpc
      rw [htodo] at ht'; cases ht'
      have hlen := h.hl; rw [hpc] at hlen; simp only [pK] at hlen
      have hps := h.ps
      have hqs := h.qs
      refine ⟨by show s.tail ≤ s.head + k; have := h.ht; omega, h.ps, by show s.qSeen ≤ s.head + k; omega, h.tq,
        by show s.head + k ≤ s.pSeen + c.C; omega, h.rm, ?_, ?_, h.qr, h.content, ?_, h.recvI⟩
      · show s.hist.length = s.head + k + pK .idle; simp [pK, hlen]
      · intro ts' n' k' e; cases e
      · show s.acc ++ op.items.take k = s.hist.take (s.head + k)
        rw [h.accI, ← hd', ← hlen, List.take_length, List.take_append_drop]
    · exact h
  · exact h

theorem step_qLoad (c : Cfg) (s : S) (v : Nat) (h : Inv c s) : Inv c (step c s (.qLoad v)) := by
  simp only [step]
  split
  · rename_i op rest hpc htodo
    split
    · rename_i g
      obtain ⟨g1, g2⟩ := g
      have hcnt := qcount_le s.tail v op (by have := h.tq; omega)
      refine ⟨h.ht, h.ps, g2, by have := h.tq; show s.tail ≤ v; omega, h.cap2, by have := h.rm; show s.rmax ≤ v; omega,
        h.hl, h.pw, ?_, h.content, h.accI, h.recvI⟩
      intro hs n got e
      cases e
      exact ⟨rfl, Nat.zero_le _, hcnt, by simp⟩
    · exact h
  · exact h

theorem step_qRead (c : Cfg) (s : S) (h : Inv c s) : Inv c (step c s .qRead) := by
  simp only [step]
  split
  · rename_i hs n got hpc
    split
    · rename_i hg
      obtain ⟨q1, q2, q3, q4⟩ := h.qr hs n got hpc
      have hlen := h.hl
      have hqs := h.qs
      refine ⟨h.ht, h.ps, h.qs, h.tq, h.cap2, ?_, h.hl, h.pw, ?_, h.content, h.accI, h.recvI⟩
      · show max s.rmax (s.tail + got.length + 1) ≤ s.qSeen
        have := h.rm; omega
      · intro hs' n' got' e
        cases e
        refine ⟨q1, by simp; omega, q3, ?_⟩
        have hidx : s.tail + got.length < s.hist.length := by omega
        have hc := h.content (s.tail + got.length) (by omega) hidx
        simp only [List.length_append, List.length_singleton]
        rw [List.take_succ, ← q4]
        congr 1
        rw [List.getElem?_drop, hc]; rfl
    · exact h
  · exact h

theorem step_qStore (c : Cfg) (s : S) (h : Inv c s) : Inv c (step c s .qStore) := by
  simp only [step]
  split
  · rename_i hs n got op rest hpc htodo
    split
    · rename_i hg
      obtain ⟨q1, q2, q3, q4⟩ := h.qr hs n got hpc
      split
      · exact ⟨h.ht, h.ps, h.qs, h.tq, h.cap2, h.rm, h.hl, h.pw, (by intro hs' n' got' e; cases e), h.content, h.accI, h.recvI⟩
      · have hqs := h.qs
        refine ⟨by show s.tail + n ≤ s.head; omega, by show s.pSeen ≤ s.tail + n; have := h.ps; omega, h.qs,
          by show s.tail + n ≤ s.qSeen; omega, h.cap2, h.rm, h.hl, h.pw, (by intro hs' n' got' e; cases e), ?_, h.accI, ?_⟩
        · intro i hi1 hi2
          exact h.content i (by have : s.tail + n ≤ i := hi1; omega) hi2
        · show s.recv ++ got = s.hist.take (s.tail + n)
          rw [h.recvI, q4, hg, List.take_add]
    · exact h
  · exact h

theorem inv_step (c : Cfg) (s : S) (a : Act) (h : Inv c s) : Inv c (step c s a) := by
  cases a with
  | pLoad v => exact step_pLoad c s v h
  | pWrite => exact step_pWrite c s h
  | pStore => exact step_pStore c s h
  | qLoad v => exact step_qLoad c s v h
  | qRead => exact step_qRead c s h
  | qStore => exact step_qStore c s h

theorem inv_run (c : Cfg) (as : List Act) : ∀ s, Inv c s → Inv c (run c s as) := by
  induction as with
  | nil => intro s h; exact h
  | cons a as ih => intro s h; exact ih _ (inv_step c s a h)

end Iora.Spsc

namespace Iora.Spsc

/-! ## clocks and data-race freedom -/

theorem invK_step (c : Cfg) (hp : c.pAcq = true) (hq : c.qAcq = true) (hpr : c.pRel = true) (hqr : c.qRel = true)
    (s : S) (a : Act) (h : InvK s) : InvK (step c s a) := by
  obtain ⟨pk, qk⟩ := h
  cases a with
  | pLoad v =>
    simp only [step]; split
    · split
      · constructor
        · show v ≤ (if c.pAcq && c.qRel then max s.pKq v else s.pKq); simp [hp, hqr]; omega
        · exact qk
      · exact ⟨pk, qk⟩
    · exact ⟨pk, qk⟩
  | qLoad v =>
    simp only [step]; split
    · split
      · constructor
        · exact pk
        · show v ≤ (if c.qAcq && c.pRel then max s.qKp v else s.qKp); simp [hq, hpr]; omega
      · exact ⟨pk, qk⟩
    · exact ⟨pk, qk⟩
  | pWrite =>
    simp only [step]; split
    · split
      · split
        · exact ⟨pk, qk⟩
        · exact ⟨pk, qk⟩
      · exact ⟨pk, qk⟩
    · exact ⟨pk, qk⟩
  | pStore =>
    simp only [step]; split
    · split
      · exact ⟨pk, qk⟩
      · exact ⟨pk, qk⟩
    · exact ⟨pk, qk⟩
  | qRead =>
    simp only [step]; split
    · split
      · exact ⟨pk, qk⟩
      · exact ⟨pk, qk⟩
    · exact ⟨pk, qk⟩
  | qStore =>
    simp only [step]; split
    · split
      · split
        · exact ⟨pk, qk⟩
        · exact ⟨pk, qk⟩
      · exact ⟨pk, qk⟩
    · exact ⟨pk, qk⟩

theorem invK_run (c : Cfg) (hp : c.pAcq = true) (hq : c.qAcq = true) (hpr : c.pRel = true) (hqr : c.qRel = true)
    (as : List Act) : ∀ s, InvK s → InvK (run c s as) := by
  induction as with
  | nil => intro s h; exact h
  | cons a as ih => intro s h; exact ih _ (invK_step c hp hq hpr hqr s a h)

theorem ge_of_mod_eq {a b c : Nat} (h1 : a < b) (h2 : a % c = b % c) : a + c ≤ b := by
  apply Classical.byContradiction
  intro hn
  exact mod_ne_of_lt h1 (by omega) h2

/-- with acquire loads of the other thread's counter and release stores of one's own, no schedule reaches a racy slot access -/
theorem drf_of_orders (c : Cfg) (hp : c.pAcq = true) (hq : c.qAcq = true) (hpr : c.pRel = true)
    (hqr : c.qRel = true) : DRF c := by
  intro p q as a
  have I := inv_run c as (init p q) (inv_init c p q)
  have K := invK_run c hp hq hpr hqr as (init p q) (invK_init p q)
  generalize run c (init p q) as = s at I K
  cases a with
  | pLoad v => simp [Racy]
  | qLoad v => simp [Racy]
  | pStore => simp [Racy]
  | qStore => simp [Racy]
  | pWrite =>
    rintro ⟨ts, n, k, hpc, hk, j, hj, hmod, hn⟩
    obtain ⟨e1, e2, e3, _⟩ := I.pw ts n k hpc
    have := I.rm; have := I.qs; have := K.pk
    have hlt : j < s.head + k := by omega
    have := ge_of_mod_eq hlt hmod
    omega
  | qRead =>
    rintro ⟨hs, n, got, hpc, hg, j, hj, hmod, hn⟩
    obtain ⟨q1, q2, q3, _⟩ := I.qr hs n got hpc
    have hl := I.hl
    have := K.qk; have := I.ps; have := I.cap2
    have hb : s.hist.length ≤ s.tail + c.C := by
      cases hpc' : s.pPc with
      | idle => rw [hpc'] at hl; simp only [pK] at hl; omega
      | writing ts' n' k' =>
        rw [hpc'] at hl; simp only [pK] at hl
        obtain ⟨e1, e2, e3, _⟩ := I.pw ts' n' k' hpc'
        omega
    by_cases hle : j ≤ s.tail + got.length
    · omega
    · have := ge_of_mod_eq (by omega : s.tail + got.length < j) hmod.symm
      omega

end Iora.Spsc

namespace Iora.Spsc

/-! ## each of the four orders is necessary: weakening any one of them admits a racy execution -/

/-- `_tail` loaded relaxed by the producer (the code as found, F02): capacity 1, push, pop, push — the second push
overwrites the slot while nothing orders the consumer's read of it before the write -/
theorem relaxed_tail_load_races : ¬ DRF { C := 1, pAcq := false, qAcq := true, pRel := true, qRel := true } := by
  intro h
  refine h [.push 1, .push 2] [.pop] [.pLoad 0, .pWrite, .pStore, .qLoad 1, .qRead, .qStore, .pLoad 1] .pWrite ?_
  exact ⟨1, 1, 0, rfl, by decide, 0, by decide, by decide, by decide⟩

theorem relaxed_tail_store_races : ¬ DRF { C := 1, pAcq := true, qAcq := true, pRel := true, qRel := false } := by
  intro h
  refine h [.push 1, .push 2] [.pop] [.pLoad 0, .pWrite, .pStore, .qLoad 1, .qRead, .qStore, .pLoad 1] .pWrite ?_
  exact ⟨1, 1, 0, rfl, by decide, 0, by decide, by decide, by decide⟩

theorem relaxed_head_load_races : ¬ DRF { C := 1, pAcq := true, qAcq := false, pRel := true, qRel := true } := by
  intro h
  refine h [.push 1] [.pop] [.pLoad 0, .pWrite, .pStore, .qLoad 1] .qRead ?_
  exact ⟨1, 1, [], rfl, by decide, 0, by decide, by decide, by decide⟩

theorem relaxed_head_store_races : ¬ DRF { C := 1, pAcq := true, qAcq := true, pRel := false, qRel := true } := by
  intro h
  refine h [.push 1] [.pop] [.pLoad 0, .pWrite, .pStore, .qLoad 1] .qRead ?_
  exact ⟨1, 1, [], rfl, by decide, 0, by decide, by decide, by decide⟩

/-! ## FIFO, lossless, bounded for every interleaving (stale reads included) -/

/-- what is in flight: accepted from the producer, not yet handed to the consumer -/
def inflight (s : S) : List Val := (s.hist.take s.head).drop s.tail

theorem fifo_of_inv (c : Cfg) (s : S) (h : Inv c s) :
    s.acc = s.recv ++ inflight s ∧ (inflight s).length = s.head - s.tail ∧ s.head - s.tail ≤ c.C := by
  have hl := h.hl
  refine ⟨?_, ?_, ?_⟩
  · rw [h.accI, h.recvI, inflight]
    have : s.hist.take s.tail = (s.hist.take s.head).take s.tail := by
      rw [List.take_take]; congr 1; have := h.ht; omega
    rw [this, List.take_append_drop]
  · simp [inflight]; omega
  · have := h.cap2; have := h.ps; omega

/-- results are consistent with the ghost logs: the accepted items are the prefixes (of length = returned count) of the
producer's completed calls; the received items are the items returned by the consumer's completed non-peek calls -/
structure RetInv (p : List POp) (q : List QOp) (s : S) : Prop where
  pdone : ∃ done, p = done ++ s.pTodo ∧ done.length = s.pRets.length ∧
            s.acc = ((done.zip s.pRets).map (fun x => x.1.items.take x.2)).flatten
  qdone : ∃ done, q = done ++ s.qTodo ∧ done.length = s.qRets.length ∧
            s.recv = (((done.zip s.qRets).filter (fun x => x.1 != .peek)).map (fun x => x.2)).flatten

theorem retInv_init (p : List POp) (q : List QOp) : RetInv p q (init p q) :=
  ⟨⟨[], by simp [init], by simp [init], by simp [init]⟩, ⟨[], by simp [init], by simp [init], by simp [init]⟩⟩

theorem retInv_step (c : Cfg) (p : List POp) (q : List QOp) (s : S) (a : Act) (h : RetInv p q s) :
    RetInv p q (step c s a) := by
  obtain ⟨⟨pd, p1, p2, p3⟩, ⟨qd, q1, q2, q3⟩⟩ := h
  cases a with
  | pLoad v =>
    simp only [step]; split
    · split
      · exact ⟨⟨pd, p1, p2, p3⟩, ⟨qd, q1, q2, q3⟩⟩
      · exact ⟨⟨pd, p1, p2, p3⟩, ⟨qd, q1, q2, q3⟩⟩
    · exact ⟨⟨pd, p1, p2, p3⟩, ⟨qd, q1, q2, q3⟩⟩
  | qLoad v =>
    simp only [step]; split
    · split
      · exact ⟨⟨pd, p1, p2, p3⟩, ⟨qd, q1, q2, q3⟩⟩
      · exact ⟨⟨pd, p1, p2, p3⟩, ⟨qd, q1, q2, q3⟩⟩
    · exact ⟨⟨pd, p1, p2, p3⟩, ⟨qd, q1, q2, q3⟩⟩
  | pWrite =>
    simp only [step]; split
    · split
      · split
        · exact ⟨⟨pd, p1, p2, p3⟩, ⟨qd, q1, q2, q3⟩⟩
        · exact ⟨⟨pd, p1, p2, p3⟩, ⟨qd, q1, q2, q3⟩⟩
      · exact ⟨⟨pd, p1, p2, p3⟩, ⟨qd, q1, q2, q3⟩⟩
    · exact ⟨⟨pd, p1, p2, p3⟩, ⟨qd, q1, q2, q3⟩⟩
  | qRead =>
    simp only [step]; split
    · split
      · exact ⟨⟨pd, p1, p2, p3⟩, ⟨qd, q1, q2, q3⟩⟩
      · exact ⟨⟨pd, p1, p2, p3⟩, ⟨qd, q1, q2, q3⟩⟩
    · exact ⟨⟨pd, p1, p2, p3⟩, ⟨qd, q1, q2, q3⟩⟩
  | pStore =>
    simp only [step]; split
    · rename_i ts n k op rest hpc htodo
      split
      · refine ⟨⟨pd ++ [op], ?_, ?_, ?_⟩, ⟨qd, q1, q2, q3⟩⟩
        · show p = (pd ++ [op]) ++ rest; rw [p1, htodo]; simp
        · show (pd ++ [op]).length = (s.pRets ++ [n]).length; simp [p2]
        · show s.acc ++ op.items.take n = _
          rw [List.zip_append p2, p3]; simp
      · exact ⟨⟨pd, p1, p2, p3⟩, ⟨qd, q1, q2, q3⟩⟩
    · exact ⟨⟨pd, p1, p2, p3⟩, ⟨qd, q1, q2, q3⟩⟩
  | qStore =>
    simp only [step]; split
    · rename_i hs n got op rest hpc htodo
      split
      · split
        · rename_i hpeek
          refine ⟨⟨pd, p1, p2, p3⟩, ⟨qd ++ [op], ?_, ?_, ?_⟩⟩
          · show q = (qd ++ [op]) ++ rest; rw [q1, htodo]; simp
          · show (qd ++ [op]).length = (s.qRets ++ [got]).length; simp [q2]
          · show s.recv = _
            rw [List.zip_append q2, q3]; simp [hpeek]
        · rename_i hpeek
          refine ⟨⟨pd, p1, p2, p3⟩, ⟨qd ++ [op], ?_, ?_, ?_⟩⟩
          · show q = (qd ++ [op]) ++ rest; rw [q1, htodo]; simp
          · show (qd ++ [op]).length = (s.qRets ++ [got]).length; simp [q2]
          · show s.recv ++ got = _
            rw [List.zip_append q2, q3]; simp [hpeek]
      · exact ⟨⟨pd, p1, p2, p3⟩, ⟨qd, q1, q2, q3⟩⟩
    · exact ⟨⟨pd, p1, p2, p3⟩, ⟨qd, q1, q2, q3⟩⟩

theorem retInv_run (c : Cfg) (p : List POp) (q : List QOp) (as : List Act) : ∀ s, RetInv p q s → RetInv p q (run c s as) := by
  induction as with
  | nil => intro s h; exact h
  | cons a as ih => intro s h; exact ih _ (retInv_step c p q s a h)

end Iora.Spsc

namespace Iora.Spsc

/-- a refusal decided on a FRESH read of `_tail` is genuine: the ring really is full at that moment -/
theorem push_refusal_genuine (c : Cfg) (s : S) (x : Val) (h : Inv c s)
    (h0 : (POp.push x).count c.C s.head s.tail = 0) : (inflight s).length = c.C := by
  have := (fifo_of_inv c s h).2
  simp only [POp.count] at h0
  split at h0 <;> omega

/-- an "empty" answer decided on a FRESH read of `_head` is genuine -/
theorem pop_refusal_genuine (c : Cfg) (s : S) (h : Inv c s) (h0 : QOp.pop.count s.tail s.head = 0) : inflight s = [] := by
  have := (fifo_of_inv c s h).2
  simp only [QOp.count] at h0
  apply List.eq_nil_of_length_eq_zero
  split at h0 <;> omega

/-! ## from the extracted orders to the configuration -/

theorem all_imp {α : Type} (l : List α) (p q : α → Bool) (h : ∀ a, p a = true → q a = true) (hp : l.all p = true) : l.all q = true := by
  rw [List.all_eq_true] at *
  intro a ha; exact h a (hp a ha)

theorem cfg_of_ordersOK (o : Orders) (C : Nat) (h : OrdersOK o) :
    (cfgOf o C).pAcq = true ∧ (cfgOf o C).qAcq = true ∧ (cfgOf o C).pRel = true ∧ (cfgOf o C).qRel = true := by
  unfold OrdersOK ordersOK at h
  rw [Bool.and_eq_true] at h
  replace h := h.1
  unfold countersOK at h
  rw [List.all_eq_true] at h
  refine ⟨?_, ?_, ?_, ?_⟩ <;> simp only [cfgOf, allOf] <;> rw [List.all_eq_true] <;> intro cls hcls <;>
    have hc := h cls hcls <;> simp only [Bool.and_eq_true] at hc <;> obtain ⟨⟨⟨hpm, hcm⟩, _⟩, _⟩ := hc
  · refine all_imp _ _ _ ?_ hpm
    intro m hm
    simp only [producerOk, Bool.and_eq_true] at hm
    refine all_imp _ _ _ ?_ hm.2
    intro a ha
    by_cases e1 : a.2.1 == "load" <;> by_cases e2 : a.1 == "_tail" <;> simp_all
  · refine all_imp _ _ _ ?_ hcm
    intro m hm
    simp only [consumerOk, Bool.and_eq_true] at hm
    refine all_imp _ _ _ ?_ hm.2
    intro a ha
    by_cases e1 : a.2.1 == "load" <;> by_cases e2 : a.1 == "_head" <;> simp_all
  · refine all_imp _ _ _ ?_ hpm
    intro m hm
    simp only [producerOk, Bool.and_eq_true] at hm
    refine all_imp _ _ _ ?_ hm.2
    intro a ha
    by_cases e1 : a.2.1 == "load" <;> by_cases e2 : a.1 == "_head" <;> by_cases e3 : a.2.1 == "store" <;> simp_all
  · refine all_imp _ _ _ ?_ hcm
    intro m hm
    simp only [consumerOk, Bool.and_eq_true] at hm
    refine all_imp _ _ _ ?_ hm.2
    intro a ha
    by_cases e1 : a.2.1 == "load" <;> by_cases e2 : a.1 == "_tail" <;> by_cases e3 : a.2.1 == "store" <;> simp_all

end Iora.Spsc

namespace Iora.Spsc

/-- **a `tryPush` that returns `false` after a fresh read of `_tail`**: the producer, idle with `push x` next, loads
`_tail` (reading its latest value) and completes the call; if the call returns 0 the ring held `C` items at the load -/
theorem push_returns_zero_fresh (c : Cfg) (s : S) (x : Val) (rest : List POp) (h : Inv c s)
    (hpc : s.pPc = .idle) (ht : s.pTodo = .push x :: rest)
    (hret : (step c (step c s (.pLoad s.tail)) .pStore).pRets = s.pRets ++ [0]) : (inflight s).length = c.C := by
  have hps := h.ps
  have hF := (fifo_of_inv c s h).2
  have h1 : step c s (.pLoad s.tail) =
      { s with pPc := .writing s.tail ((POp.push x).count c.C s.head s.tail) 0, pSeen := s.tail,
               pKq := if c.pAcq && c.qRel then max s.pKq s.tail else s.pKq } := by
    simp [step, hpc, ht, hps]
  rw [h1] at hret
  by_cases h0 : (POp.push x).count c.C s.head s.tail = 0
  · exact push_refusal_genuine c s x h h0
  · exfalso
    have hne : ¬ (0 = (POp.push x).count c.C s.head s.tail) := fun e => h0 e.symm
    simp [step, ht, hne] at hret

/-- **a `tryPop` that returns `false` after a fresh read of `_head`** saw an empty ring -/
theorem pop_returns_empty_fresh (c : Cfg) (s : S) (rest : List QOp) (h : Inv c s)
    (hpc : s.qPc = .idle) (ht : s.qTodo = .pop :: rest)
    (hret : (step c (step c s (.qLoad s.head)) .qStore).qRets = s.qRets ++ [[]]) : inflight s = [] := by
  have hqs := h.qs
  have h1 : step c s (.qLoad s.head) =
      { s with qPc := .reading s.head (QOp.pop.count s.tail s.head) [], qSeen := s.head,
               qKp := if c.qAcq && c.pRel then max s.qKp s.head else s.qKp } := by
    simp [step, hpc, ht, hqs]
  rw [h1] at hret
  by_cases h0 : QOp.pop.count s.tail s.head = 0
  · exact pop_refusal_genuine c s h h0
  · exfalso
    have hne : ¬ (0 = QOp.pop.count s.tail s.head) := fun e => h0 e.symm
    simp [step, ht, hne] at hret

end Iora.Spsc
