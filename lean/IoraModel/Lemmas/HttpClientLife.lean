import IoraModel.Model.HttpClientLife
import IoraModel.Lemmas.HttpRetry
/-! Lemmas about `Model/HttpClientLife.lean` (C17 extension round): parseUrl's port, pre-lease failures, the lease wait
as a loop of wake-ups, cleanup/_closing. -/
namespace Iora.HttpRetry
open Iora

/-! ### parseUrl -/

theorem parseUrlPort_lt (u : UrlIn) (p : Nat) (h : parseUrlPort u = .ok p) : p < 65536 := by
  unfold parseUrlPort at h
  by_cases hw : u.wellFormed = true
  · simp only [hw, Bool.not_true, Bool.false_eq_true, if_false] at h
    cases hp : u.port with
    | none =>
      simp only [hp] at h
      by_cases hs : u.https = true
      · simp only [hs, if_true] at h; cases h; decide
      · simp only [hs, Bool.false_eq_true, if_false] at h; cases h; decide
    | some q =>
      simp only [hp] at h
      by_cases hq : q > Gen.HttpRetry.portParseMax
      · simp [hq] at h
      · simp only [hq, if_false] at h
        cases h
        exact Nat.mod_lt _ (by decide)
  · have : u.wellFormed = false := by simpa using hw
    simp [this] at h

theorem parseUrlPort_wrap (u : UrlIn) (p : Nat) (h : p + Gen.HttpRetry.portCastModulus ≤ Gen.HttpRetry.portParseMax) :
    parseUrlPort { u with port := some (p + Gen.HttpRetry.portCastModulus) } = parseUrlPort { u with port := some p } := by
  unfold parseUrlPort
  by_cases hw : u.wellFormed = true
  · have h1 : ¬ (p + Gen.HttpRetry.portCastModulus > Gen.HttpRetry.portParseMax) := by omega
    have h2 : ¬ (p > Gen.HttpRetry.portParseMax) := by omega
    simp only [hw, Bool.not_true, Bool.false_eq_true, if_false, h1, h2, Nat.add_mod_right]
  · have : u.wellFormed = false := by simpa using hw
    simp [this]

theorem parseUrlPort_error (u : UrlIn) (e : Exn) (h : parseUrlPort u = .error e) : e = .invalidArg ∨ e = .other := by
  unfold parseUrlPort at h
  by_cases hw : u.wellFormed = true
  · simp only [hw, Bool.not_true, Bool.false_eq_true, if_false] at h
    cases hp : u.port with
    | none => simp [hp] at h
    | some q =>
      simp only [hp] at h
      by_cases hq : q > Gen.HttpRetry.portParseMax
      · simp only [hq, if_true] at h
        right
        have : exnOfName Gen.HttpRetry.portRangeThrow = .other := by decide
        rw [this] at h
        cases h; rfl
      · simp [hq] at h
  · have : u.wellFormed = false := by simpa using hw
    simp only [this, Bool.not_false, if_true] at h
    left
    rw [urlFail_exn] at h
    cases h; rfl

/-! ### pre-lease failures -/

theorem failLoop_le (m : String) (r : Int) (e : Exn) :
    ∀ (fuel attempt : Nat), failLoop m r e fuel attempt ≤ (r.toNat - attempt) + 1 := by
  intro fuel
  induction fuel with
  | zero => intro a; simp [failLoop]
  | succ fuel ih =>
    intro a
    simp only [failLoop]
    cases hd : dispatch e with
    | rethrow => simp
    | uncaught => simp
    | retry =>
      simp only
      by_cases he : retryEligible m e = true
      · simp only [he, Bool.not_true, Bool.false_eq_true, if_false]
        by_cases hb : budgetExhausted a r = true
        · simp [hb]
        · simp only [hb, Bool.false_eq_true, if_false]
          rw [budgetExhausted_eq] at hb
          simp only [decide_eq_true_eq, ge_iff_le, Int.not_le] at hb
          have := ih (a + 1)
          omega
      · have he' : retryEligible m e = false := by simpa using he
        simp [he']

theorem failLoop_not_eligible (m : String) (r : Int) (e : Exn) (fuel attempt : Nat)
    (hm : isIdempotent m = false) (he : e ≠ .notSent) : failLoop m r e (fuel + 1) attempt = 1 := by
  simp only [failLoop]
  cases hd : dispatch e with
  | rethrow => rfl
  | uncaught => rfl
  | retry =>
    have : retryEligible m e = false := by
      rw [retryEligible_eq]; simp [hm, he]
    simp [this]

/-- the existing loop on an unparsable URL IS `failLoop` with `std::invalid_argument`: nothing happens but the count -/
theorem performLoop_urlFail (cfg : Cfg) (rq : Request) (hu : rq.urlOk = false) :
    ∀ (fuel attempt : Nat) (c : Client),
      (performLoop cfg rq fuel attempt c).log.length = failLoop rq.method rq.retries .invalidArg fuel attempt ∧
      (performLoop cfg rq fuel attempt c).evs = [] ∧ (performLoop cfg rq fuel attempt c).client = c := by
  intro fuel
  induction fuel with
  | zero => intro a c; simp [performLoop, failLoop]
  | succ fuel ih =>
    intro a c
    have hx : executeRequest cfg c rq.urlOk rq.host (rq.script a) = (c, ⟨.error .invalidArg, false, 0⟩, []) := by
      simp [executeRequest, hu, urlFail_exn]
    simp only [performLoop, failLoop, hx, dispatch_invalidArg]
    by_cases he : retryEligible rq.method .invalidArg = true
    · simp only [he, Bool.not_true, Bool.false_eq_true, if_false]
      by_cases hb : budgetExhausted a rq.retries = true
      · simp [hb]
      · simp only [hb, Bool.false_eq_true, if_false]
        obtain ⟨h1, h2, h3⟩ := ih (a + 1) c
        simp [h1, h2, h3]
        omega
    · have he' : retryEligible rq.method .invalidArg = false := by simpa using he
      simp [he']

/-! ### the lease wait -/

theorem leaseDeadline_eq (start now d : Nat) : leaseDeadline start now d = start + d := by
  unfold leaseDeadline
  have : Gen.HttpRetry.leaseWaitForm = "wait_for_pred" := by decide
  simp [this]

theorem wakeOutcome_some (w : Wake) (t : Nat) (o : LeaseOut) (h : wakeOutcome w t = some o) :
    o.time = t ∧ (∀ t', o ≠ .timedOut t') ∧ (o.ans = .granted → w.free = true ∧ w.closing = false) := by
  unfold wakeOutcome at h
  by_cases hc : w.closing = true
  · simp only [hc, if_true, Option.some.injEq] at h
    subst h
    refine ⟨rfl, ?_, ?_⟩
    · intro t' hh; cases hh
    · intro hh; cases hh
  · by_cases hf : w.free = true
    · simp only [hc, Bool.false_eq_true, if_false, hf, if_true, Option.some.injEq] at h
      subst h
      refine ⟨rfl, ?_, ?_⟩
      · intro t' hh; cases hh
      · intro _; exact ⟨hf, by simpa using hc⟩
    · simp [hc, hf] at h

/-- EVERY wake-up pattern: the lease wait is over no later than `start + d`; a time-out is reported exactly at `start + d`;
the lease is granted only by a wake-up that saw the host free and the client not closing -/
theorem leaseLoop_bound (d start : Nat) : ∀ (ws : List Wake) (now : Nat), now ≤ start + d →
    (leaseLoop d start now ws).time ≤ start + d ∧
    (∀ t, leaseLoop d start now ws = .timedOut t → t = start + d) ∧
    ((leaseLoop d start now ws).ans = .granted → ∃ w ∈ ws, w.free = true ∧ w.closing = false) := by
  intro ws
  induction ws with
  | nil =>
    intro now hn
    simp only [leaseLoop, leaseDeadline_eq]
    have : max now (start + d) = start + d := Nat.max_eq_right hn
    rw [this]
    refine ⟨Nat.le_refl _, ?_, ?_⟩
    · intro t h; cases h; rfl
    · intro h; cases h
  | cons w ws ih =>
    intro now hn
    simp only [leaseLoop, leaseDeadline_eq]
    by_cases ht : max now w.time < start + d
    · simp only [ht, if_true]
      cases ho : wakeOutcome w (max now w.time) with
      | some o =>
        obtain ⟨h1, h2, h3⟩ := wakeOutcome_some w _ o ho
        simp only
        refine ⟨by rw [h1]; exact Nat.le_of_lt ht, ?_, ?_⟩
        · intro t h; exact absurd h (h2 t)
        · intro h; exact ⟨w, List.mem_cons_self, h3 h⟩
      | none =>
        simp only
        obtain ⟨h1, h2, h3⟩ := ih (max now w.time) (Nat.le_of_lt ht)
        refine ⟨h1, h2, ?_⟩
        intro h
        obtain ⟨w', hw', hp⟩ := h3 h
        exact ⟨w', List.mem_cons_of_mem _ hw', hp⟩
    · simp only [ht, if_false]
      have hm : max now (start + d) = start + d := Nat.max_eq_right hn
      rw [hm]
      cases ho : wakeOutcome w (start + d) with
      | some o =>
        obtain ⟨h1, h2, h3⟩ := wakeOutcome_some w _ o ho
        simp only
        refine ⟨by rw [h1]; exact Nat.le_refl _, ?_, ?_⟩
        · intro t h; exact absurd h (h2 t)
        · intro h; exact ⟨w, List.mem_cons_self, h3 h⟩
      | none =>
        simp only
        refine ⟨Nat.le_refl _, ?_, ?_⟩
        · intro t h; cases h; rfl
        · intro h; cases h

/-- while the host stays leased and the client is not closing, no wake-up pattern ends the wait other than by its time-out -/
theorem leaseLoop_held (d start : Nat) : ∀ (ws : List Wake) (now : Nat), now ≤ start + d →
    (∀ w ∈ ws, w.free = false ∧ w.closing = false) → leaseLoop d start now ws = .timedOut (start + d) := by
  intro ws
  induction ws with
  | nil =>
    intro now hn _
    simp only [leaseLoop, leaseDeadline_eq]
    rw [Nat.max_eq_right hn]
  | cons w ws ih =>
    intro now hn hall
    obtain ⟨hf, hc⟩ := hall w List.mem_cons_self
    have hno : ∀ t, wakeOutcome w t = none := by intro t; simp [wakeOutcome, hf, hc]
    simp only [leaseLoop, leaseDeadline_eq, hno]
    by_cases ht : max now w.time < start + d
    · simp only [ht, if_true]
      exact ih _ (Nat.le_of_lt ht) (fun w' hw' => hall w' (List.mem_cons_of_mem _ hw'))
    · simp only [ht, if_false]
      rw [Nat.max_eq_right hn]

theorem foreignWakes_held (step : Nat) : ∀ (n i : Nat), ∀ w ∈ foreignWakes step n i, w.free = false ∧ w.closing = false := by
  intro n
  induction n with
  | zero => intro i w h; simp [foreignWakes] at h
  | succ n ih =>
    intro i w h
    simp only [foreignWakes, List.mem_cons] at h
    rcases h with rfl | h
    · exact ⟨rfl, rfl⟩
    · exact ih (i + 1) w h

/-! ### cleanup / _closing -/

theorem exec_closing (cfg : Cfg) (c : Client) (urlOk : Bool) (h : Host) (a : Attempt) (hl : a.lease = .closing) :
    executeRequest cfg c urlOk h a = (c, ⟨.error (if urlOk then .runtime else .invalidArg), false, 0⟩, []) := by
  cases urlOk with
  | false => simp [executeRequest, urlFail_exn]
  | true => simp [executeRequest, hl, leaseFail_exn]

/-- a client whose every lease answer is `closing`: nothing happens on the engine, the client is unchanged, no attempt reaches
`sendSync`, and (URL well-formed) the caller gets `std::runtime_error` -/
theorem performLoop_closing (cfg : Cfg) (rq : Request) (hc : ∀ i, (rq.script i).lease = .closing) :
    ∀ (fuel attempt : Nat) (c : Client),
      (performLoop cfg rq fuel attempt c).evs = [] ∧ (performLoop cfg rq fuel attempt c).client = c ∧
      (∀ lg ∈ (performLoop cfg rq fuel attempt c).log, lg.reachedSend = false ∧ lg.receives = 0) ∧
      ((performLoop cfg rq fuel attempt c).fuelOut = false → rq.urlOk = true →
        (performLoop cfg rq fuel attempt c).result = .error .runtime) := by
  intro fuel
  induction fuel with
  | zero => intro a c; simp [performLoop]
  | succ fuel ih =>
    intro a c
    have hx := exec_closing cfg c rq.urlOk rq.host (rq.script a) (hc a)
    simp only [performLoop, hx]
    have hd : dispatch (if rq.urlOk then Exn.runtime else Exn.invalidArg) = .retry := by
      cases rq.urlOk <;> simp [dispatch_runtime, dispatch_invalidArg]
    simp only [hd]
    by_cases he : retryEligible rq.method (if rq.urlOk then Exn.runtime else Exn.invalidArg) = true
    · simp only [he, Bool.not_true, Bool.false_eq_true, if_false]
      by_cases hb : budgetExhausted a rq.retries = true
      · simp only [hb, if_true]
        refine ⟨by trivial, by trivial, ?_, ?_⟩
        · intro lg hlg; simp at hlg; simp [hlg]
        · intro _ hu; simp [hu]
      · simp only [hb, Bool.false_eq_true, if_false]
        obtain ⟨h1, h2, h3, h4⟩ := ih (a + 1) c
        refine ⟨by simp [h1], h2, ?_, h4⟩
        intro lg hlg
        simp only [List.mem_cons] at hlg
        rcases hlg with rfl | hlg
        · exact ⟨rfl, rfl⟩
        · exact h3 lg hlg
    · have he' : retryEligible rq.method (if rq.urlOk then Exn.runtime else Exn.invalidArg) = false := by simpa using he
      simp only [he', Bool.not_false, if_true]
      refine ⟨by trivial, by trivial, ?_, ?_⟩
      · intro lg hlg; simp at hlg; simp [hlg]
      · intro _ hu; simp [hu]

theorem cleanup_spec (lc : LClient) :
    (cleanup lc).1.closing = true ∧ (cleanup lc).1.client.conns = [] ∧
    (cleanup lc).2 = lc.client.conns.map (fun p => Ev.close p.2) ∧
    (cleanup lc).1.client.leased = lc.client.leased ∧ (cleanup lc).1.client.nextSid = lc.client.nextSid := by
  have h1 : "clear" ∈ Gen.HttpRetry.cleanupSteps := by decide
  have h2 : "closing" ∈ Gen.HttpRetry.cleanupSteps := by decide
  have h3 : "closeAll" ∈ Gen.HttpRetry.cleanupSteps := by decide
  simp [cleanup, h1, h2, h3]

end Iora.HttpRetry
