import IoraModel.Lemmas.TpDefs
/-! # C09 — `_mutex` is held by at most one thread, and by every thread whose state says so -/
namespace Iora.ThreadPool

@[simp] theorem nextCall_holds (rest : List Act) : holdsOut (nextCall rest) = false := by
  unfold nextCall; split <;> simp [holdsOut, holdsCall]

theorem callStep_owner (cfg : Cfg) (sh : Shared) (n : Nat) (t : Tid) (c : CallSt) :
    ((callStep cfg sh n t c).1.owner = sh.owner ∧ holdsOut (callStep cfg sh n t c).2.1 = holdsCall c) ∨
    (c.locks = true ∧ (callStep cfg sh n t c).1.owner = some t ∧ holdsOut (callStep cfg sh n t c).2.1 = true) ∨
    (holdsCall c = true ∧ (callStep cfg sh n t c).1.owner = none ∧ holdsOut (callStep cfg sh n t c).2.1 = false) := by
  cases c with
  | yield_ sc =>
    cases sc with
    | nil => simp [callStep, holdsOut, holdsCall]
    | cons a rest => simp only [callStep]; split <;> (try simp only [nextCall_holds]) <;> simp [holdsOut, holdsCall]
  | inCall rest cid e =>
    cases e <;> simp only [callStep]
    · (repeat' split) <;> simp [holdsOut, holdsCall, CallSt.locks]
    · simp [holdsOut, holdsCall]
    · simp [holdsOut, holdsCall]
    · simp only [nextCall_holds]; simp [holdsCall]
    · simp only [nextCall_holds]; simp [holdsCall]

@[simp] theorem afterWait_owner (cfg : Cfg) (sh : Shared) (t : Tid) (res : Bool) :
    (afterWait cfg sh t res).1.owner = sh.owner := by
  unfold afterWait; (repeat' split) <;> simp

@[simp] theorem afterWait_holds (cfg : Cfg) (sh : Shared) (t : Tid) (res : Bool) :
    holdsW (afterWait cfg sh t res).2 = true := by
  unfold afterWait; (repeat' split) <;> simp [holdsW]

@[simp] theorem reacq_owner (cfg : Cfg) (sh : Shared) (t : Tid) (late : Bool) :
    (reacq cfg sh t late).1.owner = some t := by
  unfold reacq; (repeat' split) <;> simp

@[simp] theorem reacq_holds (cfg : Cfg) (sh : Shared) (t : Tid) (late : Bool) :
    holdsW (reacq cfg sh t late).2 = true := by
  unfold reacq; (repeat' split) <;> (try simp only [afterWait_holds]) <;> simp [holdsW]

@[simp] theorem bodyEnd_owner (cfg : Cfg) (sh : Shared) (id : Nat) : (bodyEnd cfg sh id).1.owner = sh.owner := by
  unfold bodyEnd; split <;> simp

@[simp] theorem bodyEnd_holds (cfg : Cfg) (sh : Shared) (id : Nat) : holdsW (bodyEnd cfg sh id).2 = false := by
  unfold bodyEnd; split <;> simp [holdsW]

theorem transW_owner (cfg : Cfg) (sh : Shared) (n : Nat) (t : Tid) (w : WSt) :
    ((transW cfg sh n t w).1.owner = sh.owner ∧ holdsW (transW cfg sh n t w).2.1 = holdsW w) ∨
    (locksW w = true ∧ (transW cfg sh n t w).1.owner = some t ∧ holdsW (transW cfg sh n t w).2.1 = true) ∨
    (holdsW w = true ∧ (transW cfg sh n t w).1.owner = none ∧ holdsW (transW cfg sh n t w).2.1 = false) := by
  cases w with
  | body id c =>
    simp only [transW]
    have h := callStep_owner cfg sh n t c
    cases hx : (callStep cfg sh n t c).2.1 with
    | more c' => simp only [hx, holdsOut] at h; simpa [holdsW, locksW] using h
    | done => simp only [hx, holdsOut] at h; simp only [bodyEnd_holds, bodyEnd_owner]; simpa [holdsW, locksW] using h
  | lock => simp only [transW]; split <;> (try simp only [afterWait_holds, afterWait_owner]) <;> simp [holdsW, locksW]
  | unlockTask id => simp only [transW, beginTask]; split <;> simp [holdsW]
  | bYield id sc => simp only [transW]; split <;> (try simp only [bodyEnd_holds, bodyEnd_owner]) <;> simp [holdsW, holdsCall]
  | cfgUnlock id again => simp only [transW, taskDone]; split <;> simp [holdsW]
  | _ => simp [transW, holdsW, beginTask, taskDone]

theorem transS_owner (cfg : Cfg) (sh : Shared) (n : Nat) (t : Tid) (x : SSt) :
    ((transS cfg sh n t x).1.owner = sh.owner ∧ holdsS (transS cfg sh n t x).2.1 = holdsS x) ∨
    (locksS x = true ∧ (transS cfg sh n t x).1.owner = some t ∧ holdsS (transS cfg sh n t x).2.1 = true) ∨
    (holdsS x = true ∧ (transS cfg sh n t x).1.owner = none ∧ holdsS (transS cfg sh n t x).2.1 = false) := by
  cases x with
  | run c =>
    simp only [transS]
    have h := callStep_owner cfg sh n t c
    cases hx : (callStep cfg sh n t c).2.1 with
    | more c' => simp only [hx, holdsOut] at h; simpa [holdsS, locksS] using h
    | done => simp only [hx, holdsOut] at h; simpa [holdsS, locksS] using h
  | start sc => simp only [transS]; split <;> simp [holdsS, holdsCall]
  | done => simp [transS, holdsS]

@[simp] theorem pollExit_owner (sh : Shared) (r : MRegs) (k : Poll) (d : Bool) : (pollExit sh r k d).1.owner = sh.owner := by
  unfold pollExit drainReturn; (repeat' split) <;> simp
@[simp] theorem pollExit_holds (sh : Shared) (r : MRegs) (k : Poll) (d : Bool) : holdsP (pollExit sh r k d).2.1 = false := by
  unfold pollExit drainReturn; (repeat' split) <;> simp [holdsP]
@[simp] theorem pollHead_owner (sh : Shared) (r : MRegs) (k : Poll) : (pollHead sh r k).1.owner = sh.owner := by
  unfold pollHead; split <;> simp
@[simp] theorem pollHead_holds (sh : Shared) (r : MRegs) (k : Poll) : holdsP (pollHead sh r k).2.1 = false := by
  unfold pollHead; split <;> (try simp only [pollExit_holds]) <;> simp [holdsP]
@[simp] theorem stepMYield_owner (cfg : Cfg) (sh : Shared) (r : MRegs) : (stepMYield cfg sh r).1.owner = sh.owner := by
  unfold stepMYield drainEnter; (repeat' split) <;> simp
@[simp] theorem stepMYield_holds (cfg : Cfg) (sh : Shared) (r : MRegs) : holdsP (stepMYield cfg sh r).2.1 = false := by
  unfold stepMYield drainEnter; (repeat' split) <;> simp [holdsP, holdsCall]
@[simp] theorem drainReturn_owner (sh : Shared) (r : MRegs) (b : Bool) : (drainReturn sh r b).1.owner = sh.owner := by
  unfold drainReturn; (repeat' split) <;> simp
@[simp] theorem drainReturn_holds (sh : Shared) (r : MRegs) (b : Bool) : holdsP (drainReturn sh r b).2.1 = false := by
  unfold drainReturn; (repeat' split) <;> simp [holdsP]
@[simp] theorem shutdownReturn_owner (sh : Shared) (r : MRegs) : (shutdownReturn sh r).1.owner = sh.owner := by
  unfold shutdownReturn; (repeat' split) <;> simp
@[simp] theorem shutdownReturn_holds (sh : Shared) (r : MRegs) : holdsP (shutdownReturn sh r).2.1 = false := by
  unfold shutdownReturn; (repeat' split) <;> simp [holdsP]
@[simp] theorem dtorReturn_owner (sh : Shared) (r : MRegs) : (dtorReturn sh r).1.owner = sh.owner := by
  unfold dtorReturn; simp
@[simp] theorem dtorReturn_holds (sh : Shared) (r : MRegs) : holdsP (dtorReturn sh r).2.1 = false := by
  unfold dtorReturn; simp [holdsP]
@[simp] theorem dtorEarly_owner (sh : Shared) (r : MRegs) : (dtorEarly sh r).1.owner = sh.owner := by
  unfold dtorEarly; split <;> simp
@[simp] theorem dtorEarly_holds (sh : Shared) (r : MRegs) : holdsP (dtorEarly sh r).2.1 = false := by
  unfold dtorEarly; split
  · exact dtorReturn_holds sh r
  · simp [holdsP]

theorem transM_owner (cfg : Cfg) (sh : Shared) (n : Nat) (t : Tid) (pc : MPc) (r : MRegs) (alt : Nat) :
    ((transM cfg sh n t pc r alt).1.owner = sh.owner ∧ holdsP (transM cfg sh n t pc r alt).2.1.1 = holdsP pc) ∨
    (locksP pc = true ∧ (transM cfg sh n t pc r alt).1.owner = some t ∧ holdsP (transM cfg sh n t pc r alt).2.1.1 = true) ∨
    (holdsP pc = true ∧ (transM cfg sh n t pc r alt).1.owner = none ∧ holdsP (transM cfg sh n t pc r alt).2.1.1 = false) := by
  cases pc with
  | inCall c =>
    simp only [transM]
    have h := callStep_owner cfg sh n t c
    cases hx : (callStep cfg sh n t c).2.1 with
    | more c' => simp only [hx, holdsOut] at h; simpa [holdsP, locksP] using h
    | done => simp only [hx, holdsOut] at h; simpa [holdsP, locksP] using h
  | _ => simp only [transM] <;> (repeat' split) <;>
    (try simp only [pollExit_owner, pollExit_holds, pollHead_owner, pollHead_holds, stepMYield_owner, stepMYield_holds,
      drainReturn_owner, drainReturn_holds, shutdownReturn_owner, shutdownReturn_holds, dtorReturn_owner, dtorReturn_holds,
      dtorEarly_owner, dtorEarly_holds]) <;>
    simp [holdsP, locksP]

theorem trans_owner (cfg : Cfg) (sh : Shared) (n : Nat) (t : Tid) (th : Thread) (alt : Nat) :
    ((trans cfg sh n t th alt).1.owner = sh.owner ∧ holdsM (trans cfg sh n t th alt).2.1 = holdsM th) ∨
    (locksM th = true ∧ (trans cfg sh n t th alt).1.owner = some t ∧ holdsM (trans cfg sh n t th alt).2.1 = true) ∨
    (holdsM th = true ∧ (trans cfg sh n t th alt).1.owner = none ∧ holdsM (trans cfg sh n t th alt).2.1 = false) := by
  cases th with
  | main pc r => simpa [trans, holdsM, locksM] using transM_owner cfg sh n t pc r alt
  | sub x => simpa [trans, holdsM, locksM] using transS_owner cfg sh n t x
  | worker w => simpa [trans, holdsM, locksM] using transW_owner cfg sh n t w

/-- every thread a step creates starts in a `start` state -/
def isFresh : Thread → Bool
  | .worker .start => true
  | .sub (.start _) => true
  | .main .startAux _ => true
  | _ => false

theorem callStep_spawn (cfg : Cfg) (sh : Shared) (n : Nat) (t : Tid) (c : CallSt) (nt : Thread)
    (h : (callStep cfg sh n t c).2.2 = .spawn nt) : nt = newWorker ∧ ∃ rest cid, c = .inCall rest cid .create := by
  unfold callStep at h
  split at h <;> (try (repeat' split at h)) <;> simp at h
  exact ⟨h.symm, _, _, rfl⟩

theorem trans_spawn (cfg : Cfg) (sh : Shared) (n : Nat) (t : Tid) (th : Thread) (alt : Nat) (nt : Thread)
    (h : (trans cfg sh n t th alt).2.2 = .spawn nt) : isFresh nt = true := by
  cases th with
  | main pc r =>
    simp only [trans] at h
    cases pc with
    | inCall c =>
      simp only [transM] at h
      cases hx : (callStep cfg sh n t c).2.1 <;> simp only [hx] at h <;>
        (rw [(callStep_spawn cfg sh n t c nt h).1]; rfl)
    | cC => simp [transM] at h; subst h; rfl
    | kC => simp [transM] at h; subst h; rfl
    | mSpawnCtl ix => simp [transM] at h; subst h; rfl
    | mSpawn sc => simp [transM] at h; subst h; rfl
    | _ => simp only [transM] at h <;> (repeat' split at h) <;> simp at h
  | sub x =>
    simp only [trans] at h
    cases x with
    | run c =>
      simp only [transS] at h
      cases hx : (callStep cfg sh n t c).2.1 <;> simp only [hx] at h <;>
        (rw [(callStep_spawn cfg sh n t c nt h).1]; rfl)
    | _ => simp only [transS] at h <;> (repeat' split at h) <;> simp at h
  | worker w =>
    simp only [trans] at h
    cases w with
    | body id c =>
      simp only [transW] at h
      cases hx : (callStep cfg sh n t c).2.1 <;> simp only [hx] at h <;>
        (rw [(callStep_spawn cfg sh n t c nt h).1]; rfl)
    | _ => simp only [transW] at h <;> (repeat' split at h) <;> simp at h

/-- I1: a thread whose state says it holds `_mutex` is the owner -/
def MutexOk (s : St) : Prop := AllT (fun sh t th => holdsM th = true → sh.owner = some t) s

@[simp] theorem holdsM_wake (x : Thread) (b : Bool) : holdsM (wake x b) = holdsM x := by
  unfold wake; split <;> simp [holdsM, holdsW]

theorem holdsM_fresh (nt : Thread) (h : isFresh nt = true) : holdsM nt = false := by
  cases nt with
  | main pc r => cases pc <;> simp [isFresh] at h; simp [holdsM, holdsP]
  | sub x => cases x <;> simp [isFresh] at h; simp [holdsM, holdsS]
  | worker w => cases w <;> simp [isFresh] at h; simp [holdsM, holdsW]

theorem mutexOk_init (cfg : Cfg) : MutexOk (init cfg) := by
  intro t th h
  simp [init] at h
  cases t with
  | zero => simp at h; subst h; simp [holdsM, holdsP]
  | succ k => simp at h

theorem mutexOk_step (cfg : Cfg) (s : St) (c : Choice) (h : MutexOk s) : MutexOk (step cfg s c) := by
  apply allT_step cfg _ s c h
  · intro t th b _ _ hp; rw [holdsM_wake]; exact hp
  · intro t th to late hget _ ho
    refine ⟨fun _ => reacq_owner cfg s.sh t late, ?_⟩
    intro t' x hne hx hh
    have := h t' x hx hh
    rw [ho] at this; cases this
  · intro t th alt hget _ _ _ he
    have ho := trans_owner cfg s.sh s.thr.length t th alt
    refine ⟨?_, ?_, ?_⟩
    · intro hh
      rcases ho with ⟨h1, h2⟩ | ⟨_, h1, _⟩ | ⟨_, _, h2⟩
      · rw [h1]; exact h t th hget (by rw [← h2]; exact hh)
      · exact h1
      · rw [h2] at hh; cases hh
    · intro t' x hne hx
      have key : holdsM x = true → (trans cfg s.sh s.thr.length t th alt).1.owner = some t' := by
        intro hh
        have hx' := h t' x hx hh
        rcases ho with ⟨h1, _⟩ | ⟨hl, _, _⟩ | ⟨hh2, _, _⟩
        · rw [h1]; exact hx'
        · have := enabled_locks s th he hl
          rw [this] at hx'; cases hx'
        · have := h t th hget hh2
          rw [this] at hx'
          exact absurd (Option.some.inj hx').symm hne
      exact ⟨key, fun _ => by rw [holdsM_wake]; exact key⟩
    · intro nt hnt hh
      rw [holdsM_fresh nt (trans_spawn cfg s.sh s.thr.length t th alt nt hnt)] at hh; cases hh

end Iora.ThreadPool
