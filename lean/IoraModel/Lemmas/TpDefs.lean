import IoraModel.Lemmas.TpBase
/-!
# C09 — observation functions on thread states
-/
namespace Iora.ThreadPool

/-- the task a worker has in hand: popped from the queue, body not yet finished -/
def cur : Thread → Option Nat
  | .worker (.unlockTask id) | .worker (.popped id) | .worker (.bYield id _) | .worker (.body id _) => some id
  | _ => none

/-- the task whose body a worker is executing -/
def running : Thread → Option Nat
  | .worker (.bYield id _) | .worker (.body id _) => some id
  | _ => none

/-- does a caller hold `_mutex` at this point of the call? -/
def holdsCall : CallSt → Bool
  | .inCall _ _ .create | .inCall _ _ .unlock | .inCall _ _ .unlockR => true
  | _ => false

def holdsOut : CallOut → Bool
  | .more c => holdsCall c
  | .done => false

def holdsW : WSt → Bool
  | .waitReady | .detach | .unlockExit | .unlockCont | .unlockTask _ => true
  | .body _ c => holdsCall c
  | _ => false

def holdsS : SSt → Bool
  | .run c => holdsCall c
  | _ => false

def holdsP : MPc → Bool
  | .cC | .cU | .dInfU | .pollU _ | .finU _ | .sFlagUA _ | .sFlagU | .sChkU | .jU _ | .jUnone | .p5U | .rsU | .stU | .kC | .kU => true
  | .inCall c => holdsCall c
  | _ => false

/-- the thread holds `_mutex` -/
def holdsM : Thread → Bool
  | .worker w => holdsW w
  | .sub x => holdsS x
  | .main pc _ => holdsP pc

def locksW : WSt → Bool
  | .lock => true
  | .body _ c => c.locks
  | _ => false

def locksS : SSt → Bool
  | .run c => c.locks
  | _ => false

def locksP : MPc → Bool
  | .cL | .dInfL | .pollL _ | .finL _ | .sFlagL | .sChkL | .jL | .p5L | .rsL | .stL | .kL => true
  | .inCall c => c.locks
  | _ => false

/-- the pending operation is `lock(_mutex)` -/
def locksM : Thread → Bool
  | .worker w => locksW w
  | .sub x => locksS x
  | .main pc _ => locksP pc

theorem enabled_locks (s : St) (th : Thread) (h : enabled s th = true) (hl : locksM th = true) : s.sh.owner = none := by
  cases th with
  | worker w =>
    cases w <;> simp [locksM, locksW] at hl <;> simp_all [enabled]
  | sub x => cases x <;> simp [locksM, locksS] at hl <;> simp_all [enabled]
  | main pc r => cases pc <;> simp [locksM, locksP] at hl <;> simp_all [enabled]

/-- the caller is about to create a worker (holds the mutex, has pushed a task) -/
def atCreate : Thread → Bool
  | .worker (.body _ (.inCall _ _ .create)) => true
  | .sub (.run (.inCall _ _ .create)) => true
  | .main (.inCall (.inCall _ _ .create)) _ => true
  | _ => false

def isWorker : Thread → Bool
  | .worker _ => true
  | _ => false

/-- the worker has decided to exit (or has exited): it will not look at the queue again -/
def tailW : Thread → Bool
  | .worker .detach | .worker .unlockExit | .worker .done => true
  | _ => false

/-- the worker has removed itself from `_threads` (idle exit) or has returned -/
def goneW : Thread → Bool
  | .worker .unlockExit | .worker .done => true
  | _ => false

/-- the worker the controller has taken out of `_threads` and is about to join -/
def targetOf : Thread → Option Tid
  | .main (.jU w) _ | .main (.jJoin w) _ | .main (.jDetach w) _ => some w
  | _ => none

def isMain : Thread → Bool
  | .main _ _ => true
  | _ => false

/-- controller: between setting `_shutdown` and the end of the join loop -/
def seqPc : MPc → Bool
  | .sFlagU | .sBcast | .sGrace | .sChkL | .sChkU | .jL | .jU _ | .jJoin _ | .jDetach _ | .p2Z | .p2Grace | .p4CfgL | .p4CfgU => true
  | .pollL k | .pollU k | .pollZ k => k != .drain
  | .finL k | .finU k => k != .drain
  | _ => false

/-- controller: its own join loop has completed -/
def qPc : MPc → Bool
  | .jUnone | .p5L | .p5U => true
  | _ => false

/-- controller: this thread has set `_shutdown` and has not yet returned from `shutdown()` / the destructor -/
def ownsPc (pc : MPc) : Bool := seqPc pc || qPc pc

/-- controller: inside `reset()` / `start()` -/
def restartPc : MPc → Bool
  | .rsL | .rsU | .stL | .stU | .kL | .kC | .kU => true
  | _ => false

/-- controller: constructor not finished -/
def ctorPc : MPc → Bool
  | .start | .cL | .cC | .cU => true
  | _ => false

-- the observation functions do not see a wake-up
@[simp] theorem isWorker_wake (x : Thread) (b : Bool) : isWorker (wake x b) = isWorker x := by
  unfold wake; split <;> simp [isWorker]
@[simp] theorem tailW_wake (x : Thread) (b : Bool) : tailW (wake x b) = tailW x := by
  unfold wake; split <;> simp [tailW]
@[simp] theorem goneW_wake (x : Thread) (b : Bool) : goneW (wake x b) = goneW x := by
  unfold wake; split <;> simp [goneW]
@[simp] theorem atCreate_wake (x : Thread) (b : Bool) : atCreate (wake x b) = atCreate x := by
  unfold wake; split <;> simp [atCreate]
@[simp] theorem targetOf_wake (x : Thread) (b : Bool) : targetOf (wake x b) = targetOf x := by
  unfold wake; split <;> simp [targetOf]
@[simp] theorem isMain_wake (x : Thread) (b : Bool) : isMain (wake x b) = isMain x := by
  unfold wake; split <;> simp [isMain]
theorem wake_eq_done (x : Thread) (b : Bool) : wake x b = .worker .done ↔ x = .worker .done := by
  unfold wake; split <;> simp
theorem wake_eq_unlockExit (x : Thread) (b : Bool) : wake x b = .worker .unlockExit ↔ x = .worker .unlockExit := by
  unfold wake; split <;> simp

/-- class functions agree on a thread and its woken version -/
theorem wokeFrom_class {x y : Thread} (h : WokeFrom x y) :
    isWorker y = isWorker x ∧ tailW y = tailW x ∧ goneW y = goneW x ∧ atCreate y = atCreate x ∧ targetOf y = targetOf x ∧
    isMain y = isMain x ∧ (y = .worker .done ↔ x = .worker .done) ∧ (y = .worker .unlockExit ↔ x = .worker .unlockExit) := by
  rcases h with e | ⟨_, e⟩
  · subst e; simp
  · subst e; simp [wake_eq_done, wake_eq_unlockExit]

theorem targetOf_isMain (th : Thread) (w : Tid) (h : targetOf th = some w) : isMain th = true := by
  cases th with
  | main pc r => rfl
  | sub x => simp [targetOf] at h
  | worker x => simp [targetOf] at h

theorem finished_worker (th : Thread) (h : isFinished th = true) (hw : isWorker th = true) : th = .worker .done := by
  cases th with
  | main pc r => simp [isWorker] at hw
  | sub x => simp [isWorker] at hw
  | worker w => cases w <;> simp [isFinished] at h; rfl

theorem atCreate_holds (th : Thread) (h : atCreate th = true) : holdsM th = true := by
  cases th with
  | main pc r =>
    cases pc <;> simp [atCreate] at h
    next c => cases c with
      | yield_ sc => simp [atCreate] at h
      | inCall rest cid e => cases e <;> simp [atCreate] at h; simp [holdsM, holdsP, holdsCall]
  | sub x =>
    cases x <;> simp [atCreate] at h
    next c => cases c with
      | yield_ sc => simp [atCreate] at h
      | inCall rest cid e => cases e <;> simp [atCreate] at h; simp [holdsM, holdsS, holdsCall]
  | worker w =>
    cases w <;> simp [atCreate] at h
    next id c => cases c with
      | yield_ sc => simp [atCreate] at h
      | inCall rest cid e => cases e <;> simp [atCreate] at h; simp [holdsM, holdsW, holdsCall]

theorem detach_holds : holdsM (.worker .detach) = true := rfl

end Iora.ThreadPool
