import IoraModel.Lemmas.JsonLimits
import IoraModel.Model.JsonApi
/-! Lemmas about the public surface of json.hpp (`Model/JsonApi.lean`): the locale layer (repair FC13b), `JsonStreamParser`,
the wrappers, non-finite doubles. -/
namespace Iora.Json.Spec
open Iora Iora.Json

/-! ### locale layer -/

/-- the number token as a process whose LC_NUMERIC decimal point is `dp` writes and reads it -/
def SNum.renderL (dp : Bytes) (n : SNum) : Bytes :=
  (if n.neg then [0x2D] else []) ++ natToDec n.int ++ (match n.frac with | none => [] | some ds => dp ++ ds) ++ n.renderExp

/-- What the repair assumes about `std::strtod` in a process whose numeric locale has the decimal point `dp`: the decimal point is
    not empty (POSIX), and strtod reads the LOCALISED token exactly as the "C" locale's strtod reads the JSON token.
    (The unrepaired code handed strtod the JSON token itself: under `dp = ","` glibc stops at the `.`.) -/
structure LocaleLibc (lc : Libc) (dp : Bytes) : Prop where
  nonempty : dp ≠ []
  reads : ∀ n : SNum, n.ok → lc.strtodL dp (n.renderL dp) = lc.strtodL pointC n.render

theorem point_eq : b8 Gen.Json.decimalPointByte = 0x2E := by decide

theorem substPoint_noPoint_append (dp xs ys : Bytes) (h : ∀ b ∈ xs, b ≠ 0x2E) :
    substPoint dp (xs ++ ys) = xs ++ substPoint dp ys := by
  induction xs with
  | nil => rfl
  | cons x xs ih =>
    have hx : x ≠ 0x2E := h x (by simp)
    simp only [List.cons_append, substPoint, point_eq, hx, ↓reduceIte, ih (fun b hb => h b (by simp [hb]))]

theorem substPoint_noPoint (dp xs : Bytes) (h : ∀ b ∈ xs, b ≠ 0x2E) : substPoint dp xs = xs := by
  have := substPoint_noPoint_append dp xs [] h
  simpa [substPoint] using this

theorem digit_ne_point {d : UInt8} (h : isDigit d = true) : d ≠ 0x2E := by
  intro e
  subst e
  simp [isDigit] at h

theorem digits_noPoint (ds : Bytes) (h : ∀ d ∈ ds, isDigit d = true) : ∀ b ∈ ds, b ≠ 0x2E :=
  fun b hb => digit_ne_point (h b hb)

theorem renderExp_noPoint (n : SNum) (hok : n.ok) : ∀ b ∈ n.renderExp, b ≠ 0x2E := by
  intro b hb
  unfold SNum.renderExp at hb
  cases he : n.exp with
  | none => simp [he] at hb
  | some t =>
    obtain ⟨u, s, ds⟩ := t
    have hd := (hok.2 u s ds he).2
    simp only [he, List.mem_cons, List.mem_append] at hb
    rcases hb with hb | hb | hb
    · cases u <;> simp_all
    · cases s with
      | none => simp at hb
      | some sg => cases sg <;> simp_all
    · exact digit_ne_point (hd b hb)

/-- the helper's `find('.')` + `replace` turns a JSON number token into the localised token -/
theorem substPoint_render (dp : Bytes) (n : SNum) (hok : n.ok) : substPoint dp n.render = n.renderL dp := by
  have hsign : ∀ b ∈ (if n.neg then [0x2D] else ([] : Bytes)), b ≠ 0x2E := by
    intro b hb; cases n.neg <;> simp_all
  have hint := digits_noPoint _ (natToDec_digits n.int)
  simp only [SNum.render, SNum.renderL, List.append_assoc]
  rw [substPoint_noPoint_append dp _ _ hsign, substPoint_noPoint_append dp _ _ hint]
  congr 2
  unfold SNum.renderFrac
  cases hf : n.frac with
  | none => simpa using substPoint_noPoint dp _ (renderExp_noPoint n hok)
  | some ds => simp [substPoint, point_eq]

/-- **the helper is locale independent** on every JSON number token -/
theorem jsonToDouble_render {lc : Libc} {dp : Bytes} (hl : LocaleLibc lc dp) (n : SNum) (hok : n.ok) :
    jsonToDouble lc dp n.render = lc.strtodL pointC n.render := by
  unfold jsonToDouble
  by_cases hp : dp = pointC
  · subst hp; simp
  · simp only [ne_eq, hl.nonempty, not_false_eq_true, hp, and_self, ↓reduceIte]
    rw [substPoint_render dp n hok, hl.reads n hok]

theorem opsIn_strtod {lc : Libc} {dp : Bytes} (hl : LocaleLibc lc dp) (n : SNum) (hok : n.ok) :
    (opsIn lc dp).strtod n.render = (opsIn lc pointC).strtod n.render := by
  show jsonToDouble lc dp n.render = jsonToDouble lc pointC n.render
  rw [jsonToDouble_render hl n hok]
  simp [jsonToDouble]

/-- `tok ++ ".0"` of an integer-looking token is a number token again -/
theorem render_dotZero (n : SNum) (hok : n.ok) (hf : n.isFloat = false) :
    ∃ n' : SNum, n'.ok ∧ n'.render = n.render ++ Gen.Json.fmtSuffix.map b8 := by
  have hfe : n.frac = none ∧ n.exp = none := by simpa [SNum.isFloat, Bool.or_eq_false_iff] using hf
  refine ⟨{ n with frac := some [0x30] }, ⟨?_, ?_⟩, ?_⟩
  · intro ds h
    simp only [Option.some.injEq] at h
    subst h
    exact ⟨by simp, by simp [isDigit]⟩
  · intro u s ds h
    simp [hfe.2] at h
  · simp [SNum.render, SNum.renderFrac, SNum.renderExp, hfe.1, hfe.2, Gen.Json.fmtSuffix, b8]

/-- the libc facts J2/J3 need carry over from the "C" locale to every locale the helper's assumption holds for -/
theorem libcOk_opsIn {lc : Libc} {dp : Bytes} (hc : LibcOk (opsIn lc pointC)) (hl : LocaleLibc lc dp) : LibcOk (opsIn lc dp) where
  shape := hc.shape
  exactHi := by
    intro d hd
    obtain ⟨n, hok, hr⟩ := hc.shape Gen.Json.fmtPrecHi d (by decide) (Nat.le_refl _) hd
    have h1 : (opsIn lc dp).printfG = (opsIn lc pointC).printfG := rfl
    rw [h1, ← hr, opsIn_strtod hl n hok, hr]
    exact hc.exactHi d hd
  zeroSign := by
    intro p d hlo hhi hz hz'
    have h1 : (opsIn lc dp).printfG = (opsIn lc pointC).printfG := rfl
    have hfin : isFiniteBits d = true := by
      simp only [isZeroBits, decide_eq_true_eq] at hz
      simp only [isFiniteBits, decide_eq_true_eq, ne_eq]
      omega
    obtain ⟨n, hok, hr⟩ := hc.shape p d hlo hhi hfin
    rw [h1, ← hr, opsIn_strtod hl n hok, hr] at hz' ⊢
    exact hc.zeroSign p d hlo hhi hz hz'
  dotZero := by
    intro n hok hf
    obtain ⟨n', hok', hr'⟩ := render_dotZero n hok hf
    rw [← hr', opsIn_strtod hl n' hok', opsIn_strtod hl n hok, hr']
    exact hc.dotZero n hok hf

/-! ### the decoded value does not depend on the locale -/

theorem snum_denote_congr {o1 o2 : FloatOps} (h : ∀ n : SNum, n.ok → o1.strtod n.render = o2.strtod n.render) (n : SNum) (hok : n.ok) :
    n.denote o1 = n.denote o2 := by
  simp only [SNum.denote, h n hok]

mutual
theorem sval_denote_congr {o1 o2 : FloatOps} (h : ∀ n : SNum, n.ok → o1.strtod n.render = o2.strtod n.render) :
    ∀ v : SVal, v.ok → v.denote o1 = v.denote o2
  | .null, _ => rfl
  | .true, _ => rfl
  | .false, _ => rfl
  | .num n, hok => by simpa [SVal.denote] using snum_denote_congr h n (by simpa [SVal.ok] using hok)
  | .str _, _ => rfl
  | .arr _ es, hok => by
    simp only [SVal.denote]
    rw [selems_denote_congr h es (by simpa [SVal.ok] using hok)]
  | .obj _ ms, hok => by
    simp only [SVal.denote]
    rw [smembers_denote_congr h ms (by simpa [SVal.ok] using hok)]
theorem selems_denote_congr {o1 o2 : FloatOps} (h : ∀ n : SNum, n.ok → o1.strtod n.render = o2.strtod n.render) :
    ∀ es : SElems, es.ok → es.denote o1 = es.denote o2
  | .nil, _ => rfl
  | .cons _ v _ tl, hok => by
    simp only [SElems.ok] at hok
    simp only [SElems.denote]
    rw [sval_denote_congr h v hok.1, selems_denote_congr h tl hok.2]
theorem smembers_denote_congr {o1 o2 : FloatOps} (h : ∀ n : SNum, n.ok → o1.strtod n.render = o2.strtod n.render) :
    ∀ ms : SMembers, ms.ok → ∀ acc, ms.denote o1 acc = ms.denote o2 acc
  | .nil, _, _ => rfl
  | .cons _ k _ _ v _ tl, hok, acc => by
    simp only [SMembers.ok] at hok
    simp only [SMembers.denote]
    rw [sval_denote_congr h v hok.2.1, smembers_denote_congr h tl hok.2.2]
end

/-- **J1 in any locale**: the value a text decodes to under decimal point `dp` is the value it decodes to in the "C" locale -/
theorem denote_locale_free {lc : Libc} {dp : Bytes} (hl : LocaleLibc lc dp) (t : SText) (hok : t.ok) :
    t.denote (opsIn lc dp) = t.denote (opsIn lc pointC) :=
  sval_denote_congr (fun n hn => opsIn_strtod hl n hn) t.v hok

/-! ### non-finite doubles: the serializer writes `null` -/

theorem formatDouble_nonfinite (ops : FloatOps) (d : UInt64) (h : isFiniteBits d = false) : formatDouble ops d = litNull := by
  simp only [formatDouble, h, Bool.not_false, ↓reduceIte]
  decide

mutual
theorem serialize_nullify (ops : FloatOps) (o : Opts) : ∀ (d : Nat) (v : Json), serialize ops o d v.nullify = serialize ops o d v
  | _, .null => rfl
  | _, .bool _ => rfl
  | _, .int _ => rfl
  | _, .str _ => rfl
  | _, .dbl b => by
    simp only [Json.nullify]
    cases hf : isFiniteBits b with
    | true => simp
    | false => simp [serialize, formatDouble_nonfinite ops b hf]
  | d, .arr xs => by
    cases xs with
    | nil => rfl
    | cons x xs =>
      simp only [Json.nullify, Json.nullifyElems, serialize, List.isEmpty_cons, Bool.false_eq_true, ↓reduceIte]
      have := serElems_nullify ops o d (x :: xs)
      simp only [Json.nullifyElems] at this
      rw [this]
  | d, .obj ms => by
    cases ms with
    | nil => rfl
    | cons m ms =>
      obtain ⟨k, v⟩ := m
      simp only [Json.nullify, Json.nullifyMembers, serialize, List.isEmpty_cons, Bool.false_eq_true, ↓reduceIte]
      have := serMembers_nullify ops o d ((k, v) :: ms)
      simp only [Json.nullifyMembers] at this
      rw [this]
theorem serElems_nullify (ops : FloatOps) (o : Opts) : ∀ (d : Nat) (xs : List Json),
    serElems ops o d (Json.nullifyElems xs) = serElems ops o d xs
  | _, [] => rfl
  | d, x :: xs => by
    simp only [Json.nullifyElems, serElems]
    rw [serialize_nullify ops o (d + 1) x, serElems_nullify ops o d xs]
    cases xs <;> simp [Json.nullifyElems]
theorem serMembers_nullify (ops : FloatOps) (o : Opts) : ∀ (d : Nat) (ms : List (Bytes × Json)),
    serMembers ops o d (Json.nullifyMembers ms) = serMembers ops o d ms
  | _, [] => rfl
  | d, (k, v) :: ms => by
    simp only [Json.nullifyMembers, serMembers]
    rw [serialize_nullify ops o (d + 1) v, serMembers_nullify ops o d ms]
end

/-! ### the serializer writes the same bytes in every locale -/

theorem fmtSearch_locale_free {lc : Libc} {dp : Bytes} (hc : LibcOk (opsIn lc pointC)) (hl : LocaleLibc lc dp) (d : UInt64)
    (hd : isFiniteBits d = true) : ∀ (k p : Nat), Gen.Json.fmtPrecLo ≤ p → p + k = Gen.Json.fmtPrecHi →
      fmtSearch (opsIn lc dp) d k p = fmtSearch (opsIn lc pointC) d k p := by
  intro k
  induction k with
  | zero => intro p _ _; rfl
  | succ k ih =>
    intro p hp hk
    obtain ⟨n, hok, hr⟩ := hc.shape p d hp (by omega) hd
    have h1 : (opsIn lc dp).printfG = (opsIn lc pointC).printfG := rfl
    simp only [fmtSearch, h1]
    rw [← hr, opsIn_strtod hl n hok, ih (p + 1) (by omega) (by omega)]

theorem formatDouble_locale_free {lc : Libc} {dp : Bytes} (hc : LibcOk (opsIn lc pointC)) (hl : LocaleLibc lc dp) (d : UInt64) :
    formatDouble (opsIn lc dp) d = formatDouble (opsIn lc pointC) d := by
  unfold formatDouble
  cases hd : isFiniteBits d with
  | false => rfl
  | true =>
    simp only [Bool.not_true, Bool.false_eq_true, ↓reduceIte]
    rw [fmtSearch_locale_free hc hl d hd _ _ (Nat.le_refl _) (by decide)]

mutual
theorem serialize_locale_free {lc : Libc} {dp : Bytes} (hc : LibcOk (opsIn lc pointC)) (hl : LocaleLibc lc dp) (o : Opts) :
    ∀ (d : Nat) (v : Json), serialize (opsIn lc dp) o d v = serialize (opsIn lc pointC) o d v
  | _, .null => rfl
  | _, .bool _ => rfl
  | _, .int _ => rfl
  | _, .str _ => rfl
  | _, .dbl b => by simp only [serialize]; exact formatDouble_locale_free hc hl b
  | d, .arr xs => by
    simp only [serialize]
    rw [serElems_locale_free hc hl o d xs]
  | d, .obj ms => by
    simp only [serialize]
    rw [serMembers_locale_free hc hl o d ms]
theorem serElems_locale_free {lc : Libc} {dp : Bytes} (hc : LibcOk (opsIn lc pointC)) (hl : LocaleLibc lc dp) (o : Opts) :
    ∀ (d : Nat) (xs : List Json), serElems (opsIn lc dp) o d xs = serElems (opsIn lc pointC) o d xs
  | _, [] => rfl
  | d, x :: xs => by
    simp only [serElems]
    rw [serialize_locale_free hc hl o (d + 1) x, serElems_locale_free hc hl o d xs]
theorem serMembers_locale_free {lc : Libc} {dp : Bytes} (hc : LibcOk (opsIn lc pointC)) (hl : LocaleLibc lc dp) (o : Opts) :
    ∀ (d : Nat) (ms : List (Bytes × Json)), serMembers (opsIn lc dp) o d ms = serMembers (opsIn lc pointC) o d ms
  | _, [] => rfl
  | d, (k, v) :: ms => by
    simp only [serMembers]
    rw [serialize_locale_free hc hl o (d + 1) v, serMembers_locale_free hc hl o d ms]
end

end Iora.Json.Spec

namespace Iora.Json
open Iora.Json.Spec

/-! ### `JsonStreamParser` -/

theorem feed_buf (ops : FloatOps) (lim : Limits) (st : StreamSt) (ch : Bytes) : (st.feed ops lim ch).1.buf = st.buf ++ ch := by
  cases hp : parse ops lim (st.buf ++ ch) <;> simp [StreamSt.feed, hp]

theorem feedAll_buf (ops : FloatOps) (lim : Limits) : ∀ (chunks : List Bytes) (st : StreamSt),
    (streamFeedAll ops lim st chunks).buf = st.buf ++ chunks.flatten
  | [], st => by simp [streamFeedAll]
  | ch :: rest, st => by
    simp only [streamFeedAll, List.flatten_cons]
    rw [feedAll_buf ops lim rest, feed_buf, List.append_assoc]

/-- what is true of a stream parser that was fed `fed` (the chunks so far): the buffer is their concatenation; a value, once
    latched, is the parse of the concatenation of SOME prefix of the chunks; while nothing is latched the error is the parse error
    of the whole buffer (or nothing was fed yet) -/
structure StreamInv (ops : FloatOps) (lim : Limits) (st : StreamSt) (fed : List Bytes) : Prop where
  buf : st.buf = fed.flatten
  latched : st.complete = true → ∃ k, k ≤ fed.length ∧ parse ops lim (fed.take k).flatten = .ok st.value
  lastOk : ∀ v, parse ops lim fed.flatten = .ok v → fed ≠ [] → st.complete = true ∧ st.value = v ∧ st.error = none
  pending : st.complete = false → fed ≠ [] → ∃ e, parse ops lim fed.flatten = .error e ∧ st.error = some (fed.flatten, e)

theorem streamInv_init (ops : FloatOps) (lim : Limits) : StreamInv ops lim {} [] where
  buf := rfl
  latched := fun h => by simp at h
  lastOk := fun _ _ h => absurd rfl h
  pending := fun _ h => absurd rfl h

theorem streamInv_feed {ops : FloatOps} {lim : Limits} {st : StreamSt} {fed : List Bytes} (h : StreamInv ops lim st fed) (ch : Bytes) :
    StreamInv ops lim (st.feed ops lim ch).1 (fed ++ [ch]) := by
  have hb : st.buf ++ ch = (fed ++ [ch]).flatten := by simp [h.buf]
  unfold StreamSt.feed
  simp only
  cases hp : parse ops lim (st.buf ++ ch) with
  | ok v =>
    simp only
    refine ⟨hb, fun _ => ⟨(fed ++ [ch]).length, Nat.le_refl _, ?_⟩, ?_, fun hc => by cases hc⟩
    · rw [List.take_length, ← hb, hp]
    · intro v' hv' _
      rw [← hb, hp] at hv'
      cases hv'
      exact ⟨rfl, rfl, rfl⟩
  | error e =>
    simp only
    refine ⟨hb, ?_, ?_, ?_⟩
    · intro hc
      obtain ⟨k, hk, hv⟩ := h.latched hc
      refine ⟨k, by simp; omega, ?_⟩
      rw [List.take_append_of_le_length hk]
      exact hv
    · intro v' hv' _
      rw [← hb, hp] at hv'
      cases hv'
    · intro _ _
      exact ⟨e, by rw [← hb, hp], by rw [← hb]⟩

theorem streamInv_feedAll {ops : FloatOps} {lim : Limits} : ∀ (chunks : List Bytes) {st : StreamSt} {fed : List Bytes},
    StreamInv ops lim st fed → StreamInv ops lim (streamFeedAll ops lim st chunks) (fed ++ chunks)
  | [], _, _, h => by simpa [streamFeedAll] using h
  | ch :: rest, _, _, h => by
    have := streamInv_feedAll rest (streamInv_feed h ch)
    simpa [streamFeedAll, List.append_assoc] using this

theorem parse_nil (ops : FloatOps) (lim : Limits) : parse ops lim [] = .error (.eof, 0) := rfl

/-- **stream = parse of the concatenation** when the whole text parses: after feeding any chunking of a text that `parse` accepts,
    `finish()` returns true, the parser is complete, and its value is `parse` of the concatenation -/
theorem stream_complete_of_parse (ops : FloatOps) (lim : Limits) (chunks : List Bytes) (v : Json)
    (h : parse ops lim chunks.flatten = .ok v) :
    (streamRun ops lim chunks).2 = true ∧ (streamRun ops lim chunks).1.complete = true ∧ (streamRun ops lim chunks).1.value = v := by
  have inv := streamInv_feedAll chunks (streamInv_init ops lim)
  simp only [List.nil_append] at inv
  have hne : chunks ≠ [] := by
    intro e; subst e; simp [parse_nil] at h
  obtain ⟨hc, hv, -⟩ := inv.lastOk v h hne
  refine ⟨?_, ?_, ?_⟩ <;> simp [streamRun, StreamSt.finish, hc, hv]

/-- **an incomplete stream reports the parse error of the whole input**: if after `finish()` the parser is not complete, then
    `finish()` returned false, `parse` of the concatenation fails, and `error()` is exactly that failure (so J4 applies to it) -/
theorem stream_incomplete (ops : FloatOps) (lim : Limits) (chunks : List Bytes)
    (h : (streamRun ops lim chunks).1.complete = false) :
    (streamRun ops lim chunks).2 = false ∧
      ∃ e, parse ops lim chunks.flatten = .error e ∧ (streamRun ops lim chunks).1.error = some (chunks.flatten, e) := by
  have hb := feedAll_buf ops lim chunks {}
  simp only [List.nil_append] at hb
  have hb' : (streamFeedAll ops lim {} chunks).buf = chunks.flatten := hb
  simp only [streamRun, StreamSt.finish] at h ⊢
  cases hc : (streamFeedAll ops lim {} chunks).complete with
  | true => simp [hc] at h
  | false =>
    simp only [hc, Bool.false_eq_true, ↓reduceIte] at h ⊢
    rw [hb'] at h ⊢
    cases hp : parse ops lim chunks.flatten with
    | ok v => simp [hp] at h
    | error e => exact ⟨rfl, e, rfl, rfl⟩

/-- **a complete stream holds the parse of a chunk-boundary prefix**: whatever was fed, a latched value is `parse` of the
    concatenation of some prefix of the chunks (so it respects the limits, J4) -/
theorem stream_value_is_prefix_parse (ops : FloatOps) (lim : Limits) (chunks : List Bytes)
    (h : (streamRun ops lim chunks).1.complete = true) :
    ∃ k, k ≤ chunks.length ∧ parse ops lim (chunks.take k).flatten = .ok (streamRun ops lim chunks).1.value := by
  have inv := streamInv_feedAll chunks (streamInv_init ops lim)
  simp only [List.nil_append] at inv
  simp only [streamRun, StreamSt.finish] at h ⊢
  cases hc : (streamFeedAll ops lim {} chunks).complete with
  | true =>
    simp only [hc, ↓reduceIte]
    exact inv.latched hc
  | false =>
    simp only [hc, Bool.false_eq_true, ↓reduceIte] at h ⊢
    cases hp : parse ops lim (streamFeedAll ops lim {} chunks).buf with
    | ok v =>
      simp only
      refine ⟨chunks.length, Nat.le_refl _, ?_⟩
      rw [List.take_length, ← inv.buf, hp]
    | error e => simp [hp] at h

/-! ### `_getLocation` -/

theorem location_aux (xs : Bytes) : ∀ (l c : Nat), 1 ≤ c →
    (xs.foldl (fun (lc : Nat × Nat) b => if b = 0x0A then (lc.1 + 1, 1) else (lc.1, lc.2 + 1)) (l, c)).1 = l + xs.count 0x0A ∧
    1 ≤ (xs.foldl (fun (lc : Nat × Nat) b => if b = 0x0A then (lc.1 + 1, 1) else (lc.1, lc.2 + 1)) (l, c)).2 ∧
    (xs.foldl (fun (lc : Nat × Nat) b => if b = 0x0A then (lc.1 + 1, 1) else (lc.1, lc.2 + 1)) (l, c)).2 ≤ c + xs.length := by
  induction xs with
  | nil => intro l c hc; simp [hc]
  | cons x xs ih =>
    intro l c hc
    simp only [List.foldl_cons, List.length_cons]
    by_cases hx : x = 0x0A
    · subst hx
      obtain ⟨h1, h2, h3⟩ := ih (l + 1) 1 (Nat.le_refl _)
      simp only [↓reduceIte, List.count_cons_self]
      exact ⟨by omega, h2, by omega⟩
    · obtain ⟨h1, h2, h3⟩ := ih l (c + 1) (by omega)
      have hne : (x == (0x0A : UInt8)) = false := by simp [hx]
      simp only [hx, ↓reduceIte, List.count_cons, hne]
      exact ⟨by simpa using h1, h2, by omega⟩

/-- `_getLocation(off)`: the line is 1 + the number of line feeds before `off`, the column is between 1 and `off + 1` -/
theorem location_spec (bs : Bytes) (off : Nat) :
    (location bs off).1 = 1 + (bs.take off).count 0x0A ∧ 1 ≤ (location bs off).2 ∧ (location bs off).2 ≤ off + 1 := by
  obtain ⟨h1, h2, h3⟩ := location_aux (bs.take off) 1 1 (Nat.le_refl _)
  refine ⟨h1, h2, ?_⟩
  have : (bs.take off).length ≤ off := by simp [List.length_take]; omega
  unfold location
  omega

/-! ### wrappers -/

theorem parseOrThrow_ok (ops : FloatOps) (lim : Limits) (bs : Bytes) (v : Json) :
    parseOrThrow ops lim bs = .ok v ↔ parse ops lim bs = .ok v := by
  unfold parseOrThrow
  cases parse ops lim bs <;> simp

theorem parseOrThrow_error (ops : FloatOps) (lim : Limits) (bs : Bytes) (t : Thrown) :
    parseOrThrow ops lim bs = .error t ↔ ∃ k off, parse ops lim bs = .error (k, off) ∧ t = (k, location bs off) := by
  unfold parseOrThrow
  cases hp : parse ops lim bs with
  | ok v => simp
  | error e =>
    obtain ⟨k, off⟩ := e
    constructor
    · intro h
      cases h
      exact ⟨k, off, rfl, rfl⟩
    · rintro ⟨k', off', h1, h2⟩
      cases h1
      rw [h2]

end Iora.Json
