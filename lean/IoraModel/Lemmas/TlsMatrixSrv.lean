import IoraModel.Lemmas.TlsPlan
/-! C07: the whole server-side matrix (7200 cells), decided by kernel evaluation. -/
namespace Iora.Tls
set_option maxRecDepth 100000 in
theorem srv_matrix_eval : SrvCell.allShared = true := by decide +kernel
theorem srv_matrix : ∀ c : SrvCell, srvCellOk c = true := SrvCell.allShared_iff.mp srv_matrix_eval
end Iora.Tls
