import IoraModel.Model.ThreadPool
/-!
# C09 — proof infrastructure: one-step case analysis, lifting of per-thread invariants, list helpers
-/
namespace Iora.ThreadPool

-- ------------------------------------------------------------------------------------------- list helpers
theorem getElem?_set_self' {α : Type} (l : List α) (i : Nat) (a x : α) (h : l[i]? = some a) : (l.set i x)[i]? = some x := by
  have hi : i < l.length := by
    rcases Nat.lt_or_ge i l.length with h' | h'
    · exact h'
    · rw [List.getElem?_eq_none h'] at h; cases h
  simp [List.getElem?_set, hi]

theorem getElem?_set_ne' {α : Type} (l : List α) (i j : Nat) (x : α) (h : j ≠ i) : (l.set i x)[j]? = l[j]? := by
  simp [List.getElem?_set, Ne.symm h]

theorem lt_length_of_getElem? {α : Type} {l : List α} {i : Nat} {a : α} (h : l[i]? = some a) : i < l.length := by
  rcases Nat.lt_or_ge i l.length with h' | h'
  · exact h'
  · rw [List.getElem?_eq_none h'] at h; cases h

/-- what `l.set i x` looks like at index `j` -/
theorem getElem?_set_cases {α : Type} (l : List α) (i j : Nat) (a x y : α) (h : l[i]? = some a)
    (hj : (l.set i x)[j]? = some y) : (j = i ∧ y = x) ∨ (j ≠ i ∧ l[j]? = some y) := by
  by_cases e : j = i
  · subst e
    rw [getElem?_set_self' l j a x h] at hj
    left; exact ⟨rfl, (Option.some.inj hj).symm⟩
  · right; rw [getElem?_set_ne' l i j x e] at hj; exact ⟨e, hj⟩

theorem getElem?_append_cases {α : Type} (l : List α) (x y : α) (j : Nat)
    (hj : (l ++ [x])[j]? = some y) : l[j]? = some y ∨ (j = l.length ∧ y = x) := by
  rcases Nat.lt_or_ge j l.length with h | h
  · left; rw [List.getElem?_append_left h] at hj; exact hj
  · right
    rw [List.getElem?_append_right h] at hj
    have : j - l.length = 0 := by
      rcases Nat.eq_zero_or_pos (j - l.length) with h0 | h0
      · exact h0
      · rw [List.getElem?_eq_none (by simp; omega)] at hj; cases hj
    rw [this] at hj
    simp at hj
    exact ⟨by omega, hj.symm⟩

theorem countP_set {α : Type} (p : α → Bool) (l : List α) (i : Nat) (a x : α) (h : l[i]? = some a) :
    (l.set i x).countP p + (if p a then 1 else 0) = l.countP p + (if p x then 1 else 0) := by
  induction l generalizing i with
  | nil => simp at h
  | cons b bs ih =>
    cases i with
    | zero =>
      simp at h; subst h
      simp [List.countP_cons]; omega
    | succ k =>
      simp at h
      have := ih k h
      simp [List.countP_cons]; omega

theorem countP_set_same {α : Type} (p : α → Bool) (l : List α) (i : Nat) (a x : α) (h : l[i]? = some a)
    (hp : p x = p a) : (l.set i x).countP p = l.countP p := by
  have := countP_set p l i a x h
  rw [hp] at this; omega

theorem countP_map_same {α : Type} (p : α → Bool) (f : α → α) (l : List α) (h : ∀ a, p (f a) = p a) :
    (l.map f).countP p = l.countP p := by
  induction l with
  | nil => rfl
  | cons b bs ih => simp [List.countP_cons, ih, h]

-- ------------------------------------------------------------------------------------------- wake helpers
theorem wake_of_not_asleep (x : Thread) (b : Bool) (h : isAsleep x = false) : wake x b = x := by
  unfold wake
  split
  · simp [isAsleep] at h
  · rfl

theorem wakeAll_getElem? (l : List Thread) (j : Nat) (y : Thread) (h : (wakeAll l)[j]? = some y) :
    ∃ x, l[j]? = some x ∧ (y = x ∨ (isAsleep x = true ∧ y = wake x false)) := by
  unfold wakeAll at h
  rw [List.getElem?_map] at h
  cases hx : l[j]? with
  | none => rw [hx] at h; cases h
  | some x =>
    rw [hx] at h
    refine ⟨x, rfl, ?_⟩
    simp at h
    by_cases ha : isAsleep x = true
    · right; exact ⟨ha, h.symm⟩
    · left
      have ha' : isAsleep x = false := by simpa using ha
      rw [wake_of_not_asleep x false ha'] at h; exact h.symm

theorem wakeAll_length (l : List Thread) : (wakeAll l).length = l.length := by simp [wakeAll]

-- ------------------------------------------------------------------------------------------- one step, by cases
/-- every step is a stutter, a wake-up of a sleeper, a re-acquisition, or the pending operation of a runnable thread -/
theorem step_cases (cfg : Cfg) (s : St) (c : Choice) (P : St → Prop)
    (hstut : P s)
    (hwake : ∀ t th b, s.thr[t]? = some th → isAsleep th = true → P { s with thr := s.thr.set t (wake th b) })
    (hreacq : ∀ t th to late, s.thr[t]? = some th → wokenBy th = some to → s.sh.owner = none →
        P { sh := (reacq cfg s.sh t late).1, thr := s.thr.set t (.worker (reacq cfg s.sh t late).2) })
    (hrun : ∀ t th alt l, s.thr[t]? = some th → wokenBy th = none → isAsleep th = false → isFinished th = false →
        enabled s th = true →
        applyPost (s.thr.set t (trans cfg s.sh s.thr.length t th alt).2.1) (trans cfg s.sh s.thr.length t th alt).2.2 alt = some l →
        P { sh := (trans cfg s.sh s.thr.length t th alt).1, thr := l }) :
    P (step cfg s c) := by
  cases c with
  | timeout t =>
    simp only [step]
    cases h : s.thr[t]? with
    | none => simpa using hstut
    | some th =>
      simp only []
      by_cases ha : isAsleep th = true
      · rw [if_pos ha]; exact hwake t th true h ha
      · rw [if_neg ha]; exact hstut
  | spurious t =>
    simp only [step]
    cases h : s.thr[t]? with
    | none => simpa using hstut
    | some th =>
      simp only []
      by_cases ha : isAsleep th = true
      · rw [if_pos ha]; exact hwake t th false h ha
      · rw [if_neg ha]; exact hstut
  | run t alt =>
    simp only [step]
    cases h : s.thr[t]? with
    | none => simpa using hstut
    | some th =>
      simp only []
      cases hw : wokenBy th with
      | some to =>
        simp only []
        by_cases ho : s.sh.owner.isNone = true
        · rw [if_pos ho]
          exact hreacq t th to _ h hw (by simpa using ho)
        · rw [if_neg ho]; exact hstut
      | none =>
        simp only []
        by_cases hf : (isAsleep th || isFinished th) = true
        · rw [if_pos hf]; exact hstut
        · rw [if_neg hf]
          have hf' : isAsleep th = false ∧ isFinished th = false := by
            cases h1 : isAsleep th <;> cases h2 : isFinished th <;> simp [h1, h2] at hf ⊢
          by_cases he : enabled s th = true
          · rw [if_pos he]
            cases hp : applyPost (s.thr.set t (trans cfg s.sh s.thr.length t th alt).2.1) (trans cfg s.sh s.thr.length t th alt).2.2 alt with
            | none => simpa using hstut
            | some l => exact hrun t th alt l h hw hf'.1 hf'.2 he hp
          · rw [if_neg he]; exact hstut

/-- the threads after `applyPost`: every thread is an old one (possibly woken by a notify) or the spawned one -/
theorem applyPost_getElem? (l l' : List Thread) (p : Post) (alt : Nat) (h : applyPost l p alt = some l')
    (j : Nat) (y : Thread) (hj : l'[j]? = some y) :
    (∃ x, l[j]? = some x ∧ (y = x ∨ (isAsleep x = true ∧ y = wake x false ∧ (p = .wakeOne ∨ p = .wakeAll)))) ∨
    (∃ nt, p = .spawn nt ∧ j = l.length ∧ y = nt) := by
  cases p with
  | none => simp [applyPost] at h; subst h; left; exact ⟨y, hj, Or.inl rfl⟩
  | spawn nt =>
    simp [applyPost] at h; subst h
    rcases getElem?_append_cases l nt y j hj with h1 | ⟨h1, h2⟩
    · left; exact ⟨y, h1, Or.inl rfl⟩
    · right; exact ⟨nt, rfl, h1, h2⟩
  | wakeAll =>
    simp [applyPost] at h; subst h
    left
    obtain ⟨x, hx, hy⟩ := wakeAll_getElem? l j y hj
    refine ⟨x, hx, ?_⟩
    rcases hy with e | ⟨ha, e⟩
    · exact Or.inl e
    · exact Or.inr ⟨ha, e, Or.inr rfl⟩
  | wakeOne =>
    simp only [applyPost, notifyOne] at h
    left
    by_cases ha : anyAsleep l = true
    · rw [if_pos ha] at h
      cases hx : l[alt]? with
      | none => rw [hx] at h; cases h
      | some x =>
        rw [hx] at h
        simp only [] at h
        by_cases hs : isAsleep x = true
        · rw [if_pos hs] at h
          have h := (Option.some.inj h).symm
          subst h
          rcases getElem?_set_cases l alt j x (wake x false) y hx hj with ⟨e, e2⟩ | ⟨_, e2⟩
          · subst e; exact ⟨x, hx, Or.inr ⟨hs, e2, Or.inl rfl⟩⟩
          · exact ⟨y, e2, Or.inl rfl⟩
        · rw [if_neg hs] at h; cases h
    · rw [if_neg ha] at h
      have h := (Option.some.inj h).symm
      subst h
      exact ⟨y, hj, Or.inl rfl⟩

def postLen : Post → Nat
  | .spawn _ => 1
  | _ => 0

theorem applyPost_length (l l' : List Thread) (p : Post) (alt : Nat) (h : applyPost l p alt = some l') :
    l'.length = l.length + postLen p := by
  cases p with
  | none => simp [applyPost] at h; subst h; simp [postLen]
  | spawn nt => simp [applyPost] at h; subst h; simp [postLen]
  | wakeAll => simp [applyPost] at h; subst h; simp [wakeAll_length, postLen]
  | wakeOne =>
    simp only [applyPost, notifyOne] at h
    by_cases ha : anyAsleep l = true
    · rw [if_pos ha] at h
      cases hx : l[alt]? with
      | none => rw [hx] at h; cases h
      | some x =>
        rw [hx] at h
        simp only [] at h
        by_cases hs : isAsleep x = true
        · rw [if_pos hs] at h
          have h := (Option.some.inj h).symm
          subst h; simp [postLen]
        · rw [if_neg hs] at h; cases h
    · rw [if_neg ha] at h
      have h := (Option.some.inj h).symm
      subst h; simp [postLen]

theorem nextCall_cases (rest : List Act) : nextCall rest = .done ∨ nextCall rest = .more (.yield_ rest) := by
  unfold nextCall; split <;> simp

/-- posts of `callStep` that wake somebody come from the `notify` step -/
theorem callStep_wake (cfg : Cfg) (sh : Shared) (n : Nat) (t : Tid) (c : CallSt)
    (h : (callStep cfg sh n t c).2.2 = .wakeOne ∨ (callStep cfg sh n t c).2.2 = .wakeAll) :
    ∃ rest cid, c = .inCall rest cid .notify := by
  unfold callStep at h
  split at h <;> (try (repeat' split at h)) <;> simp at h
  exact ⟨_, _, rfl⟩

/-- a thread that notifies is not asleep afterwards -/
theorem trans_wake_self (cfg : Cfg) (sh : Shared) (n : Nat) (t : Tid) (th : Thread) (alt : Nat)
    (h : (trans cfg sh n t th alt).2.2 = .wakeOne ∨ (trans cfg sh n t th alt).2.2 = .wakeAll) :
    isAsleep (trans cfg sh n t th alt).2.1 = false := by
  cases th with
  | main pc r => simp [trans, isAsleep]
  | sub s => simp [trans, isAsleep]
  | worker w =>
    simp only [trans] at h ⊢
    cases w with
    | body id c =>
      simp only [transW]
      cases hx : (callStep cfg sh n t c).2.1 with
      | more c' => simp [isAsleep]
      | done => simp only [bodyEnd]; split <;> simp [isAsleep]
    | waitReady => simp [transW] at h
    | asleep => simp [transW] at h
    | _ => simp [transW] at h ⊢ <;> (try (exfalso; revert h; (repeat' split) <;> simp)) <;> simp_all [isAsleep]

/-- per-thread invariant: holds of every thread together with the shared state -/
def AllT (PT : Shared → Tid → Thread → Prop) (s : St) : Prop := ∀ t th, s.thr[t]? = some th → PT s.sh t th

/-- Lifting a per-thread invariant over one step.  `hrun`/`hreacq` get the acting thread, the second component is the
frame condition for the other threads (which may be woken in the same step), the third the created thread. -/
theorem allT_step (cfg : Cfg) (PT : Shared → Tid → Thread → Prop) (s : St) (c : Choice)
    (hinv : AllT PT s)
    (hwake : ∀ t th b, s.thr[t]? = some th → isAsleep th = true → PT s.sh t th → PT s.sh t (wake th b))
    (hreacq : ∀ t th to late, s.thr[t]? = some th → wokenBy th = some to → s.sh.owner = none →
        PT (reacq cfg s.sh t late).1 t (.worker (reacq cfg s.sh t late).2) ∧
        ∀ t' x, t' ≠ t → s.thr[t']? = some x → PT (reacq cfg s.sh t late).1 t' x)
    (hrun : ∀ t th alt, s.thr[t]? = some th → wokenBy th = none → isAsleep th = false → isFinished th = false →
        enabled s th = true →
        PT (trans cfg s.sh s.thr.length t th alt).1 t (trans cfg s.sh s.thr.length t th alt).2.1 ∧
        (∀ t' x, t' ≠ t → s.thr[t']? = some x → PT (trans cfg s.sh s.thr.length t th alt).1 t' x ∧
            (isAsleep x = true → PT (trans cfg s.sh s.thr.length t th alt).1 t' (wake x false))) ∧
        (∀ nt, (trans cfg s.sh s.thr.length t th alt).2.2 = .spawn nt → PT (trans cfg s.sh s.thr.length t th alt).1 s.thr.length nt)) :
    AllT PT (step cfg s c) := by
  apply step_cases cfg s c (AllT PT)
  · exact hinv
  · intro t th b h ha t' y hy
    rcases getElem?_set_cases s.thr t t' th (wake th b) y h hy with ⟨e, e2⟩ | ⟨_, e2⟩
    · subst e; subst e2; exact hwake t' th b h ha (hinv t' th h)
    · exact hinv t' y e2
  · intro t th to late h hst ho t' y hy
    obtain ⟨h1, h2⟩ := hreacq t th to late h hst ho
    rcases getElem?_set_cases s.thr t t' th _ y h hy with ⟨e, e2⟩ | ⟨e, e2⟩
    · subst e; subst e2; exact h1
    · exact h2 t' y e e2
  · intro t th alt l h hw ha hf he hp t' y hy
    obtain ⟨h1, h2, h3⟩ := hrun t th alt h hw ha hf he
    rcases applyPost_getElem? _ l _ alt hp t' y hy with ⟨x, hx, hyx⟩ | ⟨nt, hnt, hj, hy2⟩
    · rcases getElem?_set_cases s.thr t t' th _ x h hx with ⟨e, e2⟩ | ⟨e, e2⟩
      · subst e; subst e2
        rcases hyx with e3 | ⟨ha', _, hw'⟩
        · subst e3; exact h1
        · rw [trans_wake_self cfg s.sh s.thr.length t' th alt hw'] at ha'; cases ha'
      · rcases hyx with e3 | ⟨ha', e3, _⟩
        · rw [e3]; exact (h2 t' x e e2).1
        · rw [e3]; exact (h2 t' x e e2).2 ha'
    · rw [hy2]
      have hl : (s.thr.set t (trans cfg s.sh s.thr.length t th alt).2.1).length = s.thr.length := by simp
      rw [hl] at hj; rw [hj]
      exact h3 nt hnt

/-- `y` is `x`, possibly woken up -/
def WokeFrom (x y : Thread) : Prop := y = x ∨ (isAsleep x = true ∧ y = wake x false)

/-- how the thread list changes in one step of thread `t` -/
structure ThreadsStep (l0 l : List Thread) (t : Tid) (th' : Thread) (post : Post) : Prop where
  self : l[t]? = some th'
  old : ∀ j x, j ≠ t → l0[j]? = some x → ∃ y, l[j]? = some y ∧ WokeFrom x y
  new : ∀ j y, l[j]? = some y → (j = t ∧ y = th') ∨ (j ≠ t ∧ ∃ x, l0[j]? = some x ∧ WokeFrom x y) ∨
      (∃ nt, post = .spawn nt ∧ j = l0.length ∧ y = nt)
  len : l0.length ≤ l.length
  spawned : ∀ nt, post = .spawn nt → l[l0.length]? = some nt ∧ l.length = l0.length + 1

theorem applyPost_old (l l' : List Thread) (p : Post) (alt : Nat) (h : applyPost l p alt = some l')
    (j : Nat) (x : Thread) (hx : l[j]? = some x) : ∃ y, l'[j]? = some y ∧ WokeFrom x y := by
  cases p with
  | none => simp [applyPost] at h; subst h; exact ⟨x, hx, Or.inl rfl⟩
  | spawn nt =>
    simp [applyPost] at h; subst h
    refine ⟨x, ?_, Or.inl rfl⟩
    rw [List.getElem?_append_left (lt_length_of_getElem? hx)]; exact hx
  | wakeAll =>
    simp [applyPost] at h; subst h
    refine ⟨wake x false, ?_, ?_⟩
    · simp [wakeAll, List.getElem?_map, hx]
    · by_cases ha : isAsleep x = true
      · exact Or.inr ⟨ha, rfl⟩
      · left; exact wake_of_not_asleep x false (by simpa using ha)
  | wakeOne =>
    simp only [applyPost, notifyOne] at h
    by_cases ha : anyAsleep l = true
    · rw [if_pos ha] at h
      cases hz : l[alt]? with
      | none => rw [hz] at h; cases h
      | some z =>
        rw [hz] at h
        simp only [] at h
        by_cases hs : isAsleep z = true
        · rw [if_pos hs] at h
          have h := (Option.some.inj h).symm
          subst h
          by_cases e : j = alt
          · subst e
            rw [hx] at hz; cases hz
            exact ⟨wake x false, getElem?_set_self' l j x _ hx, Or.inr ⟨hs, rfl⟩⟩
          · exact ⟨x, by rw [getElem?_set_ne' l alt j _ e]; exact hx, Or.inl rfl⟩
        · rw [if_neg hs] at h; cases h
    · rw [if_neg ha] at h
      have h := (Option.some.inj h).symm
      subst h
      exact ⟨x, hx, Or.inl rfl⟩

theorem threadsStep_of_run (cfg : Cfg) (s : St) (t : Tid) (th : Thread) (alt : Nat) (l : List Thread)
    (hget : s.thr[t]? = some th)
    (hp : applyPost (s.thr.set t (trans cfg s.sh s.thr.length t th alt).2.1) (trans cfg s.sh s.thr.length t th alt).2.2 alt = some l) :
    ThreadsStep s.thr l t (trans cfg s.sh s.thr.length t th alt).2.1 (trans cfg s.sh s.thr.length t th alt).2.2 := by
  have hlen := applyPost_length _ l _ alt hp
  have hset : (s.thr.set t (trans cfg s.sh s.thr.length t th alt).2.1).length = s.thr.length := by simp
  have hnew : ∀ j y, l[j]? = some y → (j = t ∧ y = (trans cfg s.sh s.thr.length t th alt).2.1) ∨
      (j ≠ t ∧ ∃ x, s.thr[j]? = some x ∧ WokeFrom x y) ∨
      (∃ nt, (trans cfg s.sh s.thr.length t th alt).2.2 = .spawn nt ∧ j = s.thr.length ∧ y = nt) := by
    intro j y hy
    rcases applyPost_getElem? _ l _ alt hp j y hy with ⟨x, hx, hyx⟩ | ⟨nt, hnt, hj, hy2⟩
    · rcases getElem?_set_cases s.thr t j th _ x hget hx with ⟨e, e2⟩ | ⟨e, e2⟩
      · left
        subst e; subst e2
        rcases hyx with e3 | ⟨ha', _, hw'⟩
        · exact ⟨rfl, e3⟩
        · rw [trans_wake_self cfg s.sh s.thr.length j th alt hw'] at ha'; cases ha'
      · right; left
        refine ⟨e, x, e2, ?_⟩
        rcases hyx with e3 | ⟨ha', e3, _⟩
        · exact Or.inl e3
        · exact Or.inr ⟨ha', e3⟩
    · right; right; rw [hset] at hj; exact ⟨nt, hnt, hj, hy2⟩
  refine ⟨?_, ?_, hnew, ?_, ?_⟩
  · obtain ⟨y, hy, hw⟩ := applyPost_old _ l _ alt hp t _ (getElem?_set_self' s.thr t th _ hget)
    rcases hw with e | ⟨ha, e⟩
    · rw [hy, e]
    · -- woken by its own notify: impossible
      rcases hnew t y hy with ⟨_, e2⟩ | ⟨ne, _⟩ | ⟨nt, _, hj, _⟩
      · rw [hy, e2]
      · exact absurd rfl ne
      · have := lt_length_of_getElem? hget; rw [hj] at this; exact absurd this (Nat.lt_irrefl _)
  · intro j x hne hx
    exact applyPost_old _ l _ alt hp j x (by rw [getElem?_set_ne' s.thr t j _ hne]; exact hx)
  · rw [hlen, hset]; omega
  · intro nt hnt
    rw [hnt] at hp
    simp [applyPost] at hp
    subst hp
    constructor
    · rw [List.getElem?_append_right (by simp)]; simp
    · simp

theorem threadsStep_of_set (l0 : List Thread) (t : Tid) (th th' : Thread) (hget : l0[t]? = some th) :
    ThreadsStep l0 (l0.set t th') t th' .none := by
  refine ⟨getElem?_set_self' l0 t th th' hget, ?_, ?_, by simp, by intro nt e; cases e⟩
  · intro j x hne hx; exact ⟨x, by rw [getElem?_set_ne' l0 t j th' hne]; exact hx, Or.inl rfl⟩
  · intro j y hy
    rcases getElem?_set_cases l0 t j th th' y hget hy with ⟨e, e2⟩ | ⟨e, e2⟩
    · exact Or.inl ⟨e, e2⟩
    · exact Or.inr (Or.inl ⟨e, y, e2, Or.inl rfl⟩)

end Iora.ThreadPool
