import IoraModel.Model.HttpServerRespond
import IoraModel.Model.HttpRespondScript
/-
Lemmas about the decision procedure `process` (C16): the header map, the safety net, HEAD / bodyless reconciliation,
the Connection decision, the error arm.
-/
namespace Iora.HttpRespond
open Iora

/-! ### the case-insensitive key order -/

theorem ciLess_irrefl (a : Bytes) : ciLess a a = false := by
  induction a with
  | nil => rfl
  | cons x xs ih => simp [ciLess, ih]

/-- neither key less than the other ⇔ equal under the byte key map -/
theorem ciEq_iff (a b : Bytes) : ciEq a b = true ↔ a.map ck = b.map ck := by
  induction a generalizing b with
  | nil =>
    cases b with
    | nil => simp [ciEq, ciLess]
    | cons y ys => simp [ciEq, ciLess]
  | cons x xs ih =>
    cases b with
    | nil => simp [ciEq, ciLess]
    | cons y ys =>
      have := ih ys
      simp only [ciEq, Bool.and_eq_true, Bool.not_eq_true'] at this ⊢
      simp only [ciLess, List.map_cons, List.cons.injEq]
      by_cases h1 : ck x < ck y
      · simp [h1]; omega
      · by_cases h2 : ck y < ck x
        · simp [h1, h2]; omega
        · have : ck x = ck y := by omega
          simp [h1, h2, this]
          simpa using ‹_›

theorem ciEq_refl (a : Bytes) : ciEq a a = true := (ciEq_iff a a).2 rfl
theorem ciEq_symm {a b : Bytes} (h : ciEq a b = true) : ciEq b a = true :=
  (ciEq_iff b a).2 ((ciEq_iff a b).1 h).symm
theorem ciEq_trans {a b c : Bytes} (h1 : ciEq a b = true) (h2 : ciEq b c = true) : ciEq a c = true :=
  (ciEq_iff a c).2 (((ciEq_iff a b).1 h1).trans ((ciEq_iff b c).1 h2))

theorem ciEq_of_not_less {a b : Bytes} (h1 : ciLess a b = false) (h2 : ciLess b a = false) : ciEq a b = true := by
  simp [ciEq, h1, h2]

theorem ciLess_not_ciEq {a b : Bytes} (h : ciLess a b = true) : ciEq a b = false := by
  simp [ciEq, h]
theorem ciLess_not_ciEq' {a b : Bytes} (h : ciLess a b = true) : ciEq b a = false := by
  simp [ciEq, h]

/-! ### `HttpHeaders` as a map -/

theorem hFind_hSet_self (h : Headers) (k v : Bytes) : hFind (hSet h k v) k = some v := by
  induction h with
  | nil => simp [hSet, hFind, ciEq_refl]
  | cons e t ih =>
    obtain ⟨k', v'⟩ := e
    unfold hSet
    by_cases h1 : ciLess k k' = true
    · simp [h1, hFind, ciEq_refl]
    · by_cases h2 : ciLess k' k = true
      · simp [h1, h2, hFind, ciLess_not_ciEq h2, ih]
      · have : ciEq k' k = true := ciEq_of_not_less (by simpa using h2) (by simpa using h1)
        simp [h1, h2, hFind, this]

theorem hFind_hSet_ne (h : Headers) (k v j : Bytes) (hne : ciEq k j = false) : hFind (hSet h k v) j = hFind h j := by
  induction h with
  | nil => simp [hSet, hFind, hne]
  | cons e t ih =>
    obtain ⟨k', v'⟩ := e
    unfold hSet
    by_cases h1 : ciLess k k' = true
    · simp [h1, hFind, hne]
    · by_cases h2 : ciLess k' k = true
      · simp [h1, h2, hFind, ih]
      · have hkk : ciEq k k' = true := ciEq_of_not_less (by simpa using h1) (by simpa using h2)
        have : ciEq k' j = false := by
          cases hc : ciEq k' j with
          | false => rfl
          | true => rw [ciEq_trans hkk hc] at hne; cases hne
        simp [h1, h2, hFind, this]

theorem hFind_hErase_self (h : Headers) (k : Bytes) : hFind (hErase h k) k = none := by
  induction h with
  | nil => rfl
  | cons e t ih =>
    obtain ⟨k', v'⟩ := e
    unfold hErase at *
    by_cases hc : ciEq k' k = true
    · simp [List.filter, hc, ih]
    · simp [List.filter, hc, hFind, ih]

theorem hFind_hErase_ne (h : Headers) (k j : Bytes) (hne : ciEq k j = false) : hFind (hErase h k) j = hFind h j := by
  induction h with
  | nil => rfl
  | cons e t ih =>
    obtain ⟨k', v'⟩ := e
    unfold hErase at *
    by_cases hc : ciEq k' k = true
    · have : ciEq k' j = false := by
        cases hj : ciEq k' j with
        | false => rfl
        | true => rw [ciEq_trans (ciEq_symm hc) hj] at hne; cases hne
      simp [List.filter, hc, hFind, this, ih]
    · simp [List.filter, hc, hFind, ih]

/-! ### one call issues at most one Send -/

/-- the possible shapes of what one `processHttpRequest` call enqueues -/
def WellShaped (cs : List Cmd) : Prop :=
  cs = [] ∨ cs = [.close] ∨ ∃ w, cs = [.send w] ∨ cs = [.send w, .close]

theorem outcome_wellShaped (o : Outcome) : WellShaped o.cmds := by
  cases o with
  | respond w c => cases c <;> simp [Outcome.cmds, WellShaped]
  | sendFailed c => cases c <;> simp [Outcome.cmds, WellShaped]
  | suppressed => simp [Outcome.cmds, WellShaped]
  | nothing => simp [Outcome.cmds, WellShaped]

/-- number of Send commands in a command list -/
def countSends (cs : List Cmd) : Nat := (cs.filter (fun c => match c with | .send _ => true | .close => false)).length

theorem wellShaped_countSends {cs : List Cmd} (h : WellShaped cs) : countSends cs ≤ 1 := by
  rcases h with h | h | ⟨w, h | h⟩ <;> subst h <;> simp [countSends]

/-! ### safety net -/

def kCL : Bytes := ascii "Content-Length"

/-- the response object is consistent in the sense of the response API: Content-Length says how long the body is -/
def ApiConsistent (r : Resp) : Prop := hFind r.headers kCL = some (dec r.body.length)

theorem setContent_consistent (r : Resp) (b ct : Bytes) : ApiConsistent (r.setContent b ct) := by
  simp [ApiConsistent, Resp.setContent, kCL, hFind_hSet_self]

theorem setContent_status (r : Resp) (b ct : Bytes) : (r.setContent b ct).status = r.status := rfl
theorem setContent_body (r : Resp) (b ct : Bytes) : (r.setContent b ct).body = b := rfl
theorem setContent_suppress (r : Resp) (b ct : Bytes) : (r.setContent b ct).suppress = r.suppress := rfl

theorem safetyNet_threw (h : Handler) (req : Req) (res : Resp) (ht : (h req res).threw = true) :
    (invokeWithSafetyNet h req res).status = 500 ∧ (invokeWithSafetyNet h req res).body = ascii "Internal Server Error" ∧
    ApiConsistent (invokeWithSafetyNet h req res) ∧ (invokeWithSafetyNet h req res).suppress = false := by
  simp only [invokeWithSafetyNet, ht, if_true]
  refine ⟨?_, ?_, ?_, ?_⟩
  · first | rfl | trivial
  · first | rfl | trivial
  · exact setContent_consistent _ _ _
  · first | rfl | trivial

theorem safetyNet_returned (h : Handler) (req : Req) (res : Resp) (ht : (h req res).threw = false) :
    invokeWithSafetyNet h req res = (h req res).res := by
  simp [invokeWithSafetyNet, ht]

/-! ### normal forms of `process` -/

def errStatus : ParseErr → Nat
  | .request s => s
  | .other => Gen.HttpRespond.errDefaultStatus

/-- what the Upgrade seam does for a parsed request (`ret none` = no Upgrade header, or the subclass declined) -/
def upgradeSeam (srv : Server) (p : ParsedReq) : Seam (Option Resp) :=
  if hasUpgradeHeader (mkReq p).headers then srv.upgradeHook (mkReq p) else .ret none

def decisionOf (srv : Server) (p : ParsedReq) : Decision Handler :=
  classifyRequest srv.routes srv.defaultHandler (mkReq p).method (mkReq p).path (splitPath (mkReq p).path)

/-- the request as the handler sees it -/
def reqOf (srv : Server) (p : ParsedReq) : Req := applyDecision (mkReq p) (decisionOf srv p)

/-- the response object after the dispatch switch, and `ranHandler` -/
def dispatched (srv : Server) (p : ParsedReq) : Resp × Bool := dispatch (decisionOf srv p) (reqOf srv p)

/-- the suppression test of `processHttpRequest`: `ranHandler && (res._suppressSend || onResponseSuppressed(...))` — the seam
    is consulted only if a handler ran and did not already set the flag -/
def suppressSeam (srv : Server) (p : ParsedReq) : Seam Bool :=
  if (dispatched srv p).2 then
    (if (dispatched srv p).1.suppress then .ret true else srv.suppressHook (reqOf srv p) (dispatched srv p).1)
  else .ret false

/-- the error arm as the engine sees it -/
def errorOutcome (env : Env) (status : Nat) (head : Bool := false) : Outcome :=
  if !env.upAtSend then .nothing
  else if env.enqueueOk then .respond (errorWire status head) env.upAtClose else .sendFailed env.upAtClose

theorem outcomeOf_errorArm (env : Env) (status : Nat) (head : Bool) :
    outcomeOf env (errorArm env status head, false) = errorOutcome env status head := by
  unfold errorArm errorOutcome outcomeOf
  cases env.upAtSend <;> cases env.upAtClose <;> cases env.enqueueOk <;> simp

theorem outcomeOf_normalSend (env : Env) (w : Bytes) (c : Bool) : outcomeOf env (normalSend env w c, false) = sendBlock env w c := by
  unfold normalSend sendBlock outcomeOf
  cases env.upAtSend <;> cases env.upAtClose <;> cases env.enqueueOk <;> cases c <;> simp

theorem process_shutdown (srv : Server) (env : Env) (data : Bytes) (h : env.shutdownAtEntry = true) :
    process srv env data =
      if env.transportAtEntry then
        (if env.enqueueOk then .respond (shutdownWire (isHeadRaw data)) env.transportAtShutdownClose else .sendFailed env.transportAtShutdownClose)
      else .nothing := by
  simp only [process, processCalls, h, if_true]
  cases ht : env.transportAtEntry <;> cases he : env.enqueueOk <;> cases hc : env.transportAtShutdownClose <;> simp [outcomeOf, he]

theorem process_error (srv : Server) (env : Env) (data : Bytes) (e : ParseErr)
    (h : env.shutdownAtEntry = false) (hp : fromWireFormat data = .error e) :
    process srv env data = errorOutcome env (errStatus e) (isHeadRaw data) := by
  cases e <;> simp [process, processCalls, h, hp, errStatus, outcomeOf_errorArm]

/-- does one of the `n` passes starting at pass `k` throw? -/
def drainThrows (hook : Nat → Seam Unit) : Nat → Nat → Bool
  | 0, _ => false
  | n + 1, k =>
    match hook k with
    | .ret _ => drainThrows hook n (k + 1)
    | .threw _ => true

/-- does the drain loop of the upgrade arm end in a Close?  (some pass's `onUpgradedData` threw, transport still up) -/
def drainCloses (srv : Server) (env : Env) : Bool := drainThrows srv.drainHook env.drainChunks 0 && env.upAtClose

theorem drainGuarded_eq : Gen.HttpRespond.upgradeDrainGuarded = true := by decide

theorem drainLoop_eq (hook : Nat → Seam Unit) (env : Env) (n k : Nat) :
    drainLoop hook env n k = if drainThrows hook n k && env.upAtClose then [.close] else [] := by
  induction n generalizing k with
  | zero => simp [drainLoop, drainThrows]
  | succ n ih =>
    unfold drainLoop drainThrows
    cases hk : hook k with
    | ret u => simp only; exact ih (k + 1)
    | threw std => cases env.upAtClose <;> simp [drainGuarded_eq]

theorem drainCalls_eq (srv : Server) (env : Env) : drainCalls srv env = if drainCloses srv env then [.close] else [] := by
  unfold drainCalls drainCloses
  exact drainLoop_eq _ _ _ _

/-- a pass throws iff some pass `k ≤ j < k + n` has a throwing hook call -/
theorem drainThrows_iff (hook : Nat → Seam Unit) (n k : Nat) :
    drainThrows hook n k = true ↔ ∃ j, k ≤ j ∧ j < k + n ∧ ∃ std, hook j = .threw std := by
  induction n generalizing k with
  | zero => simp [drainThrows]; intro j h1 h2; omega
  | succ n ih =>
    unfold drainThrows
    cases hk : hook k with
    | threw std => simp only [true_iff]; exact ⟨k, Nat.le_refl _, by omega, std, hk⟩
    | ret u =>
      simp only
      rw [ih (k + 1)]
      constructor
      · rintro ⟨j, h1, h2, h3⟩; exact ⟨j, by omega, by omega, h3⟩
      · rintro ⟨j, h1, h2, std, h3⟩
        have : j ≠ k := by intro e; subst e; rw [hk] at h3; cases h3
        exact ⟨j, by omega, by omega, std, h3⟩

/-- the loop is left at the first throw: the hook is called once per pass up to and including that pass, never after it -/
theorem drainHookCalls_le (hook : Nat → Seam Unit) (n k : Nat) : drainHookCalls hook n k ≤ n := by
  induction n generalizing k with
  | zero => simp [drainHookCalls]
  | succ n ih =>
    unfold drainHookCalls
    cases hook k with
    | ret u => simp only; have := ih (k + 1); omega
    | threw std => simp only; omega

theorem drainHookCalls_no_throw (hook : Nat → Seam Unit) (n k : Nat) (h : drainThrows hook n k = false) :
    drainHookCalls hook n k = n := by
  induction n generalizing k with
  | zero => simp [drainHookCalls]
  | succ n ih =>
    unfold drainHookCalls
    unfold drainThrows at h
    cases hk : hook k with
    | ret u => rw [hk] at h; simp only at h ⊢; rw [ih (k + 1) h]; omega
    | threw std => rw [hk] at h; simp at h

theorem process_upgrade (srv : Server) (env : Env) (data : Bytes) (p : ParsedReq) (u : Resp)
    (h : env.shutdownAtEntry = false) (hp : fromWireFormat data = .ok p) (hu : upgradeSeam srv p = .ret (some u)) :
    process srv env data =
      if !env.upAtSend then (if drainCloses srv env then .sendFailed true else .nothing)
      else if !env.enqueueOk then .sendFailed (drainCloses srv env)
      else .respond (toWire u.status (statusText u.status)
             (hSet u.headers (ascii "Server") (ascii Gen.HttpRespond.serverHeader)) u.body) (drainCloses srv env) := by
  unfold upgradeSeam at hu
  simp only [process, processCalls, h, hp, hu, drainCalls_eq]
  cases ht : env.upAtSend <;> cases he : env.enqueueOk <;> cases hd : drainCloses srv env <;> simp [outcomeOf, he]

/-- a seam that throws: a `std::exception` always, anything else since the arm is `catch (...)`, ends in the error arm's 500 -/
theorem process_upgrade_threw (srv : Server) (env : Env) (data : Bytes) (p : ParsedReq) (std : Bool)
    (h : env.shutdownAtEntry = false) (hp : fromWireFormat data = .ok p) (hu : upgradeSeam srv p = .threw std) :
    process srv env data = errorOutcome env 500 (isHeadRaw data) := by
  have hg : Gen.HttpRespond.errCatchesAll = true := by decide
  have hd : Gen.HttpRespond.errDefaultStatus = 500 := by decide
  unfold upgradeSeam at hu
  simp only [process, processCalls, h, hp, hu, seamThrew, hg, Bool.or_true, if_true, hd]
  exact outcomeOf_errorArm env 500 _

theorem process_ok (srv : Server) (env : Env) (data : Bytes) (p : ParsedReq) (b : Bool)
    (h : env.shutdownAtEntry = false) (hp : fromWireFormat data = .ok p) (hu : upgradeSeam srv p = .ret none)
    (hs : suppressSeam srv p = .ret b) :
    process srv env data =
      if b then .suppressed
      else sendBlock env (buildWire env (reqOf srv p) (dispatched srv p).1).1 (buildWire env (reqOf srv p) (dispatched srv p).1).2 := by
  unfold upgradeSeam at hu
  unfold suppressSeam dispatched reqOf decisionOf at hs
  simp only [process, processCalls, h, hp, hu]
  simp only [dispatched, reqOf, decisionOf]
  generalize hd : dispatch _ _ = dr at hs ⊢
  obtain ⟨res, ran⟩ := dr
  simp only at hs ⊢
  cases ran with
  | false =>
    simp only [Bool.false_and, Bool.false_eq_true, if_false] at hs ⊢
    cases hs
    simp only [Bool.false_eq_true, if_false]
    exact outcomeOf_normalSend env _ _
  | true =>
    simp only [Bool.true_and, if_true] at hs ⊢
    cases hsup : res.suppress with
    | true =>
      simp only [hsup, if_true] at hs ⊢
      cases hs
      simp [outcomeOf]
    | false =>
      simp only [hsup, Bool.false_eq_true, if_false] at hs ⊢
      rw [hs]
      cases b with
      | true => simp [outcomeOf]
      | false => simp only [Bool.false_eq_true, if_false]; exact outcomeOf_normalSend env _ _

theorem process_suppress_threw (srv : Server) (env : Env) (data : Bytes) (p : ParsedReq) (std : Bool)
    (h : env.shutdownAtEntry = false) (hp : fromWireFormat data = .ok p) (hu : upgradeSeam srv p = .ret none)
    (hs : suppressSeam srv p = .threw std) :
    process srv env data = errorOutcome env 500 (isHeadRaw data) := by
  have hg : Gen.HttpRespond.errCatchesAll = true := by decide
  have hd' : Gen.HttpRespond.errDefaultStatus = 500 := by decide
  unfold upgradeSeam at hu
  unfold suppressSeam dispatched reqOf decisionOf at hs
  simp only [process, processCalls, h, hp, hu]
  generalize hd : dispatch _ _ = dr at hs ⊢
  obtain ⟨res, ran⟩ := dr
  simp only at hs ⊢
  cases ran with
  | false => simp at hs
  | true =>
    simp only [Bool.true_and, if_true] at hs ⊢
    cases hsup : res.suppress with
    | true => simp [hsup] at hs
    | false =>
      simp only [hsup, Bool.false_eq_true, if_false] at hs ⊢
      rw [hs]
      simp only [seamThrew, hg, Bool.or_true, if_true, hd']
      exact outcomeOf_errorArm env 500 _

/-! ### O1: exactly one response when the server is up -/

/-- the handler whose return value can suppress the response (MATCHED / NO_ROUTE with a default handler) -/
def Decision.userHandler? {α : Type} : Decision α → Option α
  | .matched h _ _ => some h
  | .noRoute (some h) => some h
  | _ => none

/-- any handler the dispatch runs (also MATCHED_AS_HEAD) -/
def Decision.anyHandler? {α : Type} : Decision α → Option α
  | .matched h _ _ => some h
  | .matchedAsHead h _ _ => some h
  | .noRoute (some h) => some h
  | _ => none

/-- the response object a handler receives: the pre-seeded 404 body with status 200 -/
def prefilled : Resp := { defaultResp with status := 200 }

theorem stMatched_eq : ((Gen.HttpRespond.stMatched : Nat) : Int) = 200 := by decide
theorem stMatchedAsHead_eq : ((Gen.HttpRespond.stMatchedAsHead : Nat) : Int) = 200 := by decide

theorem dispatch_userHandler (d : Decision Handler) (req : Req) (h : Handler) (hd : d.userHandler? = some h) :
    dispatch d req = (invokeWithSafetyNet h req prefilled, true) := by
  cases d with
  | matched h' c r => simp [Decision.userHandler?] at hd; subst hd; simp [dispatch, prefilled, stMatched_eq]
  | noRoute o =>
    cases o with
    | none => simp [Decision.userHandler?] at hd
    | some h' => simp [Decision.userHandler?] at hd; subst hd; simp [dispatch, prefilled, stMatched_eq]
  | matchedAsHead _ _ _ => simp [Decision.userHandler?] at hd
  | autoOptions _ => simp [Decision.userHandler?] at hd
  | optionsStar => simp [Decision.userHandler?] at hd
  | methodNotAllowed _ => simp [Decision.userHandler?] at hd

theorem dispatch_ran_iff (d : Decision Handler) (req : Req) : (dispatch d req).2 = true ↔ ∃ h, d.userHandler? = some h := by
  cases d with
  | matched h' c r => simp [dispatch, Decision.userHandler?]
  | noRoute o => cases o <;> simp [dispatch, Decision.userHandler?]
  | matchedAsHead _ _ _ => simp [dispatch, Decision.userHandler?]
  | autoOptions _ => simp [dispatch, Decision.userHandler?]
  | optionsStar => simp [dispatch, Decision.userHandler?]
  | methodNotAllowed _ => simp [dispatch, Decision.userHandler?]

/-- A response is suppressed only by an explicit take-over: the handler that ran returned normally with `_suppressSend`
    set, or the subclass seam `onResponseSuppressed` returned true. -/
theorem suppressSeam_explicit (srv : Server) (p : ParsedReq) (hs : suppressSeam srv p = .ret true) :
    ∃ h, (decisionOf srv p).userHandler? = some h ∧
      (((h (reqOf srv p) prefilled).threw = false ∧ (h (reqOf srv p) prefilled).res.suppress = true) ∨
       srv.suppressHook (reqOf srv p) (dispatched srv p).1 = .ret true) := by
  unfold suppressSeam at hs
  cases hran : (dispatched srv p).2 with
  | false => simp [hran] at hs
  | true =>
    obtain ⟨h, hh⟩ := (dispatch_ran_iff _ _).1 (by simpa [dispatched] using hran)
    refine ⟨h, hh, ?_⟩
    simp only [hran, if_true] at hs
    cases hsup : (dispatched srv p).1.suppress with
    | false => right; simpa [hsup] using hs
    | true =>
      left
      have hd : (dispatched srv p).1 = invokeWithSafetyNet h (reqOf srv p) prefilled := by
        simp [dispatched, dispatch_userHandler _ _ h hh]
      rw [hd] at hsup
      cases ht : (h (reqOf srv p) prefilled).threw with
      | true =>
        have := (safetyNet_threw h (reqOf srv p) prefilled ht).2.2.2
        rw [this] at hsup; cases hsup
      | false =>
        rw [safetyNet_returned h _ _ ht] at hsup
        exact ⟨rfl, hsup⟩

theorem sendBlock_up (env : Env) (w : Bytes) (c : Bool) (h2 : env.upAtSend = true) (h3 : env.enqueueOk = true) :
    sendBlock env w c = .respond w (c && env.upAtClose) := by
  simp [sendBlock, h2, h3]

theorem errorOutcome_up (env : Env) (st : Nat) (head : Bool) (h2 : env.upAtSend = true) (h3 : env.enqueueOk = true) :
    errorOutcome env st head = .respond (errorWire st head) env.upAtClose := by
  simp [errorOutcome, h2, h3]

/-- server up: every extracted request is answered by exactly one Send, or explicitly suppressed — also when a subclass
    seam throws, whatever it throws -/
theorem process_up_cases (srv : Server) (env : Env) (data : Bytes)
    (h1 : env.shutdownAtEntry = false) (h2 : env.upAtSend = true) (h3 : env.enqueueOk = true) :
    (∃ w c, process srv env data = .respond w c) ∨
    (process srv env data = .suppressed ∧
      ∃ p, fromWireFormat data = .ok p ∧ upgradeSeam srv p = .ret none ∧ suppressSeam srv p = .ret true) := by
  cases hp : fromWireFormat data with
  | error e =>
    left
    rw [process_error srv env data e h1 hp, errorOutcome_up env _ _ h2 h3]
    exact ⟨_, _, rfl⟩
  | ok p =>
    cases hu : upgradeSeam srv p with
    | threw std =>
      left
      rw [process_upgrade_threw srv env data p std h1 hp hu, errorOutcome_up env _ _ h2 h3]
      exact ⟨_, _, rfl⟩
    | ret o =>
      cases o with
      | some u =>
        left
        rw [process_upgrade srv env data p u h1 hp hu]
        simp [h2, h3]
      | none =>
        cases hs : suppressSeam srv p with
        | threw std =>
          left
          rw [process_suppress_threw srv env data p std h1 hp hu hs, errorOutcome_up env _ _ h2 h3]
          exact ⟨_, _, rfl⟩
        | ret b =>
          rw [process_ok srv env data p b h1 hp hu hs]
          cases b with
          | true => right; exact ⟨by simp, p, rfl, hu, hs⟩
          | false => left; simp [sendBlock_up env _ _ h2 h3]

/-! ### the calls of one `processHttpRequest`: shape from the control flow -/

/-- at most one `sendAsync`, at most one `close`, and never a `sendAsync` after a `close` -/
def CallsShaped (l : List Call) : Prop := l = [] ∨ l = [.close] ∨ ∃ w, l = [.sendAsync w] ∨ l = [.sendAsync w, .close]

theorem errorArm_shaped (env : Env) (st : Nat) (head : Bool) : CallsShaped (errorArm env st head) := by
  unfold errorArm CallsShaped
  cases env.upAtSend <;> cases env.upAtClose <;> simp

theorem seamThrew_shaped (env : Env) (std : Bool) (head : Bool) : CallsShaped (seamThrew env std head) := by
  unfold seamThrew
  split
  · exact errorArm_shaped _ _ _
  · simp [CallsShaped]

theorem normalSend_shaped (env : Env) (w : Bytes) (c : Bool) : CallsShaped (normalSend env w c) := by
  unfold normalSend CallsShaped
  cases env.upAtSend <;> cases env.upAtClose <;> cases env.enqueueOk <;> cases c <;> simp

/-- Case analysis of the control flow of `processHttpRequest` — every arm, every guard, every seam outcome: the calls are
    `[]`, `[sendAsync w]` or `[sendAsync w, close]`. -/
theorem processCalls_shape (srv : Server) (env : Env) (data : Bytes) : CallsShaped (processCalls srv env data).1 := by
  unfold processCalls
  split
  · split <;> (try split) <;> simp [CallsShaped]
  · split
    · exact errorArm_shaped _ _ _
    · simp only
      split
      · exact seamThrew_shaped _ _ _
      · rw [drainCalls_eq]
        split <;> split <;> simp [CallsShaped]
      · generalize dispatch _ _ = dr
        obtain ⟨res, ran⟩ := dr
        simp only
        split
        · simp [CallsShaped]
        · split
          · exact seamThrew_shaped _ _ _
          · simp [CallsShaped]
          · exact normalSend_shaped _ _ _

/-- the engine commands that result from the calls: a refused `sendAsync` enqueues nothing -/
def engineCmds (env : Env) : List Call → List Cmd
  | [] => []
  | .sendAsync w :: rest => (if env.enqueueOk then [.send w] else []) ++ engineCmds env rest
  | .close :: rest => .close :: engineCmds env rest

theorem process_cmds (srv : Server) (env : Env) (data : Bytes) :
    (process srv env data).cmds = engineCmds env (processCalls srv env data).1 := by
  have hsh := processCalls_shape srv env data
  unfold process outcomeOf
  rcases hsh with h | h | ⟨w, h | h⟩
  · rw [h]; cases (processCalls srv env data).2 <;> simp [Outcome.cmds, engineCmds]
  · rw [h]; simp [Outcome.cmds, engineCmds]
  · rw [h]; cases he : env.enqueueOk <;> simp [Outcome.cmds, engineCmds, he]
  · rw [h]; cases he : env.enqueueOk <;> simp [Outcome.cmds, engineCmds, he]

theorem engineCmds_count (env : Env) (l : List Call) (h : CallsShaped l) : countSends (engineCmds env l) ≤ 1 := by
  rcases h with h | h | ⟨w, h | h⟩ <;> subst h <;> cases he : env.enqueueOk <;> simp [engineCmds, countSends, he]

/-- pool overflow, every environment: nothing while the transport is down, otherwise the 503 and the Close — and the Close
    also when the engine refused the Send, so an overflowing request never leaves its connection open and unanswered -/
theorem overflowCalls_cmds (env : Env) (head : Bool) :
    engineCmds env (overflowCalls env head) =
      if !env.upAtSend then [] else if env.enqueueOk then [.send (overflowWire head), .close] else [.close] := by
  unfold overflowCalls
  cases env.upAtSend <;> cases he : env.enqueueOk <;> simp [engineCmds, he]

theorem overflowCalls_shaped (env : Env) (head : Bool) : CallsShaped (overflowCalls env head) := by
  unfold overflowCalls CallsShaped
  cases env.upAtSend <;> simp

theorem overflowCalls_up (head : Bool) : engineCmds Env.up (overflowCalls Env.up head) = overflowCmds head := by
  simp [overflowCalls_cmds, Env.up, overflowCmds]

theorem process_ok_false (srv : Server) (env : Env) (data : Bytes) (p : ParsedReq)
    (h : env.shutdownAtEntry = false) (hp : fromWireFormat data = .ok p) (hu : upgradeSeam srv p = .ret none)
    (hs : suppressSeam srv p = .ret false) :
    process srv env data =
      sendBlock env (buildWire env (reqOf srv p) (dispatched srv p).1).1 (buildWire env (reqOf srv p) (dispatched srv p).1).2 := by
  rw [process_ok srv env data p false h hp hu hs]; simp

theorem process_ok_true (srv : Server) (env : Env) (data : Bytes) (p : ParsedReq)
    (h : env.shutdownAtEntry = false) (hp : fromWireFormat data = .ok p) (hu : upgradeSeam srv p = .ret none)
    (hs : suppressSeam srv p = .ret true) : process srv env data = .suppressed := by
  rw [process_ok srv env data p true h hp hu hs]; simp

/-! ### the wire: HEAD / bodyless reconciliation, Content-Length, Connection -/

/-- the two headers `processHttpRequest` adds last -/
def finalHeaders (h : Headers) (conn : Bytes) : Headers :=
  hSet (hSet h (ascii "Server") (ascii Gen.HttpRespond.serverHeader)) (ascii "Connection") conn

theorem buildWire_eq (env : Env) (req : Req) (res : Resp) :
    buildWire env req res =
      (toWire (headStrip req.method res).status (statusText (headStrip req.method res).status)
         (finalHeaders (headStrip req.method res).headers (connectionDecision env.sess req.headers).2)
         (headStrip req.method res).body,
       (connectionDecision env.sess req.headers).1) := rfl

theorem finalHeaders_cl (h : Headers) (c : Bytes) : hFind (finalHeaders h c) kCL = hFind h kCL := by
  unfold finalHeaders
  rw [hFind_hSet_ne _ _ _ _ (by decide), hFind_hSet_ne _ _ _ _ (by decide)]

theorem finalHeaders_connection (h : Headers) (c : Bytes) : hFind (finalHeaders h c) (ascii "Connection") = some c := by
  unfold finalHeaders
  exact hFind_hSet_self _ _ _

theorem finalHeaders_server (h : Headers) (c : Bytes) :
    hFind (finalHeaders h c) (ascii "Server") = some (ascii Gen.HttpRespond.serverHeader) := by
  unfold finalHeaders
  rw [hFind_hSet_ne _ _ _ _ (by decide)]
  exact hFind_hSet_self _ _ _

theorem headStrip_status (m : Method) (r : Resp) : (headStrip m r).status = r.status := by
  unfold headStrip; split <;> rfl

theorem headStrip_head (r : Resp) : (headStrip .HEAD r).body = [] := by
  simp [headStrip]

theorem headStrip_head_cl (r : Resp) (hb : bodylessStatus r.status = false) : (headStrip .HEAD r).headers = r.headers := by
  simp [headStrip, hb]

/-- 204 / 304: no body and no Content-Length, whatever the method (repaired code) -/
theorem headStrip_bodyless (m : Method) (r : Resp) (hb : bodylessStatus r.status = true) :
    (headStrip m r).body = [] ∧ hFind (headStrip m r).headers kCL = none := by
  have hg : Gen.HttpRespond.bodylessAllMethods = true := by decide
  simp [headStrip, hb, hg, kCL, hFind_hErase_self]

theorem headStrip_id (m : Method) (r : Resp) (hm : m ≠ .HEAD) (hb : bodylessStatus r.status = false) : headStrip m r = r := by
  simp [headStrip, hm, hb]

/-- O4 (Content-Length): an API-consistent response object goes out as `head ++ body` with `Content-Length: |body|` -/
theorem buildWire_content_length (env : Env) (req : Req) (res : Resp)
    (hc : ApiConsistent res) (hm : req.method ≠ .HEAD) (hb : bodylessStatus res.status = false) :
    ∃ H, (buildWire env req res).1 = toWire res.status (statusText res.status) H res.body ∧
         hFind H kCL = some (dec res.body.length) := by
  refine ⟨finalHeaders res.headers (connectionDecision env.sess req.headers).2, ?_, ?_⟩
  · rw [buildWire_eq, headStrip_id _ _ hm hb]
  · rw [finalHeaders_cl]; exact hc

/-- O4 (HEAD): no body bytes on the wire; for 204/304 no Content-Length either; otherwise the handler's Content-Length stays -/
theorem buildWire_head (env : Env) (req : Req) (res : Resp) (hm : req.method = .HEAD) :
    ∃ H, (buildWire env req res).1 = toWire res.status (statusText res.status) H [] ∧
         (bodylessStatus res.status = true → hFind H kCL = none) ∧
         (bodylessStatus res.status = false → hFind H kCL = hFind res.headers kCL) := by
  refine ⟨finalHeaders (headStrip .HEAD res).headers (connectionDecision env.sess req.headers).2, ?_, ?_, ?_⟩
  · rw [buildWire_eq, hm, headStrip_status, headStrip_head]
  · intro hb; rw [finalHeaders_cl]; exact (headStrip_bodyless .HEAD res hb).2
  · intro hb; rw [finalHeaders_cl, headStrip_head_cl res hb]

/-- 204 / 304 under any method: no body, no Content-Length -/
theorem buildWire_bodyless (env : Env) (req : Req) (res : Resp) (hb : bodylessStatus res.status = true) :
    ∃ H, (buildWire env req res).1 = toWire res.status (statusText res.status) H [] ∧ hFind H kCL = none := by
  refine ⟨finalHeaders (headStrip req.method res).headers (connectionDecision env.sess req.headers).2, ?_, ?_⟩
  · rw [buildWire_eq, headStrip_status, (headStrip_bodyless req.method res hb).1]
  · rw [finalHeaders_cl]; exact (headStrip_bodyless req.method res hb).2

/-- the `Connection` field of the response and the close decision say the same thing -/
theorem buildWire_connection (env : Env) (req : Req) (res : Resp) :
    ∃ H, (buildWire env req res).1 = toWire res.status (statusText res.status) H (headStrip req.method res).body ∧
      hFind H (ascii "Connection") = some (if (buildWire env req res).2 then ascii "close" else ascii "keep-alive") := by
  refine ⟨finalHeaders (headStrip req.method res).headers (connectionDecision env.sess req.headers).2, ?_, ?_⟩
  · rw [buildWire_eq, headStrip_status]
  · rw [finalHeaders_connection, buildWire_eq]
    simp only [connectionDecision]
    split <;> simp <;> decide

/-- the list of OWS-trimmed, case-folded tokens of a Connection value -/
def connTokens (v : Bytes) : List Bytes := (splitOn 44 v).map (fun t => lower (trim t))

theorem wantsClose_iff (v : Bytes) : wantsClose v = true ↔ ascii "close" ∈ connTokens v := by
  have hg : Gen.HttpRespond.connectionTokenised = true := by decide
  have hc : ascii Gen.HttpRespond.closeToken = ascii "close" := by decide
  simp only [wantsClose, hg, if_true, hc, connTokens, List.any_eq_true, List.mem_map, beq_iff_eq]

theorem connectionDecision_close_of_token (sess : Option SessionInfo) (h : Headers) (v : Bytes)
    (hv : hFind h (ascii "Connection") = some v) (ht : ascii "close" ∈ connTokens v) :
    (connectionDecision sess h).1 = true := by
  have := (wantsClose_iff v).2 ht
  simp [connectionDecision, hv, this]

theorem connectionDecision_default (h : Headers) (hv : hFind h (ascii "Connection") = none) :
    connectionDecision (some {}) h = (false, ascii "keep-alive") := by
  have h1 : ((({} : SessionInfo).httpVersion == ascii Gen.HttpRespond.sessionCloseVersion) || !({} : SessionInfo).connectionKeepAlive) = false := by decide
  simp only [connectionDecision, hv, h1]
  decide

/-! ### the error arm -/

theorem errorWire_eq (s : Nat) (head : Bool) :
    errorWire s head = toWire s (statusText s)
      [(ascii "Connection", ascii "close"), (ascii "Content-Length", dec (statusText s).length), (ascii "Content-Type", ascii "text/plain")]
      (if head then [] else statusText s) := by
  unfold errorWire
  simp only
  congr 1

/-! ### which statuses the request parser can ask for -/

def parserStatuses : List Nat := [400, 414, 501, 505]

theorem parseMethod_status (tok : Bytes) (s : Nat) (h : parseMethod tok = .error (.request s)) : s ∈ parserStatuses := by
  unfold parseMethod at h
  split at h
  · split at h <;> cases h
  · split at h <;> (cases h; decide)

theorem parseRequestLine_status (line : Bytes) (s : Nat) (h : parseRequestLine line = .error (.request s)) :
    s ∈ parserStatuses := by
  unfold parseRequestLine at h
  split at h
  · cases h; decide
  · split at h
    · cases h; decide
    · split at h
      · cases h; decide
      · split at h
        · cases h; decide
        · split at h
          · cases h; decide
          · split at h
            · cases h; decide
            · split at h
              · cases h; decide
              · split at h
                · rename_i e he
                  cases h
                  exact parseMethod_status _ _ he
                · split at h
                  · cases h; decide
                  · split at h
                    · cases h; decide
                    · cases h

theorem parseHeaderLines_status (ls : List Bytes) (h0 : Headers) (n : Nat) (s : Nat)
    (h : parseHeaderLines ls h0 n = .error (.request s)) : s ∈ parserStatuses := by
  induction ls generalizing h0 n with
  | nil => simp [parseHeaderLines] at h
  | cons l ls ih =>
    unfold parseHeaderLines at h
    simp only at h
    split at h
    · exact ih _ _ h
    · split at h
      · cases h; decide
      · split at h
        · exact ih _ _ h
        · split at h
          · cases h; decide
          · exact ih _ _ h

/-- the statuses `fromWireFormat` can throw as `HttpRequestError` are exactly 400, 414, 501, 505 -/
theorem fromWireFormat_status (data : Bytes) (s : Nat) (h : fromWireFormat data = .error (.request s)) :
    s ∈ parserStatuses := by
  unfold fromWireFormat at h
  split at h
  · cases h
  · simp only at h
    split at h
    · rename_i e he
      cases h
      split at he
      · cases he
      · split at he
        · rename_i e' he'
          cases he
          exact parseRequestLine_status _ _ he'
        · cases he
    · split at h
      · rename_i e he
        cases h
        exact parseHeaderLines_status _ _ _ _ he
      · split at h
        · cases h; decide
        · split at h
          · cases h; decide
          · split at h
            · cases h; decide
            · cases h

/-! ### handlers written with the response API -/

theorem runScript_consistent (sc : Script) (hs : ApiScript sc) (req : Req) (res : Resp) (hc : ApiConsistent res) :
    ApiConsistent (runScript sc req res).res := by
  induction sc generalizing res with
  | nil => simpa [runScript] using hc
  | cons a rest ih =>
    have ha : a.isApi = true := hs a (by simp)
    have hr : ApiScript rest := fun b hb => hs b (by simp [hb])
    cases a with
    | setStatus s => exact ih hr _ (by simpa [ApiConsistent] using hc)
    | setContent b ct => exact ih hr _ (setContent_consistent _ _ _)
    | setHeader k v =>
      refine ih hr _ ?_
      have hk : ciEq k kCL = false := by simpa [HAction.isApi, kCL] using ha
      simp only [ApiConsistent, Resp.setHeader]
      rw [hFind_hSet_ne _ _ _ _ hk]; exact hc
    | setBodyRaw b => simp [HAction.isApi] at ha
    | eraseHeader k => simp [HAction.isApi] at ha
    | suppress => exact ih hr _ (by simpa [ApiConsistent] using hc)
    | throwStd => simpa [runScript] using hc
    | throwOther => simpa [runScript] using hc
    | echo => exact ih hr _ (setContent_consistent _ _ _)
    | big n f => exact ih hr _ (setContent_consistent _ _ _)
    | nop => exact ih hr _ hc

theorem defaultResp_consistent : ApiConsistent defaultResp := setContent_consistent _ _ _
theorem prefilled_consistent : ApiConsistent prefilled := by
  have := defaultResp_consistent
  simpa [ApiConsistent, prefilled] using this

/-- whatever a handler does, a throw ends in the 500 of the safety net -/
theorem dispatch_threw (d : Decision Handler) (req : Req) (h : Handler) (hd : d.anyHandler? = some h)
    (ht : (h req prefilled).threw = true) :
    (dispatch d req).1.status = 500 ∧ (dispatch d req).1.body = ascii "Internal Server Error" ∧
    ApiConsistent (dispatch d req).1 ∧ (dispatch d req).1.suppress = false := by
  have key := safetyNet_threw h req prefilled ht
  cases d with
  | matched h' c r =>
    simp [Decision.anyHandler?] at hd; subst hd
    simpa [dispatch, prefilled, stMatched_eq] using key
  | noRoute o =>
    cases o with
    | none => simp [Decision.anyHandler?] at hd
    | some h' =>
      simp [Decision.anyHandler?] at hd; subst hd
      simpa [dispatch, prefilled, stMatched_eq] using key
  | matchedAsHead h' c r =>
    simp [Decision.anyHandler?] at hd; subst hd
    have e : (dispatch (.matchedAsHead h' c r) req).1 = { invokeWithSafetyNet h' req prefilled with suppress := false } := by
      simp [dispatch, prefilled, stMatchedAsHead_eq]
    rw [e]
    exact ⟨key.1, key.2.1, by simpa [ApiConsistent] using key.2.2.1, rfl⟩
  | autoOptions _ => simp [Decision.anyHandler?] at hd
  | optionsStar => simp [Decision.anyHandler?] at hd
  | methodNotAllowed _ => simp [Decision.anyHandler?] at hd

/-- a handler that returns an API-consistent response object (e.g. any `ApiScript`) keeps it consistent through the dispatch -/
theorem dispatch_consistent_of_handler (d : Decision Handler) (req : Req) (h : Handler) (hd : d.anyHandler? = some h)
    (hc : ApiConsistent (h req prefilled).res) : ApiConsistent (dispatch d req).1 := by
  cases ht : (h req prefilled).threw with
  | true => exact (dispatch_threw d req h hd ht).2.2.1
  | false =>
    have key := safetyNet_returned h req prefilled ht
    cases d with
    | matched h' c r =>
      simp [Decision.anyHandler?] at hd; subst hd
      rw [dispatch_userHandler _ _ h' rfl, key]; exact hc
    | noRoute o =>
      cases o with
      | none => simp [Decision.anyHandler?] at hd
      | some h' =>
        simp [Decision.anyHandler?] at hd; subst hd
        rw [dispatch_userHandler _ _ h' rfl, key]; exact hc
    | matchedAsHead h' c r =>
      simp [Decision.anyHandler?] at hd; subst hd
      have e : (dispatch (.matchedAsHead h' c r) req).1 = { invokeWithSafetyNet h' req prefilled with suppress := false } := by
        simp [dispatch, prefilled, stMatchedAsHead_eq]
      rw [e, key]
      simpa [ApiConsistent] using hc
    | autoOptions _ => simp [Decision.anyHandler?] at hd
    | optionsStar => simp [Decision.anyHandler?] at hd
    | methodNotAllowed _ => simp [Decision.anyHandler?] at hd

/-! ### small facts used by the property file -/

/-- `fromWireFormat data` throws exactly `e` (a decidable rendering for concrete witnesses) -/
def parseErrIs (data : Bytes) (e : ParseErr) : Bool :=
  match fromWireFormat data with
  | .error e' => e' == e
  | .ok _ => false


theorem applyDecision_method (req : Req) (d : Decision Handler) : (applyDecision req d).method = req.method := by
  cases d <;> rfl
theorem applyDecision_headers (req : Req) (d : Decision Handler) : (applyDecision req d).headers = req.headers := by
  cases d <;> rfl
theorem mkReq_method (p : ParsedReq) : (mkReq p).method = p.method := by
  unfold mkReq; split <;> rfl
theorem mkReq_headers (p : ParsedReq) : (mkReq p).headers = p.headers := by
  unfold mkReq; split <;> rfl
theorem reqOf_method (srv : Server) (p : ParsedReq) : (reqOf srv p).method = p.method := by
  rw [reqOf, applyDecision_method, mkReq_method]
theorem reqOf_headers (srv : Server) (p : ParsedReq) : (reqOf srv p).headers = p.headers := by
  rw [reqOf, applyDecision_headers, mkReq_headers]

/-- the dispatch categories that run no handler build an API-consistent response themselves (AUTO_OPTIONS is a 204) -/
theorem dispatch_consistent_no_handler (d : Decision Handler) (req : Req) (hd : d.anyHandler? = none)
    (hb : bodylessStatus (dispatch d req).1.status = false) : ApiConsistent (dispatch d req).1 := by
  cases d with
  | matched h c r => simp [Decision.anyHandler?] at hd
  | matchedAsHead h c r => simp [Decision.anyHandler?] at hd
  | noRoute o =>
    cases o with
    | some h => simp [Decision.anyHandler?] at hd
    | none => exact setContent_consistent _ _ _
  | autoOptions allow =>
    have : bodylessStatus (dispatch (.autoOptions allow) req).1.status = true := by
      simp only [dispatch]; decide
    rw [this] at hb; cases hb
  | optionsStar =>
    simp only [dispatch, ApiConsistent, kCL]
    rw [hFind_hSet_self]
    decide
  | methodNotAllowed allow =>
    simp only [dispatch, ApiConsistent]
    rw [hFind_hSet_ne _ _ _ _ (by decide)]
    exact setContent_consistent _ _ _

end Iora.HttpRespond
