import IoraModel.Lemmas.BlockingQueue
/-!
# "Closing refuses further items", step by step (seeded change C10-e)

`closed_run` says that from a closed state on the push log never changes.  Here the same fact is stated for ONE step of
ANY thread in ANY reachable state - in particular for a producer that went to sleep on a full OPEN queue and is woken by a
take followed by another thread's `close()`: the step in which it re-acquires `_mutex` re-reads `_closed` and does not push.
-/
namespace Iora.BQ
open Iora.Monitor

/-- in every reachable state, a step taken while `_closed` is set pushes nothing and does not make the queue longer -/
theorem closed_step_no_push (cap : Nat) (ps : List (List Call)) (sched : List Choice) (c : Choice)
    (hc : (run (prog true) (init cap ps) sched).data.closed = true) :
    (step (prog true) (run (prog true) (init cap ps) sched) c).data.puts = (run (prog true) (init cap ps) sched).data.puts ∧
    (step (prog true) (run (prog true) (init cap ps) sched) c).data.q.length ≤ (run (prog true) (init cap ps) sched).data.q.length ∧
    (step (prog true) (run (prog true) (init cap ps) sched) c).data.closed = true := by
  have h1 := closed_run _ hc [c]
  have e : run (prog true) (run (prog true) (init cap ps) sched) [c] =
      step (prog true) (run (prog true) (init cap ps) sched) c := rfl
  rw [e] at h1
  obtain ⟨xs, hx⟩ := run_takes (run (prog true) (init cap ps) sched) [c]
  rw [e] at hx
  have c0 := (inv_run cap ps sched).cons
  have c1 := (inv_run cap ps (sched ++ [c])).cons
  rw [run_append, e] at c1
  refine ⟨h1.1, ?_, h1.2⟩
  rw [h1.1, c0, hx, List.map_append, List.append_assoc] at c1
  have := List.append_cancel_left c1
  rw [this]
  simp

end Iora.BQ
