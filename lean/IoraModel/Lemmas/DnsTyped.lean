import IoraModel.Lemmas.DnsMessage
/-! N2 for C19, typed records: exact decoding of A / AAAA / TXT RDATA and of names inside RDATA (CNAME, PTR, MX, SRV) for every
layout of compression pointers; whole-message theorem. -/
namespace Iora.Dns
open Iora

theorem slice_getElem? (m : Bytes) (s n i : Nat) (hi : i < n) : (slice m s n)[i]? = m[s + i]? := by
  unfold slice
  rw [List.getElem?_take_of_lt hi, List.getElem?_drop]

theorem slice_length_le (m : Bytes) (s n : Nat) : (slice m s n).length ≤ n := by
  unfold slice; simp [List.length_take]; omega

theorem rd_slice {m r : Bytes} {s : Nat} (hr : r = slice m s r.length) {i : Nat} (hi : i < r.length) : rd r i = rd m (s + i) := by
  unfold rd
  have : r[i]? = m[s + i]? := by
    rw [hr, slice_getElem? m s r.length i hi]
  rw [this]

/-- **names inside RDATA, every compression layout.** If the RDATA bytes (a slice of the message) at `rdOff` denote the
labels `ls` and the name ends inside the RDATA, `decodeNameFromRdata` returns exactly them and the offset behind the name.
The root name is covered both written as a root label (`00`: the null MX of RFC 7505, the SRV target `.`) and as a POINTER
to a root label, including the one in the last byte of the message (refused before the repair of FC19f by the code's
`pointer + 1 < messageSize` test). -/
theorem rdataName_exact (m r : Bytes) (rdStart rdOff nx : Nat) (ls : List Bytes)
    (hr : r = slice m rdStart r.length) (hoff : rdOff < r.length)
    (hwf : WellFormedName m (rdStart + rdOff) ls (rdStart + nx)) (hnx : nx ≤ r.length) :
    rdataName m rdStart rdOff r = .ok (dottedName ls, nx) := by
  unfold rdataName
  have h1 : ¬ (r.length = 0 ∨ rdOff ≥ r.length) := by omega
  simp only [h1, ↓reduceIte]
  have hdec := decodeName_sound m _ ls _ hwf
  obtain ⟨hops, hd, hj, hw⟩ := hwf
  generalize hA : rdStart + rdOff = A at hd hdec
  generalize hB : rdStart + nx = B at hd hdec
  have habs : A < m.length := by
    cases hd with
    | root h0 => exact (List.getElem?_eq_some_iff.mp h0).1
    | label hb _ _ _ _ => exact (List.getElem?_eq_some_iff.mp hb).1
    | ptr hb _ _ _ => exact (List.getElem?_eq_some_iff.mp hb).1
  have hrd0 : rd r rdOff = .ok m[A] := by
    rw [rd_slice hr hoff]
    simp only [hA]
    exact rd_ok habs
  by_cases hp : isPtr m[A] = true
  · -- the name starts with a pointer
    have h192 := (isPtr_iff _).mp hp
    cases hd with
    | root h0 =>
      have := (List.getElem?_eq_some_iff.mp h0).2
      rw [this] at h192; simp at h192
    | label hb _ h63 _ _ =>
      have := (List.getElem?_eq_some_iff.mp hb).2
      rw [this] at h192; omega
    | @ptr _ b b2 _ nx' hops' hb _ hb2 hrest =>
      have hnx2 : nx = rdOff + 2 := by omega
      have hlt2 : rdOff + 1 < r.length := by omega
      have eb : m[A] = b := (List.getElem?_eq_some_iff.mp hb).2
      have hlt3 : A + 1 < m.length := (List.getElem?_eq_some_iff.mp hb2).1
      have eb2 : m[A + 1] = b2 := (List.getElem?_eq_some_iff.mp hb2).2
      have h16 : rd16 r rdOff = .ok (b.toNat * 256 + b2.toNat) := by
        unfold rd16
        rw [hrd0, rd_slice hr hlt2]
        have : rdStart + (rdOff + 1) = A + 1 := by omega
        simp only [this]
        rw [rd_ok hlt3, eb, eb2]
        rfl
      have htgt : (b.toNat % 64) * 256 + b2.toNat + Gen.Dns.rdataPointerMargin < m.length := by
        have hm0 : Gen.Dns.rdataPointerMargin = 0 := rfl
        rw [hm0, Nat.add_zero]
        cases hrest with
        | root h0 => exact (List.getElem?_eq_some_iff.mp h0).1
        | label hb' _ _ _ _ => exact (List.getElem?_eq_some_iff.mp hb').1
        | ptr hb' _ _ _ => exact (List.getElem?_eq_some_iff.mp hb').1
      rw [eb] at hrd0 hp
      simp only [hlt2, ↓reduceIte, hrd0, bind, Except.bind, hp, show ¬ rdOff + 2 > r.length by omega, h16, pure, Except.pure,
        ptr_value b b2 (by rw [← eb]; exact h192), htgt]
      rw [decodeName_sound m _ ls nx' ⟨hops', hrest, by omega, hw⟩, hnx2]
  · -- labels first: decode at the absolute offset
    have hp' : isPtr m[A] = false := by simpa using hp
    have hdirect : (if rdOff + 1 < r.length then
          (do let fb ← rd r rdOff
              if isPtr fb = true then
                if rdOff + 2 > r.length then Except.error Err.rdShort
                else do let w ← rd16 r rdOff; pure (some (w % (Gen.Dns.pointerMask + 1)))
              else pure none : R (Option Nat))
        else pure none) = .ok none := by
      split
      · simp only [hrd0, bind, Except.bind, hp', Bool.false_eq_true, ↓reduceIte]; rfl
      · rfl
    rw [hdirect]
    simp only [bind, Except.bind, show ¬ A ≥ m.length by omega, ↓reduceIte, hdec, pure, Except.pure]
    have : B ≥ rdStart ∧ B ≤ rdStart + r.length := ⟨by omega, by omega⟩
    simp only [this, and_self, ↓reduceIte]
    congr 2
    omega

theorem Denotes.lt_next {m : Bytes} {off : Nat} {ls : List Bytes} {nx : Nat} (h : Denotes m off ls nx) : off < nx := by
  induction h with
  | root _ => omega
  | label _ _ _ _ _ ih => omega
  | ptr _ _ _ _ _ => omega

theorem RecordAt.rdata_slice {m : Bytes} {off : Nat} {rr : RR} {rdOff next : Nat} (h : RecordAt m off rr rdOff next) :
    rr.rdata = slice m rdOff rr.rdata.length := by
  obtain ⟨ls, pre, post, _, _, hm, _, _, _, _, _, hrd, _⟩ := h
  have e5 : m = (pre ++ be16 rr.type ++ be16 rr.cls ++ be32 rr.ttl ++ be16 rr.rdlength) ++ rr.rdata ++ post := by
    rw [hm]; simp [List.append_assoc]
  have hl : (pre ++ be16 rr.type ++ be16 rr.cls ++ be32 rr.ttl ++ be16 rr.rdlength).length = rdOff := by rw [hrd]; simp
  rw [e5, ← hl, slice_mid]

theorem typedSpec_of {m : Bytes} {rr : RR} {o : Nat} {t : Option Typed} (h : typedOf rr m o = .ok t) : typedSpec m (rr, o) = t := by
  unfold typedSpec parseTypedRecord
  simp only [h]

theorem parseA_exact (rr : RR) (hl : rr.rdata.length = 4) : parseA rr = .ok (.a rr.name rr.rdata rr.ttl) := by
  obtain ⟨name, type, cls, ttl, rdl, rdata⟩ := rr
  dsimp only at hl ⊢
  match rdata, hl with
  | [b0, b1, b2, b3], _ =>
    have hr0 : rd [b0, b1, b2, b3] 0 = .ok b0 := rfl
    have hr1 : rd [b0, b1, b2, b3] 1 = .ok b1 := rfl
    have hr2 : rd [b0, b1, b2, b3] 2 = .ok b2 := rfl
    have hr3 : rd [b0, b1, b2, b3] 3 = .ok b3 := rfl
    unfold parseA
    dsimp only
    rw [if_neg (by simp [Gen.Dns.lenA])]
    simp only [hr0, hr1, hr2, hr3, bind, Except.bind]
    rfl

/-- **A**: any four octets -/
theorem typed_a (m : Bytes) (rr : RR) (o : Nat) (ht : rr.type = 1) (hl : rr.rdata.length = 4) :
    typedSpec m (rr, o) = some (.a rr.name rr.rdata rr.ttl) := by
  apply typedSpec_of
  unfold typedOf
  simp [ht, Gen.Dns.typedTypes, parseA_exact rr hl, Except.map]

/-- **AAAA**: any sixteen octets -/
theorem typed_aaaa (m : Bytes) (rr : RR) (o : Nat) (ht : rr.type = 28) (hl : rr.rdata.length = 16) :
    typedSpec m (rr, o) = some (.aaaa rr.name rr.rdata rr.ttl) := by
  apply typedSpec_of
  unfold typedOf
  simp [ht, Gen.Dns.typedTypes, aaaa_exact rr hl, Except.map]

/-- **TXT**: any sequence of character strings -/
theorem typed_txt (m : Bytes) (rr : RR) (o : Nat) (ts : List Bytes) (ht : rr.type = 16) (h : ∀ t ∈ ts, t.length < 256)
    (hr : rr.rdata = encodeTxt ts) : typedSpec m (rr, o) = some (.txt rr.name ts rr.ttl) := by
  apply typedSpec_of
  unfold typedOf
  simp [ht, Gen.Dns.typedTypes, parseTxt_exact rr ts h hr, Except.map]

/-- **CNAME**: the RDATA is a name, compressed in any way -/
theorem typed_cname (m : Bytes) (rr : RR) (o : Nat) (ls : List Bytes) (ht : rr.type = 5)
    (hr : rr.rdata = slice m o rr.rdata.length) (hd : WellFormedName m o ls (o + rr.rdata.length)) :
    typedSpec m (rr, o) = some (.cname rr.name (dottedName ls) rr.ttl) := by
  apply typedSpec_of
  have hpos : 0 < rr.rdata.length := by
    obtain ⟨_, hh, _, _⟩ := hd
    have := hh.toDenotes.lt_next; omega
  have := rdataName_exact m rr.rdata o 0 rr.rdata.length ls hr hpos (by simpa using hd) (Nat.le_refl _)
  unfold typedOf
  simp [ht, Gen.Dns.typedTypes, parseCname, this, Except.map, show rr.rdata.length ≠ 0 by omega, bind, Except.bind, pure, Except.pure]

/-- **PTR**: the RDATA is a name, compressed in any way -/
theorem typed_ptr (m : Bytes) (rr : RR) (o : Nat) (ls : List Bytes) (ht : rr.type = 12)
    (hr : rr.rdata = slice m o rr.rdata.length) (hd : WellFormedName m o ls (o + rr.rdata.length)) :
    typedSpec m (rr, o) = some (.ptr rr.name (dottedName ls) rr.ttl) := by
  apply typedSpec_of
  have hpos : 0 < rr.rdata.length := by
    obtain ⟨_, hh, _, _⟩ := hd
    have := hh.toDenotes.lt_next; omega
  have := rdataName_exact m rr.rdata o 0 rr.rdata.length ls hr hpos (by simpa using hd) (Nat.le_refl _)
  unfold typedOf
  simp [ht, Gen.Dns.typedTypes, parsePtr, this, Except.map, show rr.rdata.length ≠ 0 by omega, bind, Except.bind, pure, Except.pure]

/-- **MX**: preference, then a name compressed in any way -/
theorem typed_mx (m : Bytes) (rr : RR) (o : Nat) (ls : List Bytes) (pref : Nat) (ht : rr.type = 15)
    (hr : rr.rdata = slice m o rr.rdata.length) (hp : rd16 rr.rdata 0 = .ok pref) (hlen : 2 < rr.rdata.length)
    (hd : WellFormedName m (o + 2) ls (o + rr.rdata.length)) :
    typedSpec m (rr, o) = some (.mx rr.name pref (dottedName ls) rr.ttl) := by
  apply typedSpec_of
  have := rdataName_exact m rr.rdata o 2 rr.rdata.length ls hr hlen hd (Nat.le_refl _)
  unfold typedOf
  simp [ht, Gen.Dns.typedTypes, parseMx, this, Except.map, Gen.Dns.minMx, show ¬ rr.rdata.length < 2 by omega, hp, hlen, bind, Except.bind,
    pure, Except.pure]

/-- **SRV**: priority, weight, port, then a name compressed in any way -/
theorem typed_srv (m : Bytes) (rr : RR) (o : Nat) (ls : List Bytes) (prio weight port : Nat) (ht : rr.type = 33)
    (hr : rr.rdata = slice m o rr.rdata.length) (h0 : rd16 rr.rdata 0 = .ok prio) (h2 : rd16 rr.rdata 2 = .ok weight)
    (h4 : rd16 rr.rdata 4 = .ok port) (hlen : 6 < rr.rdata.length)
    (hd : WellFormedName m (o + 6) ls (o + rr.rdata.length)) :
    typedSpec m (rr, o) = some (.srv rr.name prio weight port (dottedName ls) rr.ttl) := by
  apply typedSpec_of
  have := rdataName_exact m rr.rdata o 6 rr.rdata.length ls hr hlen hd (Nat.le_refl _)
  unfold typedOf
  simp [ht, Gen.Dns.typedTypes, parseSrv, this, Except.map, Gen.Dns.minSrv, show ¬ rr.rdata.length < 6 by omega, h0, h2, h4, hlen, bind,
    Except.bind, pure, Except.pure]

/-- record types without a typed parser yield no typed record -/
theorem typed_none (m : Bytes) (rr : RR) (o : Nat) (ht : Gen.Dns.typedTypes.contains rr.type = false) : typedSpec m (rr, o) = none := by
  apply typedSpec_of
  unfold typedOf
  simp only [ht, Bool.not_false, ↓reduceIte]
  rfl

/-- header fields as `parseHeader` extracts them from the flags word -/
def mkHeader (id flags qd an ns ar : Nat) : Header :=
  { id := id, qr := bitOf flags 32768, opcode := flags / 2048 % 16, aa := bitOf flags 1024, tc := bitOf flags 512,
    rd := bitOf flags 256, ra := bitOf flags 128, z := flags / 16 % 8, rcode := flags % 16, qd := qd, an := an, ns := ns, ar := ar }

theorem parseHeader_exact (id flags qd an ns ar : Nat) (rest : Bytes) (h1 : id < 65536) (h2 : flags < 65536) (h3 : qd < 65536)
    (h4 : an < 65536) (h5 : ns < 65536) (h6 : ar < 65536) :
    parseHeader (be16 id ++ be16 flags ++ be16 qd ++ be16 an ++ be16 ns ++ be16 ar ++ rest) 0 =
      .ok (mkHeader id flags qd an ns ar, 12) := by
  generalize hm : be16 id ++ be16 flags ++ be16 qd ++ be16 an ++ be16 ns ++ be16 ar ++ rest = m
  have r0 : rd16 m 0 = .ok id := by
    have := rd16_mid [] (be16 flags ++ be16 qd ++ be16 an ++ be16 ns ++ be16 ar ++ rest) id h1
    simpa [← hm, List.append_assoc] using this
  have r2 : rd16 m 2 = .ok flags := by
    have := rd16_mid (be16 id) (be16 qd ++ be16 an ++ be16 ns ++ be16 ar ++ rest) flags h2
    simpa [← hm, List.append_assoc] using this
  have r4 : rd16 m 4 = .ok qd := by
    have := rd16_mid (be16 id ++ be16 flags) (be16 an ++ be16 ns ++ be16 ar ++ rest) qd h3
    simpa [← hm, List.append_assoc] using this
  have r6 : rd16 m 6 = .ok an := by
    have := rd16_mid (be16 id ++ be16 flags ++ be16 qd) (be16 ns ++ be16 ar ++ rest) an h4
    simpa [← hm, List.append_assoc] using this
  have r8 : rd16 m 8 = .ok ns := by
    have := rd16_mid (be16 id ++ be16 flags ++ be16 qd ++ be16 an) (be16 ar ++ rest) ns h5
    simpa [← hm, List.append_assoc] using this
  have r10 : rd16 m 10 = .ok ar := by
    have := rd16_mid (be16 id ++ be16 flags ++ be16 qd ++ be16 an ++ be16 ns) rest ar h6
    simpa [← hm, List.append_assoc] using this
  have hlen : m.length = 12 + rest.length := by rw [← hm]; simp; omega
  unfold parseHeader
  simp only [Gen.Dns.headerSize, hlen, checkBounds, show ¬ 0 + 12 > 12 + rest.length by omega, ↓reduceIte, bind, Except.bind,
    Nat.zero_add, r0, r2, r4, r6, r8, r10, pure, Except.pure, mkHeader]

/-- **N2 (whole response).** A message whose bytes are laid out as RFC 1035 §4.1 prescribes — header, then questions, then the
three record sections, EVERY name (question, owner) compressed in any way the reference relation admits — and in which no
record trips the A-record rule, parses to exactly its header fields, questions and resource records; the typed records are
the per-record typed decodings, in order of appearance. -/
theorem parse_exact (id flags : Nat) (rest : Bytes) (qs : List Question) (an ns ar : List (RR × Nat)) (o1 o2 o3 o4 : Nat)
    (h1 : id < 65536) (h2 : flags < 65536) (h3 : qs.length < 65536) (h4 : an.length < 65536) (h5 : ns.length < 65536)
    (h6 : ar.length < 65536)
    (hq : QuestionsAt (be16 id ++ be16 flags ++ be16 qs.length ++ be16 an.length ++ be16 ns.length ++ be16 ar.length ++ rest) 12 qs o1)
    (han : RecordsAt (be16 id ++ be16 flags ++ be16 qs.length ++ be16 an.length ++ be16 ns.length ++ be16 ar.length ++ rest) o1 an o2)
    (hns : RecordsAt (be16 id ++ be16 flags ++ be16 qs.length ++ be16 an.length ++ be16 ns.length ++ be16 ar.length ++ rest) o2 ns o3)
    (har : RecordsAt (be16 id ++ be16 flags ++ be16 qs.length ++ be16 an.length ++ be16 ns.length ++ be16 ar.length ++ rest) o3 ar o4)
    (hval : ∀ p ∈ an ++ ns ++ ar, validateRdata p.1 = .ok ()) :
    parse (be16 id ++ be16 flags ++ be16 qs.length ++ be16 an.length ++ be16 ns.length ++ be16 ar.length ++ rest) =
      .ok { header := mkHeader id flags qs.length an.length ns.length ar.length, questions := qs,
            answers := an.map (·.1), authority := ns.map (·.1), additional := ar.map (·.1),
            typed := (an ++ ns ++ ar).filterMap
              (typedSpec (be16 id ++ be16 flags ++ be16 qs.length ++ be16 an.length ++ be16 ns.length ++ be16 ar.length ++ rest)) } := by
  have hh := parseHeader_exact id flags qs.length an.length ns.length ar.length rest h1 h2 h3 h4 h5 h6
  generalize be16 id ++ be16 flags ++ be16 qs.length ++ be16 an.length ++ be16 ns.length ++ be16 ar.length ++ rest = m at *
  have hlen : ¬ m.length < Gen.Dns.headerSize := by
    intro hlt
    have hcb : checkBounds 0 Gen.Dns.headerSize m.length = .error .bounds := by
      unfold checkBounds
      rw [if_pos (by omega)]
    unfold parseHeader at hh
    rw [hcb] at hh
    cases hh
  unfold parse
  simp only [hlen, ↓reduceIte, hh, bind, Except.bind, mkHeader, parseQuestions_exact hq, List.nil_append,
    parseSection_exact han (fun p hp => hval p (by simp [hp])),
    parseSection_exact hns (fun p hp => hval p (by simp [hp])),
    parseSection_exact har (fun p hp => hval p (by simp [hp])), pure, Except.pure, List.filterMap_append, List.append_assoc]

/-! ### the RFC 1035 maximum-length name is accepted (FC19b repaired) -/

/-- a legal name of 255 octets on the wire (RFC 1035 §2.3.4 maximum): labels of 63, 63, 63 and 61 `x`, then the root label -/
def longNameMsg : Bytes :=
  63 :: List.replicate 63 120 ++ (63 :: List.replicate 63 120 ++ (63 :: List.replicate 63 120 ++ (61 :: List.replicate 61 120 ++ [0])))

def longNameLabels : List Bytes := [List.replicate 63 120, List.replicate 63 120, List.replicate 63 120, List.replicate 61 120]

set_option maxRecDepth 100000 in
theorem longName_denotes : DenotesH longNameMsg 0 longNameLabels 255 0 := by
  have h192 : DenotesH longNameMsg 254 [] 255 0 := DenotesH.root (by decide)
  have h3 : DenotesH longNameMsg 192 [List.replicate 61 120] 255 0 :=
    DenotesH.label (b := 61) (by decide) (by decide) (by decide) (by decide) h192
  have h2 : DenotesH longNameMsg 128 [List.replicate 63 120, List.replicate 61 120] 255 0 :=
    DenotesH.label (b := 63) (by decide) (by decide) (by decide) (by decide) h3
  have h1 : DenotesH longNameMsg 64 [List.replicate 63 120, List.replicate 63 120, List.replicate 61 120] 255 0 :=
    DenotesH.label (b := 63) (by decide) (by decide) (by decide) (by decide) h2
  exact DenotesH.label (b := 63) (by decide) (by decide) (by decide) (by decide) h1

theorem longName_wire : wire longNameLabels = 254 := by decide

theorem longName_wellFormed : WellFormedName longNameMsg 0 longNameLabels 255 :=
  ⟨0, longName_denotes, Nat.zero_le _, by rw [longName_wire]; omega⟩

/-- typed records are dropped, raw records kept, whenever the typed parser throws (e.g. a pointer loop or an out-of-range
pointer inside RDATA) -/
theorem typedSpec_none_of_error {m : Bytes} {rr : RR} {o : Nat} {e : Err} (h : typedOf rr m o = .error e) : typedSpec m (rr, o) = none := by
  have hs := typedOf_safe rr m o
  rw [h] at hs
  unfold typedSpec parseTypedRecord
  rw [h]
  cases e <;> first | exact absurd rfl hs.1 | exact absurd rfl hs.2 | rfl

end Iora.Dns
