import IoraModel.Lemmas.TpCtl
/-! # C09 — the controller invariants hold in every reachable state (mode ≠ DETACHED, no restart) -/
namespace Iora.ThreadPool

structure CInv (s : St) : Prop where
  cok : ∀ (t : Nat) (pc : MPc) (r : MRegs), s.thr[t]? = some (.main pc r) → COk s.sh pc
  gok : GOk s.sh
  /-- at most one thread owns the shutdown (has set `_shutdown` and not yet returned): only it runs a join loop -/
  oneOwner : ∀ (t t' : Nat) (pc pc' : MPc) (r r' : MRegs), s.thr[t]? = some (.main pc r) → s.thr[t']? = some (.main pc' r') →
      ownsPc pc = true → ownsPc pc' = true → t = t'
  /-- while the constructor runs, every other thread is a worker -/
  ctorAlone : ∀ (t : Nat) (pc : MPc) (r : MRegs), s.thr[t]? = some (.main pc r) → ctorPc pc = true →
      ∀ (t' : Nat) (x : Thread), t' ≠ t → s.thr[t']? = some x → isWorker x = true
  ctorZero : ∀ (t : Nat) (pc : MPc) (r : MRegs), s.thr[t]? = some (.main pc r) → ctorPc pc = true → t = 0
  main0 : ∃ pc r, s.thr[0]? = some (Thread.main pc r)
  noDetach : ∀ (t : Nat) (w : Tid) (r : MRegs), s.thr[t]? ≠ some (Thread.main (.jDetach w) r)
  nors : NoRs s

theorem cinv_init (cfg : Cfg) : CInv (init cfg) := by
  have h1 : ∀ (t : Nat) (x : Thread), (init cfg).thr[t]? = some x → t = 0 ∧ x = .main .start { mscript := cfg.main, ctor := cfg.initialSize } := by
    intro t x h
    simp [init] at h
    cases t with
    | zero => simp at h; exact ⟨rfl, h.symm⟩
    | succ k => simp at h
  refine ⟨?_, ⟨by simp [init], by simp [init], by simp [init], by simp [init]⟩, ?_, ?_, ?_, ⟨_, _, rfl⟩, ?_, noRs_init cfg⟩
  · intro t pc r h
    have := (h1 t _ h).2; injection this with e1 _; rw [e1]
    exact ⟨by simp [ownsPc, seqPc, qPc], by simp [qPc], fun _ => ⟨rfl, rfl⟩, by simp [pollEp]⟩
  · intro t t' pc pc' r r' h h' _ _; rw [(h1 t _ h).1, (h1 t' _ h').1]
  · intro t pc r h _ t' x ne hx; exact absurd ((h1 t' _ hx).1.trans (h1 t _ h).1.symm) ne
  · intro t pc r h _; exact (h1 t _ h).1
  · intro t w r h; have := (h1 t _ h).2; cases this

theorem fresh_main_cok (sh : Shared) (pc : MPc) (r : MRegs) (h : isFresh (.main pc r) = true) :
    COk sh pc ∧ ownsPc pc = false ∧ ctorPc pc = false := by
  cases pc <;> simp [isFresh] at h
  exact ⟨⟨by simp [ownsPc, seqPc, qPc], by simp [qPc], by simp [ctorPc], by simp [pollEp]⟩, by simp [ownsPc, seqPc, qPc], by simp [ctorPc]⟩

theorem transM_ctor_only (cfg : Cfg) (sh : Shared) (n t : Nat) (pc : MPc) (r : MRegs) (alt : Nat) (h : ctorPc pc = true) (nt : Thread)
    (hs : (transM cfg sh n t pc r alt).2.2 = .spawn nt) : nt = newWorker := by
  cases pc <;> simp [ctorPc] at h <;> simp only [transM] at hs
  · split at hs <;> cases hs
  · cases hs
  · cases hs; rfl
  · split at hs <;> cases hs

theorem nonmain_spawn (cfg : Cfg) (sh : Shared) (n t : Nat) (th : Thread) (alt : Nat) (h : isMain th = false) (nt : Thread)
    (hs : (trans cfg sh n t th alt).2.2 = .spawn nt) : nt = newWorker := by
  cases th with
  | main pc r => simp [isMain] at h
  | sub x =>
    simp only [trans] at hs
    cases x with
    | run c =>
      simp only [transS] at hs
      cases hx : (callStep cfg sh n t c).2.1 <;> simp only [hx] at hs <;> exact (callStep_spawn cfg sh n t c nt hs).1
    | start sc => simp only [transS] at hs; split at hs <;> cases hs
    | done => cases hs
  | worker w =>
    simp only [trans] at hs
    cases w with
    | body id c =>
      simp only [transW] at hs
      cases hx : (callStep cfg sh n t c).2.1 <;> simp only [hx] at hs <;> exact (callStep_spawn cfg sh n t c nt hs).1
    | _ => simp only [transW] at hs <;> (repeat' split at hs) <;> cases hs

theorem trans_isWorker (cfg : Cfg) (sh : Shared) (n t : Nat) (th : Thread) (alt : Nat) :
    isWorker (trans cfg sh n t th alt).2.1 = isWorker th := by
  cases th <;> rfl

theorem cinv_step (cfg : Cfg) (hdet : cfg.detached = false) (hr : cfg.allowRestart = false) (s : St) (c : Choice)
    (h : CInv s) : CInv (step cfg s c) := by
  -- steps that replace a worker by a worker and keep the flags
  have worker_step : ∀ (t : Nat) (w w' : WSt) (sh' : Shared), s.thr[t]? = some (.worker w) → FlagsSame s.sh sh' →
      CInv { sh := sh', thr := s.thr.set t (.worker w') } := by
    intro t w w' sh' hget hf
    have old : ∀ (j : Nat) (pc : MPc) (r : MRegs), (s.thr.set t (.worker w'))[j]? = some (.main pc r) → s.thr[j]? = some (.main pc r) := by
      intro j pc r hj
      rcases getElem?_set_cases s.thr t j _ _ _ hget hj with ⟨_, e⟩ | ⟨_, e⟩
      · cases e
      · exact e
    refine ⟨fun j pc r hj => cok_of_flags (h.cok j pc r (old j pc r hj)) hf, gok_of_flags h.gok hf,
      fun j j' pc pc' r r' hj hj' => h.oneOwner j j' pc pc' r r' (old _ _ _ hj) (old _ _ _ hj'), ?_,
      fun j pc r hj => h.ctorZero j pc r (old _ _ _ hj), ?_, fun j w0 r hj => h.noDetach j w0 r (old _ _ _ hj), ?_⟩
    · intro j pc r hj hc j' x ne hx
      rcases getElem?_set_cases s.thr t j' _ _ _ hget hx with ⟨_, e⟩ | ⟨_, e⟩
      · rw [e]; rfl
      · exact h.ctorAlone j pc r (old _ _ _ hj) hc j' x ne e
    · obtain ⟨pc, r, h0⟩ := h.main0
      refine ⟨pc, r, ?_⟩
      by_cases e : (0 : Nat) = t
      · rw [← e, h0] at hget; cases hget
      · show (s.thr.set t (.worker w'))[0]? = _
        rw [getElem?_set_ne' s.thr t 0 _ e]; exact h0
    · intro j x hj
      rcases getElem?_set_cases s.thr t j _ _ _ hget hj with ⟨_, e⟩ | ⟨_, e⟩
      · rw [e]; rfl
      · exact h.nors j x e
  apply step_cases cfg s c CInv
  · exact h
  · intro t th b hget ha
    cases th with
    | worker w =>
      cases w <;> simp [isAsleep] at ha
      exact worker_step t .asleep (.woken b) s.sh hget ⟨rfl, rfl, rfl, rfl, rfl⟩
    | main pc r => simp [isAsleep] at ha
    | sub x => simp [isAsleep] at ha
  · intro t th to late hget hw _
    cases th with
    | worker w =>
      cases w <;> simp [wokenBy] at hw
      exact worker_step t _ _ _ hget (reacq_flags cfg s.sh t late)
    | main pc r => simp [wokenBy] at hw
    | sub x => simp [wokenBy] at hw
  · intro t th alt l hget _ _ _ _ hp
    have hts := threadsStep_of_run cfg s t th alt l hget hp
    have hfresh := fun nt e => trans_spawn cfg s.sh s.thr.length t th alt nt e
    have hnors : NoRs { sh := (trans cfg s.sh s.thr.length t th alt).1, thr := l } := by
      have := noRs_step cfg hr s (.run t alt) h.nors
      -- the same state as `step` produces; re-derive directly
      intro j y hy
      rcases hts.new j y hy with ⟨_, e2⟩ | ⟨_, x, hx, hwf⟩ | ⟨nt, hnt, _, e2⟩
      · rw [e2]
        have h0 := h.nors t th hget
        cases th with
        | main pc r => simp only [trans, restartTh] at h0 ⊢; exact transM_nrs cfg hr s.sh _ t pc r alt h0
        | sub x => rfl
        | worker x => rfl
      · rcases hwf with e | ⟨_, e⟩
        · rw [e]; exact h.nors j x hx
        · rw [e, restartTh_wake]; exact h.nors j x hx
      · rw [e2]
        have := hfresh nt hnt
        cases nt with
        | main pc r => cases pc <;> simp [isFresh] at this; rfl
        | sub x => rfl
        | worker x => rfl
    -- the mains of the new list other than the acting thread are the old ones
    have old_main : ∀ (j : Nat) (pc : MPc) (r : MRegs), j ≠ t → l[j]? = some (.main pc r) →
        s.thr[j]? = some (.main pc r) ∨ (isFresh (.main pc r) = true ∧ j = s.thr.length) := by
      intro j pc r ne hj
      rcases hts.new j _ hj with ⟨e1, _⟩ | ⟨_, x, hx, hwf⟩ | ⟨nt, hnt, e1, e2⟩
      · exact absurd e1 ne
      · left
        have hm : isMain x = true := by rw [← (wokeFrom_class hwf).2.2.2.2.2.1]; rfl
        rw [main_not_asleep x _ hm hwf]; exact hx
      · right; rw [e2]; exact ⟨hfresh nt hnt, e1⟩
    have main_to_new : ∀ (j : Nat) (pc : MPc) (r : MRegs), j ≠ t → s.thr[j]? = some (.main pc r) → l[j]? = some (.main pc r) := by
      intro j pc r ne hj
      obtain ⟨y, hy, hwf⟩ := hts.old j _ ne hj
      rw [main_not_asleep _ y rfl hwf] at hy; exact hy
    cases hth : th with
    | main pc r =>
      rw [hth] at hget hts hfresh hnors
      have hnr : restartPc pc = false := by have := h.nors t _ hget; simpa [restartTh] using this
      have hnr' : restartPc (transM cfg s.sh s.thr.length t pc r alt).2.1.1 = false := transM_nrs cfg hr s.sh _ t pc r alt hnr
      have cs := transM_cstep cfg s.sh s.thr.length t pc r alt (h.cok t pc r hget) h.gok hnr hnr'
      have hself : l[t]? = some (.main (transM cfg s.sh s.thr.length t pc r alt).2.1.1 (transM cfg s.sh s.thr.length t pc r alt).2.1.2) := hts.self
      -- an old controller other than the acting one is not in its constructor
      have other_not_ctor : ∀ (j : Nat) (pcx : MPc) (rx : MRegs), j ≠ t → s.thr[j]? = some (.main pcx rx) → ctorPc pcx = false := by
        intro j pcx rx ne hj
        cases hc : ctorPc pcx with
        | false => rfl
        | true => have := h.ctorAlone j pcx rx hj hc t _ (fun e => ne e.symm) hget; simp [isWorker] at this
      have cok_other : ∀ (j : Nat) (pcx : MPc) (rx : MRegs), j ≠ t → l[j]? = some (.main pcx rx) → COk (transM cfg s.sh s.thr.length t pc r alt).1 pcx ∧
          (ownsPc pcx = true → s.thr[j]? = some (.main pcx rx)) ∧ ctorPc pcx = false := by
        intro j pcx rx ne hj
        rcases old_main j pcx rx ne hj with ho | ⟨hf, _⟩
        · have hc := h.cok j pcx rx ho
          have hnc := other_not_ctor j pcx rx ne ho
          exact ⟨⟨fun e => cs.monoS (hc.own e), fun e => cs.monoQ (hc.q e), (by rw [hnc]; intro e; cases e),
            fun e he => ⟨(hc.ep e he).1, cs.monoS (hc.ep e he).2⟩⟩, fun _ => ho, hnc⟩
        · have := fresh_main_cok (transM cfg s.sh s.thr.length t pc r alt).1 pcx rx hf
          exact ⟨this.1, (by rw [this.2.1]; intro e; cases e), this.2.2⟩
      refine ⟨?_, cs.gok, ?_, ?_, ?_, ?_, ?_, hnors⟩
      · intro j pcx rx hj
        by_cases e : j = t
        · rw [e, hself] at hj; injection hj with hj; injection hj with e1 _; rw [← e1]; exact cs.cok
        · exact (cok_other j pcx rx e hj).1
      · intro j j' p1 p2 r1 r2 hj hj' o1 o2
        by_cases e : j = t <;> by_cases e' : j' = t
        · rw [e, e']
        · -- the acting thread owns after the step, another old thread owns too
          rw [e, hself] at hj; injection hj with hj; injection hj with e1 _
          rw [← e1] at o1
          have ho' := (cok_other j' p2 r2 e' hj').2.1 o2
          rcases cs.own o1 with oo | oo
          · rw [e]; exact h.oneOwner t j' pc p2 r r2 hget ho' oo o2
          · have := (h.cok j' p2 r2 ho').own o2; rw [oo] at this; cases this
        · rw [e', hself] at hj'; injection hj' with hj'; injection hj' with e1 _
          rw [← e1] at o2
          have ho := (cok_other j p1 r1 e hj).2.1 o1
          rcases cs.own o2 with oo | oo
          · rw [e']; exact h.oneOwner j t p1 pc r1 r ho hget o1 oo
          · have := (h.cok j p1 r1 ho).own o1; rw [oo] at this; cases this
        · exact h.oneOwner j j' p1 p2 r1 r2 ((cok_other j p1 r1 e hj).2.1 o1) ((cok_other j' p2 r2 e' hj').2.1 o2) o1 o2
      · intro j pcx rx hj hc j' x ne hx
        by_cases e : j = t
        · rw [e, hself] at hj; injection hj with hj; injection hj with e1 _
          rw [← e1] at hc
          have hcp := cs.ctor hc
          rcases hts.new j' x hx with ⟨e1', _⟩ | ⟨ne', x0, hx0, hwf⟩ | ⟨nt, hnt, _, e2⟩
          · exact absurd (e1'.trans e.symm) ne
          · rw [(wokeFrom_class hwf).1]; exact h.ctorAlone t pc r hget hcp j' x0 ne' hx0
          · rw [e2, transM_ctor_only cfg s.sh _ t pc r alt hcp nt (by simpa [trans] using hnt)]; rfl
        · have := (cok_other j pcx rx e hj).2.2; rw [this] at hc; cases hc
      · intro j pcx rx hj hc
        by_cases e : j = t
        · rw [e, hself] at hj; injection hj with hj; injection hj with e1 _
          rw [← e1] at hc
          rw [e]; exact h.ctorZero t pc r hget (cs.ctor hc)
        · have := (cok_other j pcx rx e hj).2.2; rw [this] at hc; cases hc
      · obtain ⟨p0, r0, h0⟩ := h.main0
        by_cases e : (0 : Nat) = t
        · exact ⟨_, _, by rw [e]; exact hself⟩
        · exact ⟨p0, r0, main_to_new 0 p0 r0 e h0⟩
      · intro j w0 r0 hj
        by_cases e : j = t
        · rw [e, hself] at hj; injection hj with hj; injection hj with e1 _
          exact transM_noDetach cfg hdet s.sh _ t pc r alt w0 e1
        · rcases old_main j _ r0 e hj with ho | ⟨hf, _⟩
          · exact h.noDetach j w0 r0 ho
          · simp [isFresh] at hf
    | sub x0 =>
      rw [hth] at hget hts hfresh hnors
      have hf := trans_flags_nonmain cfg s.sh s.thr.length t (.sub x0) alt rfl
      have hsp := fun nt e => nonmain_spawn cfg s.sh s.thr.length t (.sub x0) alt rfl nt e
      have old : ∀ (j : Nat) (pc : MPc) (r : MRegs), l[j]? = some (.main pc r) → j ≠ t ∧ s.thr[j]? = some (.main pc r) := by
        intro j pc r hj
        have ne : j ≠ t := by intro e; rw [e, hts.self] at hj; simp [trans] at hj
        rcases old_main j pc r ne hj with ho | ⟨_, e1⟩
        · exact ⟨ne, ho⟩
        · exfalso
          rcases hts.new j _ hj with ⟨e1', _⟩ | ⟨_, x, hx, _⟩ | ⟨nt, hnt, _, e2⟩
          · exact ne e1'
          · have := lt_length_of_getElem? hx; omega
          · rw [hsp nt hnt] at e2; cases e2
      refine ⟨fun j pc r hj => cok_of_flags (h.cok j pc r (old j pc r hj).2) hf, gok_of_flags h.gok hf,
        fun j j' pc pc' r r' hj hj' => h.oneOwner j j' pc pc' r r' (old _ _ _ hj).2 (old _ _ _ hj').2, ?_,
        fun j pc r hj => h.ctorZero j pc r (old _ _ _ hj).2, ?_, fun j w0 r hj => h.noDetach j w0 r (old _ _ _ hj).2, hnors⟩
      · intro j pc r hj hc j' x ne hx
        have := h.ctorAlone j pc r (old _ _ _ hj).2 hc t _ (fun e => (old _ _ _ hj).1 e.symm) hget
        simp [isWorker] at this
      · obtain ⟨p0, r0, h0⟩ := h.main0
        have e : (0 : Nat) ≠ t := by intro e; rw [← e, h0] at hget; cases hget
        exact ⟨p0, r0, main_to_new 0 p0 r0 e h0⟩
    | worker w0 =>
      rw [hth] at hget hts hfresh hnors
      have hf := trans_flags_nonmain cfg s.sh s.thr.length t (.worker w0) alt rfl
      have hsp := fun nt e => nonmain_spawn cfg s.sh s.thr.length t (.worker w0) alt rfl nt e
      have old : ∀ (j : Nat) (pc : MPc) (r : MRegs), l[j]? = some (.main pc r) → j ≠ t ∧ s.thr[j]? = some (.main pc r) := by
        intro j pc r hj
        have ne : j ≠ t := by intro e; rw [e, hts.self] at hj; simp [trans] at hj
        rcases old_main j pc r ne hj with ho | ⟨_, e1⟩
        · exact ⟨ne, ho⟩
        · exfalso
          rcases hts.new j _ hj with ⟨e1', _⟩ | ⟨_, x, hx, _⟩ | ⟨nt, hnt, _, e2⟩
          · exact ne e1'
          · have := lt_length_of_getElem? hx; omega
          · rw [hsp nt hnt] at e2; cases e2
      refine ⟨fun j pc r hj => cok_of_flags (h.cok j pc r (old j pc r hj).2) hf, gok_of_flags h.gok hf,
        fun j j' pc pc' r r' hj hj' => h.oneOwner j j' pc pc' r r' (old _ _ _ hj).2 (old _ _ _ hj').2, ?_,
        fun j pc r hj => h.ctorZero j pc r (old _ _ _ hj).2, ?_, fun j w1 r hj => h.noDetach j w1 r (old _ _ _ hj).2, hnors⟩
      · intro j pc r hj hc j' x ne hx
        rcases hts.new j' x hx with ⟨_, e2⟩ | ⟨ne', x1, hx1, hwf⟩ | ⟨nt, hnt, _, e2⟩
        · rw [e2]; simp [trans, isWorker]
        · rw [(wokeFrom_class hwf).1]; exact h.ctorAlone j pc r (old _ _ _ hj).2 hc j' x1 ne hx1
        · rw [e2, hsp nt hnt]; rfl
      · obtain ⟨p0, r0, h0⟩ := h.main0
        have e : (0 : Nat) ≠ t := by intro e; rw [← e, h0] at hget; cases hget
        exact ⟨p0, r0, main_to_new 0 p0 r0 e h0⟩

theorem cinv_run (cfg : Cfg) (hdet : cfg.detached = false) (hr : cfg.allowRestart = false) (sched : List Choice) :
    CInv (run cfg sched) :=
  inv_run cfg CInv (cinv_init cfg) (fun s c h => cinv_step cfg hdet hr s c h) sched

end Iora.ThreadPool
