import IoraModel.Lemmas.ConnectSyncBase
namespace Iora.ConnectSync
set_option linter.unusedSimpArgs false
set_option linter.unusedVariables false

theorem doFence_core {s : State} (h : Inv s) (hl : s.lock = none) :
    Inv ({ s with shuttingDown := true, callers := notifyPending s, log := s.log ++ [.fenceSet] }) := by
  constructor
  case F_log => first | exact h.F_log | (pick h [F_log]; inv_grind [np_done, np_cancelled, np_att, np_holds, np_waiting, np_leaving, np_connected, np_relock, np_parked, np_parked_of, np_asleep, evSid])
  case F_att => first | exact h.F_att | (pick h [F_att]; inv_grind [np_done, np_cancelled, np_att, np_holds, np_waiting, np_leaving, np_connected, np_relock, np_parked, np_parked_of, np_asleep])
  case F_pend => first | exact h.F_pend | (pick h [F_pend]; inv_grind [np_done, np_cancelled, np_att, np_holds, np_waiting, np_leaving, np_connected, np_relock, np_parked, np_parked_of, np_asleep])
  case F_fifo => first | exact h.F_fifo | (pick h [F_fifo]; inv_grind [np_done, np_cancelled, np_att, np_holds, np_waiting, np_leaving, np_connected, np_relock, np_parked, np_parked_of, np_asleep, cmdSid])
  case F_eng => first | exact h.F_eng | (pick h [F_eng]; inv_grind [np_done, np_cancelled, np_att, np_holds, np_waiting, np_leaving, np_connected, np_relock, np_parked, np_parked_of, np_asleep])
  case F_io => first | exact h.F_io | (pick h [F_io]; inv_grind [np_done, np_cancelled, np_att, np_holds, np_waiting, np_leaving, np_connected, np_relock, np_parked, np_parked_of, np_asleep, ioSid])
  case U_att => first | exact h.U_att | (pick h [U_att]; inv_grind [np_done, np_cancelled, np_att, np_holds, np_waiting, np_leaving, np_connected, np_relock, np_parked, np_parked_of, np_asleep])
  case A_cr => first | exact h.A_cr | (pick h [A_cr]; inv_grind [np_done, np_cancelled, np_att, np_holds, np_waiting, np_leaving, np_connected, np_relock, np_parked, np_parked_of, np_asleep])
  case U_cr => first | exact h.U_cr | (pick h [U_cr]; inv_grind [np_done, np_cancelled, np_att, np_holds, np_waiting, np_leaving, np_connected, np_relock, np_parked, np_parked_of, np_asleep])
  case RC => first | exact h.RC | (pick h [RC]; inv_grind [np_done, np_cancelled, np_att, np_holds, np_waiting, np_leaving, np_connected, np_relock, np_parked, np_parked_of, np_asleep])
  case E2 => first | exact h.E2 | (pick h [E2]; inv_grind [np_done, np_cancelled, np_att, np_holds, np_waiting, np_leaving, np_connected, np_relock, np_parked, np_parked_of, np_asleep])
  case K => first | exact h.K | (pick h [K]; inv_grind [np_done, np_cancelled, np_att, np_holds, np_waiting, np_leaving, np_connected, np_relock, np_parked, np_parked_of, np_asleep])
  case S1 => first | exact h.S1 | (pick h [S1]; inv_grind [np_done, np_cancelled, np_att, np_holds, np_waiting, np_leaving, np_connected, np_relock, np_parked, np_parked_of, np_asleep])
  case REG => first | exact h.REG | (pick h [REG]; inv_grind [np_done, np_cancelled, np_att, np_holds, np_waiting, np_leaving, np_connected, np_relock, np_parked, np_parked_of, np_asleep])
  case ACC => first | exact h.ACC | (pick h [ACC]; inv_grind [np_done, np_cancelled, np_att, np_holds, np_waiting, np_leaving, np_connected, np_relock, np_parked, np_parked_of, np_asleep])
  case P1 => first | exact h.P1 | (pick h [P1]; inv_grind [np_done, np_cancelled, np_att, np_holds, np_waiting, np_leaving, np_connected, np_relock, np_parked, np_parked_of, np_asleep])
  case P2 => first | exact h.P2 | (pick h [P2]; inv_grind [np_done, np_cancelled, np_att, np_holds, np_waiting, np_leaving, np_connected, np_relock, np_parked, np_parked_of, np_asleep])
  case P3 => first | exact h.P3 | (pick h [P3]; inv_grind [np_done, np_cancelled, np_att, np_holds, np_waiting, np_leaving, np_connected, np_relock, np_parked, np_parked_of, np_asleep])
  case P4 => first | exact h.P4 | (pick h [P4]; inv_grind [np_done, np_cancelled, np_att, np_holds, np_waiting, np_leaving, np_connected, np_relock, np_parked, np_parked_of, np_asleep])
  case P5 => first | exact h.P5 | (pick h [P5]; inv_grind [np_done, np_cancelled, np_att, np_holds, np_waiting, np_leaving, np_connected, np_relock, np_parked, np_parked_of, np_asleep])
  case P8 => first | exact h.P8 | (pick h [P8]; inv_grind [np_done, np_cancelled, np_att, np_holds, np_waiting, np_leaving, np_connected, np_relock, np_parked, np_parked_of, np_asleep])
  case D1 => first | exact h.D1 | (pick h [D1]; inv_grind [np_done, np_cancelled, np_att, np_holds, np_waiting, np_leaving, np_connected, np_relock, np_parked, np_parked_of, np_asleep])
  case E3 => first | exact h.E3 | (pick h [E3]; inv_grind [np_done, np_cancelled, np_att, np_holds, np_waiting, np_leaving, np_connected, np_relock, np_parked, np_parked_of, np_asleep])
  case E5 => first | exact h.E5 | (pick h [E5]; inv_grind [np_done, np_cancelled, np_att, np_holds, np_waiting, np_leaving, np_connected, np_relock, np_parked, np_parked_of, np_asleep])
  case H1 => first | exact h.H1 | (pick h [H1]; inv_grind [np_done, np_cancelled, np_att, np_holds, np_waiting, np_leaving, np_connected, np_relock, np_parked, np_parked_of, np_asleep])
  case H2 => first | exact h.H2 | (pick h [H2]; inv_grind [np_done, np_cancelled, np_att, np_holds, np_waiting, np_leaving, np_connected, np_relock, np_parked, np_parked_of, np_asleep])
  case E1 => first | exact h.E1 | (pick h [E1]; inv_grind [np_done, np_cancelled, np_att, np_holds, np_waiting, np_leaving, np_connected, np_relock, np_parked, np_parked_of, np_asleep])
  case E6 => first | exact h.E6 | (pick h [E6]; inv_grind [np_done, np_cancelled, np_att, np_holds, np_waiting, np_leaving, np_connected, np_relock, np_parked, np_parked_of, np_asleep])
  case R1 => first | exact h.R1 | (pick h [R1]; inv_grind [np_done, np_cancelled, np_att, np_holds, np_waiting, np_leaving, np_connected, np_relock, np_parked, np_parked_of, np_asleep])
  case T1 => first | exact h.T1 | (pick h [T1]; inv_grind [np_done, np_cancelled, np_att, np_holds, np_waiting, np_leaving, np_connected, np_relock, np_parked, np_parked_of, np_asleep])
  case FIX => first | exact h.FIX | (pick h [FIX]; inv_grind [np_done, np_cancelled, np_att, np_holds, np_waiting, np_leaving, np_connected, np_relock, np_parked, np_parked_of, np_asleep])
  case T3a => first | exact h.T3a | (pick h [T3a]; inv_grind [np_done, np_cancelled, np_att, np_holds, np_waiting, np_leaving, np_connected, np_relock, np_parked, np_parked_of, np_asleep])
  case T6a => first | exact h.T6a | (pick h [T6a]; inv_grind [np_done, np_cancelled, np_att, np_holds, np_waiting, np_leaving, np_connected, np_relock, np_parked, np_parked_of, np_asleep])
  case T6b => first | exact h.T6b | (pick h [T6b]; inv_grind [np_done, np_cancelled, np_att, np_holds, np_waiting, np_leaving, np_connected, np_relock, np_parked, np_parked_of, np_asleep])
  case G1 => first | exact h.G1 | (pick h [G1]; inv_grind [np_done, np_cancelled, np_att, np_holds, np_waiting, np_leaving, np_connected, np_relock, np_parked, np_parked_of, np_asleep])
  case G2 => first | exact h.G2 | (pick h [G2]; inv_grind [np_done, np_cancelled, np_att, np_holds, np_waiting, np_leaving, np_connected, np_relock, np_parked, np_parked_of, np_asleep])
  case T4 => first | exact h.T4 | (pick h [T4]; inv_grind [np_done, np_cancelled, np_att, np_holds, np_waiting, np_leaving, np_connected, np_relock, np_parked, np_parked_of, np_asleep])
  case Q1 => first | exact h.Q1 | (pick h [Q1]; inv_grind [np_done, np_cancelled, np_att, np_holds, np_waiting, np_leaving, np_connected, np_relock, np_parked, np_parked_of, np_asleep])
  case Q3 => first | exact h.Q3 | (pick h [Q3]; inv_grind [np_done, np_cancelled, np_att, np_holds, np_waiting, np_leaving, np_connected, np_relock, np_parked, np_parked_of, np_asleep])
  case ORD => first | exact h.ORD | (pick h [ORD]; inv_grind [np_done, np_cancelled, np_att, np_holds, np_waiting, np_leaving, np_connected, np_relock, np_parked, np_parked_of, np_asleep])
  case W => first | exact h.W | (pick h [W, P3]; inv_grind [np_done, np_cancelled, np_att, np_holds, np_waiting, np_leaving, np_connected, np_relock, np_parked, np_parked_of, np_asleep])

theorem doFence_inv {s : State} (h : Inv s)  : Inv (doFence s ) := by
  unfold doFence
  split
  · rename_i hl; exact doFence_core h hl
  · exact h


end Iora.ConnectSync
