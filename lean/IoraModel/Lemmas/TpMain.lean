import IoraModel.Lemmas.TpWorkersStep
/-!
# C09 — the controller: `_shutdown` is set only by `shutdown()` / the destructor, a join loop follows, and the
operations `stop` (ok) / `shutdown` / `~ThreadPool` return only after a join loop has completed ("quiesced")
-/
namespace Iora.ThreadPool

def inShut (pc : MPc) : Bool := seqPc pc || qPc pc

/-- the codes of `mlog` that mean: `stop()` returned ok (4), `shutdown()` returned (7), the destructor returned (8, 9) -/
def isReturnCode (c : Nat) : Prop := c = 4 ∨ c = 7 ∨ c = 8 ∨ c = 9

structure MainOk (sh : Shared) (pc : MPc) : Prop where
  shut : inShut pc = true → sh.shutdown = true
  q : qPc pc = true → sh.quiesced = true
  seq : sh.shutdown = true → sh.quiesced = true ∨ seqPc pc = true
  log : ∀ c, c ∈ sh.mlog → isReturnCode c → sh.quiesced = true
  ctor : ctorPc pc = true → sh.quiesced = false
  qs : sh.quiesced = true → sh.shutdown = true

/-- the step does not touch the flags and the log -/
structure FlagsSame (sh sh' : Shared) : Prop where
  shutdown : sh'.shutdown = sh.shutdown
  quiesced : sh'.quiesced = sh.quiesced
  mlog : sh'.mlog = sh.mlog

theorem callStep_flags (cfg : Cfg) (sh : Shared) (n t : Nat) (c : CallSt) : FlagsSame sh (callStep cfg sh n t c).1 := by
  cases c with
  | yield_ sc =>
    cases sc with
    | nil => exact ⟨rfl, rfl, rfl⟩
    | cons a rest => simp only [callStep]; split <;> exact ⟨rfl, rfl, rfl⟩
  | inCall rest cid e =>
    cases e <;> simp only [callStep] <;> (repeat' split) <;> exact ⟨rfl, rfl, rfl⟩

theorem bodyEnd_flags (cfg : Cfg) (sh : Shared) (id : Nat) : FlagsSame sh (bodyEnd cfg sh id).1 := by
  unfold bodyEnd; split <;> exact ⟨rfl, rfl, rfl⟩

theorem afterWait_flags (cfg : Cfg) (sh : Shared) (t : Tid) (res : Bool) : FlagsSame sh (afterWait cfg sh t res).1 := by
  unfold afterWait; (repeat' split) <;> exact ⟨rfl, rfl, rfl⟩

theorem reacq_flags (cfg : Cfg) (sh : Shared) (t : Tid) (late : Bool) : FlagsSame sh (reacq cfg sh t late).1 := by
  unfold reacq
  split
  · have := afterWait_flags cfg { sh with owner := some t, waiting := sh.waiting - 1 } t (waitPred sh)
    exact ⟨this.shutdown, this.quiesced, this.mlog⟩
  · split
    · have := afterWait_flags cfg { sh with owner := some t, waiting := sh.waiting - 1 } t true
      exact ⟨this.shutdown, this.quiesced, this.mlog⟩
    · exact ⟨rfl, rfl, rfl⟩

theorem FlagsSame.trans {a b c : Shared} (h1 : FlagsSame a b) (h2 : FlagsSame b c) : FlagsSame a c :=
  ⟨h2.shutdown.trans h1.shutdown, h2.quiesced.trans h1.quiesced, h2.mlog.trans h1.mlog⟩

theorem transW_flags (cfg : Cfg) (sh : Shared) (n t : Nat) (w : WSt) : FlagsSame sh (transW cfg sh n t w).1 := by
  cases w with
  | body id c =>
    simp only [transW]
    have h := callStep_flags cfg sh n t c
    cases hx : (callStep cfg sh n t c).2.1 with
    | more c' => exact h
    | done => exact h.trans (bodyEnd_flags cfg _ id)
  | lock =>
    simp only [transW]; split
    · have := afterWait_flags cfg { sh with owner := some t } t true
      exact ⟨this.shutdown, this.quiesced, this.mlog⟩
    · exact ⟨rfl, rfl, rfl⟩
  | unlockTask id => simp only [transW, beginTask]; split <;> exact ⟨rfl, rfl, rfl⟩
  | bYield id sc =>
    simp only [transW]; split
    · exact bodyEnd_flags cfg sh id
    · exact ⟨rfl, rfl, rfl⟩
  | _ => simp only [transW, beginTask, taskDone] <;> exact ⟨rfl, rfl, rfl⟩

theorem transS_flags (cfg : Cfg) (sh : Shared) (n t : Nat) (x : SSt) : FlagsSame sh (transS cfg sh n t x).1 := by
  cases x with
  | run c =>
    simp only [transS]
    have h := callStep_flags cfg sh n t c
    cases hx : (callStep cfg sh n t c).2.1 <;> exact h
  | start sc => simp only [transS]; split <;> exact ⟨rfl, rfl, rfl⟩
  | done => exact ⟨rfl, rfl, rfl⟩

theorem mainOk_of_flags {sh sh' : Shared} {pc : MPc} (h : MainOk sh pc) (hf : FlagsSame sh sh') : MainOk sh' pc :=
  ⟨by rw [hf.shutdown]; exact h.shut, by rw [hf.quiesced]; exact h.q, by rw [hf.shutdown, hf.quiesced]; exact h.seq,
   by rw [hf.mlog, hf.quiesced]; exact h.log, by rw [hf.quiesced]; exact h.ctor, by rw [hf.shutdown, hf.quiesced]; exact h.qs⟩

/-- a controller step that goes to a pc outside the shutdown sequence without touching flags or log -/
theorem mainOk_plain {sh sh' : Shared} {pc pc' : MPc} (h : MainOk sh pc) (hf : FlagsSame sh sh')
    (hs : seqPc pc = false) (h1 : inShut pc' = false) (h2 : qPc pc' = false) (h3 : ctorPc pc' = false) : MainOk sh' pc' := by
  refine ⟨(by rw [h1]; intro e; cases e), (by rw [h2]; intro e; cases e), ?_, by rw [hf.mlog, hf.quiesced]; exact h.log,
    (by rw [h3]; intro e; cases e), by rw [hf.shutdown, hf.quiesced]; exact h.qs⟩
  rw [hf.shutdown, hf.quiesced]
  intro e
  rcases h.seq e with r | r
  · exact Or.inl r
  · rw [hs] at r; cases r

/-- a controller step inside the shutdown sequence -/
theorem mainOk_seq {sh sh' : Shared} {pc pc' : MPc} (h : MainOk sh pc) (hf : FlagsSame sh sh')
    (hs : inShut pc = true) (h1 : seqPc pc' = true) (h3 : ctorPc pc' = false) (h2 : qPc pc' = false) : MainOk sh' pc' := by
  refine ⟨by rw [hf.shutdown]; intro _; exact h.shut hs, (by rw [h2]; intro e; cases e), by intro _; exact Or.inr h1,
    by rw [hf.mlog, hf.quiesced]; exact h.log, (by rw [h3]; intro e; cases e), by rw [hf.shutdown, hf.quiesced]; exact h.qs⟩

theorem mem_cons_code {c a : Nat} {l : List Nat} (h : c ∈ a :: l) : c = a ∨ c ∈ l := by
  simpa using h

/-- `shutdown()` returns from a pc at which a join loop is known to have completed -/
theorem mainOk_shutdownReturn {sh : Shared} {pc : MPc} (r : MRegs) (h : MainOk sh pc) (hq : sh.quiesced = true) (hs : seqPc pc = false) :
    MainOk (shutdownReturn sh r).1 (shutdownReturn sh r).2.1 := by
  unfold shutdownReturn
  split
  · refine ⟨by intro e; simp [inShut, seqPc, qPc] at e, by intro e; simp [qPc] at e, ?_, ?_, by intro e; simp [ctorPc] at e, h.qs⟩
    · intro _; exact Or.inl hq
    · intro c hc _; exact hq
  · refine ⟨by intro e; simp [inShut, seqPc, qPc] at e, by intro e; simp [qPc] at e, ?_, ?_, by intro e; simp [ctorPc] at e, h.qs⟩
    · intro _; exact Or.inl hq
    · intro c hc _; exact hq

theorem mainOk_dtorReturn {sh : Shared} {pc : MPc} (r : MRegs) (h : MainOk sh pc) (hq : sh.quiesced = true) :
    MainOk (dtorReturn sh r).1 (dtorReturn sh r).2.1 := by
  unfold dtorReturn
  refine ⟨by intro e; simp [inShut, seqPc, qPc] at e, by intro e; simp [qPc] at e, ?_, ?_, by intro e; simp [ctorPc] at e, h.qs⟩
  · intro _; exact Or.inl hq
  · intro c hc _; exact hq

theorem mainOk_drainReturn {sh : Shared} {pc : MPc} (r : MRegs) (b : Bool) (h : MainOk sh pc) (hs : seqPc pc = false) :
    MainOk (drainReturn sh r b).1 (drainReturn sh r b).2.1 := by
  have hlog : ∀ (c x : Nat) (l : List Nat), ¬ isReturnCode x → (∀ c, c ∈ l → isReturnCode c → sh.quiesced = true) →
      c ∈ x :: l → isReturnCode c → sh.quiesced = true := by
    intro c x l hx hl hc hr
    rcases mem_cons_code hc with e | e
    · rw [e] at hr; exact absurd hr hx
    · exact hl c e hr
  have hseq : sh.shutdown = true → sh.quiesced = true ∨ False := by
    intro e; rcases h.seq e with r | r
    · exact Or.inl r
    · rw [hs] at r; cases r
  unfold drainReturn
  split
  · split
    · refine ⟨by intro e; simp [inShut, seqPc, qPc] at e, by intro e; simp [qPc] at e, ?_, ?_, by intro e; simp [ctorPc] at e, h.qs⟩
      · intro e; rcases hseq e with r | r
        · exact Or.inl r
        · cases r
      · intro c hc hr; exact hlog c 1 sh.mlog (by simp [isReturnCode]) h.log hc hr
    · refine ⟨by intro e; simp [inShut, seqPc, qPc] at e, by intro e; simp [qPc] at e, ?_, ?_, by intro e; simp [ctorPc] at e, h.qs⟩
      · intro e; rcases hseq e with r | r
        · exact Or.inl r
        · cases r
      · intro c hc hr
        rcases mem_cons_code hc with e | e
        · rw [e] at hr; simp [isReturnCode] at hr
        · exact hlog c 2 sh.mlog (by simp [isReturnCode]) h.log e hr
  · refine ⟨by intro e; simp [inShut, seqPc, qPc] at e, by intro e; simp [qPc] at e, ?_, ?_, by intro e; simp [ctorPc] at e, h.qs⟩
    · intro e; rcases hseq e with r | r
      · exact Or.inl r
      · cases r
    · intro c hc hr
      cases b
      · exact hlog c 2 sh.mlog (by simp [isReturnCode]) h.log hc hr
      · exact hlog c 1 sh.mlog (by simp [isReturnCode]) h.log hc hr

theorem mainOk_pollExit {sh : Shared} {pc : MPc} (r : MRegs) (k : Poll) (d : Bool) (h : MainOk sh pc)
    (hk : (k = .drain ∧ seqPc pc = false) ∨ (k ≠ .drain ∧ inShut pc = true)) :
    MainOk (pollExit sh r k d).1 (pollExit sh r k d).2.1 := by
  unfold pollExit
  cases k with
  | drain =>
    have hs : seqPc pc = false := by rcases hk with ⟨_, e⟩ | ⟨e, _⟩; exact e; exact absurd rfl e
    simp only []
    split
    · exact mainOk_drainReturn r true h hs
    · exact mainOk_plain h ⟨rfl, rfl, rfl⟩ hs (by simp [inShut, seqPc, qPc]) (by simp [qPc]) (by simp [ctorPc])
  | shut =>
    have hs : inShut pc = true := by rcases hk with ⟨e, _⟩ | ⟨_, e⟩; cases e; exact e
    exact mainOk_seq h ⟨rfl, rfl, rfl⟩ hs (by simp [seqPc]) (by simp [ctorPc]) (by simp [qPc])
  | race =>
    have hs : inShut pc = true := by rcases hk with ⟨e, _⟩ | ⟨_, e⟩; cases e; exact e
    exact mainOk_seq h ⟨rfl, rfl, rfl⟩ hs (by simp [seqPc]) (by simp [ctorPc]) (by simp [qPc])
  | dtor =>
    have hs : inShut pc = true := by rcases hk with ⟨e, _⟩ | ⟨_, e⟩; cases e; exact e
    simp only []
    split
    · exact mainOk_seq h ⟨rfl, rfl, rfl⟩ hs (by simp [seqPc]) (by simp [ctorPc]) (by simp [qPc])
    · exact mainOk_seq h ⟨rfl, rfl, rfl⟩ hs (by simp [seqPc]) (by simp [ctorPc]) (by simp [qPc])

theorem mainOk_pollHead {sh : Shared} {pc : MPc} (r : MRegs) (k : Poll) (h : MainOk sh pc)
    (hk : (k = .drain ∧ seqPc pc = false) ∨ (k ≠ .drain ∧ inShut pc = true)) :
    MainOk (pollHead sh r k).1 (pollHead sh r k).2.1 := by
  unfold pollHead
  split
  · rcases hk with ⟨e, hs⟩ | ⟨e, hs⟩
    · rw [e]; exact mainOk_plain h ⟨rfl, rfl, rfl⟩ hs (by simp [inShut, seqPc, qPc]) (by simp [qPc]) (by simp [ctorPc])
    · refine mainOk_seq h ⟨rfl, rfl, rfl⟩ hs ?_ (by simp [ctorPc]) (by simp [qPc])
      cases k <;> simp [seqPc] at e ⊢
  · exact mainOk_pollExit r k false h hk

theorem mainOk_stepMYield {sh : Shared} (r : MRegs) (h : MainOk sh .mYield) :
    MainOk (stepMYield sh r).1 (stepMYield sh r).2.1 := by
  have hlog : ∀ (c x : Nat), ¬ isReturnCode x → c ∈ x :: sh.mlog → isReturnCode c → sh.quiesced = true := by
    intro c x hx hc hr
    rcases mem_cons_code hc with e | e
    · rw [e] at hr; exact absurd hr hx
    · exact h.log c e hr
  have hseq : sh.shutdown = true → sh.quiesced = true := by
    intro e; rcases h.seq e with r | r
    · exact r
    · simp [seqPc] at r
  have plain : ∀ (pc' : MPc) (sh' : Shared), sh'.shutdown = sh.shutdown → sh'.quiesced = sh.quiesced →
      (∀ c, c ∈ sh'.mlog → isReturnCode c → sh.quiesced = true) →
      inShut pc' = false → qPc pc' = false → ctorPc pc' = false → MainOk sh' pc' := by
    intro pc' sh' e1 e2 hl h1 h2 h3
    refine ⟨(by rw [h1]; intro e; cases e), (by rw [h2]; intro e; cases e), ?_, by rw [e2]; exact hl,
      (by rw [h3]; intro e; cases e), by rw [e1, e2]; exact h.qs⟩
    rw [e1, e2]; intro e; exact Or.inl (hseq e)
  unfold stepMYield drainEnter
  (repeat' split) <;> first
    | exact plain _ _ rfl rfl h.log (by simp [inShut, seqPc, qPc]) (by simp [qPc]) (by simp [ctorPc])
    | exact plain _ _ rfl rfl (fun c hc hr => hlog c 3 (by simp [isReturnCode]) hc hr) (by simp [inShut, seqPc, qPc]) (by simp [qPc]) (by simp [ctorPc])
    | exact plain _ _ rfl rfl (fun c hc hr => hlog c 6 (by simp [isReturnCode]) hc hr) (by simp [inShut, seqPc, qPc]) (by simp [qPc]) (by simp [ctorPc])

/-- a controller step that does not touch flags or log and moves within / out of the classes of pcs monotonically -/
theorem mainOk_move {sh sh' : Shared} {pc pc' : MPc} (h : MainOk sh pc) (hf : FlagsSame sh sh')
    (h1 : inShut pc' = true → inShut pc = true) (h2 : qPc pc' = true → qPc pc = true)
    (h3 : seqPc pc = true → seqPc pc' = true) (h4 : ctorPc pc' = true → ctorPc pc = true) : MainOk sh' pc' := by
  refine ⟨?_, ?_, ?_, ?_, ?_, ?_⟩
  · rw [hf.shutdown]; intro e; exact h.shut (h1 e)
  · rw [hf.quiesced]; intro e; exact h.q (h2 e)
  · rw [hf.shutdown, hf.quiesced]; intro e
    rcases h.seq e with r | r
    · exact Or.inl r
    · exact Or.inr (h3 r)
  · rw [hf.mlog, hf.quiesced]; exact h.log
  · rw [hf.quiesced]; intro e; exact h.ctor (h4 e)
  · rw [hf.shutdown, hf.quiesced]; exact h.qs

theorem transM_mainOk (cfg : Cfg) (sh : Shared) (n t : Nat) (pc : MPc) (r : MRegs) (alt : Nat) (h : MainOk sh pc) :
    MainOk (transM cfg sh n t pc r alt).1 (transM cfg sh n t pc r alt).2.1.1 := by
  have own : ∀ (o : Option Tid), FlagsSame sh { sh with owner := o } := fun _ => ⟨rfl, rfl, rfl⟩
  cases pc with
  | inCall c =>
    simp only [transM]
    have hf := callStep_flags cfg sh n t c
    cases hx : (callStep cfg sh n t c).2.1 <;>
      exact mainOk_move h hf (by simp [inShut, seqPc, qPc]) (by simp [qPc]) (by simp [seqPc]) (by simp [ctorPc])
  | mYield => simp only [transM]; exact mainOk_stepMYield r h
  | dInfU =>
    simp only [transM]
    exact mainOk_pollHead _ .drain (mainOk_of_flags h (own none)) (Or.inl ⟨rfl, by simp [seqPc]⟩)
  | pollU k =>
    simp only [transM]
    split
    · refine mainOk_pollExit r k true (mainOk_of_flags h (own none)) ?_
      cases k
      · exact Or.inl ⟨rfl, by simp [seqPc]⟩
      all_goals exact Or.inr ⟨by simp, by simp [inShut, seqPc]⟩
    · exact mainOk_move h (own none) (by simp [inShut, seqPc, qPc]) (by simp [qPc]) (by simp [seqPc]) (by simp [ctorPc])
  | pollZ k =>
    simp only [transM]
    refine mainOk_pollHead _ k h ?_
    cases k
    · exact Or.inl ⟨rfl, by simp [seqPc]⟩
    all_goals exact Or.inr ⟨by simp, by simp [inShut, seqPc]⟩
  | finU k =>
    cases k <;> simp only [transM]
    · exact mainOk_drainReturn r false (mainOk_of_flags h (own none)) (by simp [seqPc])
    all_goals exact mainOk_move h (own none) (by simp [inShut, seqPc, qPc]) (by simp [qPc]) (by simp [seqPc]) (by simp [ctorPc])
  | sFlagL =>
    simp only [transM]
    split
    · next hs =>
      have hq : sh.quiesced = true := by
        rcases h.seq hs with r | r
        · exact r
        · simp [seqPc] at r
      exact ⟨fun _ => hs, fun _ => hq, fun _ => Or.inl hq, h.log, by simp [ctorPc], h.qs⟩
    · exact ⟨fun _ => rfl, by simp [qPc], fun _ => Or.inr (by simp [seqPc]), h.log, by simp [ctorPc], fun _ => rfl⟩
  | sFlagUA =>
    simp only [transM]
    have hq := h.q (by simp [qPc])
    split
    · exact mainOk_dtorReturn r (mainOk_of_flags h (own none)) hq
    · exact mainOk_shutdownReturn r (mainOk_of_flags h (own none)) hq (by simp [seqPc])
  | sBcast =>
    simp only [transM]
    split
    · exact mainOk_move h ⟨rfl, rfl, rfl⟩ (by simp [inShut, seqPc, qPc]) (by simp [qPc]) (by simp [seqPc]) (by simp [ctorPc])
    · exact mainOk_pollHead _ .shut h (Or.inr ⟨by simp, by simp [inShut, seqPc]⟩)
  | sChkU =>
    simp only [transM]
    split
    · exact mainOk_pollHead _ .race (mainOk_of_flags h (own none)) (Or.inr ⟨by simp, by simp [inShut, seqPc]⟩)
    · exact mainOk_move h (own none) (by simp [inShut, seqPc, qPc]) (by simp [qPc]) (by simp [seqPc]) (by simp [ctorPc])
  | jL =>
    simp only [transM]
    have hs := h.shut (by simp [inShut, seqPc])
    split
    · exact ⟨fun _ => hs, fun _ => rfl, fun _ => Or.inl rfl, fun _ _ _ => rfl, by simp [ctorPc], fun _ => hs⟩
    · split
      · exact mainOk_move h ⟨rfl, rfl, rfl⟩ (by simp [inShut, seqPc, qPc]) (by simp [qPc]) (by simp [seqPc]) (by simp [ctorPc])
      · exact h
  | jUnone =>
    simp only [transM]
    have hq := h.q (by simp [qPc])
    split
    · exact mainOk_move h (own none) (by simp [inShut, seqPc, qPc]) (by simp [qPc]) (by simp [seqPc]) (by simp [ctorPc])
    · exact mainOk_shutdownReturn r (mainOk_of_flags h (own none)) hq (by simp [seqPc])
  | p2Z =>
    simp only [transM]
    split
    · exact mainOk_move h ⟨rfl, rfl, rfl⟩ (by simp [inShut, seqPc, qPc]) (by simp [qPc]) (by simp [seqPc]) (by simp [ctorPc])
    · split
      · exact mainOk_move h ⟨rfl, rfl, rfl⟩ (by simp [inShut, seqPc, qPc]) (by simp [qPc]) (by simp [seqPc]) (by simp [ctorPc])
      · exact mainOk_pollHead _ .dtor h (Or.inr ⟨by simp, by simp [inShut, seqPc]⟩)
  | p2Grace =>
    simp only [transM]
    exact mainOk_pollHead _ .dtor h (Or.inr ⟨by simp, by simp [inShut, seqPc]⟩)
  | p5U =>
    simp only [transM]
    exact mainOk_dtorReturn r (mainOk_of_flags h (own none)) (h.q (by simp [qPc]))
  | pollL k =>
    simp only [transM]
    exact mainOk_move h (own (some t)) (by cases k <;> simp [inShut, seqPc, qPc]) (by simp [qPc]) (by cases k <;> simp [seqPc]) (by simp [ctorPc])
  | finL k =>
    simp only [transM]
    exact mainOk_move h (own (some t)) (by cases k <;> simp [inShut, seqPc, qPc]) (by simp [qPc]) (by cases k <;> simp [seqPc]) (by simp [ctorPc])
  | _ =>
    simp only [transM] <;> (repeat' split) <;>
    exact mainOk_move h ⟨rfl, rfl, rfl⟩ (by simp [inShut, seqPc, qPc]) (by simp [qPc]) (by simp [seqPc]) (by simp [ctorPc])

end Iora.ThreadPool
