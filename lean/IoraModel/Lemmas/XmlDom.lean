import IoraModel.Lemmas.Xml
import IoraModel.Lemmas.XmlEntities
set_option linter.unusedSimpArgs false
set_option linter.unusedVariables false
/-! Helper lemmas about `DomBuilder::build` (the fold over the pull tokens) and the SAX runner. -/
namespace Iora.Xml
open Iora

/-! ### document-order events -/

/-- what a DOM says in document order -/
inductive Ev where
  | open_ (name : Bytes) (attrs : List (Bytes × Bytes))
  | close
  | text (v : Bytes)
  | cdata (v : Bytes)
  | comment (v : Bytes)
  | pi (name : Bytes) (v : Bytes)
  deriving DecidableEq, Repr

mutual
  /-- pre-order walk of a node: an element is `open`, its children, `close` -/
  def Node.flatten : Node → List Ev
    | .elem n as ch => .open_ n as :: (flattenList ch ++ [.close])
    | .text v => [.text v]
    | .cdata v => [.cdata v]
    | .comment v => [.comment v]
    | .pi n v => [.pi n v]
  def flattenList : List Node → List Ev
    | [] => []
    | n :: r => n.flatten ++ flattenList r
end

theorem flattenList_append : ∀ (a b : List Node), flattenList (a ++ b) = flattenList a ++ flattenList b := by
  intro a
  induction a with
  | nil => intro b; simp [flattenList]
  | cons n r ih => intro b; simp [flattenList, ih]

/-- the same events read off one pull token (names copied, attribute values and text decoded); `none` when a value does not decode -/
def tokEvs (bs : Bytes) (t : Token) : Option (List Ev) :=
  match t.kind with
  | .startElement =>
    match decodeAttrs bs t.attrs with
    | .ok as => some [.open_ (t.name.bytes bs) as]
    | .error _ => none
  | .emptyElement =>
    match decodeAttrs bs t.attrs with
    | .ok as => some [.open_ (t.name.bytes bs) as, .close]
    | .error _ => none
  | .endElement => some [.close]
  | .text =>
    match decodeEntities (t.text.bytes bs) with
    | .ok v => some (if v.isEmpty then [] else [.text v])
    | _ => none
  | .cdata => some [.cdata (t.text.bytes bs)]
  | .comment => some [.comment (t.text.bytes bs)]
  | .pi => some [.pi (t.name.bytes bs) (t.text.bytes bs)]
  | _ => some []

def evsOf (bs : Bytes) : List Token → Option (List Ev)
  | [] => some []
  | t :: ts =>
    match tokEvs bs t, evsOf bs ts with
    | some a, some b => some (a ++ b)
    | _, _ => none

/-- events of the open frames (outermost first) -/
def flatOpen : List Frame → List Ev
  | [] => []
  | f :: fs => flatOpen fs ++ (.open_ f.name f.attrs :: flattenList f.kids)

/-- everything the builder has attached so far, in document order -/
def DomSt.flat (d : DomSt) : List Ev := flattenList d.top ++ flatOpen d.open_

theorem addChild_flat (d : DomSt) (n : Node) : (d.addChild n).flat = d.flat ++ n.flatten := by
  unfold DomSt.addChild DomSt.flat
  cases h : d.open_ with
  | nil => simp [flattenList_append, flatOpen, flattenList]
  | cons f fs => simp [flatOpen, flattenList_append, flattenList]

theorem addChild_open (d : DomSt) (n : Node) : (d.addChild n).open_.length = d.open_.length := by
  unfold DomSt.addChild
  cases h : d.open_ <;> simp [h]

/-- one builder step appends exactly the token's events -/
theorem domStep_flat (bs : Bytes) (d d' : DomSt) (t : Token) (h : domStep bs d t = .inl d') :
    ∃ es, tokEvs bs t = some es ∧ d'.flat = d.flat ++ es := by
  unfold domStep at h
  unfold tokEvs
  split at h
  · rename_i hk
    simp only [hk]
    split at h
    · rename_i as has
      cases h
      simp only [has]
      exact ⟨_, rfl, by simp [DomSt.flat, flatOpen, flattenList]⟩
    · cases h
  · rename_i hk
    simp only [hk]
    split at h
    · rename_i as has
      cases h
      simp only [has]
      exact ⟨_, rfl, by rw [addChild_flat]; simp [Node.flatten, flattenList]⟩
    · cases h
  · rename_i hk
    simp only [hk]
    split at h
    · cases h
    · rename_i f fs hopen
      cases h
      refine ⟨_, rfl, ?_⟩
      rw [addChild_flat]
      simp [DomSt.flat, hopen, flatOpen, Node.flatten]
  · rename_i hk
    simp only [hk]
    split at h
    · rename_i v hv
      simp only [hv]
      split at h
      · rename_i hemp
        cases h
        exact ⟨_, rfl, by simp [hemp]⟩
      · rename_i hemp
        cases h
        exact ⟨_, rfl, by rw [addChild_flat]; simp [hemp, Node.flatten]⟩
    · cases h
    · cases h
  · rename_i hk; simp only [hk]; cases h
    exact ⟨_, rfl, by rw [addChild_flat]; simp [Node.flatten]⟩
  · rename_i hk; simp only [hk]; cases h
    exact ⟨_, rfl, by rw [addChild_flat]; simp [Node.flatten]⟩
  · rename_i hk; simp only [hk]; cases h
    exact ⟨_, rfl, by rw [addChild_flat]; simp [Node.flatten]⟩
  · rename_i hk1 hk2 hk3 hk4 hk5 hk6 hk7
    cases h
    cases hk : t.kind <;> simp_all

theorem domFold_flat (bs : Bytes) : ∀ (ts : List Token) (d d' : DomSt), domFold bs d ts = .inl d' →
    ∃ es, evsOf bs ts = some es ∧ d'.flat = d.flat ++ es := by
  intro ts
  induction ts with
  | nil => intro d d' h; simp only [domFold, Sum.inl.injEq] at h; subst h; exact ⟨[], rfl, by simp⟩
  | cons t ts ih =>
    intro d d' h
    simp only [domFold] at h
    split at h
    · rename_i d1 h1
      obtain ⟨e1, he1, hf1⟩ := domStep_flat bs d d1 t h1
      obtain ⟨e2, he2, hf2⟩ := ih d1 d' h
      refine ⟨e1 ++ e2, ?_, ?_⟩
      · simp only [evsOf, he1, he2]
      · rw [hf2, hf1, List.append_assoc]
    · cases h

/-! ### the builder never sees an unbalanced token list -/

theorem decodeLoop_err_kind : ∀ (fuel : Nat) (r : Bytes) (i : Nat) (acc : Bytes) (e : ErrKind) (off : Nat),
    decodeLoop fuel r i acc = .err e off → e = .unterminatedEntity ∨ e = .badCharRef ∨ e = .unknownEntity := by
  intro fuel
  induction fuel with
  | zero => intro r i acc e off h; simp [decodeLoop] at h
  | succ fuel ih =>
    intro r i acc e off h
    cases r with
    | nil => simp [decodeLoop] at h
    | cons ch t =>
      simp only [decodeLoop] at h
      split at h
      · exact ih _ _ _ _ _ h
      · split at h
        · cases h; exact Or.inl rfl
        · split at h
          · exact ih _ _ _ _ _ h
          · split at h
            · split at h
              · exact ih _ _ _ _ _ h
              · cases h; exact Or.inr (Or.inl rfl)
            · cases h; exact Or.inr (Or.inr rfl)

/-- the three ways a value can fail to decode -/
def ErrKind.isDecode : ErrKind → Bool
  | .unterminatedEntity | .badCharRef | .unknownEntity => true
  | _ => false

theorem decodeEntities_err_kind (inp : Bytes) (e : ErrKind) (off : Nat) (h : decodeEntities inp = .err e off) :
    e.isDecode = true := by
  rcases decodeLoop_err_kind _ _ _ _ _ _ h with h | h | h <;> subst h <;> rfl

theorem decodeAttrs_err_kind (bs : Bytes) : ∀ (as : List Attr) (e : ErrKind) (off : Nat),
    decodeAttrs bs as = .error (e, off) → e.isDecode = true := by
  intro as
  induction as with
  | nil => intro e off h; simp [decodeAttrs] at h
  | cons a r ih =>
    intro e off h
    simp only [decodeAttrs] at h
    split at h
    · split at h
      · cases h
      · rename_i e' he'
        cases h
        exact ih _ _ he'
    · rename_i e' off' hd
      cases h
      exact decodeEntities_err_kind _ _ _ hd
    · cases h; rfl

/-- one token of the stack discipline `sm` -/
def smStep (bs : Bytes) (st : List Bytes) (t : Token) : Option (List Bytes) :=
  match t.kind with
  | .startElement => some (t.name.bytes bs :: st)
  | .endElement =>
    match st with
    | top :: below => if top = t.name.bytes bs then some below else none
    | [] => none
  | _ => some st

theorem sm_cons (bs : Bytes) (st : List Bytes) (t : Token) (ts : List Token) :
    sm bs st (t :: ts) = (smStep bs st t).bind fun st' => sm bs st' ts := by
  simp only [sm, smStep]
  cases hk : t.kind <;> simp only [Option.bind]
  cases st with
  | nil => rfl
  | cons top below => simp only; split <;> rfl

theorem domStep_balanced (bs : Bytes) (d : DomSt) (t : Token) (st st' : List Bytes)
    (hstep : smStep bs st t = some st') (hd : d.open_.length = st.length) :
    match domStep bs d t with
    | .inl d' => d'.open_.length = st'.length
    | .inr (.null e _ _ _) => e.isDecode = true
    | .inr _ => False := by
  unfold domStep
  unfold smStep at hstep
  cases hk : t.kind <;> simp only [hk] at hstep ⊢
  case startElement =>
    cases hstep
    cases hda : decodeAttrs bs t.attrs with
    | ok as => simp [hd]
    | error e => obtain ⟨e, off⟩ := e; simp only; exact decodeAttrs_err_kind bs _ _ _ hda
  case emptyElement =>
    cases hstep
    cases hda : decodeAttrs bs t.attrs with
    | ok as => simp only; rw [addChild_open]; exact hd
    | error e => obtain ⟨e, off⟩ := e; simp only; exact decodeAttrs_err_kind bs _ _ _ hda
  case endElement =>
    cases hopen : d.open_ with
    | nil =>
      rw [hopen] at hd
      cases st with
      | nil => simp at hstep
      | cons _ _ => simp at hd
    | cons f fs =>
      cases st with
      | nil => simp at hstep
      | cons top below =>
        simp only at hstep
        split at hstep
        · cases hstep
          simp only
          rw [addChild_open]
          rw [hopen] at hd
          simpa using hd
        · cases hstep
  case text =>
    cases hstep
    cases hde : decodeEntities (t.text.bytes bs) with
    | ok v =>
      simp only
      by_cases hv : v.isEmpty = true
      · simp only [hv, if_true]; exact hd
      · simp only [hv, Bool.false_eq_true, if_false]; rw [addChild_open]; exact hd
    | err e off => simp only; exact decodeEntities_err_kind _ _ _ hde
    | fuel => exact (decodeEntities_ne_fuel _ hde).elim
  all_goals (cases hstep; first | exact hd | (rw [addChild_open]; exact hd))

/-- result of the fold on a token list whose tags obey the stack discipline from `st`, started with as many open frames as `st`
has names: either it stops early because a value does not decode, or it ends with exactly the frames `sm` leaves open -/
theorem domFold_balanced (bs : Bytes) : ∀ (ts : List Token) (st fin : List Bytes) (d : DomSt),
    sm bs st ts = some fin → d.open_.length = st.length →
    match domFold bs d ts with
    | .inl d' => d'.open_.length = fin.length
    | .inr (.null e _ _ _) => e.isDecode = true
    | .inr _ => False := by
  intro ts
  induction ts with
  | nil =>
    intro st fin d h hd
    simp only [sm, Option.some.injEq] at h
    subst h
    simpa [domFold] using hd
  | cons t ts ih =>
    intro st fin d h hd
    rw [sm_cons] at h
    cases hs : smStep bs st t with
    | none => rw [hs] at h; simp [Option.bind] at h
    | some st' =>
      rw [hs] at h
      simp only [Option.bind] at h
      have := domStep_balanced bs d t st st' hs hd
      simp only [domFold]
      cases hds : domStep bs d t with
      | inl d' =>
        rw [hds] at this
        simp only at this ⊢
        exact ih _ _ _ h this
      | inr r =>
        rw [hds] at this
        cases r with
        | doc _ => exact this.elim
        | null e _ _ _ => exact this
        | bad _ => exact this.elim

/-- the tags of every token list the tokenizer produces — accepted or not — obey the stack discipline -/
theorem tokens_sm (o : Options) (bs : Bytes) : ∃ fin, sm bs [] (tokensC o bs).1 = some fin := by
  have hok := tokens_ok o bs
  have hst := hok.stack
  cases hout : (tokensC o bs).2 with
  | accepted t s => rw [hout] at hst; exact ⟨[], hst⟩
  | error e c s => rw [hout] at hst; exact ⟨s.stack, hst⟩
  | bad b => exact (hok.notBad b hout).elim

end Iora.Xml
