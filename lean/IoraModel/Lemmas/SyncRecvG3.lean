import IoraModel.Lemmas.SyncRecvG
/-! T5 at full strength, tombstone GC included (FC03d, repaired: the GC gate keeps an overflowed tombstone until a receive has answered
`BufferOverflow` for it): a dropped chunk is never forgotten — outside teardown, either a receive HAS answered `BufferOverflow`, or the
overflowed buffer is still in the map (and the next drained receive answers `BufferOverflow`, `recv_overflow`). -/
namespace Iora.SyncRecv
open Iora
set_option linter.unusedSimpArgs false
set_option linter.unusedVariables false

def ovfBuf (x : Sess) : Bool := match x.buf with | some b => b.overflow | none => false
def repBuf (x : Sess) : Bool := match x.buf with | some b => b.reported | none => false

/-- (1) a gap is remembered: teardown, or already reported, or the overflowed buffer still exists; (2) `reported` is only ever set by
a receive that answered `BufferOverflow` -/
def G3S (sh : Bool) (x : Sess) : Prop :=
  (x.gap = true → sh = true ∨ x.ovfSeen = true ∨ ovfBuf x = true) ∧ (repBuf x = true → x.ovfSeen = true)

def Inv3 (s : State) : Prop := ∀ j, G3S s.shuttingDown (s.sess j)

theorem Inv3_init : Inv3 init := by
  intro j; simp [G3S, init, ovfBuf, repBuf]

theorem wake_g3 {sh : Bool} {x : Sess} (r : Bool) (h : G3S sh x) : G3S sh (wake x r) := by
  unfold wake; split <;> simpa [G3S, ovfBuf, repBuf] using h

theorem drain_g3 {sh : Bool} {x : Sess} {b : Buf} (len : Nat) (h : G3S sh x) (hb : x.buf = some b) :
    G3S sh (drain x b len).1 := by
  unfold drain G3S ovfBuf repBuf at *
  split
  · simp_all
  · split
    · simp_all
    · split <;> simp_all

theorem recvEnterS_g3 {sh : Bool} {x : Sess} (len : Nat) (h : G3S sh x) : G3S sh (recvEnterS sh x len).1 := by
  unfold recvEnterS
  split
  · exact h
  · cases hb : x.buf with
    | none =>
      have h' : G3S sh { x with buf := some ({} : Buf) } := by
        unfold G3S ovfBuf repBuf at *; simp_all
      simp only []
      split
      · exact h'
      · split
        · exact drain_g3 len h' rfl
        · unfold G3S ovfBuf repBuf at *; simp_all
    | some b =>
      have h' : G3S sh { x with buf := some b } := by
        rw [Sess.eta_buf hb]; exact h
      simp only []
      split
      · exact h'
      · split
        · exact drain_g3 len h' rfl
        · unfold G3S ovfBuf repBuf at *; simp_all

theorem recvWakeS_g3 {sh : Bool} {x : Sess} (t : Bool) (h : G3S sh x) : G3S sh (recvWakeS sh x t).1 := by
  unfold recvWakeS
  split
  · rename_i p b hp hb
    split
    · exact drain_g3 p.len h hb
    · split <;> (unfold G3S ovfBuf repBuf at *; simp_all)
  · exact h

/-- the `onData` handler: a chunk is dropped only under the fence, or on / into an overflowed buffer (`hB`: a live Sync session has a
buffer, `InvS.B`) -/
theorem ioDataS_g3 {cfg : Cfg} {sh : Bool} {x : Sess} (chunk : Bytes) (h : G3S sh x) (hB : x.mode = some .sync → x.buf.isSome = true) :
    G3S sh (ioDataS cfg sh x chunk).1 := by
  obtain ⟨h1, h2⟩ := h
  cases hm : x.mode with
  | none => exact ⟨by simpa [ioDataS, effMode, hm, ovfBuf] using h1, by simpa [ioDataS, effMode, hm, repBuf] using h2⟩
  | some m =>
    cases m with
    | async => exact ⟨by simpa [ioDataS, effMode, hm, ovfBuf] using h1, by simpa [ioDataS, effMode, hm, repBuf] using h2⟩
    | disabled => exact ⟨by simpa [ioDataS, effMode, hm, ovfBuf] using h1, by simpa [ioDataS, effMode, hm, repBuf] using h2⟩
    | sync =>
      cases hb : x.buf with
      | none => simp [hm, hb] at hB
      | some b =>
        have h2' : b.reported = true → x.ovfSeen = true := by simpa [repBuf, hb] using h2
        have h1' : x.gap = true → sh = true ∨ x.ovfSeen = true ∨ b.overflow = true := by simpa [ovfBuf, hb] using h1
        unfold ioDataS
        simp only [effMode, hm, hb]
        split
        · rename_i hc
          refine ⟨fun _ => Or.inl ?_, by simpa [repBuf, hb] using h2'⟩
          simp at hc; exact hc.1
        · split
          · rename_i ho
            exact ⟨fun _ => Or.inr (Or.inr (by simpa [ovfBuf, hb] using ho)), by simpa [repBuf, hb] using h2'⟩
          · split
            · cases hx : x.parked <;> exact ⟨fun _ => Or.inr (Or.inr (by simp [ovfBuf, wake, hx])), by simpa [repBuf, wake, hx] using h2'⟩
            · cases hx : x.parked <;> exact ⟨by simpa [ovfBuf, wake, hx] using h1', by simpa [repBuf, wake, hx] using h2'⟩

theorem ioCloseS_g3 {cfg : Cfg} {sh : Bool} {x : Sess} (h : G3S sh x) : G3S sh (ioCloseS cfg x) := by
  unfold ioCloseS G3S ovfBuf repBuf at *
  cases hb : x.buf <;> cases hx : x.parked <;> simp_all [wake]

theorem setModeS_g3 {cfg : Cfg} {sh : Bool} {x : Sess} (m : Mode) (h : G3S sh x) : G3S sh (setModeS cfg x m).1 := by
  unfold setModeS G3S ovfBuf repBuf at *
  cases m <;> cases hb : x.buf <;> (repeat' split) <;> simp_all <;> (try subst_vars) <;> (try simp_all)

theorem flushStepS_g3 {sh : Bool} {x : Sess} (h : G3S sh x) : G3S sh (flushStepS sh x).1 := by
  unfold flushStepS G3S ovfBuf repBuf at *
  (repeat' split) <;> simp_all <;> (try subst_vars) <;> (try simp_all)

/-- the tombstone GC: an overflowed buffer is reclaimable only once its overflow has been reported (FC03d) -/
theorem gc_g3 {sh : Bool} {y : Sess} (h : G3S sh y) (hr : reclaimable y = true) : G3S sh { y with buf := none } := by
  unfold reclaimable at hr
  unfold G3S ovfBuf repBuf at *
  cases hb : y.buf with
  | none => simp_all
  | some b => cases ho : b.overflow <;> simp_all

theorem step_inv3 {cfg : Cfg} {s : State} (hi : Inv s) (h : Inv3 s) (st : Step) (hok : ok s st = true) :
    Inv3 (step cfg s st).1 := by
  cases st with
  | ioData sid chunk =>
    have hk : (s.sess sid).dead = false ∧ s.ioPend = none := by simpa [ok] using hok
    simp only [step]
    split
    · exact h
    · intro j
      by_cases hj : j = sid
      · subst hj
        have hB : (s.sess j).mode = some .sync → (s.sess j).buf.isSome = true := fun hm => (hi j).B hm hk.1
        simpa using ioDataS_g3 chunk (h j) hB
      · simpa [upd_other _ _ hj] using h j
  | ioDeliver =>
    simp only [step]
    split
    · rename_i sid d hp
      intro j
      by_cases hj : j = sid
      · subst hj; simpa [G3S, ovfBuf, repBuf] using h j
      · simpa [upd_other _ _ hj] using h j
    · exact h
  | ioClose sid =>
    simp only [step]
    split
    · exact h
    · intro j
      simp only [closeSess]
      by_cases hj : j = sid
      · subst hj; simpa using ioCloseS_g3 (cfg := cfg) (h j)
      · simp only [hj, if_false]
        split
        · rename_i hgc
          exact gc_g3 (h j) (by simp_all)
        · exact h j
  | ioCloseCb sid =>
    simp only [step]
    split
    · intro j; exact h j
    · exact h
  | recvEnter sid len =>
    simp only [step]
    intro j
    by_cases hj : j = sid
    · subst hj; simpa using recvEnterS_g3 len (h j)
    · simpa [upd_other _ _ hj] using h j
  | recvWake sid t =>
    simp only [step]
    intro j
    by_cases hj : j = sid
    · subst hj; simpa using recvWakeS_g3 t (h j)
    · simpa [upd_other _ _ hj] using h j
  | setMode sid m =>
    simp only [step]
    intro j
    by_cases hj : j = sid
    · subst hj; simpa using setModeS_g3 (cfg := cfg) m (h j)
    · simpa [upd_other _ _ hj] using h j
  | flushStep sid =>
    simp only [step]
    intro j
    by_cases hj : j = sid
    · subst hj; simpa using flushStepS_g3 (h j)
    · simpa [upd_other _ _ hj] using h j
  | fence n =>
    simp only [step]
    intro j
    have hw := wake_g3 n (h j)
    exact ⟨fun _ => Or.inl rfl, hw.2⟩

theorem run_inv3 {cfg : Cfg} (hg : cfg.Good) : ∀ (steps : List Step) (s : State), Inv s → Inv3 s → Disciplined cfg s steps →
    Inv3 (run cfg s steps).1 := by
  intro steps
  induction steps with
  | nil => intro s _ h _; simpa [run_nil] using h
  | cons st rest ih =>
    intro s hi h hd
    rw [run_cons]
    exact ih _ (step_inv hg hi st hd.1) (step_inv3 hi h st hd.1) hd.2

/-! ## the ghost `ovfSeen` is what an observer of the events sees -/

theorem drain_ovf (x : Sess) (b : Buf) (len : Nat) :
    (drain x b len).1.ovfSeen = true → x.ovfSeen = true ∨ (drain x b len).2 = .overflow := by
  unfold drain; (repeat' split) <;> simp

theorem recvEnterS_ovf (sh : Bool) (x : Sess) (len : Nat) :
    (recvEnterS sh x len).1.ovfSeen = true → x.ovfSeen = true ∨ (recvEnterS sh x len).2 = some .overflow := by
  unfold recvEnterS
  split
  · intro h; exact Or.inl h
  · cases hb : x.buf <;> simp only [] <;>
    · split
      · intro h; exact Or.inl h
      · split
        · intro h
          rcases drain_ovf _ _ _ h with h' | h'
          · exact Or.inl h'
          · exact Or.inr (by rw [h'])
        · intro h; exact Or.inl h

theorem recvWakeS_ovf (sh : Bool) (x : Sess) (t : Bool) :
    (recvWakeS sh x t).1.ovfSeen = true → x.ovfSeen = true ∨ (recvWakeS sh x t).2 = some .overflow := by
  unfold recvWakeS
  split
  · split
    · intro h
      rcases drain_ovf _ _ _ h with h' | h'
      · exact Or.inl h'
      · exact Or.inr (by rw [h'])
    · split <;> (intro h; exact Or.inl h)
  · intro h; exact Or.inl h

theorem wake_ovf (x : Sess) (r : Bool) : (wake x r).ovfSeen = x.ovfSeen := by
  unfold wake; split <;> rfl

theorem ioDataS_ovf (cfg : Cfg) (sh : Bool) (x : Sess) (chunk : Bytes) : (ioDataS cfg sh x chunk).1.ovfSeen = x.ovfSeen := by
  unfold ioDataS; (repeat' split) <;> simp [wake_ovf]

theorem ioCloseS_ovf (cfg : Cfg) (x : Sess) : (ioCloseS cfg x).ovfSeen = x.ovfSeen := by
  unfold ioCloseS; split <;> simp [wake_ovf]

theorem setModeS_ovf (cfg : Cfg) (x : Sess) (m : Mode) : (setModeS cfg x m).1.ovfSeen = x.ovfSeen := by
  unfold setModeS; cases hb : x.buf <;> (repeat' split) <;> simp_all

theorem flushStepS_ovf (sh : Bool) (x : Sess) : (flushStepS sh x).1.ovfSeen = x.ovfSeen := by
  unfold flushStepS; (repeat' split) <;> rfl

/-- one step: `ovfSeen` becomes true only in a step that emits `recvRet sid BufferOverflow` -/
theorem step_ovfSeen (cfg : Cfg) (s : State) (st : Step) (sid : Nat) :
    ((step cfg s st).1.sess sid).ovfSeen = true → (s.sess sid).ovfSeen = true ∨ Ev.recvRet sid .overflow ∈ (step cfg s st).2 := by
  cases st with
  | ioData j chunk =>
    simp only [step]
    split
    · intro h; exact Or.inl h
    · by_cases hj : sid = j
      · subst hj; simp only [upd_same, ioDataS_ovf]; intro h; exact Or.inl h
      · simp only [upd_other _ _ hj]; intro h; exact Or.inl h
  | ioDeliver =>
    simp only [step]
    split
    · rename_i j d hp
      by_cases hj : sid = j
      · subst hj; simp only [upd_same]; intro h; exact Or.inl h
      · simp only [upd_other _ _ hj]; intro h; exact Or.inl h
    · intro h; exact Or.inl h
  | ioClose j =>
    simp only [step]
    split
    · intro h; exact Or.inl h
    · simp only [closeSess]
      by_cases hj : sid = j
      · subst hj; simp only [if_true, ioCloseS_ovf]; intro h; exact Or.inl h
      · simp only [hj, if_false]
        split <;> (intro h; exact Or.inl h)
  | ioCloseCb j =>
    simp only [step]
    split <;> (intro h; exact Or.inl h)
  | recvEnter j len =>
    simp only [step]
    by_cases hj : sid = j
    · subst hj
      simp only [upd_same]
      intro h
      rcases recvEnterS_ovf _ _ _ h with h' | h'
      · exact Or.inl h'
      · exact Or.inr (by rw [h']; simp [evRecv])
    · simp only [upd_other _ _ hj]; intro h; exact Or.inl h
  | recvWake j t =>
    simp only [step]
    by_cases hj : sid = j
    · subst hj
      simp only [upd_same]
      intro h
      rcases recvWakeS_ovf _ _ _ h with h' | h'
      · exact Or.inl h'
      · exact Or.inr (by rw [h']; simp [evRecv])
    · simp only [upd_other _ _ hj]; intro h; exact Or.inl h
  | setMode j m =>
    simp only [step]
    by_cases hj : sid = j
    · subst hj; simp only [upd_same, setModeS_ovf]; intro h; exact Or.inl h
    · simp only [upd_other _ _ hj]; intro h; exact Or.inl h
  | flushStep j =>
    simp only [step]
    by_cases hj : sid = j
    · subst hj; simp only [upd_same, flushStepS_ovf]; intro h; exact Or.inl h
    · simp only [upd_other _ _ hj]; intro h; exact Or.inl h
  | fence n =>
    simp only [step, wake_ovf]; intro h; exact Or.inl h

/-- over a run: if `ovfSeen` is set at the end, it was set at the start or some step answered `BufferOverflow` for the session -/
theorem run_ovfSeen (cfg : Cfg) (sid : Nat) : ∀ (steps : List Step) (s : State),
    ((run cfg s steps).1.sess sid).ovfSeen = true → (s.sess sid).ovfSeen = true ∨ Ev.recvRet sid .overflow ∈ (run cfg s steps).2 := by
  intro steps
  induction steps with
  | nil => intro s h; exact Or.inl (by simpa [run_nil] using h)
  | cons st rest ih =>
    intro s h
    rw [run_cons] at h ⊢
    rcases ih _ h with h1 | h1
    · rcases step_ovfSeen cfg s st sid h1 with h2 | h2
      · exact Or.inl h2
      · exact Or.inr (List.mem_append_left _ h2)
    · exact Or.inr (List.mem_append_right _ h1)

end Iora.SyncRecv
