import IoraModel.Lemmas.XmlRender
import IoraModel.Lemmas.XmlDom
set_option linter.unusedSimpArgs false
set_option linter.unusedVariables false
/-! Content tokens (X7 beyond the element/attribute skeleton): which slice a Comment, CDATA, PI, DOCTYPE and Text token gets —
the bytes up to the FIRST occurrence of the terminator — for arbitrary input, and faithfulness of the pull API on rendered
documents that contain every node kind. -/
namespace Iora.Xml
open Iora

/-! ### searches -/

theorem startsWith_append_of_le : ∀ (p r rest : Bytes), p.length ≤ r.length → startsWith p (r ++ rest) = startsWith p r
  | [], r, rest, _ => by cases r <;> cases rest <;> simp [startsWith]
  | _ :: _, [], _, h => by simp at h
  | p :: ps, x :: xs, rest, h => by
    simp only [List.cons_append, startsWith]
    rw [startsWith_append_of_le ps xs rest (by simpa using h)]

theorem startsWith_self_append : ∀ (p r : Bytes), startsWith p (p ++ r) = true
  | [], r => by cases r <;> simp [startsWith]
  | p :: ps, r => by simp [startsWith, startsWith_self_append ps r]

/-- `startsWith` is the prefix relation -/
theorem startsWith_iff : ∀ (p r : Bytes), startsWith p r = true ↔ ∃ t, r = p ++ t
  | [], r => by cases r <;> simp [startsWith]
  | _ :: _, [] => by simp [startsWith]
  | p :: ps, x :: xs => by
    simp only [startsWith, Bool.and_eq_true, decide_eq_true_eq, List.cons_append, List.cons.injEq]
    rw [startsWith_iff ps xs]
    constructor
    · rintro ⟨rfl, t, rfl⟩; exact ⟨t, rfl, rfl⟩
    · rintro ⟨t, rfl, rfl⟩; exact ⟨rfl, t, rfl⟩

/-- an occurrence found in `r` is still the first one when more input follows -/
theorem findSub_append (pat : Bytes) : ∀ (r rest : Bytes) (k : Nat), findSub pat r = some k →
    findSub pat (r ++ rest) = some k := by
  intro r
  induction r with
  | nil => intro rest k h; simp [findSub] at h
  | cons ch r ih =>
    intro rest k h
    have hb := findSub_bound pat (ch :: r) k h
    have hsw : startsWith pat (ch :: (r ++ rest)) = startsWith pat (ch :: r) := by
      have := startsWith_append_of_le pat (ch :: r) rest (by omega)
      simpa using this
    simp only [findSub] at h
    simp only [List.cons_append, findSub, hsw]
    split at h
    · rename_i hs; simp only [hs, ↓reduceIte]; exact h
    · rename_i hs
      simp only [hs, Bool.false_eq_true, ↓reduceIte]
      cases hf : findSub pat r with
      | none => rw [hf] at h; cases h
      | some k' => rw [hf] at h; rw [ih rest k' hf]; exact h

/-- **`findSub` finds the FIRST occurrence**: the pattern starts at index `k` and at no smaller index -/
theorem findSub_first (pat : Bytes) : ∀ (r : Bytes) (k : Nat), findSub pat r = some k →
    startsWith pat (r.drop k) = true ∧ ∀ j, j < k → startsWith pat (r.drop j) = false := by
  intro r
  induction r with
  | nil => intro k h; simp [findSub] at h
  | cons ch r ih =>
    intro k h
    simp only [findSub] at h
    split at h
    · rename_i hs
      cases h
      exact ⟨by simpa using hs, by intro j hj; omega⟩
    · rename_i hs
      cases hf : findSub pat r with
      | none => rw [hf] at h; cases h
      | some k' =>
        rw [hf] at h
        cases h
        obtain ⟨h1, h2⟩ := ih k' hf
        refine ⟨by simpa using h1, ?_⟩
        intro j hj
        cases j with
        | zero => simpa using hs
        | succ j => simpa using h2 j (by omega)

/-- conversely, the first index at which the pattern starts is what `findSub` returns -/
theorem findSub_of_first (pat : Bytes) : ∀ (r : Bytes) (k : Nat), k < r.length → startsWith pat (r.drop k) = true →
    (∀ j, j < k → startsWith pat (r.drop j) = false) → findSub pat r = some k := by
  intro r
  induction r with
  | nil => intro k hk; simp at hk
  | cons ch r ih =>
    intro k hk h1 h2
    cases k with
    | zero =>
      simp only [List.drop_zero] at h1
      simp [findSub, h1]
    | succ k =>
      have h0 := h2 0 (by omega)
      simp only [List.drop_zero] at h0
      simp only [findSub, h0, Bool.false_eq_true, ↓reduceIte]
      have := ih k (by simpa using hk) (by simpa using h1) (by intro j hj; simpa using h2 (j + 1) (by omega))
      rw [this]

theorem doctypeScan_append : ∀ (r rest : Bytes) (b k : Nat), doctypeScan r b = some k → doctypeScan (r ++ rest) b = some k := by
  intro r
  induction r with
  | nil => intro rest b k h; simp [doctypeScan] at h
  | cons ch r ih =>
    intro rest b k h
    simp only [doctypeScan] at h
    simp only [List.cons_append, doctypeScan]
    split at h
    · rename_i h5b
      simp only [h5b, ↓reduceIte]
      cases hf : doctypeScan r (b + 1) with
      | none => rw [hf] at h; simp at h
      | some k' => rw [hf] at h; rw [ih rest _ k' hf]; exact h
    · rename_i h5b
      simp only [h5b, ↓reduceIte]
      split at h
      · rename_i h5d
        simp only [h5d, ↓reduceIte]
        cases hf : doctypeScan r (b - 1) with
        | none => rw [hf] at h; simp at h
        | some k' => rw [hf] at h; rw [ih rest _ k' hf]; exact h
      · rename_i h5d
        simp only [h5d, ↓reduceIte]
        split at h
        · rename_i hgt; simp only [hgt, ↓reduceIte]; exact h
        · rename_i hgt
          simp only [hgt, Bool.false_eq_true, ↓reduceIte]
          cases hf : doctypeScan r b with
          | none => rw [hf] at h; simp at h
          | some k' => rw [hf] at h; rw [ih rest _ k' hf]; exact h

theorem startsWithCI_append_of_eq : ∀ (w kw rest : Bytes), startsWithCI w kw = true → startsWithCI w (kw ++ rest) = true
  | [], kw, rest, _ => by cases kw <;> cases rest <;> simp [startsWithCI]
  | _ :: _, [], _, h => by simp [startsWithCI] at h
  | p :: ps, x :: xs, rest, h => by
    simp only [startsWithCI, Bool.and_eq_true, decide_eq_true_eq] at h
    simp only [List.cons_append, startsWithCI, Bool.and_eq_true, decide_eq_true_eq]
    exact ⟨h.1, startsWithCI_append_of_eq ps xs rest h.2⟩

theorem matchStringC_hit {s r : Bytes} {c : Cur} (h : c.rest = s ++ r) :
    ∃ c', matchStringC s c = .ok true c' ∧ c'.pos = c.pos + s.length ∧ c'.rest = r ∧ c.Reach c' := by
  unfold matchStringC
  rw [h, startsWith_self_append]
  simp only [↓reduceIte]
  obtain ⟨c', h1, h2, h3, h4⟩ := advR_ok (k := s.length) (c := c) (by rw [h]; simp)
  rw [h1]
  simp only [Res.bind]
  exact ⟨c', rfl, h2, by rw [h3, h]; simp, h4⟩

theorem matchStringC_miss {s : Bytes} {c : Cur} (h : startsWith s c.rest = false) : matchStringC s c = .ok false c := by
  unfold matchStringC
  simp [h]

/-! ### one call of `next()` on a content construct -/

theorem budget_ok {o : Options} {s : St} (hbud : o.maxTokens = 0 ∨ s.produced < o.maxTokens) :
    ¬ ((o.maxTokens ≠ 0 && decide (s.produced ≥ o.maxTokens)) = true) := by
  rcases hbud with h | h
  · simp [h]
  · simp; intro _; omega

/-- the dispatch of `next()` up to and including `<!` -/
theorem nextC_bang (o : Options) (s : St) (lead r : Bytes) (hlead : AllSpace lead)
    (hrest : s.cur.rest = lead ++ 0x3C :: 0x21 :: r) (hbud : o.maxTokens = 0 ∨ s.produced < o.maxTokens) :
    ∃ c c2, c.pos = s.cur.pos + lead.length ∧ s.cur.Reach c ∧ c2.pos = c.pos + 2 ∧ c2.rest = r ∧ c.Reach c2 ∧
      nextC o s = (matchStringC [0x2D, 0x2D] c2).toStep fun m c3 =>
        if m then readCommentC s c c3
        else
          (matchStringC [0x5B, 0x43, 0x44, 0x41, 0x54, 0x41, 0x5B] c3).toStep fun m c4 =>
            if m then readCDataC s c c4
            else
              (matchWordCIC [0x44, 0x4F, 0x43, 0x54, 0x59, 0x50, 0x45] c4).toStep fun m c5 =>
                if m then readDoctypeC s c c5 else .err .badDecl c5 := by
  unfold nextC
  simp only [budget_ok hbud, ↓reduceIte]
  obtain ⟨c, h1, h2, h3, h4⟩ := skipWs_eval_lt hrest hlead
  simp only [h1, Res.toStep, h3, ↓reduceIte]
  obtain ⟨c1, h11, h12, h13, h14⟩ := advR_ok (k := 1) (c := c) (by rw [h3]; simp)
  simp only [h11]
  have hc1 : c1.rest = 0x21 :: r := by rw [h13, h3]; simp
  rw [hc1]
  have e1 : ¬ ((0x21 : UInt8) = 0x3F) := by decide
  simp only [e1, ↓reduceIte]
  obtain ⟨c2, h21, h22, h23, h24⟩ := advR_ok (k := 1) (c := c1) (by rw [hc1]; simp)
  simp only [h21]
  have hc2 : c2.rest = r := by rw [h23, hc1]; simp
  exact ⟨c, c2, h2, h4, by omega, hc2, h14.trans h24, rfl⟩

/-- what a content-token step concludes: the new state stands right after the construct, nothing but the cursor and the token
count changed, and the token carries exactly the slice `⟨tpos, tlen⟩` -/
structure ContentStep (bs : Bytes) (o : Options) (s : St) (t : Token) (s' : St) (kind : Kind) (off tpos : Nat) (body after : Bytes) :
    Prop where
  rest : s'.cur.rest = after
  inv : SkInv bs o s'
  produced : s'.produced = s.produced + 1
  stack : s'.stack = s.stack
  kind : t.kind = kind
  text : t.text = ⟨tpos, body.length⟩
  bytes : t.text.bytes bs = body
  attrs : t.attrs = []
  depth : t.depth = s.stack.length
  offset : t.offset = off

/-- the common tail of `readComment` / `readCData`: `readUntil(endSeq)` takes the bytes up to the FIRST occurrence of `endSeq` -/
theorem readUntilTok_exact (bs : Bytes) (o : Options) (s : St) (c c3 : Cur) (e r : Bytes) (kd : Kind) (ek : ErrKind)
    (hi : SkInv bs o s) (hreach : s.cur.Reach c3) (hc3 : c3.rest = r) :
    match findSub e r with
    | some k => ∃ t s', ((readUntilC e c3).toStep fun r c1 =>
        match r with
        | none => .err ek c1
        | some sl => emit s c1 { kind := kd, text := sl, depth := s.depth, offset := c.pos, line := c.line, column := c.col }) = .tok t s' ∧
        ContentStep bs o s t s' kd c.pos c3.pos (r.take k) (r.drop (k + e.length)) ∧ t.name = ⟨0, 0⟩
    | none => ((readUntilC e c3).toStep fun r c1 =>
        match r with
        | none => .err ek c1
        | some sl => emit s c1 { kind := kd, text := sl, depth := s.depth, offset := c.pos, line := c.line, column := c.col }) = .err ek c3 := by
  unfold readUntilC
  rw [hc3]
  cases hf : findSub e r with
  | none => simp only [Res.toStep]
  | some k =>
    simp only
    have hb := findSub_bound e r k hf
    obtain ⟨c4, h41, h42, h43, h44⟩ := advR_ok (k := k + e.length) (c := c3) (by rw [hc3]; exact hb)
    simp only [h41, Res.bind, Res.toStep, emit]
    have hat3 : c3.At bs := Cur.Reach.at hi.cur hreach
    have hlen : (r.take k).length = k := by simp; omega
    refine ⟨_, _, rfl, ⟨?_, ⟨?_, hi.depth⟩, rfl, rfl, rfl, ?_, ?_, rfl, hi.depth, rfl⟩, rfl⟩
    · simp only; rw [h43, hc3]
    · exact Cur.Reach.at hat3 h44
    · simp only [hlen]
    · simp only; rw [hat3.slice, hc3]

/-- **Comment.** After `<!--` the token text is the bytes up to the FIRST `-->`; without one the call fails. -/
theorem next_comment (bs : Bytes) (o : Options) (s : St) (lead r : Bytes) (hi : SkInv bs o s) (hlead : AllSpace lead)
    (hrest : s.cur.rest = lead ++ 0x3C :: 0x21 :: 0x2D :: 0x2D :: r) (hbud : o.maxTokens = 0 ∨ s.produced < o.maxTokens) :
    match findSub [0x2D, 0x2D, 0x3E] r with
    | some k => ∃ t s', nextC o s = .tok t s' ∧
        ContentStep bs o s t s' .comment (s.cur.pos + lead.length) (s.cur.pos + lead.length + 4) (r.take k) (r.drop (k + 3)) ∧
        t.name = ⟨0, 0⟩
    | none => ∃ c, nextC o s = .err .unterminatedComment c := by
  obtain ⟨c, c2, hc, hrc, hc2p, hc2r, hr2, hnext⟩ := nextC_bang o s lead (0x2D :: 0x2D :: r) hlead hrest hbud
  obtain ⟨c3, h31, h32, h33, h34⟩ := matchStringC_hit (s := [0x2D, 0x2D]) (r := r) (c := c2) (by rw [hc2r]; rfl)
  rw [hnext, h31]
  simp only [Res.toStep, ↓reduceIte]
  have := readUntilTok_exact bs o s c c3 [0x2D, 0x2D, 0x3E] r .comment .unterminatedComment hi (hrc.trans (hr2.trans h34)) h33
  unfold readCommentC
  cases hf : findSub [0x2D, 0x2D, 0x3E] r with
  | none => rw [hf] at this; exact ⟨c3, this⟩
  | some k =>
    rw [hf] at this
    obtain ⟨t, s', h1, h2, h3⟩ := this
    refine ⟨t, s', h1, ?_, h3⟩
    have e1 : c3.pos = s.cur.pos + lead.length + 4 := by simp at h32; omega
    rw [hc, e1] at h2
    exact h2

/-- **CDATA.** After `<![CDATA[` the token text is the bytes up to the FIRST `]]>`; without one the call fails. -/
theorem next_cdata (bs : Bytes) (o : Options) (s : St) (lead r : Bytes) (hi : SkInv bs o s) (hlead : AllSpace lead)
    (hrest : s.cur.rest = lead ++ 0x3C :: 0x21 :: 0x5B :: 0x43 :: 0x44 :: 0x41 :: 0x54 :: 0x41 :: 0x5B :: r)
    (hbud : o.maxTokens = 0 ∨ s.produced < o.maxTokens) :
    match findSub [0x5D, 0x5D, 0x3E] r with
    | some k => ∃ t s', nextC o s = .tok t s' ∧
        ContentStep bs o s t s' .cdata (s.cur.pos + lead.length) (s.cur.pos + lead.length + 9) (r.take k) (r.drop (k + 3)) ∧
        t.name = ⟨0, 0⟩
    | none => ∃ c, nextC o s = .err .unterminatedCData c := by
  obtain ⟨c, c2, hc, hrc, hc2p, hc2r, hr2, hnext⟩ :=
    nextC_bang o s lead (0x5B :: 0x43 :: 0x44 :: 0x41 :: 0x54 :: 0x41 :: 0x5B :: r) hlead hrest hbud
  have hmiss : matchStringC [0x2D, 0x2D] c2 = .ok false c2 := matchStringC_miss (by rw [hc2r]; simp [startsWith])
  obtain ⟨c3, h31, h32, h33, h34⟩ := matchStringC_hit (s := [0x5B, 0x43, 0x44, 0x41, 0x54, 0x41, 0x5B]) (r := r) (c := c2)
    (by rw [hc2r]; rfl)
  rw [hnext, hmiss]
  simp only [Res.toStep, Bool.false_eq_true, ↓reduceIte, h31]
  have := readUntilTok_exact bs o s c c3 [0x5D, 0x5D, 0x3E] r .cdata .unterminatedCData hi (hrc.trans (hr2.trans h34)) h33
  unfold readCDataC
  cases hf : findSub [0x5D, 0x5D, 0x3E] r with
  | none => rw [hf] at this; exact ⟨c3, this⟩
  | some k =>
    rw [hf] at this
    obtain ⟨t, s', h1, h2, h3⟩ := this
    refine ⟨t, s', h1, ?_, h3⟩
    have e1 : c3.pos = s.cur.pos + lead.length + 9 := by simp at h32; omega
    rw [hc, e1] at h2
    exact h2

theorem ci_d_first : ∀ z : UInt8, lowerAscii z = lowerAscii 0x44 → z ≠ 0x2D ∧ z ≠ 0x5B := forall_u8 (by decide +kernel)

/-- **DOCTYPE.** After `<!DOCTYPE` (any letter case) and a boundary byte — white space, `>` or `[` — the token text is the bytes
up to the first `>` outside `[...]`; without one the call fails. -/
theorem next_doctype (bs : Bytes) (o : Options) (s : St) (lead kw d' : Bytes) (x : UInt8) (hi : SkInv bs o s) (hlead : AllSpace lead)
    (hkw : startsWithCI [0x44, 0x4F, 0x43, 0x54, 0x59, 0x50, 0x45] kw = true) (hkwl : kw.length = 7)
    (hx : (isSpace x || x = 0x3E || x = 0x5B) = true)
    (hrest : s.cur.rest = lead ++ 0x3C :: 0x21 :: (kw ++ x :: d')) (hbud : o.maxTokens = 0 ∨ s.produced < o.maxTokens) :
    match doctypeScan (x :: d') 0 with
    | some k => ∃ t s', nextC o s = .tok t s' ∧
        ContentStep bs o s t s' .doctype (s.cur.pos + lead.length) (s.cur.pos + lead.length + 9) ((x :: d').take k)
          ((x :: d').drop (k + 1)) ∧ t.name = ⟨0, 0⟩
    | none => ∃ c, nextC o s = .err .unterminatedDoctype c := by
  obtain ⟨c, c2, hc, hrc, hc2p, hc2r, hr2, hnext⟩ := nextC_bang o s lead (kw ++ x :: d') hlead hrest hbud
  -- the first byte of the keyword is `d`/`D`
  obtain ⟨k0, kw', rfl⟩ : ∃ k0 kw', kw = k0 :: kw' := by
    cases kw with
    | nil => simp at hkwl
    | cons a b => exact ⟨a, b, rfl⟩
  have hk0 : lowerAscii k0 = lowerAscii 0x44 := by
    simp only [startsWithCI, Bool.and_eq_true, decide_eq_true_eq] at hkw
    exact hkw.1
  have hne := ci_d_first k0 hk0
  have hmiss1 : matchStringC [0x2D, 0x2D] c2 = .ok false c2 :=
    matchStringC_miss (by rw [hc2r]; simp [startsWith, Ne.symm hne.1])
  have hmiss2 : matchStringC [0x5B, 0x43, 0x44, 0x41, 0x54, 0x41, 0x5B] c2 = .ok false c2 :=
    matchStringC_miss (by rw [hc2r]; simp [startsWith, Ne.symm hne.2])
  rw [hnext, hmiss1]
  simp only [Res.toStep, Bool.false_eq_true, ↓reduceIte, hmiss2]
  unfold matchWordCIC
  have hci : startsWithCI [0x44, 0x4F, 0x43, 0x54, 0x59, 0x50, 0x45] c2.rest = true := by
    rw [hc2r]; exact startsWithCI_append_of_eq _ _ _ hkw
  have hget : c2.rest[([0x44, 0x4F, 0x43, 0x54, 0x59, 0x50, 0x45] : Bytes).length]? = some x := by
    rw [hc2r]
    have : ([0x44, 0x4F, 0x43, 0x54, 0x59, 0x50, 0x45] : Bytes).length = (k0 :: kw').length := by rw [hkwl]; rfl
    rw [this]; simp
  simp only [hci, ↓reduceIte, hget, hx]
  obtain ⟨c5, h51, h52, h53, h54⟩ := advR_ok (k := ([0x44, 0x4F, 0x43, 0x54, 0x59, 0x50, 0x45] : Bytes).length) (c := c2)
    (by rw [hc2r]; simp at hkwl ⊢; omega)
  simp only [h51, Res.bind, ↓reduceIte]
  have hc5 : c5.rest = x :: d' := by
    rw [h53, hc2r]
    have : ([0x44, 0x4F, 0x43, 0x54, 0x59, 0x50, 0x45] : Bytes).length = (k0 :: kw').length := by rw [hkwl]; rfl
    rw [this]; simp
  unfold readDoctypeC
  rw [hc5]
  cases hf : doctypeScan (x :: d') 0 with
  | none => exact ⟨c5, rfl⟩
  | some k =>
    simp only
    have hb := doctypeScan_bound _ _ _ hf
    obtain ⟨c6, h61, h62, h63, h64⟩ := advR_ok (k := k + 1) (c := c5) (by rw [hc5]; exact hb)
    simp only [h61, Res.toStep, emit]
    have hat5 : c5.At bs := Cur.Reach.at hi.cur (hrc.trans (hr2.trans h54))
    have hlen : ((x :: d').take k).length = k := by simp only [List.length_take]; omega
    have e5 : c5.pos = s.cur.pos + lead.length + 9 := by simp at h52; omega
    refine ⟨_, _, rfl, ⟨?_, ⟨?_, hi.depth⟩, rfl, rfl, rfl, ?_, ?_, rfl, hi.depth, hc⟩, rfl⟩
    · simp only; rw [h63, hc5]
    · exact Cur.Reach.at hat5 h64
    · simp only [hlen, e5]
    · simp only; rw [hat5.slice, hc5]

/-- **Processing instruction.** After `<?target` the token text is everything up to the FIRST `?>` (including the white space
that separates target and data); without one the call fails. -/
theorem next_pi (bs : Bytes) (o : Options) (s : St) (lead target d : Bytes) (hi : SkInv bs o s) (hlead : AllSpace lead)
    (hn : ValidName target) (hnl : target.length ≤ o.maxName) (hd : StartsNon isNameChar d)
    (hrest : s.cur.rest = lead ++ 0x3C :: 0x3F :: (target ++ d)) (hbud : o.maxTokens = 0 ∨ s.produced < o.maxTokens) :
    match findSub [0x3F, 0x3E] d with
    | some k => ∃ t s', nextC o s = .tok t s' ∧
        ContentStep bs o s t s' .pi (s.cur.pos + lead.length) (s.cur.pos + lead.length + 2 + target.length) (d.take k)
          (d.drop (k + 2)) ∧ t.name = ⟨s.cur.pos + lead.length + 2, target.length⟩ ∧ t.name.bytes bs = target
    | none => ∃ c, nextC o s = .err .unterminatedPi c := by
  unfold nextC
  simp only [budget_ok hbud, ↓reduceIte]
  obtain ⟨c, h1, h2, h3, h4⟩ := skipWs_eval_lt hrest hlead
  simp only [h1, Res.toStep, h3, ↓reduceIte]
  obtain ⟨c1, h11, h12, h13, h14⟩ := advR_ok (k := 1) (c := c) (by rw [h3]; simp)
  simp only [h11]
  have hc1 : c1.rest = 0x3F :: (target ++ d) := by rw [h13, h3]; simp
  rw [hc1]
  simp only [↓reduceIte]
  obtain ⟨c2, h21, h22, h23, h24⟩ := advR_ok (k := 1) (c := c1) (by rw [hc1]; simp)
  simp only [h21]
  have hc2 : c2.rest = target ++ d := by rw [h23, hc1]; simp
  unfold readPIC
  obtain ⟨c3, h31, h32, h33, h34⟩ := readName_eval (o := o) hc2 hn hd hnl
  simp only [h31, Res.toStep, h33]
  have hat2 : c2.At bs := Cur.Reach.at hi.cur (h4.trans (h14.trans h24))
  have hat3 : c3.At bs := Cur.Reach.at hat2 h34
  cases hf : findSub [0x3F, 0x3E] d with
  | none => exact ⟨c3, rfl⟩
  | some k =>
    simp only
    have hb := findSub_bound _ _ _ hf
    obtain ⟨c4, h41, h42, h43, h44⟩ := advR_ok (k := k + 2) (c := c3) (by rw [h33]; simpa using hb)
    simp only [h41, emit]
    have hlen : (d.take k).length = k := by simp only [List.length_take]; simp at hb; omega
    have e2 : c2.pos = s.cur.pos + lead.length + 2 := by omega
    have e3 : c3.pos = s.cur.pos + lead.length + 2 + target.length := by omega
    refine ⟨_, _, rfl, ⟨?_, ⟨?_, hi.depth⟩, rfl, rfl, rfl, ?_, ?_, rfl, hi.depth, h2⟩, ?_, ?_⟩
    · simp only; rw [h43, h33]
    · exact Cur.Reach.at hat3 h44
    · simp only [hlen, e3]
    · simp only; rw [hat3.slice, h33]
    · simp only [e2]
    · simp only; rw [hat2.slice, hc2]; simp

theorem split_nonspace : ∀ raw : Bytes, (∃ x ∈ raw, isSpace x = false) →
    ∃ w x r, raw = w ++ x :: r ∧ AllSpace w ∧ isSpace x = false := by
  intro raw
  induction raw with
  | nil => rintro ⟨x, hx, _⟩; simp at hx
  | cons y ys ih =>
    rintro ⟨x, hx, hsp⟩
    by_cases hy : isSpace y = true
    · have : ∃ x ∈ ys, isSpace x = false := by
        simp only [List.mem_cons] at hx
        rcases hx with rfl | hx
        · rw [hy] at hsp; cases hsp
        · exact ⟨x, hx, hsp⟩
      obtain ⟨w, x', r, rfl, hw, hx'⟩ := ih this
      refine ⟨y :: w, x', r, rfl, ?_, hx'⟩
      intro z hz
      simp only [List.mem_cons] at hz
      rcases hz with rfl | hz
      · exact hy
      · exact hw z hz
    · exact ⟨[], y, ys, rfl, by intro z hz; simp at hz, by simpa using hy⟩

/-- **Text.** A run of bytes without `<` that contains a non-space byte, followed by `<` or the end of the input, is reported
as ONE Text token with exactly those bytes — leading and trailing white space included (F29 repaired). -/
theorem next_text (bs : Bytes) (o : Options) (s : St) (raw after : Bytes) (hi : SkInv bs o s)
    (hraw : ∀ x ∈ raw, x ≠ 0x3C) (hns : ∃ x ∈ raw, isSpace x = false) (hafter : StartsNon notLt after)
    (hrest : s.cur.rest = raw ++ after) (hbud : o.maxTokens = 0 ∨ s.produced < o.maxTokens) (hlen : raw.length ≤ o.maxText) :
    ∃ t s', nextC o s = .tok t s' ∧ ContentStep bs o s t s' .text s.cur.pos s.cur.pos raw after ∧ t.name = ⟨0, 0⟩ := by
  obtain ⟨w, x, r0, hsplit, hw, hx⟩ := split_nonspace raw hns
  have hxlt : x ≠ 0x3C := hraw x (by rw [hsplit]; simp)
  have hrest' : s.cur.rest = w ++ x :: (r0 ++ after) := by rw [hrest, hsplit]; simp
  unfold nextC
  simp only [budget_ok hbud, ↓reduceIte]
  rw [skipWs_eval_text hrest' hw hx hxlt]
  simp only [Res.toStep]
  have hspan : spanLen notLt (raw ++ after) = raw.length :=
    spanLen_append notLt raw after (by intro y hy; simp [notLt, hraw y hy]) hafter
  cases hra : raw ++ after with
  | nil => rw [hsplit] at hra; cases w <;> simp at hra
  | cons ch rr =>
    rw [hra] at hrest hspan
    have hch : ch ≠ 0x3C := by
      have : ch ∈ raw := by
        rw [hsplit] at hra ⊢
        cases w with
        | nil => simp at hra; simp [hra.1]
        | cons z w' => simp at hra; simp [hra.1]
      exact hraw ch this
    simp only [hrest, hch, ↓reduceIte]
    unfold readTextC
    have hk : spanLen notLt (ch :: rr) = 1 + spanLen notLt rr := by
      simp only [spanLen]
      have : notLt ch = true := by simp [notLt, hch]
      simp only [this, ↓reduceIte]; omega
    rw [hk] at hspan
    have : ¬ (1 + spanLen notLt rr > o.maxText) := by omega
    simp only [this, ↓reduceIte]
    obtain ⟨c1, h1, h2, h3, h4⟩ := advR_ok (k := 1 + spanLen notLt rr) (c := s.cur)
      (by rw [hrest]; have := spanLen_le notLt rr; simp; omega)
    simp only [h1, Res.toStep, emit]
    have hdrop : (ch :: rr).drop raw.length = after := by rw [← hra]; simp
    have htake : (ch :: rr).take raw.length = raw := by rw [← hra]; simp
    refine ⟨_, _, rfl, ⟨?_, ⟨?_, hi.depth⟩, rfl, rfl, rfl, ?_, ?_, rfl, hi.depth, rfl⟩, rfl⟩
    · simp only; rw [h3, hrest, hspan, hdrop]
    · exact Cur.Reach.at hi.cur h4
    · simp only [h2, hspan]; congr 1; omega
    · simp only [h2, hspan]
      have : s.cur.pos + raw.length - s.cur.pos = raw.length := by omega
      rw [this, hi.cur.slice, hrest, htake]

/-! ### rendered documents with every node kind -/

/-- one construct as written: a tag (`Item`, with all its formatting), a text run, a CDATA section, a comment, a processing
instruction, a DOCTYPE declaration (keyword in any letter case) -/
inductive CItem where
  | tag (i : Item)
  | text (raw : Bytes)
  | cdata (body : Bytes)
  | comment (body : Bytes)
  | pi (target data : Bytes)
  | doctype (kw body : Bytes)

def cdataOpen : Bytes := [0x3C, 0x21, 0x5B, 0x43, 0x44, 0x41, 0x54, 0x41, 0x5B]
def cdataEnd : Bytes := [0x5D, 0x5D, 0x3E]
def commentEnd : Bytes := [0x2D, 0x2D, 0x3E]
def piEnd : Bytes := [0x3F, 0x3E]
def doctypeWord : Bytes := [0x44, 0x4F, 0x43, 0x54, 0x59, 0x50, 0x45]

def CItem.render : CItem → Bytes
  | .tag i => i.render
  | .text raw => raw
  | .cdata b => cdataOpen ++ (b ++ cdataEnd)
  | .comment b => 0x3C :: 0x21 :: 0x2D :: 0x2D :: (b ++ commentEnd)
  | .pi t d => 0x3C :: 0x3F :: (t ++ (d ++ piEnd))
  | .doctype kw b => 0x3C :: 0x21 :: (kw ++ (b ++ [0x3E]))

def CItem.isText : CItem → Bool
  | .text _ => true
  | _ => false

/-- the supported subset, construct by construct.  Text: no `<`, at least one byte that is not white space, within `maxTextSpan`
(the raw bytes; references are not interpreted by the tokenizer).  CDATA / comment / PI data: the terminator written after the
body is the FIRST occurrence of the terminator (i.e. the body does not contain it, also not overlapping its end).  PI: a readable
target followed by data that does not continue the name.  DOCTYPE: the keyword in any case, then a body that is empty or starts with
white space or `[`, whose closing `>` is the first one outside `[...]`. -/
def CItem.WF (o : Options) : CItem → Prop
  | .tag i => i.WF o
  | .text raw => (∀ x ∈ raw, x ≠ 0x3C) ∧ (∃ x ∈ raw, isSpace x = false) ∧ raw.length ≤ o.maxText
  | .cdata b => findSub cdataEnd (b ++ cdataEnd) = some b.length
  | .comment b => findSub commentEnd (b ++ commentEnd) = some b.length
  | .pi t d => ValidName t ∧ t.length ≤ o.maxName ∧ StartsNon isNameChar (d ++ piEnd) ∧ findSub piEnd (d ++ piEnd) = some d.length
  | .doctype kw b => startsWithCI doctypeWord kw = true ∧ kw.length = 7 ∧ doctypeScan (b ++ [0x3E]) 0 = some b.length ∧
      (∀ x r, b = x :: r → (isSpace x || x = 0x5B) = true)

/-- a construct with the white space written before it -/
structure CPiece where
  lead : Bytes
  item : CItem

def CPiece.WF (o : Options) (p : CPiece) : Prop := AllSpace p.lead ∧ p.item.WF o

def renderC : List CPiece → Bytes
  | [] => []
  | p :: r => p.lead ++ (p.item.render ++ renderC r)

/-- a text run is written without formatting white space around it (white space next to text IS text) and is followed directly by
markup or by the end of the document -/
def TextOk : List CPiece → Bytes → Prop
  | [], _ => True
  | p :: r, trail => (p.item.isText = true → p.lead = [] ∧ StartsNon notLt (renderC r ++ trail)) ∧ TextOk r trail

/-- what a token says, with every slice replaced by the bytes it denotes (`name` / `text` for the kinds that set them) -/
structure CView where
  kind : Kind
  name : Bytes
  text : Bytes
  attrs : List (Bytes × Bytes)
  depth : Nat
  deriving DecidableEq, Repr

def Token.cview (bs : Bytes) (t : Token) : CView :=
  ⟨t.kind, if t.kind.hasName then t.name.bytes bs else [], if t.kind.hasText then t.text.bytes bs else [],
   t.attrs.map (Attr.view bs), t.depth⟩

/-- the events a sequence of constructs stands for (independent of the parser) -/
def specRunC (o : Options) : List Bytes → List CPiece → Option (List CView × List Bytes)
  | st, [] => some ([], st)
  | st, p :: r =>
    match p.item with
    | .tag (.start n as _) =>
      if st.length + 1 ≤ o.maxDepth then
        match specRunC o (n :: st) r with
        | some (vs, fin) => some (⟨.startElement, n, [], as.map (fun a => (a.name, a.value)), st.length + 1⟩ :: vs, fin)
        | none => none
      else none
    | .tag (.empty n as _) =>
      if st.length + 1 ≤ o.maxDepth then
        match specRunC o st r with
        | some (vs, fin) => some (⟨.emptyElement, n, [], as.map (fun a => (a.name, a.value)), st.length + 1⟩ :: vs, fin)
        | none => none
      else none
    | .tag (.close n _) =>
      match st with
      | top :: below =>
        if top = n then
          match specRunC o below r with
          | some (vs, fin) => some (⟨.endElement, n, [], [], st.length⟩ :: vs, fin)
          | none => none
        else none
      | [] => none
    | .text raw => (specRunC o st r).map fun (vs, fin) => (⟨.text, [], raw, [], st.length⟩ :: vs, fin)
    | .cdata b => (specRunC o st r).map fun (vs, fin) => (⟨.cdata, [], b, [], st.length⟩ :: vs, fin)
    | .comment b => (specRunC o st r).map fun (vs, fin) => (⟨.comment, [], b, [], st.length⟩ :: vs, fin)
    | .pi t d => (specRunC o st r).map fun (vs, fin) => (⟨.pi, t, d, [], st.length⟩ :: vs, fin)
    | .doctype _ b => (specRunC o st r).map fun (vs, fin) => (⟨.doctype, [], b, [], st.length⟩ :: vs, fin)

/-- one call of `next()` that returns a token saying `v`, leaves `rest'` to be read and the open-element stack `stack'` -/
def StepTo (bs : Bytes) (o : Options) (s : St) (rest' : Bytes) (v : CView) (stack' : List Bytes) : Prop :=
  ∃ t s', nextC o s = .tok t s' ∧ s'.cur.rest = rest' ∧ SkInv bs o s' ∧ s'.produced = s.produced + 1 ∧ s'.stack = stack' ∧
    t.cview bs = v

theorem ContentStep.stepTo {bs : Bytes} {o : Options} {s s' : St} {t : Token} {kd : Kind} {off tpos : Nat} {body after : Bytes}
    (hn : nextC o s = .tok t s') (h : ContentStep bs o s t s' kd off tpos body after) (hk : kd.hasText = true) (nm : Bytes)
    (hnm : (if kd.hasName then t.name.bytes bs else []) = nm) :
    StepTo bs o s after ⟨kd, nm, body, [], s.stack.length⟩ s.stack := by
  refine ⟨t, s', hn, h.rest, h.inv, h.produced, h.stack, ?_⟩
  simp only [Token.cview, h.kind, hk, ↓reduceIte, h.bytes, h.attrs, List.map_nil, h.depth, hnm]

theorem step_tag_view {bs : Bytes} {t : Token} {k : Kind} {n : Bytes} {as : List (Bytes × Bytes)} {d : Nat}
    (hv : t.view bs = ⟨k, n, as, d⟩) (hk : k.hasName = true ∧ k.hasText = false) : t.cview bs = ⟨k, n, [], as, d⟩ := by
  simp only [Token.view, View.mk.injEq] at hv
  obtain ⟨h1, h2, h3, h4⟩ := hv
  simp only [Token.cview, h1, hk.1, hk.2, ↓reduceIte, h2, h3, h4, Bool.false_eq_true]

theorem take_append_len (a b : Bytes) : (a ++ b).take a.length = a := by simp
theorem drop_append_len (a b : Bytes) (k : Nat) : (a ++ b).drop (a.length + k) = b.drop k := by
  rw [← List.drop_drop]; simp

theorem step_cdata (bs : Bytes) (o : Options) (s : St) (lead b rest' : Bytes) (hi : SkInv bs o s) (hlead : AllSpace lead)
    (hwf : (CItem.cdata b).WF o) (hrest : s.cur.rest = lead ++ ((CItem.cdata b).render ++ rest'))
    (hbud : o.maxTokens = 0 ∨ s.produced < o.maxTokens) :
    StepTo bs o s rest' ⟨.cdata, [], b, [], s.stack.length⟩ s.stack := by
  have hr : s.cur.rest = lead ++ 0x3C :: 0x21 :: 0x5B :: 0x43 :: 0x44 :: 0x41 :: 0x54 :: 0x41 :: 0x5B :: ((b ++ cdataEnd) ++ rest') := by
    rw [hrest]; simp [CItem.render, cdataOpen]
  have hf : findSub [0x5D, 0x5D, 0x3E] ((b ++ cdataEnd) ++ rest') = some b.length := findSub_append _ _ _ _ hwf
  have := next_cdata bs o s lead _ hi hlead hr hbud
  rw [hf] at this
  obtain ⟨t, s', h1, h2, h3⟩ := this
  have e1 : ((b ++ cdataEnd) ++ rest').take b.length = b := by rw [List.append_assoc]; exact take_append_len _ _
  have e2 : ((b ++ cdataEnd) ++ rest').drop (b.length + 3) = rest' := by
    rw [List.append_assoc, drop_append_len]; simp [cdataEnd]
  rw [e1, e2] at h2
  exact h2.stepTo h1 rfl [] rfl

theorem step_comment (bs : Bytes) (o : Options) (s : St) (lead b rest' : Bytes) (hi : SkInv bs o s) (hlead : AllSpace lead)
    (hwf : (CItem.comment b).WF o) (hrest : s.cur.rest = lead ++ ((CItem.comment b).render ++ rest'))
    (hbud : o.maxTokens = 0 ∨ s.produced < o.maxTokens) :
    StepTo bs o s rest' ⟨.comment, [], b, [], s.stack.length⟩ s.stack := by
  have hr : s.cur.rest = lead ++ 0x3C :: 0x21 :: 0x2D :: 0x2D :: ((b ++ commentEnd) ++ rest') := by
    rw [hrest]; simp [CItem.render]
  have hf : findSub [0x2D, 0x2D, 0x3E] ((b ++ commentEnd) ++ rest') = some b.length := findSub_append _ _ _ _ hwf
  have := next_comment bs o s lead _ hi hlead hr hbud
  rw [hf] at this
  obtain ⟨t, s', h1, h2, h3⟩ := this
  have e1 : ((b ++ commentEnd) ++ rest').take b.length = b := by rw [List.append_assoc]; exact take_append_len _ _
  have e2 : ((b ++ commentEnd) ++ rest').drop (b.length + 3) = rest' := by
    rw [List.append_assoc, drop_append_len]; simp [commentEnd]
  rw [e1, e2] at h2
  exact h2.stepTo h1 rfl [] rfl

theorem step_pi (bs : Bytes) (o : Options) (s : St) (lead tg d rest' : Bytes) (hi : SkInv bs o s) (hlead : AllSpace lead)
    (hwf : (CItem.pi tg d).WF o) (hrest : s.cur.rest = lead ++ ((CItem.pi tg d).render ++ rest'))
    (hbud : o.maxTokens = 0 ∨ s.produced < o.maxTokens) :
    StepTo bs o s rest' ⟨.pi, tg, d, [], s.stack.length⟩ s.stack := by
  obtain ⟨hn, hnl, hsn, hfind⟩ := hwf
  have hr : s.cur.rest = lead ++ 0x3C :: 0x3F :: (tg ++ ((d ++ piEnd) ++ rest')) := by
    rw [hrest]; simp [CItem.render]
  have hf : findSub [0x3F, 0x3E] ((d ++ piEnd) ++ rest') = some d.length := findSub_append _ _ _ _ hfind
  have hsn' : StartsNon isNameChar ((d ++ piEnd) ++ rest') := by
    intro x r' hx
    cases hd : d ++ piEnd with
    | nil => cases d <;> simp [piEnd] at hd
    | cons y ys =>
      rw [hd] at hx
      simp only [List.cons_append, List.cons.injEq] at hx
      rw [← hx.1]
      exact hsn y ys hd
  have := next_pi bs o s lead tg _ hi hlead hn hnl hsn' hr hbud
  rw [hf] at this
  obtain ⟨t, s', h1, h2, h3, h4⟩ := this
  have e1 : ((d ++ piEnd) ++ rest').take d.length = d := by rw [List.append_assoc]; exact take_append_len _ _
  have e2 : ((d ++ piEnd) ++ rest').drop (d.length + 2) = rest' := by
    rw [List.append_assoc, drop_append_len]; simp [piEnd]
  rw [e1, e2] at h2
  exact h2.stepTo h1 rfl tg (by simp [Kind.hasName, h4])

theorem step_doctype (bs : Bytes) (o : Options) (s : St) (lead kw b rest' : Bytes) (hi : SkInv bs o s) (hlead : AllSpace lead)
    (hwf : (CItem.doctype kw b).WF o) (hrest : s.cur.rest = lead ++ ((CItem.doctype kw b).render ++ rest'))
    (hbud : o.maxTokens = 0 ∨ s.produced < o.maxTokens) :
    StepTo bs o s rest' ⟨.doctype, [], b, [], s.stack.length⟩ s.stack := by
  obtain ⟨hkw, hkwl, hscan, hbnd⟩ := hwf
  obtain ⟨x, d', hxd, hx⟩ : ∃ x d', (b ++ [0x3E]) ++ rest' = x :: d' ∧ (isSpace x || x = 0x3E || x = 0x5B) = true := by
    cases b with
    | nil => exact ⟨0x3E, rest', rfl, by decide⟩
    | cons y ys =>
      refine ⟨y, (ys ++ [0x3E]) ++ rest', by simp, ?_⟩
      have := hbnd y ys rfl
      simp only [Bool.or_eq_true] at this ⊢
      rcases this with h | h
      · exact Or.inl (Or.inl h)
      · exact Or.inr h
  have hr : s.cur.rest = lead ++ 0x3C :: 0x21 :: (kw ++ x :: d') := by
    rw [hrest, ← hxd]; simp [CItem.render]
  have hf : doctypeScan (x :: d') 0 = some b.length := by rw [← hxd]; exact doctypeScan_append _ _ _ _ hscan
  have := next_doctype bs o s lead kw d' x hi hlead hkw hkwl hx hr hbud
  rw [hf] at this
  obtain ⟨t, s', h1, h2, h3⟩ := this
  have e1 : (x :: d').take b.length = b := by rw [← hxd, List.append_assoc]; exact take_append_len _ _
  have e2 : (x :: d').drop (b.length + 1) = rest' := by
    rw [← hxd, List.append_assoc, drop_append_len]; simp
  rw [e1, e2] at h2
  exact h2.stepTo h1 rfl [] rfl

theorem step_text (bs : Bytes) (o : Options) (s : St) (raw rest' : Bytes) (hi : SkInv bs o s)
    (hwf : (CItem.text raw).WF o) (hafter : StartsNon notLt rest') (hrest : s.cur.rest = raw ++ rest')
    (hbud : o.maxTokens = 0 ∨ s.produced < o.maxTokens) :
    StepTo bs o s rest' ⟨.text, [], raw, [], s.stack.length⟩ s.stack := by
  obtain ⟨h1, h2, h3⟩ := hwf
  obtain ⟨t, s', hn, hc, _⟩ := next_text bs o s raw rest' hi h1 h2 hafter hrest hbud h3
  exact hc.stepTo hn rfl [] rfl

theorem step_open (bs : Bytes) (o : Options) (s : St) (lead n ws rest : Bytes) (as : List FAttr) (sc : Bool)
    (hi : SkInv bs o s) (hlead : AllSpace lead) (hwf : (Item.WF o (if sc then .empty n as ws else .start n as ws)))
    (hrest : s.cur.rest = lead ++ ((if sc then Item.empty n as ws else Item.start n as ws).render ++ rest))
    (hbud : o.maxTokens = 0 ∨ s.produced < o.maxTokens) (hdepth : s.stack.length + 1 ≤ o.maxDepth) :
    StepTo bs o s rest ⟨if sc then .emptyElement else .startElement, n, [], as.map (fun a => (a.name, a.value)), s.stack.length + 1⟩
      (if sc then s.stack else n :: s.stack) := by
  have hwf' : ValidName n ∧ n.length ≤ o.maxName ∧ (∀ a ∈ as, a.WF o) ∧ as.length ≤ o.maxAttrs ∧ AllSpace ws := by
    cases sc <;> simpa [Item.WF] using hwf
  obtain ⟨hn, hnl, has, hasl, hws⟩ := hwf'
  have hrest' : s.cur.rest = lead ++ (0x3C :: (n ++ (renderAttrs as ++ (ws ++ (if sc then 0x2F :: 0x3E :: rest else 0x3E :: rest))))) := by
    rw [hrest]; cases sc <;> simp [Item.render]
  obtain ⟨t, s', hnx, hr', hi', hp', hv, hst⟩ := next_open bs o s lead n ws rest as sc hi hlead hn hnl has hasl hws hrest' hbud hdepth
  refine ⟨t, s', hnx, hr', hi', hp', hst, ?_⟩
  exact step_tag_view hv (by cases sc <;> simp [Kind.hasName, Kind.hasText])

theorem step_close (bs : Bytes) (o : Options) (s : St) (lead n ws rest : Bytes) (below : List Bytes)
    (hi : SkInv bs o s) (hlead : AllSpace lead) (hwf : Item.WF o (.close n ws))
    (hrest : s.cur.rest = lead ++ ((Item.close n ws).render ++ rest))
    (hbud : o.maxTokens = 0 ∨ s.produced < o.maxTokens) (hstack : s.stack = n :: below) :
    StepTo bs o s rest ⟨.endElement, n, [], [], s.stack.length⟩ below := by
  obtain ⟨hn, hnl, hws⟩ := hwf
  have hrest' : s.cur.rest = lead ++ (0x3C :: 0x2F :: (n ++ (ws ++ 0x3E :: rest))) := by
    rw [hrest]; simp [Item.render]
  obtain ⟨t, s', hnx, hr', hi', hp', hv, hst⟩ := next_close bs o s lead n ws rest below hi hlead hn hnl hws hrest' hbud hstack
  exact ⟨t, s', hnx, hr', hi', hp', hst, step_tag_view hv (by simp [Kind.hasName, Kind.hasText])⟩

/-- only trailing white space is left: no further token; Eof when nothing is open -/
theorem runC_at_end (bs : Bytes) (o : Options) (fuel : Nat) (s : St) (trail : Bytes) (hi : SkInv bs o s) (htrail : AllSpace trail)
    (hrest : s.cur.rest = trail) (hbud : o.maxTokens = 0 ∨ s.produced < o.maxTokens) :
    (runC o (fuel + 1) s).1 = [] ∧ (s.stack = [] → ∃ t s', (runC o (fuel + 1) s).2 = .accepted t s') := by
  refine ⟨?_, ?_⟩
  · simp only [runC]
    cases hn : nextC o s with
    | tok t s' =>
      exfalso
      by_cases hst : s.stack = []
      · obtain ⟨t', s'', he⟩ := next_eof o s trail htrail hrest hbud hst
        rw [he] at hn; cases hn
      · unfold nextC at hn
        simp only [budget_ok hbud, ↓reduceIte] at hn
        obtain ⟨c, h1, h2, h3⟩ := skipWs_eval_eof hrest htrail
        have hne : (!s.stack.isEmpty) = true := by
          cases hs : s.stack with
          | nil => exact (hst hs).elim
          | cons _ _ => rfl
        simp only [h1, Res.toStep, h2, emitEof, hne, ↓reduceIte] at hn
        cases hn
    | eof t s' => simp
    | err e c => simp
    | bad b => simp
  · intro hfin
    obtain ⟨t, s', he⟩ := next_eof o s trail htrail hrest hbud hfin
    simp only [runC, he]
    exact ⟨t, s', rfl⟩

theorem run_cons_of_step {bs : Bytes} {o : Options} {fuel : Nat} {s : St} {rest' : Bytes} {v : CView} {vs' : List CView}
    {fin stack' : List Bytes} (h : StepTo bs o s rest' v stack')
    (ih : ∀ s' : St, SkInv bs o s' → s'.cur.rest = rest' → s'.produced = s.produced + 1 → s'.stack = stack' →
      (runC o fuel s').1.map (Token.cview bs) = vs' ∧ (fin = [] → ∃ t s'', (runC o fuel s').2 = .accepted t s'')) :
    (runC o (fuel + 1) s).1.map (Token.cview bs) = v :: vs' ∧ (fin = [] → ∃ t s', (runC o (fuel + 1) s).2 = .accepted t s') := by
  obtain ⟨t, s', hnx, hr', hi', hp', hst, hv⟩ := h
  have := ih s' hi' hr' hp' hst
  simp only [runC, hnx]
  exact ⟨by simp [hv, this.1], this.2⟩

/-- **faithfulness, run level, every node kind**: from a state standing before the rendered constructs, the run reports exactly the
events they stand for, and accepts when they close everything -/
theorem run_items (bs : Bytes) (o : Options) : ∀ (ps : List CPiece) (fuel : Nat) (s : St) (trail : Bytes)
    (vs : List CView) (fin : List Bytes), SkInv bs o s → (∀ p ∈ ps, p.WF o) → TextOk ps trail → AllSpace trail →
    s.cur.rest = renderC ps ++ trail → ps.length < fuel → (o.maxTokens = 0 ∨ s.produced + ps.length < o.maxTokens) →
    specRunC o s.stack ps = some (vs, fin) →
    (runC o fuel s).1.map (Token.cview bs) = vs ∧ (fin = [] → ∃ t s', (runC o fuel s).2 = .accepted t s') := by
  intro ps
  induction ps with
  | nil =>
    intro fuel s trail vs fin hi _ _ htrail hrest hfuel hbud hspec
    simp only [specRunC, Option.some.injEq, Prod.mk.injEq] at hspec
    obtain ⟨rfl, rfl⟩ := hspec
    cases fuel with
    | zero => simp at hfuel
    | succ fuel =>
      simp only [renderC, List.nil_append] at hrest
      have := runC_at_end bs o fuel s trail hi htrail hrest (by rcases hbud with h | h; exact Or.inl h; exact Or.inr (by simpa using h))
      exact ⟨by rw [this.1]; rfl, this.2⟩
  | cons p ps ih =>
    intro fuel s trail vs fin hi hwf htext htrail hrest hfuel hbud hspec
    cases fuel with
    | zero => simp at hfuel
    | succ fuel =>
      have hp := hwf p (by simp)
      have hbud1 : o.maxTokens = 0 ∨ s.produced < o.maxTokens := by
        rcases hbud with h | h
        · exact Or.inl h
        · right; simp at h; omega
      have hbud' : ∀ s' : St, s'.produced = s.produced + 1 → (o.maxTokens = 0 ∨ s'.produced + ps.length < o.maxTokens) := by
        intro s' hs'
        rcases hbud with h | h
        · exact Or.inl h
        · right; simp at h; omega
      simp only [renderC, List.append_assoc] at hrest
      obtain ⟨htx, htext'⟩ := htext
      -- the continuation, whatever the stack after this step is
      have cont : ∀ (stack' : List Bytes) (vs' : List CView), specRunC o stack' ps = some (vs', fin) →
          ∀ s' : St, SkInv bs o s' → s'.cur.rest = renderC ps ++ trail → s'.produced = s.produced + 1 → s'.stack = stack' →
          (runC o fuel s').1.map (Token.cview bs) = vs' ∧ (fin = [] → ∃ t s'', (runC o fuel s').2 = .accepted t s'') := by
        intro stack' vs' hsp s' hi' hr' hp' hst
        exact ih fuel s' trail vs' fin hi' (fun q hq => hwf q (by simp [hq])) htext' htrail hr' (by simp at hfuel; omega)
          (hbud' s' hp') (by rw [hst]; exact hsp)
      obtain ⟨lead, item⟩ := p
      obtain ⟨hlead, hitem⟩ := hp
      simp only at hlead hitem hrest htx
      simp only [specRunC] at hspec
      cases item with
      | tag it =>
        cases it with
        | start n as ws =>
          simp only at hspec
          split at hspec
          · rename_i hdepth
            split at hspec
            · rename_i vs' fin' hsp
              simp only [Option.some.injEq, Prod.mk.injEq] at hspec
              obtain ⟨rfl, rfl⟩ := hspec
              have hst := step_open bs o s lead n ws (renderC ps ++ trail) as false hi hlead hitem hrest hbud1 hdepth
              exact run_cons_of_step hst (cont _ _ hsp)
            · cases hspec
          · cases hspec
        | empty n as ws =>
          simp only at hspec
          split at hspec
          · rename_i hdepth
            split at hspec
            · rename_i vs' fin' hsp
              simp only [Option.some.injEq, Prod.mk.injEq] at hspec
              obtain ⟨rfl, rfl⟩ := hspec
              have hst := step_open bs o s lead n ws (renderC ps ++ trail) as true hi hlead hitem hrest hbud1 hdepth
              exact run_cons_of_step hst (cont _ _ hsp)
            · cases hspec
          · cases hspec
        | close n ws =>
          simp only at hspec
          split at hspec
          · rename_i top below hstack
            split at hspec
            · rename_i htop
              subst htop
              split at hspec
              · rename_i vs' fin' hsp
                simp only [Option.some.injEq, Prod.mk.injEq] at hspec
                obtain ⟨rfl, rfl⟩ := hspec
                have hst := step_close bs o s lead top ws (renderC ps ++ trail) below hi hlead hitem hrest hbud1 hstack
                exact run_cons_of_step hst (cont _ _ hsp)
              · cases hspec
            · cases hspec
          · cases hspec
      | text raw =>
        obtain ⟨hl0, hafter⟩ := htx rfl
        subst hl0
        simp only [List.nil_append, CItem.render] at hrest
        cases hsp : specRunC o s.stack ps with
        | none => rw [hsp] at hspec; simp at hspec
        | some pr =>
          obtain ⟨vs', fin'⟩ := pr
          rw [hsp] at hspec
          simp only [Option.map_some, Option.some.injEq, Prod.mk.injEq] at hspec
          obtain ⟨rfl, rfl⟩ := hspec
          exact run_cons_of_step (step_text bs o s raw _ hi hitem hafter hrest hbud1) (cont _ _ hsp)
      | cdata b =>
        cases hsp : specRunC o s.stack ps with
        | none => rw [hsp] at hspec; simp at hspec
        | some pr =>
          obtain ⟨vs', fin'⟩ := pr
          rw [hsp] at hspec
          simp only [Option.map_some, Option.some.injEq, Prod.mk.injEq] at hspec
          obtain ⟨rfl, rfl⟩ := hspec
          exact run_cons_of_step (step_cdata bs o s lead b _ hi hlead hitem hrest hbud1) (cont _ _ hsp)
      | comment b =>
        cases hsp : specRunC o s.stack ps with
        | none => rw [hsp] at hspec; simp at hspec
        | some pr =>
          obtain ⟨vs', fin'⟩ := pr
          rw [hsp] at hspec
          simp only [Option.map_some, Option.some.injEq, Prod.mk.injEq] at hspec
          obtain ⟨rfl, rfl⟩ := hspec
          exact run_cons_of_step (step_comment bs o s lead b _ hi hlead hitem hrest hbud1) (cont _ _ hsp)
      | pi tg d =>
        cases hsp : specRunC o s.stack ps with
        | none => rw [hsp] at hspec; simp at hspec
        | some pr =>
          obtain ⟨vs', fin'⟩ := pr
          rw [hsp] at hspec
          simp only [Option.map_some, Option.some.injEq, Prod.mk.injEq] at hspec
          obtain ⟨rfl, rfl⟩ := hspec
          exact run_cons_of_step (step_pi bs o s lead tg d _ hi hlead hitem hrest hbud1) (cont _ _ hsp)
      | doctype kw b =>
        cases hsp : specRunC o s.stack ps with
        | none => rw [hsp] at hspec; simp at hspec
        | some pr =>
          obtain ⟨vs', fin'⟩ := pr
          rw [hsp] at hspec
          simp only [Option.map_some, Option.some.injEq, Prod.mk.injEq] at hspec
          obtain ⟨rfl, rfl⟩ := hspec
          exact run_cons_of_step (step_doctype bs o s lead kw b _ hi hlead hitem hrest hbud1) (cont _ _ hsp)

theorem renderC_length : ∀ ps : List CPiece, (∀ p ∈ ps, p.WF o) → ps.length ≤ (renderC ps).length := by
  intro ps
  induction ps with
  | nil => intro _; simp
  | cons p r ih =>
    intro hwf
    have hr := ih (fun q hq => hwf q (by simp [hq]))
    have hp := (hwf p (by simp)).2
    have : 1 ≤ p.item.render.length := by
      obtain ⟨lead, item⟩ := p
      cases item with
      | tag it => cases it <;> simp [CItem.render, Item.render]
      | text raw =>
        obtain ⟨_, ⟨x, hx, _⟩, _⟩ := hp
        cases raw with
        | nil => simp at hx
        | cons _ _ => simp [CItem.render]
      | cdata b => simp [CItem.render, cdataOpen]
      | comment b => simp [CItem.render]
      | pi t d => simp [CItem.render]
      | doctype kw b => simp [CItem.render]
    simp [renderC]; omega

/-- **X7 for whole documents with every node kind** (closed-form tokenizer) -/
theorem content_faithful (o : Options) (ps : List CPiece) (trail : Bytes) (vs : List CView)
    (hwf : ∀ p ∈ ps, p.WF o) (htext : TextOk ps trail) (htrail : AllSpace trail)
    (hbud : o.maxTokens = 0 ∨ ps.length < o.maxTokens) (hspec : specRunC o [] ps = some (vs, [])) :
    (tokensC o (renderC ps ++ trail)).1.map (Token.cview (renderC ps ++ trail)) = vs ∧
    ∃ t s, (tokensC o (renderC ps ++ trail)).2 = .accepted t s := by
  have := run_items (renderC ps ++ trail) o ps ((renderC ps ++ trail).length + 2) (St.init _) trail vs []
    ⟨Cur.init_at _, rfl⟩ hwf htext htrail rfl (by have := renderC_length (o := o) ps hwf; simp; omega)
    (by simpa [St.init] using hbud) hspec
  exact ⟨this.1, this.2 rfl⟩

/-! ### document trees with every node kind -/

/-- a document tree together with every formatting choice made when writing it -/
inductive CElem where
  | node (lead name : Bytes) (attrs : List FAttr) (ws : Bytes) (children : List CElem) (leadEnd wsEnd : Bytes)
  | leaf (lead name : Bytes) (attrs : List FAttr) (ws : Bytes)
  | text (raw : Bytes)
  | cdata (lead body : Bytes)
  | comment (lead body : Bytes)
  | pi (lead target data : Bytes)
  | doctype (lead kw body : Bytes)

mutual
  /-- the constructs of a node in document order -/
  def CElem.pieces : CElem → List CPiece
    | .node lead n as ws ch le we => ⟨lead, .tag (.start n as ws)⟩ :: (cpiecesList ch ++ [⟨le, .tag (.close n we)⟩])
    | .leaf lead n as ws => [⟨lead, .tag (.empty n as ws)⟩]
    | .text raw => [⟨[], .text raw⟩]
    | .cdata lead b => [⟨lead, .cdata b⟩]
    | .comment lead b => [⟨lead, .comment b⟩]
    | .pi lead t d => [⟨lead, .pi t d⟩]
    | .doctype lead kw b => [⟨lead, .doctype kw b⟩]
  def cpiecesList : List CElem → List CPiece
    | [] => []
    | e :: r => e.pieces ++ cpiecesList r
end

mutual
  /-- the events a node stands for when it is a child of an element at depth `d - 1` (`d = 1`: top level) -/
  def CElem.events (d : Nat) : CElem → List CView
    | .node _ n as _ ch _ _ => ⟨.startElement, n, [], attrsView as, d⟩ :: (ceventsList (d + 1) ch ++ [⟨.endElement, n, [], [], d⟩])
    | .leaf _ n as _ => [⟨.emptyElement, n, [], attrsView as, d⟩]
    | .text raw => [⟨.text, [], raw, [], d - 1⟩]
    | .cdata _ b => [⟨.cdata, [], b, [], d - 1⟩]
    | .comment _ b => [⟨.comment, [], b, [], d - 1⟩]
    | .pi _ t dd => [⟨.pi, t, dd, [], d - 1⟩]
    | .doctype _ _ b => [⟨.doctype, [], b, [], d - 1⟩]
  def ceventsList (d : Nat) : List CElem → List CView
    | [] => []
    | e :: r => e.events d ++ ceventsList d r
end

mutual
  def CElem.height : CElem → Nat
    | .node _ _ _ _ ch _ _ => 1 + cheightList ch
    | .leaf _ _ _ _ => 1
    | _ => 0
  def cheightList : List CElem → Nat
    | [] => 0
    | e :: r => max e.height (cheightList r)
end

mutual
  /-- every construct of the tree is within the supported subset and the limits -/
  def CElem.WF (o : Options) : CElem → Prop
    | .node lead n as ws ch le we =>
      AllSpace lead ∧ ValidName n ∧ n.length ≤ o.maxName ∧ (∀ a ∈ as, a.WF o) ∧ as.length ≤ o.maxAttrs ∧ AllSpace ws ∧
      CWFList o ch ∧ AllSpace le ∧ AllSpace we
    | .leaf lead n as ws =>
      AllSpace lead ∧ ValidName n ∧ n.length ≤ o.maxName ∧ (∀ a ∈ as, a.WF o) ∧ as.length ≤ o.maxAttrs ∧ AllSpace ws
    | .text raw => (CItem.text raw).WF o
    | .cdata lead b => AllSpace lead ∧ (CItem.cdata b).WF o
    | .comment lead b => AllSpace lead ∧ (CItem.comment b).WF o
    | .pi lead t d => AllSpace lead ∧ (CItem.pi t d).WF o
    | .doctype lead kw b => AllSpace lead ∧ (CItem.doctype kw b).WF o
  def CWFList (o : Options) : List CElem → Prop
    | [] => True
    | e :: r => e.WF o ∧ CWFList o r
end

/-- prepend events to a `specRunC` result -/
def preC (vs : List CView) (r : Option (List CView × List Bytes)) : Option (List CView × List Bytes) :=
  match r with
  | some (ws, fin) => some (vs ++ ws, fin)
  | none => none

theorem preC_preC (a b : List CView) (r) : preC a (preC b r) = preC (a ++ b) r := by
  cases r with
  | none => rfl
  | some p => obtain ⟨ws, fin⟩ := p; simp [preC]

theorem preC_nil (r) : preC [] r = r := by
  cases r with
  | none => rfl
  | some p => obtain ⟨ws, fin⟩ := p; simp [preC]

theorem map_preC (v : CView) (r : Option (List CView × List Bytes)) :
    (r.map fun (vs, fin) => (v :: vs, fin)) = preC [v] r := by
  cases r with
  | none => rfl
  | some p => obtain ⟨ws, fin⟩ := p; simp [preC]

mutual
  theorem cspec_elem (o : Options) : ∀ (e : CElem) (st : List Bytes) (rest : List CPiece), st.length + e.height ≤ o.maxDepth →
      specRunC o st (e.pieces ++ rest) = preC (e.events (st.length + 1)) (specRunC o st rest)
    | .node lead n as ws ch le we, st, rest, h => by
      simp only [CElem.height] at h
      simp only [CElem.pieces, List.cons_append, List.append_assoc, specRunC]
      have hd : st.length + 1 ≤ o.maxDepth := by omega
      simp only [hd, ↓reduceIte]
      rw [cspec_list o ch (n :: st) _ (by simp; omega)]
      simp only [List.nil_append, specRunC, ↓reduceIte, List.length_cons]
      cases hr : specRunC o st rest with
      | none => simp [preC]
      | some p => obtain ⟨ws', fin⟩ := p; simp [preC, CElem.events, attrsView]
    | .leaf lead n as ws, st, rest, h => by
      simp only [CElem.height] at h
      simp only [CElem.pieces, List.cons_append, List.nil_append, specRunC]
      have hd : st.length + 1 ≤ o.maxDepth := by omega
      simp only [hd, ↓reduceIte]
      cases hr : specRunC o st rest with
      | none => simp [preC]
      | some p => obtain ⟨ws', fin⟩ := p; simp [preC, CElem.events, attrsView]
    | .text raw, st, rest, _ => by
      simp only [CElem.pieces, List.cons_append, List.nil_append, specRunC, map_preC, CElem.events, Nat.add_sub_cancel]
    | .cdata lead b, st, rest, _ => by
      simp only [CElem.pieces, List.cons_append, List.nil_append, specRunC, map_preC, CElem.events, Nat.add_sub_cancel]
    | .comment lead b, st, rest, _ => by
      simp only [CElem.pieces, List.cons_append, List.nil_append, specRunC, map_preC, CElem.events, Nat.add_sub_cancel]
    | .pi lead t d, st, rest, _ => by
      simp only [CElem.pieces, List.cons_append, List.nil_append, specRunC, map_preC, CElem.events, Nat.add_sub_cancel]
    | .doctype lead kw b, st, rest, _ => by
      simp only [CElem.pieces, List.cons_append, List.nil_append, specRunC, map_preC, CElem.events, Nat.add_sub_cancel]
  theorem cspec_list (o : Options) : ∀ (es : List CElem) (st : List Bytes) (rest : List CPiece), st.length + cheightList es ≤ o.maxDepth →
      specRunC o st (cpiecesList es ++ rest) = preC (ceventsList (st.length + 1) es) (specRunC o st rest)
    | [], st, rest, _ => by simp [cpiecesList, ceventsList, preC_nil]
    | e :: r, st, rest, h => by
      simp only [cheightList] at h
      simp only [cpiecesList, List.append_assoc, ceventsList]
      rw [cspec_elem o e st _ (by omega), cspec_list o r st rest (by omega), preC_preC]
end

mutual
  theorem cpieces_wf (o : Options) : ∀ (e : CElem), e.WF o → ∀ p ∈ e.pieces, p.WF o
    | .node lead n as ws ch le we, h, p, hp => by
      simp only [CElem.WF] at h
      obtain ⟨h1, h2, h3, h4, h5, h6, h7, h8, h9⟩ := h
      simp only [CElem.pieces, List.mem_cons, List.mem_append, List.mem_nil_iff, or_false] at hp
      rcases hp with rfl | hp | rfl
      · exact ⟨h1, h2, h3, h4, h5, h6⟩
      · exact cpiecesList_wf o ch h7 p hp
      · exact ⟨h8, h2, h3, h9⟩
    | .leaf lead n as ws, h, p, hp => by
      simp only [CElem.WF] at h
      simp only [CElem.pieces, List.mem_cons, List.mem_nil_iff, or_false] at hp
      subst hp
      exact ⟨h.1, h.2.1, h.2.2.1, h.2.2.2.1, h.2.2.2.2.1, h.2.2.2.2.2⟩
    | .text raw, h, p, hp => by
      simp only [CElem.pieces, List.mem_cons, List.mem_nil_iff, or_false] at hp
      subst hp
      exact ⟨by intro x hx; simp at hx, h⟩
    | .cdata lead b, h, p, hp => by
      simp only [CElem.pieces, List.mem_cons, List.mem_nil_iff, or_false] at hp
      subst hp
      exact h
    | .comment lead b, h, p, hp => by
      simp only [CElem.pieces, List.mem_cons, List.mem_nil_iff, or_false] at hp
      subst hp
      exact h
    | .pi lead t d, h, p, hp => by
      simp only [CElem.pieces, List.mem_cons, List.mem_nil_iff, or_false] at hp
      subst hp
      exact h
    | .doctype lead kw b, h, p, hp => by
      simp only [CElem.pieces, List.mem_cons, List.mem_nil_iff, or_false] at hp
      subst hp
      exact h
  theorem cpiecesList_wf (o : Options) : ∀ (es : List CElem), CWFList o es → ∀ p ∈ cpiecesList es, p.WF o
    | [], _, p, hp => by simp [cpiecesList] at hp
    | e :: r, h, p, hp => by
      simp only [CWFList] at h
      simp only [cpiecesList, List.mem_append] at hp
      rcases hp with hp | hp
      · exact cpieces_wf o e h.1 p hp
      · exact cpiecesList_wf o r h.2 p hp
end

/-- the document a forest of trees is written as -/
def renderDoc (es : List CElem) (trail : Bytes) : Bytes := renderC (cpiecesList es) ++ trail

/-- **X7 for document trees with every node kind** (closed-form tokenizer) -/
theorem doc_faithful (o : Options) (es : List CElem) (trail : Bytes) (hwf : CWFList o es)
    (htext : TextOk (cpiecesList es) trail) (htrail : AllSpace trail)
    (hh : cheightList es ≤ o.maxDepth) (hbud : o.maxTokens = 0 ∨ (cpiecesList es).length < o.maxTokens) :
    (tokensC o (renderDoc es trail)).1.map (Token.cview (renderDoc es trail)) = ceventsList 1 es ∧
    ∃ t s, (tokensC o (renderDoc es trail)).2 = .accepted t s := by
  have hspec : specRunC o [] (cpiecesList es) = some (ceventsList 1 es, []) := by
    have := cspec_list o es [] [] (by simpa using hh)
    simpa [specRunC, preC] using this
  exact content_faithful o (cpiecesList es) trail _ (cpiecesList_wf o es hwf) htext htrail hbud hspec

end Iora.Xml
