import IoraModel.Model.Assets
/-!
C20: the read loop of `Assets::readFile` — for EVERY way the kernel may cut a file into reads (full buffers, short reads,
`EINTR` failures in between) the loop returns the concatenation of the bytes it was given; and what the model of `readFile`
therefore is on a file at rest.
-/
namespace Iora.Assets
open Iora

/-- the answers before the final `n == 0`: only data and retry-errno failures -/
def ReadEv.benign : ReadEv → Bool
  | .data _ => true
  | .eintr => true
  | _ => false

/-- the bytes a list of answers carries -/
def dataOf : List ReadEv → Bytes
  | [] => []
  | .data b :: rest => b ++ dataOf rest
  | _ :: rest => dataOf rest

theorem gen_read_facts : Gen.Assets.readAccumulate = "append" ∧ loopAct Gen.Assets.readAtEof = .brk ∧
    loopAct Gen.Assets.readAtRetryErrno = .cont ∧ loopAct Gen.Assets.readAtError = .fail ∧ 0 < Gen.Assets.readBufSize := by decide

/-- **the loop returns the concatenation** of everything read before the first `n == 0`, whatever the chunking and however
many `EINTR`s were interleaved; what comes after the EOF answer is never looked at -/
theorem readLoop_benign (pre : List ReadEv) (h : ∀ e ∈ pre, e.benign = true) (acc : Bytes) (rest : List ReadEv) :
    readLoop acc (pre ++ .eof :: rest) = some (acc ++ dataOf pre) := by
  obtain ⟨hA, hE, hR, _, _⟩ := gen_read_facts
  induction pre generalizing acc with
  | nil => simp [readLoop, hE, dataOf]
  | cons e pre ih =>
    have ih' := ih (fun e he => h e (List.mem_cons_of_mem _ he))
    cases e with
    | data b => simp [readLoop, hA, ih', dataOf, List.append_assoc]
    | eintr => simp [readLoop, hR, ih', dataOf]
    | eof => exact absurd (h _ (List.mem_cons_self ..)) (by simp [ReadEv.benign])
    | err => exact absurd (h _ (List.mem_cons_self ..)) (by simp [ReadEv.benign])

/-- an error other than the retry errno before the EOF: the loop gives up (`nullopt`), nothing partial is returned -/
theorem readLoop_error (pre : List ReadEv) (h : ∀ e ∈ pre, e.benign = true) (acc : Bytes) (rest : List ReadEv) :
    readLoop acc (pre ++ .err :: rest) = none := by
  obtain ⟨hA, _, hR, hX, _⟩ := gen_read_facts
  induction pre generalizing acc with
  | nil => simp [readLoop, hX]
  | cons e pre ih =>
    have ih' := ih (fun e he => h e (List.mem_cons_of_mem _ he))
    cases e with
    | data b => simp [readLoop, hA, ih']
    | eintr => simp [readLoop, hR, ih']
    | eof => exact absurd (h _ (List.mem_cons_self ..)) (by simp [ReadEv.benign])
    | err => exact absurd (h _ (List.mem_cons_self ..)) (by simp [ReadEv.benign])

theorem chunksOf_flatten (n : Nat) (hn : 0 < n) : ∀ (f : Nat) (d : Bytes), d.length ≤ f → (chunksOf n f d).flatten = d := by
  intro f
  induction f with
  | zero => intro d hd; have : d = [] := List.length_eq_zero_iff.mp (by omega); subst this; simp [chunksOf]
  | succ f ih =>
    intro d hd
    unfold chunksOf
    by_cases he : d.isEmpty = true
    · have : d = [] := by simpa using he
      subst this; simp
    · simp only [he, Bool.false_eq_true, ↓reduceIte, List.flatten_cons]
      have hlen : 0 < d.length := by
        cases d with
        | nil => simp at he
        | cons _ _ => simp
      rw [ih (d.drop n) (by simp [List.length_drop]; omega), List.take_append_drop]

theorem dataOf_map_data (cs : List Bytes) : dataOf (cs.map .data) = cs.flatten := by
  induction cs with
  | nil => rfl
  | cons c cs ih => simp [dataOf, ih]

theorem benign_map_data (cs : List Bytes) : ∀ e ∈ cs.map ReadEv.data, e.benign = true := by
  intro e he
  obtain ⟨c, _, rfl⟩ := List.mem_map.mp he
  rfl

/-- on a file at rest the loop, fed by the kernel with the source's buffer size, returns the file's content -/
theorem readLoop_kernelReads (d : Bytes) : readLoop [] (kernelReads Gen.Assets.readBufSize d) = some d := by
  unfold kernelReads
  rw [readLoop_benign _ (benign_map_data _) [] [], dataOf_map_data,
    chunksOf_flatten _ gen_read_facts.2.2.2.2 _ _ (Nat.le_refl _)]
  simp

/-- the model of `readFile` on a file at rest, in closed form (what all containment lemmas use) -/
theorem readFile_eq (fs : Fs) (p : Bytes) :
    readFile fs p = (match kwalk fs (!Gen.Assets.openNoFollow) p with
      | .ok (_, .file d) => some d
      | _ => none) := by
  unfold readFile
  split <;> simp_all [readLoop_kernelReads]

end Iora.Assets
