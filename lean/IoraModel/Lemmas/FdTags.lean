import IoraModel.Model.FdTags
/-!
# The fd-tag map only ever points at the live owner of the fd (C02, review F6b)
-/
namespace Iora.FdTags

structure Inv (t : T) : Prop where
  /-- a tag points at a session that is in the map, open, and owns exactly this fd -/
  tag_live : ∀ fd sid, t.tags fd = some sid → ∃ s, t.sess sid = some s ∧ s.fd = fd ∧ s.closed = false
  /-- every open session owns an open fd and is tagged under it -/
  open_tagged : ∀ sid s, t.sess sid = some s → s.closed = false → t.kopen s.fd = true ∧ t.tags s.fd = some sid
  dom : ∀ sid s, t.sess sid = some s → sid ∈ t.keys

theorem upd_same {β : Type} (f : Nat → β) (k : Nat) (v : β) : upd f k v k = v := by simp [upd]
theorem upd_ne {β : Type} (f : Nat → β) (k x : Nat) (v : β) (h : x ≠ k) : upd f k v x = f x := by simp [upd, h]

theorem inv_init (e : Bool) : Inv { erases := e } :=
  ⟨by intro fd sid h; simp at h, by intro sid s h; simp at h, by intro sid s h; simp at h⟩

/-- a fresh session on an fd number the kernel has just handed out (not open before) -/
theorem inv_add {t t' : T} (h : Inv t) (sid : Sid) (fd : Fd) (hk : t.kopen fd = false) (hs : t.sess sid = none)
    (hsess : t'.sess = upd t.sess sid (some { fd := fd })) (htags : t'.tags = upd t.tags fd (some sid))
    (hko : t'.kopen = upd t.kopen fd true) (hkeys : t'.keys = sid :: t.keys) : Inv t' := by
  refine ⟨?_, ?_, ?_⟩
  · intro fd' sid' ht
    rw [htags] at ht
    by_cases hf : fd' = fd
    · rw [hf, upd_same] at ht
      cases ht
      exact ⟨{ fd := fd }, by rw [hsess, upd_same], hf.symm, rfl⟩
    · rw [upd_ne _ _ _ _ hf] at ht
      obtain ⟨s', hs', hfd, hc⟩ := h.tag_live fd' sid' ht
      have hne : sid' ≠ sid := by intro e; rw [e, hs] at hs'; cases hs'
      exact ⟨s', by rw [hsess, upd_ne _ _ _ _ hne]; exact hs', hfd, hc⟩
  · intro sid' s' hs' hc
    rw [hsess] at hs'
    by_cases he : sid' = sid
    · rw [he, upd_same] at hs'
      cases hs'
      exact ⟨by rw [hko, upd_same], by rw [htags, upd_same, he]⟩
    · rw [upd_ne _ _ _ _ he] at hs'
      obtain ⟨h1, h2⟩ := h.open_tagged sid' s' hs' hc
      have hf : s'.fd ≠ fd := by intro e; rw [e, hk] at h1; cases h1
      exact ⟨by rw [hko, upd_ne _ _ _ _ hf]; exact h1, by rw [htags, upd_ne _ _ _ _ hf]; exact h2⟩
  · intro sid' s' hs'
    rw [hkeys]
    rw [hsess] at hs'
    by_cases he : sid' = sid
    · rw [he]; exact List.mem_cons_self
    · rw [upd_ne _ _ _ _ he] at hs'
      exact List.mem_cons_of_mem _ (h.dom sid' s' hs')

theorem inv_insert {t : T} (h : Inv t) (sid : Sid) (fd : Fd) : Inv (step t (.insert sid fd)) := by
  simp only [step]
  by_cases hg : (t.kopen fd || (t.sess sid).isSome) = true
  · simp only [hg, if_true]; exact h
  · simp only [hg]
    have hk : t.kopen fd = false := by
      cases e : t.kopen fd with
      | false => rfl
      | true => simp [e] at hg
    have hs : t.sess sid = none := by
      cases e : t.sess sid with
      | none => rfl
      | some s => simp [e] at hg
    have htag : t.tags fd = none := by
      cases e : t.tags fd with
      | none => rfl
      | some sid' =>
        obtain ⟨s', hs', hfd, hc⟩ := h.tag_live fd sid' e
        have := (h.open_tagged sid' s' hs' hc).1
        rw [hfd, hk] at this; cases this
    simp only [htag, Option.isSome_none, Bool.false_eq_true, if_false]
    exact inv_add h sid fd hk hs rfl rfl rfl rfl

/-- closing one open session and dropping ITS tag keeps the invariant, whether the entry leaves the map (closeNow) or stays as closed
(the drain loop) -/
theorem inv_drop {t t' : T} (h : Inv t) (sid : Sid) (s : Sess) (hs : t.sess sid = some s) (hc : s.closed = false)
    (hsess : ∀ x, x ≠ sid → t'.sess x = t.sess x)
    (hself : t'.sess sid = none ∨ ∃ s', t'.sess sid = some s' ∧ s'.closed = true)
    (htags : t'.tags = upd t.tags s.fd none) (hko : t'.kopen = upd t.kopen s.fd false) (hkeys : t'.keys = t.keys) : Inv t' := by
  have hown := h.open_tagged sid s hs hc
  refine ⟨?_, ?_, ?_⟩
  · intro fd' sid' ht
    rw [htags] at ht
    by_cases hf : fd' = s.fd
    · rw [hf, upd_same] at ht; cases ht
    · rw [upd_ne _ _ _ _ hf] at ht
      obtain ⟨s', hs', hfd, hc'⟩ := h.tag_live fd' sid' ht
      have hne : sid' ≠ sid := by
        intro e; rw [e, hs] at hs'; cases hs'; exact hf hfd.symm
      exact ⟨s', by rw [hsess sid' hne]; exact hs', hfd, hc'⟩
  · intro sid' s' hs' hc'
    by_cases he : sid' = sid
    · subst he
      rcases hself with hn | ⟨s2, h2, hcl⟩
      · rw [hn] at hs'; cases hs'
      · rw [h2] at hs'; cases hs'; rw [hcl] at hc'; cases hc'
    · rw [hsess sid' he] at hs'
      obtain ⟨h1, h2⟩ := h.open_tagged sid' s' hs' hc'
      have hf : s'.fd ≠ s.fd := by
        intro e; rw [e, hown.2] at h2; cases h2; exact he rfl
      exact ⟨by rw [hko, upd_ne _ _ _ _ hf]; exact h1, by rw [htags, upd_ne _ _ _ _ hf]; exact h2⟩
  · intro sid' s' hs'
    rw [hkeys]
    by_cases he : sid' = sid
    · subst he; exact h.dom _ s hs
    · rw [hsess sid' he] at hs'; exact h.dom sid' s' hs'

theorem inv_closeNow {t : T} (h : Inv t) (sid : Sid) : Inv (step t (.closeNow sid)) := by
  simp only [step]
  cases hs : t.sess sid with
  | none => exact h
  | some s =>
    cases hc : s.closed with
    | true => simp only [hc, if_true]; exact h
    | false =>
      simp only [hc, Bool.false_eq_true, if_false]
      exact inv_drop h sid s hs hc (fun x hx => upd_ne _ _ _ _ hx) (Or.inl (upd_same _ _ _)) rfl rfl rfl

theorem inv_drainClose {t : T} (he : t.erases = true) (h : Inv t) (sid : Sid) : Inv (drainClose t sid) := by
  unfold drainClose
  cases hs : t.sess sid with
  | none => exact h
  | some s =>
    cases hc : s.closed with
    | true => simp only [hc, if_true]; exact h
    | false =>
      simp only [hc, Bool.false_eq_true, if_false, he, if_true]
      exact inv_drop h sid s hs hc (fun x hx => upd_ne _ _ _ _ hx)
        (Or.inr ⟨{ s with closed := true }, upd_same _ _ _, rfl⟩) rfl rfl rfl

theorem drainClose_frame (t : T) (sid : Sid) :
    (drainClose t sid).keys = t.keys ∧ (drainClose t sid).erases = t.erases ∧
    (∀ x s, t.sess x = some s → s.closed = true → (drainClose t sid).sess x = some s) ∧
    (∀ x, t.sess x = none → (drainClose t sid).sess x = none) ∧
    (∀ s, (drainClose t sid).sess sid = some s → s.closed = true) := by
  cases hs : t.sess sid with
  | none =>
    have e : drainClose t sid = t := by unfold drainClose; simp [hs]
    rw [e]
    exact ⟨rfl, rfl, fun _ _ h _ => h, fun _ h => h, by intro s h; rw [hs] at h; cases h⟩
  | some s0 =>
    cases hc : s0.closed with
    | true =>
      have e : drainClose t sid = t := by unfold drainClose; simp [hs, hc]
      rw [e]
      exact ⟨rfl, rfl, fun _ _ h _ => h, fun _ h => h, by intro s h; rw [hs] at h; cases h; exact hc⟩
    | false =>
      unfold drainClose
      simp only [hs, hc, Bool.false_eq_true, if_false]
      refine ⟨trivial, trivial, ?_, ?_, ?_⟩
      · intro x s hx hcl
        have : x ≠ sid := by intro e; rw [e, hs] at hx; cases hx; rw [hc] at hcl; cases hcl
        rw [upd_ne _ _ _ _ this]; exact hx
      · intro x hx
        have : x ≠ sid := by intro e; rw [e, hs] at hx; cases hx
        rw [upd_ne _ _ _ _ this]; exact hx
      · intro s h; rw [upd_same] at h; cases h; rfl

/-- the session loop of the drain: the invariant survives, and every listed session ends up closed -/
theorem inv_drainLoop (l : List Sid) {t : T} (he : t.erases = true) (h : Inv t) :
    Inv (l.foldl drainClose t) ∧ (l.foldl drainClose t).keys = t.keys ∧
    (∀ x, t.sess x = none → (l.foldl drainClose t).sess x = none) ∧
    (∀ x s, t.sess x = some s → s.closed = true → (l.foldl drainClose t).sess x = some s) ∧
    (∀ x, x ∈ l → ∀ s, (l.foldl drainClose t).sess x = some s → s.closed = true) := by
  induction l generalizing t with
  | nil => exact ⟨h, rfl, fun _ h => h, fun _ _ h _ => h, by intro x hx; cases hx⟩
  | cons a r ih =>
    have hf := drainClose_frame t a
    have := ih (t := drainClose t a) (by rw [hf.2.1]; exact he) (inv_drainClose he h a)
    simp only [List.foldl_cons]
    refine ⟨this.1, this.2.1.trans hf.1, fun x hx => this.2.2.1 x (hf.2.2.2.1 x hx),
            fun x s hx hc => this.2.2.2.1 x s (hf.2.2.1 x s hx hc) hc, ?_⟩
    intro x hx s hs
    rcases List.mem_cons.1 hx with rfl | hr
    · cases e : (drainClose t x).sess x with
      | none => rw [this.2.2.1 x e] at hs; cases hs
      | some s1 =>
        have hc1 := hf.2.2.2.2 s1 e
        rw [this.2.2.2.1 x s1 e hc1] at hs; cases hs; exact hc1
    · exact this.2.2.2.2 x hr s hs

theorem inv_drain {t : T} (he : t.erases = true) (h : Inv t) : Inv (step t .drain) := by
  simp only [step]
  have hl := inv_drainLoop t.keys he h
  refine ⟨?_, by intro sid s hs; simp at hs, by intro sid s hs; simp at hs⟩
  intro fd sid ht
  obtain ⟨s, hs, _, hc⟩ := hl.1.tag_live fd sid ht
  have hk : sid ∈ t.keys := by rw [← hl.2.1]; exact hl.1.dom sid s hs
  have := hl.2.2.2.2 sid hk s hs
  rw [hc] at this; cases this

theorem step_erases (t : T) (op : Op) : (step t op).erases = t.erases := by
  cases op with
  | insert sid fd => simp only [step]; split <;> rfl
  | closeNow sid => simp only [step]; split <;> (try split) <;> rfl
  | drain =>
    simp only [step]
    exact (inv_drainLoop_erases t.keys t)
where
  inv_drainLoop_erases (l : List Sid) (t : T) : (l.foldl drainClose t).erases = t.erases := by
    induction l generalizing t with
    | nil => rfl
    | cons a r ih => simp only [List.foldl_cons]; rw [ih, (drainClose_frame t a).2.1]

theorem inv_step {t : T} (he : t.erases = true) (h : Inv t) (op : Op) : Inv (step t op) := by
  cases op with
  | insert sid fd => exact inv_insert h sid fd
  | closeNow sid => exact inv_closeNow h sid
  | drain => exact inv_drain he h

theorem inv_run (ops : List Op) {t : T} (he : t.erases = true) (h : Inv t) : Inv (run t ops) := by
  unfold run
  induction ops generalizing t with
  | nil => exact h
  | cons op r ih => exact ih (by rw [step_erases]; exact he) (inv_step he h op)

end Iora.FdTags
