import IoraModel.Lemmas.AssetsWc
/-!
C20: `Assets::fromDirectory` produces canonical absolute roots (`RootOK`), so the history theorem applies to every instance
the constructor returns.
-/
namespace Iora.Assets
open Iora

/-- the value `weakly_canonical` computes in case A: canonical prefix, then the remaining names without `.`, then a slash
iff the normal form says so -/
theorem wc_caseA_value (c : Bytes) (post : List Bytes) (tsl : Bool)
    (hall : ∀ n ∈ c :: post, IsName n ∧ n ≠ dotdot) (L : Loc) (hLok : LocOK L) :
    lexicallyNormal ((c :: post ++ (if tsl then [[]] else [])).foldl pathAppend (renderLoc L)) =
      renderAbs (L.reverse ++ (c :: post).filter keepName) ++
        (if (nfNames [] false (L.reverse ++ c :: post ++ (if tsl then [[]] else []))).2 &&
            !(L.reverse ++ (c :: post).filter keepName).isEmpty then [SLASH] else []) := by
  have hLr : ∀ n ∈ L.reverse, IsName n := fun n hn => (hLok n (List.mem_reverse.mp hn)).1.1
  have hM : ∀ n ∈ L.reverse ++ c :: post, IsName n := by
    intro n hn
    rcases List.mem_append.mp hn with hn | hn
    · exact hLr n hn
    · exact (hall n hn).1
  have hMdd : ∀ n ∈ L.reverse ++ c :: post, IsName n ∧ n ≠ dotdot := by
    intro n hn
    refine ⟨hM n hn, ?_⟩
    rcases List.mem_append.mp hn with hn | hn
    · exact (hLok n (List.mem_reverse.mp hn)).1.2.2
    · exact (hall n hn).2
  have hMne : L.reverse ++ c :: post ≠ [] := by simp
  rw [List.foldl_append, renderLoc_eq, foldl_pathAppend_names (c :: post) L.reverse hLr (fun n hn => (hall n hn).1),
    foldl_tail _ tsl hM hMne, lexicallyNormal_abs _ tsl hMdd hMne]
  have hN1 : (nfNames [] false (L.reverse ++ c :: post ++ (if tsl then [[]] else []))).1.reverse =
      L.reverse ++ (c :: post).filter keepName := by
    rw [nfNames_names]
    simp only [List.append_nil, List.reverse_reverse, List.filter_append]
    rw [filter_keep_plain L.reverse (fun n hn => ⟨hLr n hn, (hLok n (List.mem_reverse.mp hn)).1.2.1⟩),
      filter_keep_tl (if tsl then [[]] else []) (by intro e he; split at he <;> simp at he; exact he)]
    simp
  have hemp : (nfNames [] false (L.reverse ++ c :: post ++ (if tsl then [[]] else []))).1.isEmpty =
      (L.reverse ++ (c :: post).filter keepName).isEmpty := by
    rw [← hN1]
    cases (nfNames [] false (L.reverse ++ c :: post ++ (if tsl then [[]] else []))).1 <;> simp
  rw [hN1, hemp]

theorem kwalk_locOK (fs : Fs) (fol : Bool) (p : Bytes) (L : Loc) (e : Entry) (hcwd : LocOK fs.cwd)
    (h : kwalk fs fol p = .ok (L, e)) : LocOK L := by
  unfold kwalk at h
  simp only at h
  split at h
  · cases h
  split at h
  · cases h
  · refine walk_ok fs _ _ _ _ _ _ _ _ ?_ (comps_todoOK _ (cstr_no_nul p)) h
    split
    · exact locOK_nil
    · exact hcwd

theorem rootOK_of_loc (L : Loc) (h : LocOK L) : RootOK (renderLoc L) L.reverse :=
  ⟨rfl, fun n hn => h n (List.mem_reverse.mp hn)⟩

theorem sub_plain (sub : Bytes) (h1 : sub ≠ []) (h2 : SLASH ∉ sub) (h3 : (0 : UInt8) ∉ sub) (h4 : sub ≠ dot) (h5 : sub ≠ dotdot) :
    Plain sub ∧ (0 : UInt8) ∉ sub := ⟨⟨⟨h1, h2⟩, h4, h5⟩, h3⟩

/-- the root a sub-directory name is appended to, re-canonicalised by `weakly_canonical` (or kept when that fails) -/
theorem subroot_ok (fs : Fs) (L : Loc) (hL : LocOK L) (sub : Bytes) (hsub : Plain sub ∧ (0 : UInt8) ∉ sub) :
    ∃ bn, RootOK (match weaklyCanonical fs (pathAppend (renderLoc L) sub) with
                  | .ok r => r
                  | .error _ => pathAppend (renderLoc L) sub) bn := by
  have hLr : ∀ n ∈ L.reverse, IsName n := fun n hn => (hL n (List.mem_reverse.mp hn)).1.1
  have hs : pathAppend (renderLoc L) sub = renderAbs (L.reverse ++ [sub]) := by
    rw [renderLoc_eq]; exact pathAppend_renderAbs_name L.reverse sub hLr hsub.1.1
  have hnames : ∀ n ∈ L.reverse ++ [sub], Plain n ∧ (0 : UInt8) ∉ n := by
    intro n hn
    rcases List.mem_append.mp hn with hn | hn
    · exact hL n (List.mem_reverse.mp hn)
    · simp at hn; subst hn; exact hsub
  rw [hs]
  have hself : RootOK (renderAbs (L.reverse ++ [sub])) (L.reverse ++ [sub]) := ⟨rfl, hnames⟩
  cases hw : weaklyCanonical fs (renderAbs (L.reverse ++ [sub])) with
  | error e => exact ⟨_, hself⟩
  | ok r =>
    simp only
    rcases wc_cases fs _ _ hw with ⟨L', e, hk, hr⟩ | hnf
    · subst hr
      obtain ⟨_, hL', _, _⟩ := kwalk_abs_ok fs true _ hself.no_nul hself.abs L' e hk
      exact ⟨_, rootOK_of_loc L' hL'⟩
    · have hcomps : comps (renderAbs (L.reverse ++ [sub])) = L.reverse ++ [sub] := hself.comps
      have htr : trailSlash (renderAbs (L.reverse ++ [sub])) = false :=
        trailSlash_renderAbs _ (fun n hn => (hnames n hn).1.1) (by simp)
      rcases wc_missing_shape fs _ r hself.abs hself.no_nul hnf hw with
        ⟨pre, c, post, L', e, hsplit, _, hk, hr⟩ | ⟨htsl, _⟩
      · rw [htr] at hr
        simp only [Bool.false_and, Bool.false_eq_true, ↓reduceIte] at hr
        rw [hcomps] at hsplit
        have hpre : ∀ n ∈ pre, IsName n ∧ (0 : UInt8) ∉ n := by
          intro n hn
          have := hnames n (by rw [hsplit]; simp [hn])
          exact ⟨this.1.1, this.2⟩
        obtain ⟨_, hL', _, _⟩ := kwalk_abs_ok fs true (renderAbs pre) (renderAbs_no_nul pre (fun n hn => (hpre n hn).2))
          (isAbs_renderAbs pre) L' e hk
        have hcp : ∀ n ∈ c :: post, Plain n ∧ (0 : UInt8) ∉ n := fun n hn => hnames n (by rw [hsplit]; simp at hn ⊢; exact Or.inr hn)
        have hval := wc_caseA_value c post false (fun n hn => ⟨(hcp n hn).1.1, (hcp n hn).1.2.2⟩) L' hL'
        simp only [Bool.false_eq_true, ↓reduceIte] at hval
        -- the last element is an ordinary name: no trailing slash
        have hlast : ∃ D x, c :: post = D ++ [x] := by
          rcases List.eq_nil_or_concat (c :: post) with h | ⟨D, x, h⟩
          · simp at h
          · exact ⟨D, x, by simpa using h⟩
        obtain ⟨D, x, hDx⟩ := hlast
        have hx : Plain x ∧ (0 : UInt8) ∉ x := hcp x (by rw [hDx]; simp)
        have hT : (nfNames [] false (L'.reverse ++ c :: post ++ [])).2 = false := by
          rw [List.append_nil, hDx, ← List.append_assoc]
          exact nfNames_trail_name _ _ _ x (by simp [hx.1.2.1, hx.1.1.1])
        rw [hT] at hval
        simp only [Bool.false_and, Bool.false_eq_true, ↓reduceIte, List.append_nil] at hval
        rw [hr, List.append_nil, hval]
        refine ⟨_, rfl, ?_⟩
        intro n hn
        rcases List.mem_append.mp hn with hn | hn
        · exact hL' n (List.mem_reverse.mp hn)
        · exact hcp n (List.mem_filter.mp hn).1
      · rw [htr] at htsl; simp at htsl

/-- **A0.** Whatever `fromDirectory` returns has canonical absolute roots and empty caches. -/
theorem fromDirectory_inv (fs : Fs) (root : Bytes) (per : Bool) (st : FsState) (hcwd : LocOK fs.cwd)
    (h : fromDirectory fs root per = some st) :
    ∃ bnS bnT, RootOK st.staticsRoot bnS ∧ RootOK st.templatesRoot bnT ∧ st.staticCache = [] ∧ st.templateCache = [] := by
  unfold fromDirectory at h
  split at h
  · cases h
  rename_i cr hcan
  split at h
  · cases h
  injection h with h
  obtain ⟨L, e, hk, hcr⟩ := canonical_ok fs root cr hcan
  have hL := kwalk_locOK fs true root L e hcwd hk
  subst hcr
  have hS : Plain Gen.Assets.staticsSub ∧ (0 : UInt8) ∉ Gen.Assets.staticsSub :=
    sub_plain _ (by decide) (by decide) (by decide) (by decide) (by decide)
  have hT : Plain Gen.Assets.templatesSub ∧ (0 : UInt8) ∉ Gen.Assets.templatesSub :=
    sub_plain _ (by decide) (by decide) (by decide) (by decide) (by decide)
  obtain ⟨bnS, hbS⟩ := subroot_ok fs L hL _ hS
  obtain ⟨bnT, hbT⟩ := subroot_ok fs L hL _ hT
  subst h
  exact ⟨bnS, bnT, hbS, hbT, rfl, rfl⟩

/-! ### the concrete leaf swap preserves directories -/

theorem lookup_filter_ne {β} (l : List (Loc × β)) (k loc : Loc) (h : k ≠ loc) :
    (l.filter (fun x => x.1 != loc)).lookup k = l.lookup k := by
  induction l with
  | nil => simp
  | cons x xs ih =>
    obtain ⟨k', v⟩ := x
    by_cases hk : k' = loc
    · subst hk
      have h1 : ((k', v) :: xs).filter (fun x => x.1 != k') = xs.filter (fun x => x.1 != k') := by simp
      have h2 : (k == k') = false := by simpa using h
      rw [h1, ih, List.lookup_cons, h2]
    · have h1 : ((k', v) :: xs).filter (fun x => x.1 != loc) = (k', v) :: xs.filter (fun x => x.1 != loc) := by simp [hk]
      rw [h1, List.lookup_cons, List.lookup_cons, ih]

/-- replacing (or creating) the object at a location that is not a directory — the file named by a final path component
becomes a symbolic link, say — leaves every directory a directory -/
theorem set_preserves_dirs (fs : Fs) (loc : Loc) (e : Entry) (h : fs.get loc ≠ some .dir) :
    DirsPreserved fs (fs.set loc e) := by
  intro l
  induction l with
  | nil => intro _; simp [Fs.get]
  | cons n up ih =>
    intro hg
    have hup : fs.get up = some .dir := get_parent hg
    have hne : n :: up ≠ loc := fun e' => h (e' ▸ hg)
    have hraw : fs.raw (n :: up) = some .dir := by simpa [Fs.get, hup] using hg
    simp only [Fs.get, ih hup]
    have h2 : ((n :: up) == loc) = false := by simpa using hne
    simp only [Fs.raw, Fs.set, List.lookup_cons, h2]
    rw [lookup_filter_ne _ _ _ hne]
    exact hraw

end Iora.Assets
