import IoraModel.Model.DnsTransport
import IoraModel.Lemmas.DnsSafe
/-! N6 for C19: a parse failure never escapes `processResponse` and completes the pending query keyed by the first two bytes. -/
namespace Iora.DnsTransport
open Iora Iora.Dns

theorem bind_ok_inv {α β : Type} {x : R α} {f : α → R β} {b : β} (h : (x >>= f) = .ok b) : ∃ a, x = .ok a ∧ f a = .ok b := by
  cases x with
  | error e => simp [Bind.bind, Except.bind] at h
  | ok a => exact ⟨a, rfl, h⟩

/-- a successfully parsed message carries its first two bytes as the header id -/
theorem parse_ok_id {m : Bytes} {r : Result} (h : parse m = .ok r) : rd16 m 0 = .ok r.header.id := by
  unfold parse at h
  split at h
  · cases h
  · obtain ⟨⟨hd, off⟩, hh, h⟩ := bind_ok_inv h
    obtain ⟨⟨qs, o1⟩, _, h⟩ := bind_ok_inv h
    obtain ⟨⟨an, ts, o2⟩, _, h⟩ := bind_ok_inv h
    obtain ⟨⟨ns, ts2, o3⟩, _, h⟩ := bind_ok_inv h
    obtain ⟨⟨ar, ts3, o4⟩, _, h⟩ := bind_ok_inv h
    cases h
    unfold parseHeader at hh
    obtain ⟨_, _, hh⟩ := bind_ok_inv hh
    obtain ⟨id, hid, hh⟩ := bind_ok_inv hh
    obtain ⟨fl, _, hh⟩ := bind_ok_inv hh
    obtain ⟨qd, _, hh⟩ := bind_ok_inv hh
    obtain ⟨an', _, hh⟩ := bind_ok_inv hh
    obtain ⟨ns', _, hh⟩ := bind_ok_inv hh
    obtain ⟨ar', _, hh⟩ := bind_ok_inv hh
    cases hh
    exact hid

/-- **containment**: whatever the bytes, `processResponse` ends normally -/
theorem processResponse_total (pending : List Nat) (data : Bytes) : ∃ out, processResponse pending data = .ok out := by
  have hs := parse_safe data
  unfold processResponse
  split
  · exact ⟨_, rfl⟩
  · rename_i he; exact absurd he hs.1
  · rename_i he; exact absurd he hs.2
  · split
    · rename_i hge
      simp only [Gen.Dns.respMinIdBytes] at hge
      rw [rd_ok (by omega : 0 < data.length), rd_ok (by omega : 1 < data.length)]
      exact ⟨_, rfl⟩
    · exact ⟨_, rfl⟩

/-- a rejected message of at least two bytes completes exactly the pending query whose id is those two bytes, with an error -/
theorem processResponse_error (pending : List Nat) (data : Bytes) (e : Err) (he : parse data = .error e) (h2 : 2 ≤ data.length) :
    ∃ b0 b1 : UInt8, data[0]? = some b0 ∧ data[1]? = some b1 ∧
      processResponse pending data =
        .ok (if pending.contains (b0.toNat * 256 + b1.toNat) then some (.parseError (b0.toNat * 256 + b1.toNat)) else none,
             pending.filter (· ≠ b0.toNat * 256 + b1.toNat)) := by
  have hs := parse_safe data
  rw [he] at hs
  have h0 : 0 < data.length := by omega
  have h1 : 1 < data.length := by omega
  refine ⟨data[0], data[1], List.getElem?_eq_getElem h0, List.getElem?_eq_getElem h1, ?_⟩
  unfold processResponse
  rw [he]
  cases e <;> first
    | exact absurd rfl hs.1
    | exact absurd rfl hs.2
    | (simp only [Gen.Dns.respMinIdBytes, ge_iff_le, h2, ↓reduceIte, rd_ok h0, rd_ok h1, complete]; rfl)

/-- an accepted message completes the pending query whose id is its first two bytes, with the parsed result -/
theorem processResponse_ok (pending : List Nat) (data : Bytes) (r : Result) (h : parse data = .ok r) :
    rd16 data 0 = .ok r.header.id ∧
    processResponse pending data =
      .ok (if pending.contains r.header.id then some (.result r.header.id r) else none, pending.filter (· ≠ r.header.id)) := by
  refine ⟨parse_ok_id h, ?_⟩
  unfold processResponse
  rw [h]
  simp only [complete]
  rfl

end Iora.DnsTransport
