import IoraModel.Model.LifecycleCore
/-!
# Lifecycle invariant and its preservation by the primitive operations (C02)

`Inv g` relates the I/O-thread state (`table`, `cur`, command queues, `nextId`, gauge, udp peer index) to the trace of
callbacks emitted so far (`g.tr`).  `Closed P` says that a predicate on states is preserved by every primitive operation
of `Model/LifecycleCore.lean`; the handlers of both engines preserve any such predicate (Lemmas/EngineLifecycle.lean), so each
invariant only has to be established for the primitives.
-/
namespace Iora.Lifecycle

/-! ## trace projections -/
def closeSid : Out → Option Sid | .close sid _ => some sid | _ => none
def annSid : Out → Option Sid | .announce sid _ => some sid | _ => none
def retSid : Out → Option Sid | .ret sid true => some sid | _ => none
def allocSid : Out → Option Sid | .ret sid _ => some sid | .announce sid .accept => some sid | _ => none
/-- ids for which a close notification was delivered, in order -/
def closesOf (tr : List Out) : List Sid := tr.filterMap closeSid
/-- ids announced by an accept or connect callback -/
def annOf (tr : List Out) : List Sid := tr.filterMap annSid
/-- ids returned (successfully) by connect() / connectViaListener() -/
def retOf (tr : List Out) : List Sid := tr.filterMap retSid
/-- ids whose allocation the application can see (every connect() call, every accept) -/
def allocsOf (tr : List Out) : List Sid := tr.filterMap allocSid

def connSid : Cmd → Option Sid | .connect sid _ _ => some sid | .via sid _ _ => some sid | _ => none
def connSids (cs : List Cmd) : List Sid := cs.filterMap connSid
/-- ids handed out by connect() whose request has not been carried out yet -/
def pend (g : G) : List Sid := g.cur.toList ++ connSids g.batch ++ connSids g.queue

/-- the session id an engine callback is about (`connect()` returning is not a callback) -/
def evSid : Out → Option Sid
  | .announce sid _ => some sid
  | .data sid => some sid
  | .close sid _ => some sid
  | .ret _ _ => none

/-- (a) nothing for an id after its close -/
def okClosed (pre : List Out) (o : Out) : Prop := ∀ sid, evSid o = some sid → sid ∉ closesOf pre
/-- (b) an accept callback / a connect callback fires at most once per id -/
def okOnce (pre : List Out) : Out → Prop
  | .announce sid k => Out.announce sid k ∉ pre
  | _ => True
/-- (c) data only after the accept/connect callback -/
def okData (pre : List Out) : Out → Prop
  | .data sid => sid ∈ annOf pre
  | _ => True

/-- every event of `tr` satisfies `ok` with respect to everything before it (`pre` = what came before `tr`) -/
def AllFrom (ok : List Out → Out → Prop) (pre : List Out) : List Out → Prop
  | [] => True
  | o :: rest => ok pre o ∧ AllFrom ok (pre ++ [o]) rest

theorem allFrom_snoc (ok : List Out → Out → Prop) (pre tr : List Out) (o : Out) :
    AllFrom ok pre (tr ++ [o]) ↔ AllFrom ok pre tr ∧ ok (pre ++ tr) o := by
  induction tr generalizing pre with
  | nil => simp [AllFrom]
  | cons x r ih => simp [AllFrom, ih, and_assoc]

theorem all_snoc (ok : List Out → Out → Prop) (tr : List Out) (o : Out) :
    AllFrom ok [] (tr ++ [o]) ↔ AllFrom ok [] tr ∧ ok tr o := by
  simpa using allFrom_snoc ok [] tr o

theorem allFrom_split (ok : List Out → Out → Prop) (pre tr : List Out) (h : AllFrom ok pre tr) :
    ∀ a o b, tr = a ++ o :: b → ok (pre ++ a) o := by
  induction tr generalizing pre with
  | nil => intro a o b e; simp at e
  | cons x r ih =>
    intro a o b e
    cases a with
    | nil => simp at e; rcases e with ⟨rfl, _⟩; simpa using h.1
    | cons y a' =>
      simp at e; rcases e with ⟨rfl, e⟩
      have := ih (pre ++ [x]) h.2 a' o b e
      simpa using this

/-! ## gauge: number of live entries of the table -/
def live (g : G) (sid : Sid) : Bool := match g.table sid with | some s => !s.closed | none => false
def liveCount (g : G) : Nat := (List.range g.nextId).countP (live g)

theorem countP_range_congr (p q : Nat → Bool) (n : Nat) (h : ∀ x, x < n → p x = q x) :
    (List.range n).countP p = (List.range n).countP q := by
  induction n with
  | zero => simp
  | succ n ih =>
    rw [List.range_succ, List.countP_append, List.countP_append, ih (fun x hx => h x (Nat.lt_succ_of_lt hx))]
    simp [List.countP_cons, h n (Nat.lt_succ_self n)]

/-- two predicates that differ only at `a < n`, where the first is false and the second true -/
theorem countP_range_flip (p q : Nat → Bool) (n a : Nat) (ha : a < n) (hp : p a = false) (hq : q a = true)
    (h : ∀ x, x ≠ a → p x = q x) : (List.range n).countP q = (List.range n).countP p + 1 := by
  induction n with
  | zero => omega
  | succ n ih =>
    rw [List.range_succ, List.countP_append, List.countP_append]
    by_cases hn : a = n
    · subst hn
      rw [countP_range_congr q p a (fun x hx => (h x (Nat.ne_of_lt hx)).symm)]
      simp [hp, hq]
    · have := ih (by omega)
      rw [this]
      simp [List.countP_cons, h n (fun e => hn e.symm)]
      omega

/-! ## the invariant -/
/-- the part of the invariant that speaks about the ORDER of events -/
structure Ord (g : G) : Prop where
  closed : AllFrom okClosed [] g.tr
  once : g.dupAnn = false → AllFrom okOnce [] g.tr
  data : g.envBad = false → AllFrom okData [] g.tr
  cann : ∀ sid s, g.table sid = some s → (s.connAnnounced = true ↔ Out.announce sid .connect ∈ g.tr)

theorem mem_annOf_of_mem {tr : List Out} {sid : Sid} {k : AnnKind} (h : Out.announce sid k ∈ tr) : sid ∈ annOf tr := by
  simp only [annOf, List.mem_filterMap]
  exact ⟨_, h, rfl⟩

/-- the trace grows by at most one event `o` -/
theorem Ord.ext {g g' : G} (h : Ord g) (o : Option Out) (htr : g'.tr = g.tr ++ o.toList)
    (hc : ∀ x, o = some x → okClosed g.tr x)
    (hd : g'.dupAnn = false → g.dupAnn = false ∧ ∀ x, o = some x → okOnce g.tr x)
    (he : g'.envBad = false → g.envBad = false ∧ ∀ x, o = some x → okData g.tr x)
    (hcann : ∀ sid s, g'.table sid = some s → (s.connAnnounced = true ↔ Out.announce sid .connect ∈ g'.tr)) : Ord g' := by
  cases o with
  | none =>
    have e : g'.tr = g.tr := by simpa using htr
    exact ⟨by rw [e]; exact h.closed, fun hx => by rw [e]; exact h.once (hd hx).1, fun hx => by rw [e]; exact h.data (he hx).1, hcann⟩
  | some x =>
    have e : g'.tr = g.tr ++ [x] := by simpa using htr
    refine ⟨?_, ?_, ?_, hcann⟩
    · rw [e, all_snoc]; exact ⟨h.closed, hc x rfl⟩
    · intro hx; rw [e, all_snoc]; exact ⟨h.once (hd hx).1, (hd hx).2 x rfl⟩
    · intro hx; rw [e, all_snoc]; exact ⟨h.data (he hx).1, (he hx).2 x rfl⟩

/-- `cann` carries over when the new event is not a connect callback and every entry of the new table either keeps its flag or
is a fresh, never-announced session -/
theorem Ord.cann_keep {g g' : G} (h : Ord g) (o : Option Out) (htr : g'.tr = g.tr ++ o.toList)
    (hno : ∀ sid, o ≠ some (.announce sid .connect))
    (ht : ∀ x s', g'.table x = some s' → (∃ s, g.table x = some s ∧ s.connAnnounced = s'.connAnnounced) ∨
                                          (s'.connAnnounced = false ∧ x ∉ annOf g.tr)) :
    ∀ sid s, g'.table sid = some s → (s.connAnnounced = true ↔ Out.announce sid .connect ∈ g'.tr) := by
  intro sid s' hs'
  have hm : Out.announce sid .connect ∈ g'.tr ↔ Out.announce sid .connect ∈ g.tr := by
    rw [htr]
    cases o with
    | none => simp
    | some x =>
      simp only [Option.toList, List.mem_append, List.mem_singleton]
      constructor
      · rintro (h1 | h1)
        · exact h1
        · exact absurd (h1 ▸ rfl) (hno sid)
      · exact Or.inl
  rw [hm]
  rcases ht sid s' hs' with ⟨s, hs, e⟩ | ⟨e, hn⟩
  · rw [← e]; exact h.cann sid s hs
  · rw [e]; simp; exact fun hx => hn (mem_annOf_of_mem hx)

structure Inv (g : G) : Prop where
  tbl_lt : ∀ sid s, g.table sid = some s → sid < g.nextId
  pend_nd : (pend g).Nodup
  pend_lt : ∀ sid, sid ∈ pend g → sid < g.nextId
  pend_tbl : ∀ sid, sid ∈ pend g → g.table sid = none
  pend_cl : ∀ sid, sid ∈ pend g → sid ∉ closesOf g.tr
  pend_ann : ∀ sid, sid ∈ pend g → sid ∉ annOf g.tr
  cl_nd : (closesOf g.tr).Nodup
  cl_lt : ∀ sid, sid ∈ closesOf g.tr → sid < g.nextId
  tbl_cl : ∀ sid s, g.table sid = some s → (s.closed = true ↔ sid ∈ closesOf g.tr)
  tbl_ann : ∀ sid s, g.table sid = some s → (s.announced = true ↔ sid ∈ annOf g.tr)
  ann_dom : ∀ sid, sid ∈ annOf g.tr → (∃ s, g.table sid = some s) ∨ sid ∈ closesOf g.tr
  ret_dom : ∀ sid, sid ∈ retOf g.tr → sid ∈ pend g ∨ (∃ s, g.table sid = some s) ∨ sid ∈ closesOf g.tr
  gauge : g.current = (liveCount g : Int)
  alloc_lt : ∀ sid, sid ∈ allocsOf g.tr → sid < g.nextId
  alloc_sorted : (allocsOf g.tr).Pairwise (· < ·)
  ord : Ord g
  idx_live : ∀ k sid, g.index k = some sid → ∃ s, g.table sid = some s ∧ s.closed = false ∧ s.announced = true ∧ s.pkey = some k

theorem Inv.ann_lt {g : G} (h : Inv g) : ∀ sid, sid ∈ annOf g.tr → sid < g.nextId := by
  intro sid hs
  rcases h.ann_dom sid hs with ⟨s, hs'⟩ | hc
  · exact h.tbl_lt sid s hs'
  · exact h.cl_lt sid hc

theorem Inv.fresh_tbl {g : G} (h : Inv g) : g.table g.nextId = none := by
  cases e : g.table g.nextId with
  | none => rfl
  | some s => exact absurd (h.tbl_lt _ s e) (Nat.lt_irrefl _)

/-! ## predicates closed under the primitives -/
class Closed0 (P : G → Prop) : Prop where
  closeNow : ∀ sid site g, P g → P (closeNow sid site g)
  failConnect : ∀ site g, P g → P (failConnect site g)
  insertCur : ∀ (t : Bool) k o g, P g → P (insertCur t k o g)
  acceptFresh : ∀ t k o g, P g → P (acceptFresh t k o g).1
  burnId : ∀ g, P g → P (burnId g)
  announceConnect : ∀ sid c g, P g → P (announceConnect sid g c)
  dataCb : ∀ sid g, P g → P (dataCb sid g)
  setWq : ∀ sid n g, P g → P (setWq sid n g)
  viaIndex : ∀ sid k g, P g → P (viaIndex sid k g)
  stale : ∀ g, P g → P { g with stale := true }
  bp : ∀ n g, P g → P { g with backpressureCloses := n }
  listeners : ∀ l g, P g → P { g with listeners := l }
  running : ∀ b g, P g → P { g with running := b }

/-- ... and by taking the next command off the batch (when no connect request is in flight) -/
class Closed (P : G → Prop) : Prop extends Closed0 P where
  pop : ∀ g, P g → g.cur = none → P (popCmd g).2

/-- the primitives the UDP engine is made of: a UDP "connect" creates and announces the session in one go (`connectNow`), there is
no separate insert / announce.  Every `Closed0` predicate is `ClosedU0`; a predicate like "every session in the table is announced"
is `ClosedU0` only. -/
class ClosedU0 (P : G → Prop) : Prop where
  closeNow : ∀ sid site g, P g → P (closeNow sid site g)
  failConnect : ∀ site g, P g → P (failConnect site g)
  connectNow : ∀ k o c g, P g → P (connectNow k o c g)
  acceptFresh : ∀ t k o g, P g → P (acceptFresh t k o g).1
  dataCb : ∀ sid g, P g → P (dataCb sid g)
  setWq : ∀ sid n g, P g → P (setWq sid n g)
  viaIndex : ∀ sid k g, P g → P (viaIndex sid k g)
  stale : ∀ g, P g → P { g with stale := true }
  bp : ∀ n g, P g → P { g with backpressureCloses := n }
  listeners : ∀ l g, P g → P { g with listeners := l }
  running : ∀ b g, P g → P { g with running := b }

class ClosedU (P : G → Prop) : Prop extends ClosedU0 P where
  pop : ∀ g, P g → g.cur = none → P (popCmd g).2

instance (P : G → Prop) [h : Closed0 P] : ClosedU0 P where
  closeNow := h.closeNow
  failConnect := h.failConnect
  connectNow := by
    intro k o c g hp
    unfold Iora.Lifecycle.connectNow
    split
    · exact h.stale _ hp
    · exact h.announceConnect _ _ _ (h.insertCur _ _ _ _ hp)
  acceptFresh := h.acceptFresh
  dataCb := h.dataCb
  setWq := h.setWq
  viaIndex := h.viaIndex
  stale := h.stale
  bp := h.bp
  listeners := h.listeners
  running := h.running

instance (P : G → Prop) [h : Closed P] : ClosedU P where
  pop := h.pop

/-! ## small facts about projections -/
@[simp] theorem closesOf_nil : closesOf [] = [] := rfl
@[simp] theorem closesOf_snoc (tr : List Out) (o : Out) : closesOf (tr ++ [o]) = closesOf tr ++ (closeSid o).toList := by
  simp only [closesOf, List.filterMap_append, List.filterMap_cons, List.filterMap_nil]
  cases closeSid o <;> rfl
@[simp] theorem annOf_snoc (tr : List Out) (o : Out) : annOf (tr ++ [o]) = annOf tr ++ (annSid o).toList := by
  simp only [annOf, List.filterMap_append, List.filterMap_cons, List.filterMap_nil]
  cases annSid o <;> rfl
@[simp] theorem retOf_snoc (tr : List Out) (o : Out) : retOf (tr ++ [o]) = retOf tr ++ (retSid o).toList := by
  simp only [retOf, List.filterMap_append, List.filterMap_cons, List.filterMap_nil]
  cases retSid o <;> rfl
@[simp] theorem allocsOf_snoc (tr : List Out) (o : Out) : allocsOf (tr ++ [o]) = allocsOf tr ++ (allocSid o).toList := by
  simp only [allocsOf, List.filterMap_append, List.filterMap_cons, List.filterMap_nil]
  cases allocSid o <;> rfl
@[simp] theorem connSids_snoc (cs : List Cmd) (c : Cmd) : connSids (cs ++ [c]) = connSids cs ++ (connSid c).toList := by
  simp only [connSids, List.filterMap_append, List.filterMap_cons, List.filterMap_nil]
  cases connSid c <;> rfl
@[simp] theorem connSids_cons (c : Cmd) (cs : List Cmd) : connSids (c :: cs) = (connSid c).toList ++ connSids cs := by
  simp only [connSids, List.filterMap_cons]
  cases connSid c <;> rfl
@[simp] theorem connSids_nil : connSids [] = [] := rfl

theorem count_eq_one_of_nodup {l : List Nat} (hn : l.Nodup) {a : Nat} (h : a ∈ l) : l.count a = 1 := by
  induction l with
  | nil => cases h
  | cons x r ih =>
    rw [List.nodup_cons] at hn
    rw [List.count_cons]
    by_cases e : x = a
    · subst e
      have : r.count x = 0 := List.count_eq_zero.2 hn.1
      simp [this]
    · have hm : a ∈ r := by
        rcases List.mem_cons.1 h with h1 | h1
        · exact absurd h1.symm e
        · exact h1
      simp [ih hn.2 hm, e]

theorem upd_same {β : Type} (f : Nat → Option β) (k : Nat) (v : Option β) : upd f k v k = v := by simp [upd]
theorem upd_other {β : Type} (f : Nat → Option β) (k x : Nat) (v : Option β) (h : x ≠ k) : upd f k v x = f x := by simp [upd, h]

end Iora.Lifecycle
