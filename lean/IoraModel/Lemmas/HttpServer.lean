import IoraModel.Model.HttpServerFraming
import IoraModel.Lemmas.HttpClient
import IoraModel.Common.Framing
/-
Lemmas about the server framing model: the request extractor is a stable frame parser (DESIGN §6.6), so the generic
segmentation-independence theorem applies to `handleIncomingData`.
-/
namespace Iora.Http.Srv
open Iora Iora.Http

/-! ### the trailer loop and the chunk scan -/

theorem trailerEnd_spec (data x : Bytes) (pos e : Nat) (h : trailerEnd data pos = some e) :
    trailerEnd (data ++ x) pos = some e ∧ pos + 2 ≤ e ∧ e ≤ data.length := by
  induction pos using trailerEnd.induct data with
  | case1 p hlt hf => rw [trailerEnd] at h; simp [hlt, hf] at h
  | case2 p hlt hf =>
    have hoff := findAux0_lt _ _ _ hf
    have hb := findAux_bounds crlf (by simp [crlf]) _ _ _ hf
    simp only [List.length_drop, crlf, List.length_cons, List.length_nil] at hoff hb
    have hdrop : (data ++ x).drop p = data.drop p ++ x := List.drop_append_of_le_length (by omega)
    have hf' : findAux crlf ((data ++ x).drop p) 0 = some 0 := by
      rw [hdrop]; exact findAux_append_some _ _ _ _ (by simp [crlf]) hf
    have hlt' : p < (data ++ x).length := by simp; omega
    rw [trailerEnd] at h ⊢
    simp only [hlt, hlt', ↓reduceDIte, hf, hf', ↓reduceIte] at h ⊢
    cases h
    exact ⟨rfl, by omega, by omega⟩
  | case3 p hlt off hf hne ih =>
    have hoff := findAux0_lt _ _ _ hf
    simp only [List.length_drop] at hoff
    have hdrop : (data ++ x).drop p = data.drop p ++ x := List.drop_append_of_le_length (by omega)
    have hf' : findAux crlf ((data ++ x).drop p) 0 = some off := by
      rw [hdrop]; exact findAux_append_some _ _ _ _ (by simp [crlf]) hf
    have hlt' : p < (data ++ x).length := by simp; omega
    rw [trailerEnd] at h ⊢
    simp only [hlt, hlt', ↓reduceDIte, hf, hf', if_neg hne] at h ⊢
    have := ih h
    exact ⟨this.1, by omega, this.2.2⟩
  | case4 p hlt => rw [trailerEnd] at h; simp [hlt] at h

theorem scanStep_append (mb : Nat) (data x : Bytes) (pos : Nat) (r : ScanStep)
    (h : scanStep mb data pos = r) (hr : r ≠ .needMore) : scanStep mb (data ++ x) pos = r := by
  unfold scanStep at h ⊢
  cases hf : findAux crlf (data.drop pos) 0 with
  | none => rw [hf] at h; exact absurd h.symm hr
  | some off =>
    have hoff := findAux0_lt _ _ _ hf
    have hb := findAux_bounds crlf (by simp [crlf]) _ _ _ hf
    simp only [List.length_drop, crlf, List.length_cons, List.length_nil] at hoff hb
    have hdrop : (data ++ x).drop pos = data.drop pos ++ x := List.drop_append_of_le_length (by omega)
    have hf' : findAux crlf ((data ++ x).drop pos) 0 = some off := by
      rw [hdrop]; exact findAux_append_some _ _ _ _ (by simp [crlf]) hf
    have htake : ((data ++ x).drop pos).take off = (data.drop pos).take off := by
      rw [hdrop, List.take_append_of_le_length (by simp [List.length_drop]; omega)]
    rw [hf] at h
    rw [hf']
    simp only at h ⊢
    rw [htake]
    cases hs : sizeLine mb ((data.drop pos).take off) with
    | none => rw [hs] at h; exact h
    | some size =>
      rw [hs] at h
      simp only at h ⊢
      by_cases hz : size = 0
      · simp only [hz, ↓reduceIte] at h ⊢
        cases ht : trailerEnd data (pos + off + 2) with
        | none => rw [ht] at h; exact absurd h.symm hr
        | some e => rw [ht] at h; rw [(trailerEnd_spec data x _ e ht).1]; exact h
      · simp only [hz, ↓reduceIte] at h ⊢
        by_cases hlen : data.length - (pos + off + 2) < size + 2
        · simp only [hlen, ↓reduceIte] at h; exact absurd h.symm hr
        · have hlen' : ¬ ((data ++ x).length - (pos + off + 2) < size + 2) := by
            simp only [List.length_append]; omega
          simp only [hlen, hlen', ↓reduceIte] at h ⊢
          have hg1 : (data ++ x)[pos + off + 2 + size]? = data[pos + off + 2 + size]? :=
            List.getElem?_append_left (by omega)
          have hg2 : (data ++ x)[pos + off + 2 + size + 1]? = data[pos + off + 2 + size + 1]? :=
            List.getElem?_append_left (by omega)
          have hd : ((data ++ x).drop (pos + off + 2)).take size = (data.drop (pos + off + 2)).take size := by
            rw [List.drop_append_of_le_length (by omega),
                List.take_append_of_le_length (by simp [List.length_drop]; omega)]
          rw [hg1, hg2, hd]
          exact h

theorem scanStep_bounds (mb : Nat) (data : Bytes) (pos : Nat) :
    (∀ e, scanStep mb data pos = .last e → pos < e ∧ e ≤ data.length) ∧
    (∀ p c, scanStep mb data pos = .next p c → p ≤ data.length) := by
  unfold scanStep
  cases hf : findAux crlf (data.drop pos) 0 with
  | none => simp
  | some off =>
    have hb := findAux_bounds crlf (by simp [crlf]) _ _ _ hf
    simp only [List.length_drop, crlf, List.length_cons, List.length_nil] at hb
    simp only
    cases hs : sizeLine mb ((data.drop pos).take off) with
    | none => simp
    | some size =>
      simp only
      by_cases hz : size = 0
      · simp only [hz, ↓reduceIte]
        cases ht : trailerEnd data (pos + off + 2) with
        | none => simp
        | some e =>
          have := trailerEnd_spec data [] _ e ht
          simp only [ScanStep.last.injEq, forall_eq', reduceCtorEq, false_imp_iff, implies_true, and_true]
          omega
      · simp only [hz, ↓reduceIte]
        by_cases hlen : data.length - (pos + off + 2) < size + 2
        · simp [hlen]
        · simp only [hlen, ↓reduceIte]
          split
          · simp
          · simp only [reduceCtorEq, false_imp_iff, implies_true, ScanStep.next.injEq, and_imp, true_and]
            intro p c hp _
            omega

/-! unfolding equations of `chunkScan` -/

theorem chunkScan_oob (mb : Nat) (data : Bytes) (pos : Nat) (dec : Bytes) (h : ¬ pos < data.length) :
    chunkScan mb data pos dec = .needMore := by
  rw [chunkScan, dif_neg h]

theorem chunkScan_needMore (mb : Nat) (data : Bytes) (pos : Nat) (dec : Bytes) (h : pos < data.length)
    (hs : scanStep mb data pos = .needMore) : chunkScan mb data pos dec = .needMore := by
  rw [chunkScan, dif_pos h]; split <;> simp_all

theorem chunkScan_malformed (mb : Nat) (data : Bytes) (pos : Nat) (dec : Bytes) (h : pos < data.length)
    (hs : scanStep mb data pos = .malformed) : chunkScan mb data pos dec = .malformed := by
  rw [chunkScan, dif_pos h]; split <;> simp_all

theorem chunkScan_last (mb : Nat) (data : Bytes) (pos e : Nat) (dec : Bytes) (h : pos < data.length)
    (hs : scanStep mb data pos = .last e) : chunkScan mb data pos dec = .done e dec := by
  rw [chunkScan, dif_pos h]; split <;> simp_all

theorem chunkScan_next (mb : Nat) (data : Bytes) (pos p : Nat) (c dec : Bytes) (h : pos < data.length)
    (hs : scanStep mb data pos = .next p c) : chunkScan mb data pos dec = chunkScan mb data p (dec ++ c) := by
  rw [chunkScan, dif_pos h]; split <;> simp_all

theorem chunkScan_spec (mb : Nat) (data x : Bytes) (pos : Nat) (dec : Bytes) (r : Scan)
    (h : chunkScan mb data pos dec = r) (hr : r ≠ .needMore) :
    chunkScan mb (data ++ x) pos dec = r ∧ ∀ e d, r = .done e d → pos < e ∧ e ≤ data.length := by
  induction pos, dec using chunkScan.induct mb data with
  | case1 p d hlt hs => rw [chunkScan_needMore mb data p d hlt hs] at h; exact absurd h.symm hr
  | case2 p d hlt hs =>
    have hlt' : p < (data ++ x).length := by simp; omega
    rw [chunkScan_malformed mb data p d hlt hs] at h
    rw [chunkScan_malformed mb (data ++ x) p d hlt' (scanStep_append mb data x p _ hs (by simp))]
    subst h
    exact ⟨rfl, by intro e d h; cases h⟩
  | case3 p d hlt e hs =>
    have hlt' : p < (data ++ x).length := by simp; omega
    rw [chunkScan_last mb data p e d hlt hs] at h
    rw [chunkScan_last mb (data ++ x) p e d hlt' (scanStep_append mb data x p _ hs (by simp))]
    subst h
    refine ⟨rfl, ?_⟩
    intro e' d' h'; cases h'
    exact (scanStep_bounds mb data p).1 e hs
  | case4 p d hlt p2 c hs ih =>
    have hlt' : p < (data ++ x).length := by simp; omega
    rw [chunkScan_next mb data p p2 c d hlt hs] at h
    rw [chunkScan_next mb (data ++ x) p p2 c d hlt' (scanStep_append mb data x p _ hs (by simp))]
    have := ih h
    refine ⟨this.1, ?_⟩
    intro e d' hd
    have hlt2 := scanStep_next_lt mb data p p2 c hs
    have := this.2 e d' hd
    omega
  | case5 p d hlt => rw [chunkScan_oob mb data p d hlt] at h; exact absurd h.symm hr

/-! ### the request extractor is a stable frame parser -/

theorem extractOne_spec (buf x : Bytes) (r : Extract) (h : extractOne buf = r) (hr : r ≠ .needMore) :
    extractOne (buf ++ x) = r ∧ ∀ raw n, r = .request raw n → 0 < n ∧ n ≤ buf.length := by
  unfold extractOne at h ⊢
  cases hf : find crlf2 buf 0 with
  | none => rw [hf] at h; exact absurd h.symm hr
  | some he =>
    have hb := find_bounds crlf2 buf (by simp [crlf2]) _ _ hf
    simp only [crlf2, List.length_cons, List.length_nil] at hb
    have hf' : find crlf2 (buf ++ x) 0 = some he := find_append_some _ _ _ _ _ (by simp [crlf2]) hf
    have ht : (buf ++ x).take he = buf.take he := List.take_append_of_le_length (by omega)
    rw [hf] at h
    rw [hf']
    simp only at h ⊢
    rw [ht]
    by_cases hh : he > Gen.Http.serverMaxHeaderSize
    · simp only [hh, ↓reduceIte] at h ⊢
      subst h
      exact ⟨rfl, by intro raw n h; cases h⟩
    · simp only [hh, ↓reduceIte] at h ⊢
      cases hs : scanHeaderLines (getLines (buf.take he)) {} with
      | none =>
        rw [hs] at h; simp only at h ⊢; subst h
        exact ⟨rfl, by intro raw n h; cases h⟩
      | some hsr =>
        rw [hs] at h
        simp only at h ⊢
        by_cases hte : hsr.haveTE = true ∧ ¬ hsr.isChunked = true
        · rw [if_pos hte] at h ⊢
          subst h
          exact ⟨rfl, by intro raw n h; cases h⟩
        rw [if_neg hte] at h ⊢
        by_cases hboth : hsr.isChunked = true ∧ hsr.haveCL = true
        · simp only [hboth, and_self, ↓reduceIte] at h ⊢
          subst h
          exact ⟨rfl, by intro raw n h; cases h⟩
        · simp only [hboth, ↓reduceIte] at h ⊢
          by_cases hc : hsr.isChunked = true
          · simp only [hc, ↓reduceIte] at h ⊢
            unfold findChunkedRequestEnd at h ⊢
            cases hcs : chunkScan Gen.Http.serverMaxBodySize buf (he + 4) [] with
            | needMore => rw [hcs] at h; exact absurd h.symm hr
            | malformed =>
              rw [hcs] at h
              rw [(chunkScan_spec _ buf x _ _ _ hcs (by simp)).1]
              simp only at h ⊢; subst h
              exact ⟨rfl, by intro raw n h; cases h⟩
            | done e dec =>
              rw [hcs] at h
              have hsp := chunkScan_spec _ buf x _ _ _ hcs (by simp)
              rw [hsp.1]
              simp only at h ⊢
              have ht4 : (buf ++ x).take (he + 4) = buf.take (he + 4) := List.take_append_of_le_length (by omega)
              rw [ht4]
              subst h
              refine ⟨rfl, ?_⟩
              intro raw n hrn; cases hrn
              have := hsp.2 e dec rfl
              omega
          · simp only [hc, Bool.false_eq_true, ↓reduceIte] at h ⊢
            by_cases hlen : buf.length < he + 4 + hsr.contentLength
            · simp only [hlen, ↓reduceIte] at h; exact absurd h.symm hr
            · have hlen' : ¬ ((buf ++ x).length < he + 4 + hsr.contentLength) := by
                simp only [List.length_append]; omega
              simp only [hlen, hlen', ↓reduceIte] at h ⊢
              have htt : (buf ++ x).take (he + 4 + hsr.contentLength) = buf.take (he + 4 + hsr.contentLength) :=
                List.take_append_of_le_length (by omega)
              rw [htt]
              subst h
              refine ⟨rfl, ?_⟩
              intro raw n hrn; cases hrn
              omega

/-- one extracted item: a dispatched request, or the I/O thread's close -/
abbrev Item := Option Ev

/-- `extractOne` as a frame parser in the sense of `Common/Framing.lean` -/
def parser (d : Bytes) : Framing.Res Item :=
  match extractOne d with
  | .needMore => .more
  | .close => .fatal none
  | .request raw n => .frame (some (dispatch raw)) n

/-- **the request extractor is stable for ALL buffers** (hypothesis (A) of DESIGN §6.6 with `G = True`) -/
def stableParser : Framing.Stable Item (fun _ => True) where
  p := parser
  pos := by
    intro d a n h
    unfold parser at h
    cases he : extractOne d with
    | needMore => rw [he] at h; cases h
    | close => rw [he] at h; cases h
    | request raw k =>
      rw [he] at h; cases h
      exact (extractOne_spec d [] _ he (by simp)).2 raw n rfl
  ext_frame := by
    intro d a n x _ h
    unfold parser at h ⊢
    cases he : extractOne d with
    | needMore => rw [he] at h; cases h
    | close => rw [he] at h; cases h
    | request raw k =>
      rw [he] at h
      rw [(extractOne_spec d x _ he (by simp)).1]
      exact h
  ext_fatal := by
    intro d e x _ h
    unfold parser at h ⊢
    cases he : extractOne d with
    | needMore => rw [he] at h; cases h
    | request raw k => rw [he] at h; cases h
    | close =>
      rw [he] at h
      rw [(extractOne_spec d x _ he (by simp)).1]
      exact h
  g_drop := by intros; trivial
  g_prefix := by intros; trivial

/-! ### `handleIncomingData` is the generic greedy receive loop for that parser -/

theorem drainLoop_eq (f : Nat) : ∀ (buf : Bytes),
    (drainLoop f buf).1 = (Framing.drainF stableParser f buf).1.filterMap id ∧
    ((drainLoop f buf).2.1 = true ↔ (Framing.drainF stableParser f buf).2 = .dead) ∧
    (∀ r, (Framing.drainF stableParser f buf).2 = .alive r → (drainLoop f buf).2.2 = r ∧ r.length ≤ buf.length) := by
  induction f with
  | zero => intro buf; simp [drainLoop, Framing.drainF]
  | succ f ih =>
    intro buf
    simp only [drainLoop, Framing.drainF]
    show _ ∧ _ ∧ _
    have hp : stableParser.p buf = parser buf := rfl
    rw [hp]
    unfold parser
    cases he : extractOne buf with
    | needMore => simp
    | close => simp
    | request raw n =>
      have hn := (extractOne_spec buf [] _ he (by simp)).2 raw n rfl
      have hn0 : n ≠ 0 := by omega
      simp only [hn0, ↓reduceIte]
      obtain ⟨h1, h2, h3⟩ := ih (buf.drop n)
      refine ⟨by simp [h1], h2, ?_⟩
      intro r hr
      have := h3 r hr
      simp only [List.length_drop] at this
      exact ⟨this.1, by omega⟩

/-- feed a list of reads to `handleIncomingData`, collecting what is dispatched -/
def srvFeed : Sess → List Bytes → List Ev × Sess
  | s, [] => ([], s)
  | s, seg :: ss =>
    let r1 := handleIncomingData s seg
    let r := srvFeed r1.1 ss
    (r1.2.1 ++ r.1, r.2)

/-- session state vs. the generic carry -/
def Corr (s : Sess) : Framing.Carry → Prop
  | .alive r => s = { buffer := r, alive := true }
  | .dead => s.alive = false

def carryLen : Framing.Carry → Nat
  | .alive r => r.length
  | .dead => 0

theorem srvFeed_dead : ∀ (ss : List Bytes) (s : Sess), s.alive = false → srvFeed s ss = ([], s) := by
  intro ss
  induction ss with
  | nil => intro s _; rfl
  | cons seg ss ih =>
    intro s hs
    have h1 : handleIncomingData s seg = (s, [], false) := by simp [handleIncomingData, hs]
    simp only [srvFeed, h1, ih s hs, List.append_nil]

theorem srvFeed_eq_feed : ∀ (ss : List Bytes) (s : Sess) (c : Framing.Carry), Corr s c →
    carryLen c + ss.flatten.length ≤ Gen.Http.serverMaxBufferSize →
    (srvFeed s ss).1 = (Framing.feed stableParser c ss).1.filterMap id ∧
    Corr (srvFeed s ss).2 (Framing.feed stableParser c ss).2 := by
  intro ss
  induction ss with
  | nil => intro s c hc _; simp [srvFeed, Framing.feed, hc]
  | cons seg ss ih =>
    intro s c hc hb
    cases c with
    | dead =>
      simp only [Corr] at hc
      rw [srvFeed_dead _ s hc, Framing.feed_dead]
      exact ⟨rfl, hc⟩
    | alive r =>
      simp only [Corr] at hc
      subst hc
      simp only [carryLen, List.flatten_cons, List.length_append] at hb
      have hlim : ¬ (r.length + seg.length > Gen.Http.serverMaxBufferSize) := by omega
      obtain ⟨h1, h2, h3⟩ := drainLoop_eq ((r ++ seg).length + 1) (r ++ seg)
      have hh : handleIncomingData { buffer := r, alive := true } seg =
          ({ buffer := (drainLoop ((r ++ seg).length + 1) (r ++ seg)).2.2,
             alive := !(drainLoop ((r ++ seg).length + 1) (r ++ seg)).2.1 },
           (drainLoop ((r ++ seg).length + 1) (r ++ seg)).1,
           (drainLoop ((r ++ seg).length + 1) (r ++ seg)).2.1) := by
        simp [handleIncomingData, hlim]
      simp only [srvFeed, hh, Framing.feed, Framing.resume]
      have hd : Framing.drain stableParser (r ++ seg) = Framing.drainF stableParser ((r ++ seg).length + 1) (r ++ seg) := rfl
      rw [hd]
      cases hcar : (Framing.drainF stableParser ((r ++ seg).length + 1) (r ++ seg)).2 with
      | dead =>
        have hclosed := h2.mpr hcar
        simp only [hclosed, Bool.not_true]
        rw [srvFeed_dead ss _ rfl, Framing.feed_dead]
        simp only [List.append_nil, List.filterMap_nil, h1]
        exact ⟨trivial, rfl⟩
      | alive r2 =>
        have hopen : (drainLoop ((r ++ seg).length + 1) (r ++ seg)).2.1 = false := by
          cases hb' : (drainLoop ((r ++ seg).length + 1) (r ++ seg)).2.1 with
          | false => rfl
          | true => have := h2.mp hb'; rw [hcar] at this; cases this
        have hr2 := h3 r2 hcar
        have hr2l : r2.length ≤ r.length + seg.length := by simpa using hr2.2
        have := ih { buffer := r2, alive := true } (.alive r2) rfl (by simp only [carryLen]; omega)
        simp only [hopen, Bool.not_false, hr2.1, List.filterMap_append, h1]
        exact ⟨by rw [this.1], this.2⟩

/-! ### limits and length validation -/

theorem drainLoop_rest_le (f : Nat) : ∀ buf : Bytes, (drainLoop f buf).2.2.length ≤ buf.length := by
  induction f with
  | zero => intro buf; simp [drainLoop]
  | succ f ih =>
    intro buf
    simp only [drainLoop]
    cases he : extractOne buf with
    | needMore => simp
    | close => simp
    | request raw n =>
      simp only
      split
      · simp
      · have := ih (buf.drop n)
        simp only [List.length_drop] at this
        simp only
        omega

/-- the value of a `Content-Length` line as the header scan of `handleIncomingData` sees it -/
def clValue? (line : Bytes) : Option Bytes :=
  match indexOf? (· == 58) line with
  | none => none
  | some colon =>
    if lower (trim (line.take colon)) = ascii "content-length" then some (trim (line.drop (colon + 1))) else none

/-- the final transfer coding of a `Transfer-Encoding` line (lower-cased), as the header scan sees it -/
def teFinal? (line : Bytes) : Option Bytes :=
  match indexOf? (· == 58) line with
  | none => none
  | some colon =>
    if lower (trim (line.take colon)) = ascii "transfer-encoding" then
      some (lastToken (splitOn 44 (lower (trim (line.drop (colon + 1))))) [])
    else none

/-- the final coding of the LAST `Transfer-Encoding` line (`acc`: of the lines before) -/
def lastTE : List Bytes → Option Bytes → Option Bytes
  | [], acc => acc
  | l :: ls, acc => lastTE ls (match teFinal? l with | some t => some t | none => acc)

theorem cl_ne_te' : ascii "content-length" ≠ ascii "transfer-encoding" := by decide

theorem scanHeaderLines_spec : ∀ (ls : List Bytes) (hs0 hs : HdrScan), scanHeaderLines ls hs0 = some hs →
    hs0.contentLength ≤ Gen.Http.serverMaxBodySize →
    hs.contentLength ≤ Gen.Http.serverMaxBodySize ∧
    (hs0.haveCL = true → hs.haveCL = true ∧ hs.contentLength = hs0.contentLength) ∧
    (∀ l ∈ ls, ∀ v, clValue? l = some v → hs.haveCL = true ∧ parseFullUInt 10 v = some hs.contentLength) := by
  intro ls
  induction ls with
  | nil =>
    intro hs0 hs h hb
    simp only [scanHeaderLines, Option.some.injEq] at h
    subst h
    exact ⟨hb, fun h => ⟨h, rfl⟩, by simp⟩
  | cons line rest ih =>
    intro hs0 hs h hb
    simp only [scanHeaderLines] at h
    cases hc : indexOf? (· == 58) line with
    | none =>
      rw [hc] at h
      obtain ⟨a, b, d⟩ := ih hs0 hs h hb
      refine ⟨a, b, ?_⟩
      intro l hl v hv
      rcases List.mem_cons.mp hl with rfl | hl
      · simp [clValue?, hc] at hv
      · exact d l hl v hv
    | some colon =>
      rw [hc] at h
      simp only at h
      by_cases hk : lower (trim (line.take colon)) = ascii "content-length"
      · simp only [hk, ↓reduceIte] at h
        cases hp : parseFullUInt 10 (trim (line.drop (colon + 1))) with
        | none => rw [hp] at h; cases h
        | some n =>
          rw [hp] at h
          simp only at h
          split at h
          · cases h
          · rename_i hconf
            split at h
            · cases h
            · rename_i hbig
              obtain ⟨a, b, d⟩ := ih _ hs h (by simp only; omega)
              have hb1 := b rfl
              simp only at hb1
              refine ⟨a, ?_, ?_⟩
              · intro h0
                refine ⟨hb1.1, ?_⟩
                rw [hb1.2]
                by_cases hne : n = hs0.contentLength
                · exact hne
                · exact absurd ⟨h0, hne⟩ hconf
              · intro l hl v hv
                rcases List.mem_cons.mp hl with rfl | hl
                · simp only [clValue?, hc, hk, ↓reduceIte, Option.some.injEq] at hv
                  subst hv
                  exact ⟨hb1.1, by rw [hp, hb1.2]⟩
                · exact d l hl v hv
      · simp only [hk, ↓reduceIte] at h
        by_cases ht : lower (trim (line.take colon)) = ascii "transfer-encoding"
        · simp only [ht, ↓reduceIte] at h
          obtain ⟨a, b, d⟩ := ih _ hs h hb
          refine ⟨a, b, ?_⟩
          intro l hl v hv
          rcases List.mem_cons.mp hl with rfl | hl
          · simp [clValue?, hc, hk] at hv
          · exact d l hl v hv
        · simp only [ht, ↓reduceIte] at h
          obtain ⟨a, b, d⟩ := ih hs0 hs h hb
          refine ⟨a, b, ?_⟩
          intro l hl v hv
          rcases List.mem_cons.mp hl with rfl | hl
          · simp [clValue?, hc, hk] at hv
          · exact d l hl v hv

/-- what the header scan knows about Transfer-Encoding: `haveTE` iff some line is a Transfer-Encoding line, and
`isChunked` iff the final coding of the LAST such line is exactly `chunked` -/
theorem scanHeaderLines_te : ∀ (ls : List Bytes) (hs0 hs : HdrScan) (acc : Option Bytes),
    scanHeaderLines ls hs0 = some hs →
    hs0.haveTE = acc.isSome → (∀ t, acc = some t → hs0.isChunked = (t == ascii "chunked")) →
    hs.haveTE = (lastTE ls acc).isSome ∧ (∀ t, lastTE ls acc = some t → hs.isChunked = (t == ascii "chunked")) ∧
    (lastTE ls acc = none → hs.isChunked = hs0.isChunked) := by
  intro ls
  induction ls with
  | nil =>
    intro hs0 hs acc h h1 h2
    simp only [scanHeaderLines, Option.some.injEq] at h
    subst h
    exact ⟨h1, h2, fun _ => rfl⟩
  | cons line rest ih =>
    intro hs0 hs acc h h1 h2
    simp only [scanHeaderLines] at h
    simp only [lastTE]
    cases hc : indexOf? (· == 58) line with
    | none =>
      rw [hc] at h
      have : teFinal? line = none := by simp [teFinal?, hc]
      rw [this]
      exact ih hs0 hs acc h h1 h2
    | some colon =>
      rw [hc] at h
      simp only at h
      by_cases hk : lower (trim (line.take colon)) = ascii "content-length"
      · simp only [hk, ↓reduceIte] at h
        have hte : teFinal? line = none := by simp [teFinal?, hc, hk, cl_ne_te']
        rw [hte]
        cases hp : parseFullUInt 10 (trim (line.drop (colon + 1))) with
        | none => rw [hp] at h; cases h
        | some n =>
          rw [hp] at h
          simp only at h
          split at h
          · cases h
          · split at h
            · cases h
            · exact ih { hs0 with contentLength := n, haveCL := true } hs acc h h1 h2
      · simp only [hk, ↓reduceIte] at h
        by_cases ht : lower (trim (line.take colon)) = ascii "transfer-encoding"
        · simp only [ht, ↓reduceIte] at h
          have hte : teFinal? line = some (lastToken (splitOn 44 (lower (trim (line.drop (colon + 1))))) []) := by
            simp [teFinal?, hc, ht]
          rw [hte]
          obtain ⟨a, b, c⟩ := ih _ hs (some (lastToken (splitOn 44 (lower (trim (line.drop (colon + 1))))) [])) h rfl
            (by intro t htt; cases htt; rfl)
          refine ⟨a, b, ?_⟩
          intro hnone
          -- the accumulator is `some _`, so `lastTE … = none` is impossible
          have : ∀ (ls : List Bytes) (t : Bytes), lastTE ls (some t) ≠ none := by
            intro ls
            induction ls with
            | nil => intro t h; cases h
            | cons l ls ih2 =>
              intro t
              simp only [lastTE]
              cases teFinal? l with
              | none => exact ih2 t
              | some t' => exact ih2 t'
          exact absurd hnone (this _ _)
        · simp only [ht, ↓reduceIte] at h
          have hte : teFinal? line = none := by simp [teFinal?, hc, ht]
          rw [hte]
          exact ih hs0 hs acc h h1 h2

/-! ### chunk sizes (server) -/

theorem sizeDigits_le (mb : Nat) : ∀ (l : Bytes) (acc k n d : Nat) (r : Bytes),
    sizeDigits mb l acc k = some (n, d, r) → acc ≤ mb → n ≤ mb ∧ k ≤ d := by
  intro l
  induction l with
  | nil => intro acc k n d r h hacc; simp [sizeDigits] at h; omega
  | cons c cs ih =>
    intro acc k n d r h hacc
    simp only [sizeDigits] at h
    cases hd : digitVal 16 c with
    | none => rw [hd] at h; simp at h; omega
    | some v =>
      rw [hd] at h
      simp only at h
      split at h
      · cases h
      · have := ih _ _ n d r h (by omega)
        omega

/-- an accepted chunk-size line denotes a size within the body limit: every prefix value of the digit run was compared with
`MAX_BODY_SIZE` before the next digit was shifted in, so the accumulator never wraps -/
theorem sizeLine_le (mb : Nat) (line : Bytes) (n : Nat) (h : sizeLine mb line = some n) : n ≤ mb := by
  unfold sizeLine at h
  cases hs : sizeDigits mb line 0 0 with
  | none => rw [hs] at h; cases h
  | some t =>
    obtain ⟨size, digits, rest⟩ := t
    rw [hs] at h
    simp only at h
    have := (sizeDigits_le mb line 0 0 size digits rest hs (Nat.zero_le _)).1
    split at h
    · cases h
    · split at h
      · cases h; exact this
      · cases h

end Iora.Http.Srv
