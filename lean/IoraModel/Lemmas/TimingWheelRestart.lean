import IoraModel.Lemmas.TimingWheel
/-!
Restart of the timing wheel: `stop()`/`drain()` → `reset()` → `start()` (timing_wheel.hpp `reset`, `start` from RESET).

`reset()` restarts the ids at 1 (`_nextId.store(1)`), so timer ids are unique only WITHIN an epoch (the span between two
successful `reset()` calls).  The life of one wheel object is therefore modelled as a list of `ROp`s: ordinary operations, which
extend the history of the CURRENT epoch, and `reset`, which — on a STOPPED wheel, the only state in which the code allows the call
(`assert`) — installs the reset wheel and opens a new, empty epoch history.  The invariant `Inv` of `Lemmas/TimingWheel.lean`
holds for the current epoch of every reachable life (`inv_rrun`), so every W-theorem lifts to histories with any number of restarts;
`Good.stoppedEmpty` adds that a STOPPED wheel holds no entry, i.e. `reset()`'s own `clearAllEntries()` never drops a timer that
conservation (W1) has not already accounted for.
-/
namespace Iora.Wheel

inductive ROp where
  | op (o : Op)
  | reset
  deriving Repr

/-- one wheel object: the wheel, the `(op, answer)` history of the CURRENT epoch, and the number of completed epochs -/
structure Life where
  w : Wheel
  h : Hist
  epochs : Nat

/-- `reset()` on a wheel that is not STOPPED violates the code's `assert` (a contract violation of the caller): no transition -/
def rstep (c : Cfg) (s : Life) : ROp → Life
  | .op o => ⟨(step c s.w o).1, s.h ++ [(o, (step c s.w o).2)], s.epochs⟩
  | .reset => if s.w.state = .stopped then ⟨reset s.w, [], s.epochs + 1⟩ else s

def rrunFrom (c : Cfg) (s : Life) (rops : List ROp) : Life := rops.foldl (rstep c) s

def rrun (c : Cfg) (rops : List ROp) : Life := rrunFrom c ⟨Wheel.init c, [], 0⟩ rops

/-- what `reset()` leaves behind -/
theorem reset_clears (w : Wheel) (h : w.state = .stopped) :
    (reset w).entries = [] ∧ (reset w).nextId = 1 ∧ (reset w).lastAdvance = none ∧ (∀ l, curAt (reset w) l = 0) ∧
    (reset w).cur.length = w.cur.length ∧ (reset w).state = .reset ∧ (reset w).accepting = w.accepting := by
  simp only [reset, h, if_true, true_and, List.length_replicate, and_true]
  intro l
  unfold curAt
  simp only [List.getElem?_replicate]
  split <;> rename_i hh
  · split at hh
    · cases hh; rfl
    · cases hh
  · rfl

theorem reset_inv {c : Cfg} {w : Wheel} {h : Hist} (i : Inv c w h) (hs : w.state = .stopped) : Inv c (reset w) [] := by
  obtain ⟨he, hn, _, _, hl, hst, hacc⟩ := reset_clears w hs
  refine ⟨by simp [ids, he, left, issued], by simp [issued], by simp [issued], by omega, by simp [he], by rw [hl]; exact i.curLen,
          by simp [he], ?_⟩
  intro ha
  rw [hacc, i.not_accepting_of_stopped hs] at ha
  cases ha

/-- a step that ENTERS the STOPPED state is `stop()` or `drain()`: it leaves no entry and a cleared flag -/
theorem step_enters_stopped (c : Cfg) (w : Wheel) (op : Op) (hne : w.state ≠ .stopped) (hs : (step c w op).1.state = .stopped) :
    (step c w op).1.entries = [] ∧ (step c w op).1.accepting = false := by
  cases op with
  | start now =>
    simp only [step, start] at hs
    split at hs
    · cases hs
    · exact absurd hs hne
  | sched now d =>
    simp only [step, schedule] at hs
    split at hs
    · exact absurd hs hne
    · rw [(insertEntry_ctl c _ _ _ _).state] at hs; exact absurd hs hne
  | cancel id =>
    simp only [step, cancel] at hs
    split at hs <;> exact absurd hs hne
  | resched now id d =>
    simp only [step, reschedule] at hs
    split at hs
    · exact absurd hs hne
    · rw [(insertEntry_ctl c _ _ _ _).state] at hs; exact absurd hs hne
  | adv now =>
    simp only [step] at hs
    rw [(advance_spec c w now).2.2.1.state] at hs
    exact absurd hs hne
  | drain now b => simp [step, drain]
  | stop => simp [step, stop]

/-- invariant of every reachable life -/
structure Good (c : Cfg) (s : Life) : Prop where
  inv : Inv c s.w s.h
  /-- a STOPPED wheel holds nothing and accepts nothing: `reset()` finds the wheel already empty -/
  stoppedEmpty : s.w.state = .stopped → s.w.entries = [] ∧ s.w.accepting = false

theorem good_init (c : Cfg) : Good c ⟨Wheel.init c, [], 0⟩ := ⟨Inv.init c, by simp [Wheel.init]⟩

theorem good_rstep (c : Cfg) (s : Life) (r : ROp) (g : Good c s) : Good c (rstep c s r) := by
  cases r with
  | op o =>
    refine ⟨inv_step c s.w s.h o g.inv, ?_⟩
    intro hs
    by_cases h0 : s.w.state = .stopped
    · obtain ⟨he, ha⟩ := g.stoppedEmpty h0
      exact dead_step c s.w o h0 ha he
    · exact step_enters_stopped c s.w o h0 hs
  | reset =>
    simp only [rstep]
    split
    · rename_i hs
      refine ⟨reset_inv g.inv hs, ?_⟩
      intro h
      rw [(reset_clears s.w hs).2.2.2.2.2.1] at h
      cases h
    · exact g

theorem good_rrunFrom (c : Cfg) : ∀ (rops : List ROp) (s : Life), Good c s → Good c (rrunFrom c s rops)
  | [], _, g => g
  | r :: rops, s, g => good_rrunFrom c rops (rstep c s r) (good_rstep c s r g)

theorem good_rrun (c : Cfg) (rops : List ROp) : Good c (rrun c rops) := good_rrunFrom c rops _ (good_init c)

theorem inv_rrun (c : Cfg) (rops : List ROp) : Inv c (rrun c rops).w (rrun c rops).h := (good_rrun c rops).inv

/-- a life without `reset` is an ordinary run -/
theorem rrunFrom_ops (c : Cfg) : ∀ (ops : List Op) (s : Life),
    (rrunFrom c s (ops.map .op)).w = (runFrom c s.w s.h ops).1 ∧ (rrunFrom c s (ops.map .op)).h = (runFrom c s.w s.h ops).2
  | [], _ => ⟨rfl, rfl⟩
  | o :: ops, s => by
    simp only [List.map_cons, rrunFrom, List.foldl_cons, runFrom]
    exact rrunFrom_ops c ops (rstep c s (.op o))

/-! ### the W-theorems from the invariant alone (so that they apply to the current epoch of any life) -/

theorem Inv.fired_nodup {c : Cfg} {w : Wheel} {h : Hist} (i : Inv c w h) :
    (fired h).Nodup ∧ ∀ a ∈ fired h, a ∈ issued h ∧ a ∉ ids w := by
  have hnd := i.ids_nodup
  have hl : (left h).Nodup := (List.nodup_append.mp hnd).2.1
  refine ⟨?_, ?_⟩
  · rw [List.nodup_iff_count] at hl ⊢
    exact fun a => Nat.le_trans (fired_count_le a _) (hl a)
  · intro a ha
    have hal := fired_sub_left _ a ha
    exact ⟨i.perm.subset (List.mem_append_right _ hal), fun hp => (List.nodup_append.mp hnd).2.2 a hp a hal rfl⟩

theorem Inv.not_early {c : Cfg} {w : Wheel} {h : Hist} (i : Inv c w h) (hc : 0 ≤ c.tick) (now : Int) :
    ∀ e ∈ (advance c w now).2, lastDeadline h e.id = some e.deadline ∧ e.deadline - now ≤ c.tick * nsPerMs := by
  intro e he
  obtain ⟨hk, hd, _⟩ := advance_spec c w now
  obtain ⟨e0, h0, hid, hdl⟩ := mem_of_keys hk (List.mem_append_right _ he)
  exact ⟨hid ▸ hdl ▸ i.dl e0 h0, (hd e he).not_early hc⟩

end Iora.Wheel
