import IoraModel.Lemmas.TpLock
/-! # C09 — with `Cfg.allowRestart = false` no controller ever is inside `reset()` / `start()` -/
namespace Iora.ThreadPool

theorem pollExit_nrs (sh : Shared) (r : MRegs) (k : Poll) (d : Bool) : restartPc (pollExit sh r k d).2.1 = false := by
  unfold pollExit drainReturn; (repeat' split) <;> simp [restartPc]
theorem pollHead_nrs (sh : Shared) (r : MRegs) (k : Poll) : restartPc (pollHead sh r k).2.1 = false := by
  unfold pollHead; split
  · simp [restartPc]
  · exact pollExit_nrs sh r k false
theorem stepMYield_nrs (cfg : Cfg) (h : cfg.allowRestart = false) (sh : Shared) (r : MRegs) : restartPc (stepMYield cfg sh r).2.1 = false := by
  unfold stepMYield drainEnter; (repeat' split) <;> simp_all [restartPc]
theorem drainReturn_nrs (sh : Shared) (r : MRegs) (b : Bool) : restartPc (drainReturn sh r b).2.1 = false := by
  unfold drainReturn; (repeat' split) <;> simp [restartPc]
theorem shutdownReturn_nrs (sh : Shared) (r : MRegs) : restartPc (shutdownReturn sh r).2.1 = false := by
  unfold shutdownReturn; (repeat' split) <;> simp [restartPc]
theorem dtorReturn_nrs (sh : Shared) (r : MRegs) : restartPc (dtorReturn sh r).2.1 = false := by
  unfold dtorReturn; simp [restartPc]
theorem dtorEarly_nrs (sh : Shared) (r : MRegs) : restartPc (dtorEarly sh r).2.1 = false := by
  unfold dtorEarly; split
  · exact dtorReturn_nrs sh r
  · simp [restartPc]

theorem transM_nrs (cfg : Cfg) (hr : cfg.allowRestart = false) (sh : Shared) (n t : Nat) (pc : MPc) (r : MRegs) (alt : Nat)
    (h : restartPc pc = false) : restartPc (transM cfg sh n t pc r alt).2.1.1 = false := by
  cases pc with
  | inCall c => simp only [transM]; cases (callStep cfg sh n t c).2.1 <;> simp [restartPc]
  | mYield => simp only [transM]; exact stepMYield_nrs cfg hr sh r
  | dInfU => simp only [transM]; exact pollHead_nrs _ _ _
  | pollZ k => simp only [transM]; exact pollHead_nrs _ _ _
  | p2Grace => simp only [transM]; exact pollHead_nrs _ _ _
  | p5U => simp only [transM]; exact dtorReturn_nrs _ _
  | pollU k => simp only [transM]; split; exact pollExit_nrs _ _ _ _; simp [restartPc]
  | finU k => cases k <;> simp only [transM] <;> first | exact drainReturn_nrs _ _ _ | simp [restartPc]
  | sFlagUA ep =>
    simp only [transM]; split
    · exact dtorEarly_nrs _ _
    · split
      · exact shutdownReturn_nrs _ _
      · simp [restartPc]
  | sDoneZ ep => simp only [transM]; split; exact shutdownReturn_nrs _ _; simp [restartPc]
  | sBcast => simp only [transM]; split; simp [restartPc]; exact pollHead_nrs _ _ _
  | sChkU => simp only [transM]; split; exact pollHead_nrs _ _ _; simp [restartPc]
  | jUnone => simp only [transM]; split; simp [restartPc]; exact shutdownReturn_nrs _ _
  | p2Z =>
    simp only [transM]; split
    · simp [restartPc]
    · split
      · simp [restartPc]
      · exact pollHead_nrs _ _ _
  | rsL => simp [restartPc] at h
  | rsU => simp [restartPc] at h
  | stL => simp [restartPc] at h
  | stU => simp [restartPc] at h
  | kL => simp [restartPc] at h
  | kC => simp [restartPc] at h
  | kU => simp [restartPc] at h
  | _ => simp only [transM] <;> (repeat' split) <;> simp [restartPc]

/-- is the thread inside `reset()` / `start()`? -/
def restartTh : Thread → Bool
  | .main pc _ => restartPc pc
  | _ => false

@[simp] theorem restartTh_wake (x : Thread) (b : Bool) : restartTh (wake x b) = restartTh x := by
  unfold wake; split <;> simp [restartTh]

def NoRs (s : St) : Prop := AllT (fun _ _ th => restartTh th = false) s

theorem noRs_init (cfg : Cfg) : NoRs (init cfg) := by
  intro t th h
  simp [init] at h
  cases t with
  | zero => simp at h; rw [← h]; rfl
  | succ k => simp at h

theorem noRs_step (cfg : Cfg) (hr : cfg.allowRestart = false) (s : St) (c : Choice) (h : NoRs s) : NoRs (step cfg s c) := by
  · apply allT_step cfg _ s c h
    · intro t th b _ _ hp; rw [restartTh_wake]; exact hp
    · intro t th to late hget _ _
      exact ⟨rfl, fun t' x _ hx => h t' x hx⟩
    · intro t th alt hget _ _ _ _
      refine ⟨?_, fun t' x _ hx => ⟨h t' x hx, fun _ => by rw [restartTh_wake]; exact h t' x hx⟩, ?_⟩
      · have h0 := h t th hget
        cases th with
        | main pc r => simp only [trans, restartTh] at h0 ⊢; exact transM_nrs cfg hr s.sh _ t pc r alt h0
        | sub x => rfl
        | worker x => rfl
      · intro nt hnt
        have := trans_spawn cfg s.sh s.thr.length t th alt nt hnt
        cases nt with
        | main pc r => cases pc <;> simp [isFresh] at this; rfl
        | sub x => rfl
        | worker x => rfl

theorem noRs_run (cfg : Cfg) (hr : cfg.allowRestart = false) (sched : List Choice) : NoRs (run cfg sched) :=
  inv_run cfg NoRs (noRs_init cfg) (fun s c h => noRs_step cfg hr s c h) sched

end Iora.ThreadPool
