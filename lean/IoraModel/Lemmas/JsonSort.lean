import IoraModel.Lemmas.JsonSer
/-! Lemmas for J2 with `sortKeys` (C13): the sorted serializer is the unsorted serializer applied to `sortDeep v`,
and `sortDeep v` equals `v` for `Json::operator==`. -/
namespace Iora.Json.Spec
open Iora Iora.Json

theorem sortDeepList_eq (xs : List Json) : sortDeepList xs = xs.map sortDeep := by
  induction xs with
  | nil => rfl
  | cons x xs ih => simp [sortDeepList, ih]

theorem sortDeepMembers_eq (ms : List (Bytes × Json)) : sortDeepMembers ms = ms.map (fun kv => (kv.1, sortDeep kv.2)) := by
  induction ms with
  | nil => rfl
  | cons m ms ih => obtain ⟨k, v⟩ := m; simp [sortDeepMembers, ih]

theorem serMembers_eq (ops : FloatOps) (o : Opts) (d : Nat) (ms : List (Bytes × Json)) :
    serMembers ops o d ms = ms.map (fun kv => (kv.1, serialize ops o (d + 1) kv.2)) := by
  induction ms with
  | nil => rfl
  | cons m ms ih => obtain ⟨k, v⟩ := m; simp [serMembers, ih]

theorem goodMembers_iff (ms : List (Bytes × Json)) : Json.GoodMembers ms ↔ ∀ kv ∈ ms, kv.2.Good := by
  induction ms with
  | nil => simp [Json.GoodMembers]
  | cons m ms ih => obtain ⟨k, v⟩ := m; simp [Json.GoodMembers, ih]

theorem goodList_iff (xs : List Json) : Json.GoodList xs ↔ ∀ x ∈ xs, x.Good := by
  induction xs with
  | nil => simp [Json.GoodList]
  | cons x xs ih => simp [Json.GoodList, ih]

theorem withinMembers_iff (lim : Limits) (s d : Nat) (ms : List (Bytes × Json)) :
    Json.withinMembers lim s d ms ↔ ∀ kv ∈ ms, kv.1.length ≤ lim.stringLengthMax + s ∧ kv.2.within lim s d := by
  induction ms with
  | nil => simp [Json.withinMembers]
  | cons m ms ih => obtain ⟨k, v⟩ := m; simp [Json.withinMembers, ih, and_assoc]

theorem withinList_iff (lim : Limits) (s d : Nat) (xs : List Json) :
    Json.withinList lim s d xs ↔ ∀ x ∈ xs, x.within lim s d := by
  induction xs with
  | nil => simp [Json.withinList]
  | cons x xs ih => simp [Json.withinList, ih]

theorem utf8Members_iff (ms : List (Bytes × Json)) : Json.utf8Members ms ↔ ∀ kv ∈ ms, ValidUtf8 kv.1 ∧ kv.2.utf8 := by
  induction ms with
  | nil => simp [Json.utf8Members]
  | cons m ms ih => obtain ⟨k, v⟩ := m; simp [Json.utf8Members, ih, and_assoc]

theorem utf8List_iff (xs : List Json) : Json.utf8List xs ↔ ∀ x ∈ xs, x.utf8 := by
  induction xs with
  | nil => simp [Json.utf8List]
  | cons x xs ih => simp [Json.utf8List, ih]

theorem eqvMembers_iff (ms ns : List (Bytes × Json)) :
    eqvMembers ms ns = true ↔ ∀ kv ∈ ms, ∃ w, lookupKey kv.1 ns = some w ∧ eqv kv.2 w = true := by
  induction ms with
  | nil => simp [eqvMembers]
  | cons m ms ih =>
    obtain ⟨k, v⟩ := m
    simp only [eqvMembers, Bool.and_eq_true, ih, List.mem_cons, forall_eq_or_imp]
    cases hl : lookupKey k ns with
    | none => simp
    | some w => simp

theorem eqvList_map (xs : List Json) (f : Json → Json) (h : ∀ x ∈ xs, eqv x (f x) = true) : eqvList xs (xs.map f) = true := by
  induction xs with
  | nil => rfl
  | cons x xs ih =>
    simp only [List.map_cons, eqvList, Bool.and_eq_true]
    exact ⟨h x (by simp), ih (fun y hy => h y (by simp [hy]))⟩

/-- `find` does not depend on the order of a list with pairwise distinct keys -/
theorem lookupKey_perm {l1 l2 : List (Bytes × Json)} (h : l1.Perm l2) (k : Bytes) :
    (l1.map Prod.fst).Nodup → lookupKey k l1 = lookupKey k l2 := by
  induction h with
  | nil => intro _; rfl
  | cons x _ ih =>
    intro hn
    obtain ⟨kx, vx⟩ := x
    simp only [List.map_cons, List.nodup_cons] at hn
    simp only [lookupKey]
    split
    · rfl
    · exact ih hn.2
  | swap x y l =>
    intro hn
    obtain ⟨kx, vx⟩ := x
    obtain ⟨ky, vy⟩ := y
    simp only [List.map_cons, List.nodup_cons, List.mem_cons, not_or] at hn
    simp only [lookupKey]
    by_cases h1 : ky = k <;> by_cases h2 : kx = k <;> simp [h1, h2]
    exact absurd (h1.trans h2.symm) hn.1.1
  | trans h12 _ ih1 ih2 =>
    intro hn
    rw [ih1 hn, ih2 ((h12.map Prod.fst).nodup hn)]

theorem lookupKey_map_mem (ms : List (Bytes × Json)) (f : Json → Json) (k : Bytes) (v : Json)
    (hn : (ms.map Prod.fst).Nodup) (hm : (k, v) ∈ ms) :
    lookupKey k (ms.map (fun kv => (kv.1, f kv.2))) = some (f v) := by
  induction ms with
  | nil => cases hm
  | cons m ms ih =>
    obtain ⟨k', v'⟩ := m
    simp only [List.map_cons, List.nodup_cons] at hn
    simp only [List.mem_cons, Prod.mk.injEq] at hm
    simp only [List.map_cons, lookupKey]
    rcases hm with ⟨rfl, rfl⟩ | hm
    · simp
    · have : k' ≠ k := by
        intro e; subst e
        exact hn.1 (List.mem_map.mpr ⟨(k', v), hm, rfl⟩)
      rw [if_neg this]
      exact ih hn.2 hm

/-- a finite double equals itself for `operator==` -/
theorem dblEq_self_of_finite (d : UInt64) (h : isFiniteBits d = true) : dblEq d d = true := by
  have hn : isNaNBits d = false := by
    simp only [isFiniteBits, decide_eq_true_eq] at h
    simp only [isNaNBits, decide_eq_false_iff_not, not_and]
    intro h'; exact absurd h' h
  simp [dblEq, hn]

theorem joinMembers_sortKeys (o : Opts) (b : Bool) (d : Nat) (items : List (Bytes × Bytes)) :
    joinMembers { o with sortKeys := b } d items = joinMembers o d items := by
  induction items with
  | nil => rfl
  | cons i items ih => obtain ⟨k, sv⟩ := i; simp only [joinMembers, ih]; rfl

section
variable (ops : FloatOps) (o : Opts)

/-- what the induction carries for every value -/
def SortP (v : Json) : Prop :=
  (∀ d, serialize ops { o with sortKeys := true } d v = serialize ops { o with sortKeys := false } d (sortDeep v)) ∧
  (v.Good → (sortDeep v).Good) ∧
  (∀ lim s d, v.within lim s d → (sortDeep v).within lim s d) ∧
  (v.Good → eqv v (sortDeep v) = true) ∧
  (v.utf8 → (sortDeep v).utf8)

theorem serElems_sorted (xs : List Json) (h : ∀ x ∈ xs, SortP ops o x) (d : Nat) :
    serElems ops { o with sortKeys := true } d xs = serElems ops { o with sortKeys := false } d (sortDeepList xs) := by
  induction xs with
  | nil => rfl
  | cons x xs ih =>
    have hx := (h x (by simp)).1 (d + 1)
    have ih' := ih (fun y hy => h y (by simp [hy]))
    have he : (sortDeepList xs).isEmpty = xs.isEmpty := by rw [sortDeepList_eq]; simp
    simp only [sortDeepList, serElems, hx, ih', he]
    rfl

theorem sortP_arr (xs : List Json) (h : ∀ x ∈ xs, SortP ops o x) : SortP ops o (.arr xs) := by
  refine ⟨?_, ?_, ?_, ?_, ?_⟩
  · intro d
    have he : (sortDeepList xs).isEmpty = xs.isEmpty := by rw [sortDeepList_eq]; simp
    simp only [sortDeep, serialize, serElems_sorted ops o xs h d, he]
    rfl
  · intro hg
    simp only [Json.Good, sortDeep, goodList_iff, sortDeepList_eq] at hg ⊢
    intro y hy
    obtain ⟨x, hx, rfl⟩ := List.mem_map.mp hy
    exact (h x hx).2.1 (hg x hx)
  · intro lim s d hw
    simp only [Json.within, sortDeep, withinList_iff, sortDeepList_eq, List.length_map] at hw ⊢
    refine ⟨hw.1, hw.2.1, ?_⟩
    intro y hy
    obtain ⟨x, hx, rfl⟩ := List.mem_map.mp hy
    exact (h x hx).2.2.1 lim s (d + 1) (hw.2.2 x hx)
  · intro hg
    simp only [Json.Good, goodList_iff] at hg
    simp only [sortDeep, eqv, sortDeepList_eq]
    exact eqvList_map xs sortDeep (fun x hx => (h x hx).2.2.2.1 (hg x hx))
  · intro hu
    simp only [Json.utf8, sortDeep, utf8List_iff, sortDeepList_eq] at hu ⊢
    intro y hy
    obtain ⟨x, hx, rfl⟩ := List.mem_map.mp hy
    exact (h x hx).2.2.2.2 (hu x hx)

theorem sortP_obj (ms : List (Bytes × Json)) (h : ∀ kv ∈ ms, SortP ops o kv.2) : SortP ops o (.obj ms) := by
  have hperm : (sortMs (sortDeepMembers ms)).Perm (sortDeepMembers ms) := List.mergeSort_perm _ _
  have hkeys : (sortDeepMembers ms).map Prod.fst = ms.map Prod.fst := by
    rw [sortDeepMembers_eq]; simp [List.map_map, Function.comp_def]
  have hlen : (sortMs (sortDeepMembers ms)).length = ms.length := by
    rw [hperm.length_eq, sortDeepMembers_eq]; simp
  refine ⟨?_, ?_, ?_, ?_, ?_⟩
  · intro d
    have he : (sortMs (sortDeepMembers ms)).isEmpty = ms.isEmpty := by
      cases ms with
      | nil => simp [sortDeepMembers, sortMs]
      | cons m ms' =>
        have : (sortMs (sortDeepMembers (m :: ms'))).length ≠ 0 := by rw [hlen]; simp
        cases hs : sortMs (sortDeepMembers (m :: ms')) with
        | nil => rw [hs] at this; simp at this
        | cons _ _ => rfl
    have hmap : serMembers ops { o with sortKeys := false } d (sortMs (sortDeepMembers ms))
        = sortItems (serMembers ops { o with sortKeys := true } d ms) := by
      rw [serMembers_eq, serMembers_eq, sortMs, sortItems]
      have := List.map_mergeSort (r := fun (a b : Bytes × Json) => bytesLe a.1 b.1)
        (s := fun (a b : Bytes × Bytes) => bytesLe a.1 b.1)
        (f := fun kv => (kv.1, serialize ops { o with sortKeys := false } (d + 1) kv.2))
        (l := sortDeepMembers ms) (fun a _ b _ => rfl)
      rw [this]
      congr 1
      rw [sortDeepMembers_eq, List.map_map]
      apply List.map_congr_left
      intro kv hkv
      simp only [Function.comp_def]
      rw [(h kv hkv).1 (d + 1)]
    simp only [sortDeep, serialize, he, hmap, ↓reduceIte, joinMembers_sortKeys]
    rfl
  · intro hg
    simp only [Json.Good, sortDeep] at hg ⊢
    refine ⟨?_, ?_⟩
    · have := (hperm.map Prod.fst).nodup_iff
      rw [this, hkeys]; exact hg.1
    · rw [goodMembers_iff] at hg ⊢
      intro kv hkv
      have hkv' := (hperm.mem_iff).mp hkv
      rw [sortDeepMembers_eq] at hkv'
      obtain ⟨kv0, h0, rfl⟩ := List.mem_map.mp hkv'
      exact (h kv0 h0).2.1 (hg.2 kv0 h0)
  · intro lim s d hw
    simp only [Json.within, sortDeep] at hw ⊢
    refine ⟨hw.1, by rw [hlen]; exact hw.2.1, ?_⟩
    rw [withinMembers_iff] at hw ⊢
    intro kv hkv
    have hkv' := (hperm.mem_iff).mp hkv
    rw [sortDeepMembers_eq] at hkv'
    obtain ⟨kv0, h0, rfl⟩ := List.mem_map.mp hkv'
    exact ⟨(hw.2.2 kv0 h0).1, (h kv0 h0).2.2.1 lim s (d + 1) (hw.2.2 kv0 h0).2⟩
  · intro hg
    simp only [Json.Good] at hg
    have hg2 := (goodMembers_iff ms).mp hg.2
    simp only [sortDeep, eqv, Bool.and_eq_true, beq_iff_eq]
    refine ⟨hlen.symm, ?_⟩
    rw [eqvMembers_iff]
    intro kv hkv
    have hnd : ((sortMs (sortDeepMembers ms)).map Prod.fst).Nodup := by
      rw [(hperm.map Prod.fst).nodup_iff, hkeys]; exact hg.1
    refine ⟨sortDeep kv.2, ?_, (h kv hkv).2.2.2.1 (hg2 kv hkv)⟩
    rw [lookupKey_perm hperm kv.1 hnd, sortDeepMembers_eq, lookupKey_map_mem ms sortDeep kv.1 kv.2 hg.1 hkv]
  · intro hu
    simp only [Json.utf8, sortDeep] at hu ⊢
    rw [utf8Members_iff] at hu ⊢
    intro kv hkv
    have hkv' := (hperm.mem_iff).mp hkv
    rw [sortDeepMembers_eq] at hkv'
    obtain ⟨kv0, h0, rfl⟩ := List.mem_map.mp hkv'
    exact ⟨(hu kv0 h0).1, (h kv0 h0).2.2.2.2 (hu kv0 h0).2⟩

theorem sortP_scalar (v : Json) (hs : sortDeep v = v) (hser : ∀ d, serialize ops { o with sortKeys := true } d v
    = serialize ops { o with sortKeys := false } d v) (he : v.Good → eqv v v = true) : SortP ops o v := by
  refine ⟨fun d => by rw [hs, hser], fun hg => by rw [hs]; exact hg, fun lim s d hw => by rw [hs]; exact hw,
    fun hg => by rw [hs]; exact he hg, fun hu => by rw [hs]; exact hu⟩

theorem sortP_all (v : Json) : SortP ops o v :=
  Json.rec (motive_1 := SortP ops o) (motive_2 := fun xs => ∀ x ∈ xs, SortP ops o x)
    (motive_3 := fun ms => ∀ kv ∈ ms, SortP ops o kv.2) (motive_4 := fun kv => SortP ops o kv.2)
    (sortP_scalar ops o _ rfl (fun _ => rfl) (fun _ => rfl))
    (fun b => sortP_scalar ops o _ rfl (fun _ => rfl) (fun _ => by simp [eqv]))
    (fun i => sortP_scalar ops o _ rfl (fun _ => rfl) (fun _ => by simp [eqv]))
    (fun d => sortP_scalar ops o _ rfl (fun _ => rfl) (fun hg => by
      simp only [Json.Good] at hg
      simp only [eqv]
      exact dblEq_self_of_finite d hg))
    (fun s => sortP_scalar ops o _ rfl (fun _ => rfl) (fun _ => by simp [eqv]))
    (fun xs ih => sortP_arr ops o xs ih) (fun ms ih => sortP_obj ops o ms ih)
    (fun _ h => by cases h)
    (fun x xs ihx ihxs y hy => by
      simp only [List.mem_cons] at hy
      rcases hy with rfl | hy
      · exact ihx
      · exact ihxs y hy)
    (fun _ h => by cases h)
    (fun kv ms ihkv ihms y hy => by
      simp only [List.mem_cons] at hy
      rcases hy with rfl | hy
      · exact ihkv
      · exact ihms y hy)
    (fun _ _ ih => ih) v

end

/-- **J2** (sorted keys): the text parses back to `sortDeep v`, which is `v` up to member order (`Json::operator==`) -/
theorem parse_serialize_sorted (ops : FloatOps) (hl : LibcOk ops) (lim : Limits) (o : Opts) (wi : Ws) (hind : wi.render = o.indent)
    (v : Json) (hg : v.Good) (hw : v.within lim 0 0) :
    parse ops lim (serialize ops { o with sortKeys := true } 0 v) = .ok (sortDeep v) ∧ eqv v (sortDeep v) = true := by
  obtain ⟨h1, h2, h3, h4, -⟩ := sortP_all ops o v
  refine ⟨?_, h4 hg⟩
  rw [h1 0]
  exact parse_serialize ops hl lim { o with sortKeys := false } wi hind rfl (sortDeep v) (h2 hg) (h3 lim 0 0 hw)

end Iora.Json.Spec
