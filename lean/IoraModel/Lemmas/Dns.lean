import IoraModel.Model.Dns
/-! Helper lemmas for C19 (names): fuel bound of the name loop. -/
namespace Iora.Dns
open Iora

/-! ### reads -/

theorem rd_error {m : Bytes} {i : Nat} {e : Err} (h : rd m i = .error e) : e = .oob := by
  unfold rd at h
  split at h <;> cases h
  rfl

theorem rd_ok {m : Bytes} {i : Nat} (h : i < m.length) : rd m i = .ok m[i] := by
  unfold rd
  simp [List.getElem?_eq_getElem h]

theorem rd_ok_iff {m : Bytes} {i : Nat} {b : UInt8} : rd m i = .ok b ↔ m[i]? = some b := by
  unfold rd
  split
  · rename_i b' hb; rw [hb]; constructor
    · intro h; cases h; rfl
    · intro h; cases h; rfl
  · rename_i hn; rw [hn]; constructor <;> intro h <;> cases h

theorem rd16_ok {m : Bytes} {i : Nat} (h : i + 1 < m.length) :
    rd16 m i = .ok (m[i].toNat * 256 + m[i + 1].toNat) := by
  unfold rd16
  rw [rd_ok (by omega : i < m.length), rd_ok h]
  rfl

theorem rd16_error {m : Bytes} {i : Nat} {e : Err} (h : rd16 m i = .error e) : e = .oob := by
  unfold rd16 at h
  cases h1 : rd m i with
  | error e1 =>
    rw [h1] at h
    cases h
    exact rd_error h1
  | ok a =>
    rw [h1] at h
    cases h2 : rd m (i + 1) with
    | error e2 =>
      rw [h2] at h
      cases h
      exact rd_error h2
    | ok b =>
      rw [h2] at h
      cases h

theorem rd16_ok_inv {m : Bytes} {i w : Nat} (h : rd16 m i = .ok w) :
    ∃ b b2 : UInt8, m[i]? = some b ∧ m[i + 1]? = some b2 ∧ w = b.toNat * 256 + b2.toNat := by
  unfold rd16 at h
  cases h1 : rd m i with
  | error e1 => rw [h1] at h; cases h
  | ok a =>
    rw [h1] at h
    cases h2 : rd m (i + 1) with
    | error e2 => rw [h2] at h; cases h
    | ok b =>
      rw [h2] at h
      cases h
      exact ⟨a, b, rd_ok_iff.mp h1, rd_ok_iff.mp h2, rfl⟩

theorem rd16_lt {m : Bytes} {i w : Nat} (h : rd16 m i = .ok w) : w < 65536 := by
  unfold rd16 at h
  cases h1 : rd m i with
  | error e1 => rw [h1] at h; cases h
  | ok a =>
    rw [h1] at h
    cases h2 : rd m (i + 1) with
    | error e2 => rw [h2] at h; cases h
    | ok b =>
      rw [h2] at h
      cases h
      have := a.toNat_lt
      have := b.toNat_lt
      omega

theorem copy_ok {m : Bytes} {o n : Nat} (h : o + n ≤ m.length) : copy m o n = .ok (slice m o n) := by
  unfold copy; rw [if_pos h]

theorem copy_error {m : Bytes} {o n : Nat} {e : Err} (h : copy m o n = .error e) : e = .oob := by
  unfold copy at h; split at h <;> cases h; rfl

theorem copy_ok_inv {m : Bytes} {o n : Nat} {x : Bytes} (h : copy m o n = .ok x) : x = slice m o n ∧ o + n ≤ m.length := by
  unfold copy at h; split at h
  · cases h; exact ⟨rfl, by assumption⟩
  · cases h

/-- potential of a loop state: compression pointers still allowed + labels still possible + 1 -/
def pot (s : NSt) : Nat :=
  (Gen.Dns.maxJumps - s.jumps) + (Gen.Dns.maxName - 1 - s.total) / 2 + 1

theorem decodeGo_fuel (m : Bytes) : ∀ (f : Nat) (s : NSt), s.total + 1 ≤ Gen.Dns.maxName → s.jumps ≤ Gen.Dns.maxJumps → pot s ≤ f →
    decodeGo m f s ≠ .error .fuel := by
  intro f
  induction f with
  | zero => intro s _ _ hp; simp [pot] at hp
  | succ f ih =>
    intro s ht hj hp
    simp only [decodeGo]
    split
    · split
      · rename_i e he
        intro h
        cases h
        cases rd_error he
      · rename_i b hb
        split
        · split
          · simp
          · split
            · rename_i e he
              intro h; cases h
              cases rd16_error he
            · rename_i w hw
              split
              · simp
              · split
                · simp
                · split
                  · simp
                  · rename_i hcap
                    simp only [Gen.Dns.hasJumpCap, Bool.true_and, decide_eq_true_eq] at hcap
                    apply ih
                    · exact ht
                    · show s.jumps + 1 ≤ Gen.Dns.maxJumps
                      omega
                    · simp only [pot] at hp ⊢
                      show (Gen.Dns.maxJumps - (s.jumps + 1)) + (Gen.Dns.maxName - 1 - s.total) / 2 + 1 ≤ f
                      omega
        · split
          · simp
          · split
            · simp
            · split
              · simp
              · split
                · rename_i e he
                  intro h; cases h
                  cases copy_error he
                · split
                  · simp
                  · rename_i h0 _ _ _ _ hle
                    have hroot : rootOctet = 1 := rfl
                    have hmax : Gen.Dns.maxName = 255 := rfl
                    rw [hroot, hmax] at hle
                    rw [hmax] at ht
                    apply ih
                    · show s.total + (b.toNat + 1) + 1 ≤ Gen.Dns.maxName
                      rw [hmax]; omega
                    · exact hj
                    · simp only [pot] at hp ⊢
                      show (Gen.Dns.maxJumps - s.jumps) + (Gen.Dns.maxName - 1 - (s.total + (b.toNat + 1))) / 2 + 1 ≤ f
                      rw [hmax] at hp ⊢
                      omega
    · split <;> simp

theorem pot_init (m : Bytes) (off : Nat) : pot { off := off, orig := off } ≤ nameFuel m := by
  simp only [pot, nameFuel, Gen.Dns.hasJumpCap, ↓reduceIte, Gen.Dns.maxName, Gen.Dns.maxJumps]
  omega

/-- N4: the name loop never runs out of fuel, for arbitrary bytes and any start offset -/
theorem decodeName_no_fuel (m : Bytes) (off : Nat) : decodeName m off ≠ .error .fuel := by
  unfold decodeName
  apply decodeGo_fuel
  · simp [Gen.Dns.maxName]
  · simp
  · exact pot_init m off

/-- the fuel is a constant: the number of loop iterations per name does not depend on the message -/
theorem nameFuel_const (m : Bytes) : nameFuel m = 257 := by
  simp [nameFuel, Gen.Dns.hasJumpCap, Gen.Dns.maxName, Gen.Dns.maxJumps]

end Iora.Dns
