import IoraModel.Model.Dns
/-! Helper lemmas for C19 (names): fuel bound of the name loop. -/
namespace Iora.Dns
open Iora

/-! ### reads -/

theorem rd_error {m : Bytes} {i : Nat} {e : Err} (h : rd m i = .error e) : e = .oob := by
  unfold rd at h
  split at h <;> cases h
  rfl

theorem rd_ok {m : Bytes} {i : Nat} (h : i < m.length) : rd m i = .ok m[i] := by
  unfold rd
  simp [List.getElem?_eq_getElem h]

theorem rd_ok_iff {m : Bytes} {i : Nat} {b : UInt8} : rd m i = .ok b ↔ m[i]? = some b := by
  unfold rd
  split
  · rename_i b' hb; rw [hb]; constructor
    · intro h; cases h; rfl
    · intro h; cases h; rfl
  · rename_i hn; rw [hn]; constructor <;> intro h <;> cases h

theorem rd16_ok {m : Bytes} {i : Nat} (h : i + 1 < m.length) :
    rd16 m i = .ok (m[i].toNat * 256 + m[i + 1].toNat) := by
  unfold rd16
  rw [rd_ok (by omega : i < m.length), rd_ok h]
  rfl

theorem rd16_error {m : Bytes} {i : Nat} {e : Err} (h : rd16 m i = .error e) : e = .oob := by
  unfold rd16 at h
  cases h1 : rd m i with
  | error e1 =>
    rw [h1] at h
    cases h
    exact rd_error h1
  | ok a =>
    rw [h1] at h
    cases h2 : rd m (i + 1) with
    | error e2 =>
      rw [h2] at h
      cases h
      exact rd_error h2
    | ok b =>
      rw [h2] at h
      cases h

theorem rd16_ok_inv {m : Bytes} {i w : Nat} (h : rd16 m i = .ok w) :
    ∃ b b2 : UInt8, m[i]? = some b ∧ m[i + 1]? = some b2 ∧ w = b.toNat * 256 + b2.toNat := by
  unfold rd16 at h
  cases h1 : rd m i with
  | error e1 => rw [h1] at h; cases h
  | ok a =>
    rw [h1] at h
    cases h2 : rd m (i + 1) with
    | error e2 => rw [h2] at h; cases h
    | ok b =>
      rw [h2] at h
      cases h
      exact ⟨a, b, rd_ok_iff.mp h1, rd_ok_iff.mp h2, rfl⟩

theorem rd16_lt {m : Bytes} {i w : Nat} (h : rd16 m i = .ok w) : w < 65536 := by
  unfold rd16 at h
  cases h1 : rd m i with
  | error e1 => rw [h1] at h; cases h
  | ok a =>
    rw [h1] at h
    cases h2 : rd m (i + 1) with
    | error e2 => rw [h2] at h; cases h
    | ok b =>
      rw [h2] at h
      cases h
      have := a.toNat_lt
      have := b.toNat_lt
      omega

/-- number of elements of `l` that are not in `V` (candidate pointer targets not yet visited) -/
def unv (V : List Nat) : List Nat → Nat
  | [] => 0
  | x :: xs => (if V.contains x then 0 else 1) + unv V xs

theorem unv_le_length (V : List Nat) (l : List Nat) : unv V l ≤ l.length := by
  induction l with
  | nil => simp [unv]
  | cons x xs ih => simp only [unv, List.length_cons]; split <;> omega

theorem contains_cons_ne (V : List Nat) (p x : Nat) (hx : x ≠ p) : (p :: V).contains x = V.contains x := by
  simp [hx]

theorem unv_cons_le (V : List Nat) (p : Nat) (l : List Nat) : unv (p :: V) l ≤ unv V l := by
  induction l with
  | nil => simp [unv]
  | cons x xs ih =>
    simp only [unv]
    by_cases hx : x = p
    · subst hx
      have : (x :: V).contains x = true := by simp
      rw [this]
      simp only [↓reduceIte]
      split <;> omega
    · rw [contains_cons_ne V p x hx]
      omega

theorem unv_cons_lt (V : List Nat) (p : Nat) (l : List Nat) (hp : p ∈ l) (hn : V.contains p = false) :
    unv (p :: V) l + 1 ≤ unv V l := by
  induction l with
  | nil => cases hp
  | cons x xs ih =>
    simp only [unv]
    by_cases hx : x = p
    · subst hx
      have h1 := unv_cons_le V x xs
      have : (x :: V).contains x = true := by simp
      rw [this, hn]
      simp
      omega
    · have hp' : p ∈ xs := by
        cases hp with
        | head => exact absurd rfl hx
        | tail _ h => exact h
      have := ih hp'
      rw [contains_cons_ne V p x hx]
      omega

/-- potential of a loop state: unvisited pointer targets + remaining labels + 1 -/
def pot (m : Bytes) (s : NSt) : Nat :=
  unv s.visited (List.range m.length) + (Gen.Dns.maxName - s.total) / 2 + 1

theorem decodeGo_fuel (m : Bytes) : ∀ (f : Nat) (s : NSt), s.total ≤ Gen.Dns.maxName → pot m s ≤ f →
    decodeGo m f s ≠ .error .fuel := by
  intro f
  induction f with
  | zero => intro s _ hp; simp [pot] at hp
  | succ f ih =>
    intro s ht hp
    simp only [decodeGo]
    split
    · split
      · rename_i e he
        intro h
        cases h
        cases rd_error he
      · rename_i b hb
        split
        · split
          · simp
          · split
            · rename_i e he
              intro h; cases h
              cases rd16_error he
            · rename_i w hw
              split
              · simp
              · split
                · simp
                · rename_i hlt hnv
                  apply ih
                  · exact ht
                  · have hmem : w % (Gen.Dns.pointerMask + 1) ∈ List.range m.length := by
                      simp [List.mem_range]; omega
                    have hnv' : s.visited.contains (w % (Gen.Dns.pointerMask + 1)) = false := by
                      simpa using hnv
                    have := unv_cons_lt s.visited _ _ hmem hnv'
                    simp only [pot] at hp ⊢
                    omega
        · split
          · simp
          · split
            · simp
            · split
              · simp
              · split
                · simp
                · rename_i h0 _ _ hle
                  apply ih
                  · show s.total + (b.toNat + 1) ≤ Gen.Dns.maxName
                    omega
                  · simp only [pot] at hp ⊢
                    have hmax : Gen.Dns.maxName = 253 := rfl
                    rw [hmax] at hp hle ⊢
                    omega
    · split <;> simp

theorem pot_init (m : Bytes) (off : Nat) : pot m { off := off, orig := off } ≤ nameFuel m := by
  simp only [pot, nameFuel]
  have : unv [] (List.range m.length) ≤ m.length := by
    have := unv_le_length [] (List.range m.length)
    simpa using this
  have hmax : Gen.Dns.maxName = 253 := rfl
  rw [hmax]
  omega

/-- N4: the name loop never runs out of fuel, for arbitrary bytes and any start offset -/
theorem decodeName_no_fuel (m : Bytes) (off : Nat) : decodeName m off ≠ .error .fuel := by
  unfold decodeName
  apply decodeGo_fuel
  · simp
  · exact pot_init m off

end Iora.Dns
