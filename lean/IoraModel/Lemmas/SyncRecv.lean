import IoraModel.Model.SyncRecv
/-! Invariants of the C03 model (`Model/SyncRecv.lean`) and their preservation by every step. -/
namespace Iora.SyncRecv
open Iora
set_option linter.unusedSimpArgs false
set_option linter.unusedVariables false

def pd : Option Bytes → Bytes
  | some d => d
  | none => []

/-- the chunk the I/O thread is about to hand to the data callback for session `j` -/
def pendO (s : State) (j : Nat) : Option Bytes :=
  match s.ioPend with
  | some (i, d) => if i = j then some d else none
  | none => none

/-- per-session invariant; `sh` = global `shuttingDown`, `po` = pending Async delivery for this session -/
structure InvS (sh : Bool) (po : Option Bytes) (x : Sess) : Prop where
  E : x.out ++ inflight x ++ bufData x ++ pd po = x.accepted
  I1 : po.isSome = true → inflight x = [] ∧ bufData x = [] ∧ x.dead = false
  I2 : effMode x = .async → x.dead = false → bufData x = [] ∧ inflight x = []
  D : ∀ b, x.buf = some b → b.closed = true → x.dead = true
  X : x.flush.isSome = true → x.parked = none
  P : x.parked.isSome = true → x.buf.isSome = true
  H : ∀ b, x.buf = some b → b.hasData = !b.data.isEmpty
  B : x.mode = some .sync → x.dead = false → x.buf.isSome = true
  G : x.gap = true → x.dead = false → (∃ b, x.buf = some b ∧ b.overflow = true) ∨ (sh = true ∧ x.parked = none)
  L : x.lateSync = false
  A : x.gap = false → x.accepted = x.arrived
  Pre : x.lateAsync = false → ∃ t, x.arrived = x.accepted ++ t
  W : ∀ p b, x.parked = some p → x.buf = some b → (b.hasData || b.closed || b.overflow) = true → p.awake = true

theorem InvS_init (sh : Bool) : InvS sh none ({} : Sess) := by
  constructor <;> simp [inflight, bufData, pd, effMode]

theorem drain_inv {sh : Bool} {po : Option Bytes} {x : Sess} {b : Buf} (len : Nat)
    (h : InvS sh po x) (hb : x.buf = some b) (hf : x.flush = none) : InvS sh po (drain x b len).1 := by
  have hE := h.E; have hI1 := h.I1; have hI2 := h.I2; have hD := h.D; have hH := h.H b hb
  have hB := h.B; have hG := h.G; have hL := h.L; have hA := h.A; have hPre := h.Pre
  unfold drain
  split
  · -- data returned
    constructor <;> simp_all [inflight, bufData, effMode]
    · intro a c; rcases hG a c with g | ⟨g, _⟩ <;> simp [g]
  · split
    · constructor <;> simp_all [inflight, bufData, effMode]
    · split
      · constructor <;> simp_all [inflight, bufData, effMode]
      · constructor <;> simp_all [inflight, bufData, effMode]

theorem recvEnterS_inv {sh : Bool} {po : Option Bytes} {x : Sess} (len : Nat)
    (h : InvS sh po x) (hf : x.flush = none) : InvS sh po (recvEnterS sh x len).1 := by
  unfold recvEnterS
  split
  · exact h
  · cases hb : x.buf with
    | none =>
      have h' : InvS sh po { x with buf := some ({} : Buf) } := by
        have hE := h.E; have hI1 := h.I1; have hI2 := h.I2; have hP := h.P
        have hB := h.B; have hG := h.G; have hL := h.L; have hA := h.A; have hPre := h.Pre; have hX := h.X
        constructor <;> simp_all [inflight, bufData, effMode]
      simp only []
      split
      · exact h'
      · split
        · exact drain_inv len h' rfl hf
        · have hE := h'.E; have hI1 := h'.I1; have hI2 := h'.I2; have hP := h'.P
          have hB := h'.B; have hG := h'.G; have hL := h'.L; have hA := h'.A; have hPre := h'.Pre; have hX := h'.X
          constructor <;> simp_all [inflight, bufData, effMode, pred, waiters]
    | some b =>
      have h' : InvS sh po { x with buf := some b } := by
        have : { x with buf := some b } = x := by cases x; simp_all
        rw [this]; exact h
      simp only []
      split
      · exact h'
      · split
        · exact drain_inv len h' rfl hf
        · have hE := h'.E; have hI1 := h'.I1; have hI2 := h'.I2; have hP := h'.P; have hD := h'.D; have hH := h'.H
          have hB := h'.B; have hG := h'.G; have hL := h'.L; have hA := h'.A; have hPre := h'.Pre; have hX := h'.X
          constructor <;> simp_all [inflight, bufData, effMode, pred, waiters]

theorem recvWakeS_inv {sh : Bool} {po : Option Bytes} {x : Sess} (t : Bool)
    (h : InvS sh po x) : InvS sh po (recvWakeS sh x t).1 := by
  unfold recvWakeS
  split
  · rename_i p b hp hb
    have hf : x.flush = none := by
      cases hfl : x.flush with
      | none => rfl
      | some f => have := h.X (by simp [hfl]); simp_all
    split
    · exact drain_inv p.len h hb hf
    · have hE := h.E; have hI1 := h.I1; have hI2 := h.I2; have hP := h.P; have hD := h.D; have hH := h.H
      have hB := h.B; have hG := h.G; have hL := h.L; have hA := h.A; have hPre := h.Pre; have hX := h.X; have hW := h.W
      split
      · constructor <;> simp_all [inflight, bufData, effMode, pred, waiters]
      · constructor <;> simp_all [inflight, bufData, effMode, pred, waiters]
  · exact h

theorem wake_inv {sh : Bool} {po : Option Bytes} {x : Sess} (r : Bool)
    (h : InvS sh po x) : InvS sh po (wake x r) := by
  unfold wake
  split
  · have hE := h.E; have hI1 := h.I1; have hI2 := h.I2; have hP := h.P; have hD := h.D; have hH := h.H
    have hB := h.B; have hG := h.G; have hL := h.L; have hA := h.A; have hPre := h.Pre; have hX := h.X; have hW := h.W
    constructor <;> simp_all [inflight, bufData, effMode, pred, waiters]
    · intro p b hp hb hc; subst hp; simp [hW _ b rfl hb hc]
  · exact h

/-- the skeleton facts the model is instantiated with (discharged by `decide` from Gen in Props/C03) -/
def Cfg.Good (cfg : Cfg) : Prop :=
  cfg.notifyOnData = true ∧ cfg.notifyOnOverflow = true ∧ cfg.notifyOnClose = true

theorem ioDataS_inv {cfg : Cfg} {sh : Bool} {x : Sess} (chunk : Bytes) (hg : cfg.Good)
    (h : InvS sh none x) (hd : x.dead = false) :
    InvS sh (if (ioDataS cfg sh x chunk).2 = .toCallback then some chunk else none) (ioDataS cfg sh x chunk).1 := by
  obtain ⟨g1, g2, g3⟩ := hg
  have hE := h.E; have hI2 := h.I2; have hP := h.P; have hD := h.D; have hH := h.H
  have hB := h.B; have hG := h.G; have hL := h.L; have hA := h.A; have hPre := h.Pre; have hX := h.X; have hW := h.W
  have pre : x.lateAsync = false → ∃ t, x.arrived ++ chunk = x.accepted ++ t := by
    intro hl; obtain ⟨t, ht⟩ := hPre hl; exact ⟨t ++ chunk, by simp [ht]⟩
  unfold ioDataS
  split
  · -- Sync
    rename_i hm
    split
    · -- no buffer: impossible for a live session in Sync mode
      rename_i hb
      have : x.mode = some .sync := by
        unfold effMode at hm; split at hm <;> simp_all
      have := hB this hd
      simp_all
    · rename_i b hb
      cases hp : x.parked with
      | none =>
        split
        · constructor <;> simp_all [inflight, bufData, effMode, pd, waiters, wake]
        · split
          · constructor <;> simp_all [inflight, bufData, effMode, pd, waiters, wake]
          · split
            · constructor <;> simp_all [inflight, bufData, effMode, pd, waiters, wake]
            · constructor <;> simp_all [inflight, bufData, effMode, pd, waiters, wake]
              · rw [← hA, ← h.E]; simp [bufData, pd, inflight, hb]
      | some p =>
        split
        · constructor <;> simp_all [inflight, bufData, effMode, pd, waiters, wake]
        · split
          · constructor <;> simp_all [inflight, bufData, effMode, pd, waiters, wake]
          · split
            · constructor <;> simp_all [inflight, bufData, effMode, pd, waiters, wake]
            · constructor <;> simp_all [inflight, bufData, effMode, pd, waiters, wake]
              · rw [← hE]; simp
  · simpa using h
  · constructor <;> simp_all [inflight, bufData, effMode, pd, waiters]

theorem ioCloseS_inv {cfg : Cfg} {sh : Bool} {x : Sess} (hg : cfg.Good)
    (h : InvS sh none x) : InvS sh none (ioCloseS cfg x) := by
  obtain ⟨g1, g2, g3⟩ := hg
  have hE := h.E; have hI2 := h.I2; have hP := h.P; have hD := h.D; have hH := h.H
  have hB := h.B; have hG := h.G; have hL := h.L; have hA := h.A; have hPre := h.Pre; have hX := h.X; have hW := h.W
  unfold ioCloseS
  cases hb : x.buf with
  | none => constructor <;> simp_all [inflight, bufData, effMode, pd, waiters, wake]
  | some b =>
    cases hp : x.parked with
    | none => constructor <;> simp_all [inflight, bufData, effMode, pd, waiters, wake]
    | some p => constructor <;> simp_all [inflight, bufData, effMode, pd, waiters, wake]

theorem deliver_inv {sh : Bool} {x : Sess} {d : Bytes}
    (h : InvS sh (some d) x) : InvS sh none { x with out := x.out ++ d } := by
  have hE := h.E; have hI1 := h.I1; have hI2 := h.I2; have hP := h.P; have hD := h.D; have hH := h.H
  have hB := h.B; have hG := h.G; have hL := h.L; have hA := h.A; have hPre := h.Pre; have hX := h.X; have hW := h.W
  constructor <;> simp_all [inflight, bufData, effMode, pd, waiters, wake]

theorem gc_inv {sh : Bool} {po : Option Bytes} {y : Sess}
    (h : InvS sh po y) (hr : reclaimable y = true) : InvS sh po { y with buf := none } := by
  have hE := h.E; have hI1 := h.I1; have hI2 := h.I2; have hP := h.P; have hD := h.D; have hH := h.H
  have hB := h.B; have hG := h.G; have hL := h.L; have hA := h.A; have hPre := h.Pre; have hX := h.X; have hW := h.W
  unfold reclaimable at hr
  cases hb : y.buf with
  | none => simp_all
  | some b =>
    cases hp : y.parked with
    | none => constructor <;> simp_all [inflight, bufData, effMode, pd, waiters, wake]
    | some p => simp_all [waiters]

theorem setModeS_inv {cfg : Cfg} {sh : Bool} {po : Option Bytes} {x : Sess} (m : Mode)
    (h : InvS sh po x) (hf : x.flush = none) (hp : flushPath x m = true → x.parked = none) :
    InvS sh po (setModeS cfg x m).1 := by
  have hE := h.E; have hI1 := h.I1; have hI2 := h.I2; have hP := h.P; have hD := h.D; have hH := h.H
  have hB := h.B; have hG := h.G; have hL := h.L; have hA := h.A; have hPre := h.Pre; have hX := h.X; have hW := h.W
  unfold setModeS
  split
  · exact h
  · split
    · exact h
    · split
      · constructor <;> simp_all [inflight, bufData, effMode, pd, waiters, wake]
      · cases m <;> cases hb : x.buf <;> (constructor <;> simp_all [inflight, bufData, effMode, pd, waiters, wake, flushPath])

theorem flushStepS_inv {sh : Bool} {po : Option Bytes} {x : Sess}
    (h : InvS sh po x) : InvS sh po (flushStepS sh x).1 := by
  have hE := h.E; have hI1 := h.I1; have hI2 := h.I2; have hP := h.P; have hD := h.D; have hH := h.H
  have hB := h.B; have hG := h.G; have hL := h.L; have hA := h.A; have hPre := h.Pre; have hX := h.X; have hW := h.W
  unfold flushStepS
  split
  · exact h
  · split
    · constructor <;> simp_all [inflight, bufData, effMode, pd, waiters, wake]
    · split
      · constructor <;> simp_all [inflight, bufData, effMode, pd, waiters, wake]
      · constructor <;> simp_all [inflight, bufData, effMode, pd, waiters, wake]
  · split
    · constructor <;> simp_all [inflight, bufData, effMode, pd, waiters, wake]
    · split
      · split
        · constructor <;> simp_all [inflight, bufData, effMode, pd, waiters, wake]
        · constructor <;> simp_all [inflight, bufData, effMode, pd, waiters, wake]
      · constructor <;> simp_all [inflight, bufData, effMode, pd, waiters, wake]
  · constructor <;> simp_all [inflight, bufData, effMode, pd, waiters, wake]
  · constructor <;> simp_all [inflight, bufData, effMode, pd, waiters, wake]

/-! ## the global invariant -/

def Inv (s : State) : Prop := ∀ j, InvS s.shuttingDown (pendO s j) (s.sess j)

theorem Inv_init : Inv init := by
  intro j; simpa [init, pendO] using InvS_init false

@[simp] theorem upd_same (f : Nat → Sess) (i : Nat) (x : Sess) : upd f i x i = x := by simp [upd]
theorem upd_other (f : Nat → Sess) {i j : Nat} (x : Sess) (h : j ≠ i) : upd f i x j = f j := by simp [upd, h]

theorem ok_ioData {s : State} {sid : Nat} {chunk : Bytes} (h : ok s (.ioData sid chunk) = true) :
    (s.sess sid).dead = false := by
  have h' : (s.sess sid).dead = false ∧ s.ioPend = none := by simpa [ok] using h
  exact h'.1

theorem step_inv {cfg : Cfg} (hg : cfg.Good) {s : State} (h : Inv s) (st : Step) (hok : ok s st = true) :
    Inv (step cfg s st).1 := by
  cases st with
  | ioData sid chunk =>
    have hd := ok_ioData hok
    unfold step
    cases hp : s.ioPend with
    | some _ => simpa [hp] using h
    | none =>
      intro j
      have hs := h sid
      have hpo : pendO s sid = none := by simp [pendO, hp]
      rw [hpo] at hs
      by_cases hj : j = sid
      · subst hj
        have := ioDataS_inv (cfg := cfg) chunk hg hs hd
        simp only [pendO, upd_same]
        split at this <;> simp_all
      · have hj' := h j
        have : pendO s j = none := by simp [pendO, hp]
        rw [this] at hj'
        simp only [pendO, upd_other _ _ hj]
        split
        · rename_i i d heq
          have : i = sid := by split at heq <;> simp_all
          have hne : ¬ i = j := by rw [this]; exact Ne.symm hj
          simpa [hne] using hj'
        · exact hj'
  | ioDeliver =>
    unfold step
    cases hp : s.ioPend with
    | none => simpa [hp] using h
    | some q =>
      obtain ⟨sid, d⟩ := q
      intro j
      by_cases hj : j = sid
      · subst hj
        have hs := h j
        have : pendO s j = some d := by simp [pendO, hp]
        rw [this] at hs
        simpa [pendO] using deliver_inv hs
      · have hj' := h j
        have : pendO s j = none := by simp [pendO, hp, Ne.symm hj]
        rw [this] at hj'
        simpa [pendO, upd_other _ _ hj] using hj'
  | ioClose sid =>
    unfold step
    cases hp : s.ioPend with
    | some _ => simpa [hp] using h
    | none =>
      intro j
      have hpo : ∀ k, pendO s k = none := by intro k; simp [pendO, hp]
      have hj' := h j
      rw [hpo j] at hj'
      simp only [pendO, hp, closeSess]
      by_cases hj : j = sid
      · subst hj; simpa using ioCloseS_inv hg hj'
      · simp only [hj, if_false]
        split
        · rename_i hgc
          simp only [Bool.and_eq_true] at hgc
          exact gc_inv hj' hgc.2
        · exact hj'
  | recvEnter sid len =>
    unfold step
    intro j
    by_cases hj : j = sid
    · subst hj
      have hf : (s.sess j).flush = none := by simpa [ok] using hok
      simpa [pendO] using recvEnterS_inv len (h j) hf
    · simpa [pendO, upd_other _ _ hj] using h j
  | recvWake sid t =>
    unfold step
    intro j
    by_cases hj : j = sid
    · subst hj; simpa [pendO] using recvWakeS_inv t (h j)
    · simpa [pendO, upd_other _ _ hj] using h j
  | setMode sid m =>
    unfold step
    intro j
    by_cases hj : j = sid
    · subst hj
      simp only [ok, Bool.and_eq_true, Bool.or_eq_true, Bool.not_eq_true', Option.isNone_iff_eq_none] at hok
      have hp : flushPath (s.sess j) m = true → (s.sess j).parked = none := by
        intro hfp; rcases hok.2 with h1 | h1
        · simp [hfp] at h1
        · exact h1
      simpa [pendO] using setModeS_inv (cfg := cfg) m (h j) hok.1 hp
    · simpa [pendO, upd_other _ _ hj] using h j
  | flushStep sid =>
    unfold step
    intro j
    by_cases hj : j = sid
    · subst hj; simpa [pendO] using flushStepS_inv (h j)
    · simpa [pendO, upd_other _ _ hj] using h j
  | ioCloseCb sid =>
    simp only [step]
    split
    · intro j; simpa [pendO] using h j
    · exact h
  | fence n =>
    unfold step
    intro j
    have hj := h j
    have hw := wake_inv n hj
    -- raising the fence only weakens G
    have hE := hw.E; have hI1 := hw.I1; have hI2 := hw.I2; have hP := hw.P; have hD := hw.D; have hH := hw.H
    have hB := hw.B; have hG := hw.G; have hL := hw.L; have hA := hw.A; have hPre := hw.Pre; have hX := hw.X; have hW := hw.W
    simp only [pendO]
    constructor <;> try assumption
    intro a b
    rcases hG a b with g | ⟨_, g⟩
    · exact Or.inl g
    · exact Or.inr ⟨rfl, g⟩

theorem run_nil (cfg : Cfg) (s : State) : run cfg s [] = (s, []) := rfl
theorem run_cons (cfg : Cfg) (s : State) (st : Step) (rest : List Step) :
    run cfg s (st :: rest) = ((run cfg (step cfg s st).1 rest).1, (step cfg s st).2 ++ (run cfg (step cfg s st).1 rest).2) := rfl

theorem run_inv {cfg : Cfg} (hg : cfg.Good) : ∀ (steps : List Step) (s : State), Inv s → Disciplined cfg s steps →
    Inv (run cfg s steps).1 := by
  intro steps
  induction steps with
  | nil => intro s h _; simpa [run_nil] using h
  | cons st rest ih =>
    intro s h hd
    rw [run_cons]
    exact ih _ (step_inv hg h st hd.1) hd.2

theorem run_append (cfg : Cfg) : ∀ (a b : List Step) (s : State),
    (run cfg s (a ++ b)).1 = (run cfg (run cfg s a).1 b).1 := by
  intro a
  induction a with
  | nil => intro b s; rfl
  | cons st rest ih => intro b s; simp only [List.cons_append, run_cons]; exact ih b _

theorem disciplined_append (cfg : Cfg) : ∀ (a b : List Step) (s : State),
    Disciplined cfg s (a ++ b) ↔ Disciplined cfg s a ∧ Disciplined cfg (run cfg s a).1 b := by
  intro a
  induction a with
  | nil => intro b s; simp [Disciplined, run_nil]
  | cons st rest ih =>
    intro b s
    simp only [List.cons_append, Disciplined, run_cons, ih, and_assoc]

theorem disciplinedB_iff (cfg : Cfg) : ∀ (steps : List Step) (s : State),
    disciplinedB cfg s steps = true ↔ Disciplined cfg s steps := by
  intro steps
  induction steps with
  | nil => intro s; simp [disciplinedB, Disciplined]
  | cons st rest ih => intro s; simp [disciplinedB, Disciplined, ih]

/-! ## tombstones (T7) -/

def TombS (x : Sess) : Prop := x.dead = true → x.eof = false → ∃ b, x.buf = some b ∧ b.closed = true

def Tomb (s : State) : Prop := s.gcRan = false → ∀ j, TombS (s.sess j)

theorem drain_tomb {x : Sess} {b : Buf} (len : Nat) (h : TombS x) (hb : x.buf = some b) : TombS (drain x b len).1 := by
  unfold drain TombS at *
  split
  · simp_all
  · split
    · simp_all
    · split <;> simp_all

theorem wake_tomb {x : Sess} (r : Bool) (h : TombS x) : TombS (wake x r) := by
  unfold wake; split <;> simpa [TombS] using h

theorem step_tomb {cfg : Cfg} {s : State} (h : Tomb s) (st : Step) : Tomb (step cfg s st).1 := by
  cases st with
  | ioData sid chunk =>
    unfold step
    cases hp : s.ioPend with
    | some _ => simpa [hp] using h
    | none =>
      intro hg j
      have hj := h hg j
      by_cases hjs : j = sid
      · subst hjs
        simp only [upd_same]
        unfold ioDataS
        cases hx : (s.sess j).parked <;> (repeat' split) <;> simp_all [TombS, wake]
      · simpa [upd_other _ _ hjs] using hj
  | ioDeliver =>
    unfold step
    cases hp : s.ioPend with
    | none => simpa [hp] using h
    | some q =>
      obtain ⟨sid, d⟩ := q
      intro hg j
      have hj := h hg j
      by_cases hjs : j = sid
      · subst hjs; simpa [TombS] using hj
      · simpa [upd_other _ _ hjs] using hj
  | ioClose sid =>
    unfold step
    cases hp : s.ioPend with
    | some _ => simpa [hp] using h
    | none =>
      intro hg j
      simp only [Bool.or_eq_false_iff] at hg
      have hj := h hg.1 j
      simp only [closeSess] at hg ⊢
      by_cases hjs : j = sid
      · subst hjs
        simp only [if_true]
        unfold ioCloseS TombS
        cases hb : (s.sess j).buf <;> cases hx : (s.sess j).parked <;> simp_all [wake]
      · simp only [hjs, if_false]
        have : ¬ (cfg.gcThreshold < bufCount (upd s.sess sid (ioCloseS cfg (s.sess sid))) (touch s.dom sid)) := by
          have := hg.2; simp at this; omega
        rw [if_neg (fun hh => by simp only [Bool.and_eq_true, decide_eq_true_eq] at hh; exact this hh.1)]
        exact hj
  | recvEnter sid len =>
    unfold step
    intro hg j
    have hj := h hg j
    by_cases hjs : j = sid
    · subst hjs
      simp only [upd_same]
      unfold recvEnterS
      split
      · exact hj
      · cases hb : (s.sess j).buf with
        | none =>
          have h' : TombS { s.sess j with buf := some ({} : Buf) } := by
            unfold TombS at *; simp_all
          simp only []
          split
          · exact h'
          · split
            · exact drain_tomb len h' rfl
            · unfold TombS at *; simp_all
        | some b =>
          have h' : TombS { s.sess j with buf := some b } := by
            unfold TombS at *; simp_all
          simp only []
          split
          · exact h'
          · split
            · exact drain_tomb len h' rfl
            · unfold TombS at *; simp_all
    · simpa [upd_other _ _ hjs] using hj
  | recvWake sid t =>
    unfold step
    intro hg j
    have hj := h hg j
    by_cases hjs : j = sid
    · subst hjs
      simp only [upd_same]
      unfold recvWakeS
      split
      · rename_i p b hp hb
        split
        · exact drain_tomb p.len hj hb
        · split <;> (unfold TombS at *; simp_all)
      · exact hj
    · simpa [upd_other _ _ hjs] using hj
  | setMode sid m =>
    unfold step
    intro hg j
    have hj := h hg j
    by_cases hjs : j = sid
    · subst hjs
      simp only [upd_same]
      unfold setModeS TombS at *
      cases m <;> cases hb : (s.sess j).buf <;> (repeat' split) <;> simp_all
    · simpa [upd_other _ _ hjs] using hj
  | flushStep sid =>
    unfold step
    intro hg j
    have hj := h hg j
    by_cases hjs : j = sid
    · subst hjs
      simp only [upd_same]
      unfold flushStepS TombS at *
      (repeat' split) <;> simp_all
    · simpa [upd_other _ _ hjs] using hj
  | ioCloseCb sid =>
    simp only [step]
    split
    · intro hg j; exact h hg j
    · exact h
  | fence n =>
    unfold step
    intro hg j
    exact wake_tomb n (h hg j)

theorem Tomb_init : Tomb init := by
  intro _ j; simp [TombS, init]

theorem run_tomb {cfg : Cfg} : ∀ (steps : List Step) (s : State), Tomb s → Tomb (run cfg s steps).1 := by
  intro steps
  induction steps with
  | nil => intro s h; simpa [run_nil] using h
  | cons st rest ih => intro s h; rw [run_cons]; exact ih _ (step_tomb h st)

/-! ## PeerClosed (T2) -/

theorem drain_peerClosed {x : Sess} {b : Buf} {len : Nat} (h : (drain x b len).2 = .peerClosed) :
    b.data = [] ∧ b.closed = true ∧ (drain x b len).1.buf = none ∧ (drain x b len).1.flush = x.flush := by
  unfold drain at *
  by_cases h1 : b.data ≠ []
  · simp [h1] at h
  · by_cases h2 : b.overflow = true
    · simp [h1, h2] at h
    · by_cases h3 : b.closed = true
      · simp only [h1, h2, h3, if_true, if_false]
        exact ⟨by simpa using h1, trivial, rfl, rfl⟩
      · simp [h1, h2, h3] at h

theorem mem_evRecv {sid sid' : Nat} {r : Option RecvRes} {q : RecvRes} :
    Ev.recvRet sid q ∈ evRecv sid' r ↔ sid = sid' ∧ r = some q := by
  cases r with
  | none => simp [evRecv]
  | some v =>
    simp only [evRecv, List.mem_singleton, Ev.recvRet.injEq, Option.some.injEq]
    constructor
    · rintro ⟨a, b⟩; exact ⟨a, b.symm⟩
    · rintro ⟨a, b⟩; exact ⟨a, b.symm⟩

theorem Sess.eta_buf {x : Sess} {b : Buf} (hb : x.buf = some b) : { x with buf := some b } = x := by
  cases x; simp_all

theorem recvEnterS_peerClosed {sh : Bool} {x : Sess} {len : Nat} (h : (recvEnterS sh x len).2 = some .peerClosed) :
    ∃ b, x.buf = some b ∧ b.data = [] ∧ b.closed = true ∧
      (recvEnterS sh x len).1.buf = none ∧ (recvEnterS sh x len).1.flush = x.flush := by
  cases sh with
  | true => simp [recvEnterS] at h
  | false =>
    cases hb : x.buf with
    | none =>
      exfalso
      simp only [recvEnterS, hb, Bool.false_eq_true, if_false] at h
      split at h
      · simp at h
      · split at h
        · rename_i hp; simp [pred] at hp
        · simp at h
    | some b =>
      have hx := Sess.eta_buf hb
      simp only [recvEnterS, hb, Bool.false_eq_true, if_false, hx] at h ⊢
      split at h
      · simp at h
      · rename_i hc
        simp only [hc, if_false] at ⊢
        split at h
        · rename_i hp
          simp only [hp, if_true, Option.some.injEq] at h ⊢
          obtain ⟨h1, h2, h3, h4⟩ := drain_peerClosed h
          exact ⟨b, rfl, h1, h2, h3, h4⟩
        · simp at h

theorem recvWakeS_peerClosed {sh : Bool} {x : Sess} {t : Bool} (h : (recvWakeS sh x t).2 = some .peerClosed) :
    ∃ b, x.buf = some b ∧ b.data = [] ∧ b.closed = true ∧
      (recvWakeS sh x t).1.buf = none ∧ (recvWakeS sh x t).1.flush = x.flush := by
  unfold recvWakeS at *
  split at h
  · rename_i p b hp hb
    split at h
    · simp only [Option.some.injEq] at h
      obtain ⟨h1, h2, h3, h4⟩ := drain_peerClosed h
      rename_i hpr
      simp only [hpr, if_true]
      exact ⟨b, hb, h1, h2, h3, h4⟩
    · split at h <;> simp at h
  · simp at h

/-- after a step that answered PeerClosed for `sid`: the buffer was empty, nothing is in flight or pending, everything accepted is out -/
theorem peerClosed_drained {cfg : Cfg} (hg : cfg.Good) {s : State} (h : Inv s) (st : Step) (hok : ok s st = true) (sid : Nat)
    (hev : Ev.recvRet sid .peerClosed ∈ (step cfg s st).2) :
    bufData (s.sess sid) = [] ∧ ((step cfg s st).1.sess sid).out = ((step cfg s st).1.sess sid).accepted := by
  have hpost := step_inv hg h st hok sid
  have key : ∀ (x' : Sess) (b : Buf), (s.sess sid).buf = some b → b.data = [] → b.closed = true → (s.sess sid).flush = none →
      x'.buf = none → x'.flush = (s.sess sid).flush →
      InvS s.shuttingDown (pendO s sid) x' → bufData (s.sess sid) = [] ∧ x'.out = x'.accepted := by
    intro x' b hb hd hc hf hxb hxf hi
    have hdead := (h sid).D b hb hc
    have hpo : pendO s sid = none := by
      cases hpp : pendO s sid with
      | none => rfl
      | some d => have := (h sid).I1 (by simp [hpp]); simp_all
    have hE := hi.E
    simp [inflight, bufData, hf, hpo, pd, hxb, hxf] at hE
    exact ⟨by simp [bufData, hb, hd], hE⟩
  cases st with
  | recvEnter sid' len =>
    simp only [step] at hev hpost ⊢
    obtain ⟨rfl, hr⟩ := mem_evRecv.mp hev
    obtain ⟨b, hb, hd, hc, hx1, hx2⟩ := recvEnterS_peerClosed hr
    have hf : (s.sess sid).flush = none := by simpa [ok] using hok
    simp only [upd_same, pendO] at hpost ⊢
    exact key _ b hb hd hc hf hx1 hx2 (by simpa [pendO] using hpost)
  | recvWake sid' t =>
    simp only [step] at hev hpost ⊢
    obtain ⟨rfl, hr⟩ := mem_evRecv.mp hev
    obtain ⟨b, hb, hd, hc, hx1, hx2⟩ := recvWakeS_peerClosed hr
    have hf : (s.sess sid).flush = none := by
      have hpk : (s.sess sid).parked.isSome = true := by
        unfold recvWakeS at hr; split at hr
        · rename_i p b' hp hb'; simp [hp]
        · simp at hr
      cases hfl : (s.sess sid).flush with
      | none => rfl
      | some f => have := (h sid).X (by simp [hfl]); simp_all
    simp only [upd_same, pendO] at hpost ⊢
    exact key _ b hb hd hc hf hx1 hx2 (by simpa [pendO] using hpost)
  | ioData sid' c =>
    simp only [step] at hev; split at hev <;> simp at hev
  | ioDeliver =>
    simp only [step] at hev; split at hev <;> simp at hev
  | ioClose sid' =>
    simp only [step] at hev; split at hev <;> simp at hev
  | setMode sid' m =>
    simp only [step] at hev
    cases hr : (setModeS cfg (s.sess sid') m).2 <;> simp [hr, evMode] at hev
  | flushStep sid' =>
    simp only [step] at hev
    cases hr : (flushStepS s.shuttingDown (s.sess sid')).2 <;> simp [hr, evFlush] at hev
  | ioCloseCb sid' =>
    simp only [step] at hev; split at hev <;> simp at hev
  | fence n => simp [step] at hev

/-! ## overflow (T5) and the tombstone answer (T7) -/

theorem drain_overflow {x : Sess} {b b' : Buf} {len : Nat} (ho : b.overflow = true)
    (hb' : (drain x b len).1.buf = some b') (hx : x.buf = some b) : b'.overflow = true := by
  unfold drain at hb'
  split at hb'
  · simp at hb'; rw [← hb']; exact ho
  · simp [ho, hx] at hb'; rw [← hb']

theorem overflow_sticky (cfg : Cfg) (s : State) (st : Step) (sid : Nat) (b b' : Buf)
    (hb : (s.sess sid).buf = some b) (ho : b.overflow = true) (hb' : ((step cfg s st).1.sess sid).buf = some b') :
    b'.overflow = true := by
  cases st with
  | ioData sid' chunk =>
    simp only [step] at hb'
    split at hb'
    · simp_all
    · by_cases hj : sid = sid'
      · subst hj
        simp only [upd_same] at hb'
        unfold ioDataS at hb'
        cases hx : (s.sess sid).parked <;> (repeat' split at hb') <;> simp_all [wake]
      · simp only [upd_other _ _ hj] at hb'; simp_all
  | ioDeliver =>
    simp only [step] at hb'
    split at hb'
    · rename_i sid' d hp
      by_cases hj : sid = sid'
      · subst hj; simp_all
      · simp only [upd_other _ _ hj] at hb'; simp_all
    · simp_all
  | ioClose sid' =>
    simp only [step] at hb'
    split at hb'
    · simp_all
    · simp only [closeSess] at hb'
      by_cases hj : sid = sid'
      · subst hj
        simp only [if_true] at hb'
        unfold ioCloseS at hb'
        cases hx : (s.sess sid).parked <;> simp_all [wake] <;> (subst hb'; rfl)
      · simp only [hj, if_false] at hb'
        split at hb' <;> simp_all
  | recvEnter sid' len =>
    simp only [step] at hb'
    by_cases hj : sid = sid'
    · subst hj
      simp only [upd_same] at hb'
      have hx := Sess.eta_buf hb
      unfold recvEnterS at hb'
      simp only [hb, hx] at hb'
      (repeat' split at hb') <;> try simp_all
      exact drain_overflow ho hb' hb
    · simp only [upd_other _ _ hj] at hb'; simp_all
  | recvWake sid' t =>
    simp only [step] at hb'
    by_cases hj : sid = sid'
    · subst hj
      simp only [upd_same] at hb'
      unfold recvWakeS at hb'
      split at hb'
      · rename_i p b0 hp hb0
        have : b0 = b := by simp_all
        subst this
        (repeat' split at hb') <;> try simp_all
        exact drain_overflow ho hb' hb
      · simp_all
    · simp only [upd_other _ _ hj] at hb'; simp_all
  | setMode sid' m =>
    simp only [step] at hb'
    by_cases hj : sid = sid'
    · subst hj
      simp only [upd_same] at hb'
      unfold setModeS at hb'
      cases m <;> (repeat' split at hb') <;> simp_all
    · simp only [upd_other _ _ hj] at hb'; simp_all
  | flushStep sid' =>
    simp only [step] at hb'
    by_cases hj : sid = sid'
    · subst hj
      simp only [upd_same] at hb'
      unfold flushStepS at hb'
      (repeat' split at hb') <;> simp_all
      subst hb'; rfl
    · simp only [upd_other _ _ hj] at hb'; simp_all
  | ioCloseCb sid' =>
    simp only [step] at hb'
    split at hb' <;> simp_all
  | fence n =>
    simp only [step] at hb'
    unfold wake at hb'
    split at hb' <;> simp_all

theorem recv_overflow (cfg : Cfg) (s : State) (sid len : Nat) (b : Buf) (hsh : s.shuttingDown = false)
    (hb : (s.sess sid).buf = some b) (hd : b.data = []) (ho : b.overflow = true)
    (hp : (s.sess sid).parked = none) (hf : flushing (s.sess sid) = false) :
    (step cfg s (.recvEnter sid len)).2 = [.recvRet sid .overflow] := by
  unfold flushing at hf
  simp [step, recvEnterS, hsh, hb, waiters, hp, flushing, hf, pred, ho, drain, hd, evRecv]

theorem recv_tombstone (cfg : Cfg) (s : State) (sid len : Nat) (b : Buf) (hsh : s.shuttingDown = false)
    (hb : (s.sess sid).buf = some b) (hd : b.data = []) (ho : b.overflow = false) (hc : b.closed = true)
    (hp : (s.sess sid).parked = none) (hf : flushing (s.sess sid) = false) :
    (step cfg s (.recvEnter sid len)).2 = [.recvRet sid .peerClosed] := by
  unfold flushing at hf
  simp [step, recvEnterS, hsh, hb, waiters, hp, flushing, hf, pred, ho, drain, hd, evRecv, hc]
