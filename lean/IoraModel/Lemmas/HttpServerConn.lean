import IoraModel.Model.HttpServerConn
import IoraModel.Lemmas.HttpServerExact
/-
Lemmas for the connection-level server model (C15 extension round):
* `drainRaw`/`ioStep`/`srvFeedRaw` are `drainLoop`/`handleIncomingData`/`srvFeed` before `dispatch`;
* prefix framing: for EVERY list of reads (no cap hypothesis) what is dispatched is the greedy framing of a prefix of the reads;
* the per-step cap hypothesis `fits` replaces "the whole stream fits the buffer cap";
* long keep-alive connections: pipelines of bounded requests in bounded reads, of any total length;
* pool oracle / worker schedule / close landing independence.
-/
namespace Iora.Http.Srv
open Iora Iora.Http

/-! ### raw view -/

theorem drainLoop_raw (f : Nat) : ∀ buf : Bytes,
    drainLoop f buf = ((drainRaw f buf).1.map dispatch, (drainRaw f buf).2.1, (drainRaw f buf).2.2) := by
  induction f with
  | zero => intro buf; rfl
  | succ f ih =>
    intro buf
    simp only [drainLoop, drainRaw]
    cases he : extractOne buf with
    | needMore => rfl
    | close => rfl
    | request raw n =>
      by_cases hn : n = 0
      · simp [hn]
      · simp only [hn, ↓reduceIte]
        rw [ih (buf.drop n)]
        simp

theorem hid_ioStep (s : Sess) (seg : Bytes) :
    handleIncomingData s seg = ((ioStep s seg).1, (ioStep s seg).2.1.map dispatch, (ioStep s seg).2.2) := by
  unfold handleIncomingData ioStep
  split
  · rfl
  · split
    · rfl
    · simp only [drainLoop_raw]

theorem srvFeed_raw : ∀ (ss : List Bytes) (s : Sess),
    srvFeed s ss = ((srvFeedRaw s ss).1.map dispatch, (srvFeedRaw s ss).2) := by
  intro ss
  induction ss with
  | nil => intro s; rfl
  | cons seg ss ih =>
    intro s
    simp only [srvFeed, srvFeedRaw, hid_ioStep, ih, List.map_append]

theorem ioStep_dead (s : Sess) (seg : Bytes) (h : s.alive = false) : ioStep s seg = (s, [], false) := by
  simp [ioStep, h]

theorem srvFeedRaw_dead : ∀ (ss : List Bytes) (s : Sess), s.alive = false → srvFeedRaw s ss = ([], s) := by
  intro ss
  induction ss with
  | nil => intro s _; rfl
  | cons seg ss ih =>
    intro s hs
    simp only [srvFeedRaw, ioStep_dead s seg hs, ih s hs, List.append_nil]

/-! ### prefix framing: no hypothesis on the reads at all -/

theorem hid_open (r seg : Bytes) (hlim : ¬ (r.length + seg.length > Gen.Http.serverMaxBufferSize)) :
    handleIncomingData { buffer := r, alive := true } seg =
      ({ buffer := (drainLoop ((r ++ seg).length + 1) (r ++ seg)).2.2,
         alive := !(drainLoop ((r ++ seg).length + 1) (r ++ seg)).2.1 },
       (drainLoop ((r ++ seg).length + 1) (r ++ seg)).1,
       (drainLoop ((r ++ seg).length + 1) (r ++ seg)).2.1) := by
  simp [handleIncomingData, hlim]

/-- For EVERY list of reads: what `handleIncomingData` dispatches is what the generic greedy receive loop yields on the first
`j` reads, for some `j` - the reads up to the one that made the I/O thread close (limit or invalid framing), all of them if
none did.  Nothing is ever dispatched from bytes behind a dropped read. -/
theorem srvFeed_prefix : ∀ (ss : List Bytes) (s : Sess) (c : Framing.Carry), Corr s c →
    ∃ j, j ≤ ss.length ∧ (srvFeed s ss).1 = (Framing.feed stableParser c (ss.take j)).1.filterMap id := by
  intro ss
  induction ss with
  | nil => intro s c _; exact ⟨0, Nat.le_refl _, by simp [srvFeed, Framing.feed]⟩
  | cons seg ss ih =>
    intro s c hc
    cases c with
    | dead =>
      simp only [Corr] at hc
      refine ⟨0, Nat.zero_le _, ?_⟩
      rw [srvFeed_dead _ s hc]; simp [Framing.feed]
    | alive r =>
      simp only [Corr] at hc
      subst hc
      by_cases hlim : r.length + seg.length > Gen.Http.serverMaxBufferSize
      · refine ⟨0, Nat.zero_le _, ?_⟩
        have hh : handleIncomingData { buffer := r, alive := true } seg = ({ buffer := r, alive := false }, [], true) := by
          simp [handleIncomingData, hlim]
        simp only [srvFeed, hh]
        rw [srvFeed_dead ss _ rfl]; simp [Framing.feed]
      · obtain ⟨h1, h2, h3⟩ := drainLoop_eq ((r ++ seg).length + 1) (r ++ seg)
        have hh := hid_open r seg hlim
        have hd : Framing.drain stableParser (r ++ seg) =
            Framing.drainF stableParser ((r ++ seg).length + 1) (r ++ seg) := rfl
        cases hcar : (Framing.drainF stableParser ((r ++ seg).length + 1) (r ++ seg)).2 with
        | dead =>
          have hclosed := h2.mpr hcar
          refine ⟨1, by simp, ?_⟩
          simp only [srvFeed, hh, hclosed, Bool.not_true]
          rw [srvFeed_dead ss _ rfl]
          simp only [List.append_nil, List.take_succ_cons, List.take_zero, Framing.feed, Framing.resume, hd, h1]
        | alive r2 =>
          have hopen : (drainLoop ((r ++ seg).length + 1) (r ++ seg)).2.1 = false := by
            cases hb' : (drainLoop ((r ++ seg).length + 1) (r ++ seg)).2.1 with
            | false => rfl
            | true => have := h2.mp hb'; rw [hcar] at this; cases this
          have hr2 := h3 r2 hcar
          obtain ⟨j, hj, hje⟩ := ih { buffer := r2, alive := true } (.alive r2) rfl
          refine ⟨j + 1, by simp; omega, ?_⟩
          simp only [srvFeed, hh, hopen, Bool.not_false, hr2.1, List.take_succ_cons, Framing.feed, Framing.resume, hd,
            hcar, List.filterMap_append, h1, hje]

theorem take_flatten_prefix (ss : List Bytes) (j : Nat) :
    (ss.take j).flatten ++ (ss.drop j).flatten = ss.flatten := by
  rw [← List.flatten_append, List.take_append_drop]

/-! ### every extracted request is read at an offset of the TRUE input -/

/-- what one extraction pass extracts are the requests the extractor reads at consecutive offsets of the buffer, and what it
leaves is a suffix of the buffer -/
theorem drainRaw_slices (f : Nat) : ∀ buf : Bytes,
    ∃ k, k ≤ buf.length ∧ (drainRaw f buf).2.2 = buf.drop k ∧
      ∀ raw ∈ (drainRaw f buf).1, ∃ off n, off + n ≤ k ∧ extractOne (buf.drop off) = .request raw n := by
  induction f with
  | zero => intro buf; exact ⟨0, Nat.zero_le _, by simp [drainRaw], by simp [drainRaw]⟩
  | succ f ih =>
    intro buf
    simp only [drainRaw]
    cases he : extractOne buf with
    | needMore => exact ⟨0, Nat.zero_le _, by simp, by simp⟩
    | close => exact ⟨0, Nat.zero_le _, by simp, by simp⟩
    | request raw0 n0 =>
      by_cases hn : n0 = 0
      · simp only [hn, ↓reduceIte]; exact ⟨0, Nat.zero_le _, by simp, by simp⟩
      · simp only [hn, ↓reduceIte]
        have hle := ((extractOne_spec buf [] _ he (by simp)).2 raw0 n0 rfl).2
        obtain ⟨k, hk, hrest, hsl⟩ := ih (buf.drop n0)
        simp only [List.length_drop] at hk
        refine ⟨n0 + k, by omega, by rw [hrest, List.drop_drop], ?_⟩
        intro raw hraw
        rcases List.mem_cons.mp hraw with rfl | hmem
        · exact ⟨0, n0, by omega, by simpa using he⟩
        · obtain ⟨off, n, hb, hx⟩ := hsl raw hmem
          exact ⟨n0 + off, n, by omega, by rw [List.drop_drop] at hx; exact hx⟩

/-- generalised over the start state: the session buffer is the tail `pre.drop o` of the bytes received so far -/
theorem srvFeedRaw_slices : ∀ (ss : List Bytes) (s : Sess) (pre : Bytes) (o : Nat), o ≤ pre.length → s.buffer = pre.drop o →
    ∀ raw ∈ (srvFeedRaw s ss).1, ∃ off n, off + n ≤ (pre ++ ss.flatten).length ∧
      extractOne ((pre ++ ss.flatten).drop off) = .request raw n := by
  intro ss
  induction ss with
  | nil => intro s pre o _ _ raw hraw; simp [srvFeedRaw] at hraw
  | cons seg ss ih =>
    intro s pre o ho hbuf raw hraw
    simp only [srvFeedRaw, List.mem_append] at hraw
    by_cases hal : s.alive = false
    · rw [ioStep_dead s seg hal, srvFeedRaw_dead ss s hal] at hraw
      simp at hraw
    · have hal' : s.alive = true := by cases h : s.alive <;> simp_all
      by_cases hlim : s.buffer.length + seg.length > Gen.Http.serverMaxBufferSize
      · have hio : ioStep s seg = ({ s with alive := false }, [], true) := by simp [ioStep, hal', hlim]
        rw [hio, srvFeedRaw_dead ss _ rfl] at hraw
        simp at hraw
      · have hio : ioStep s seg =
            ({ buffer := (drainRaw ((s.buffer ++ seg).length + 1) (s.buffer ++ seg)).2.2,
               alive := !(drainRaw ((s.buffer ++ seg).length + 1) (s.buffer ++ seg)).2.1 },
             (drainRaw ((s.buffer ++ seg).length + 1) (s.buffer ++ seg)).1,
             (drainRaw ((s.buffer ++ seg).length + 1) (s.buffer ++ seg)).2.1) := by
          simp [ioStep, hal', hlim]
        have hb2 : s.buffer ++ seg = (pre ++ seg).drop o := by
          rw [hbuf, List.drop_append_of_le_length ho]
        obtain ⟨k, hk, hrest, hsl⟩ := drainRaw_slices ((s.buffer ++ seg).length + 1) (s.buffer ++ seg)
        have hlen : (s.buffer ++ seg).length = (pre ++ seg).length - o := by rw [hb2, List.length_drop]
        have hpl : o ≤ (pre ++ seg).length := by simp only [List.length_append]; omega
        have hcat : pre ++ (seg :: ss).flatten = (pre ++ seg) ++ ss.flatten := by simp [List.append_assoc]
        rw [hio] at hraw
        rcases hraw with h1 | h2
        · obtain ⟨off, n, hb, hx⟩ := hsl raw h1
          refine ⟨o + off, n, ?_, ?_⟩
          · rw [hcat, List.length_append]
            have hlen' : (s.buffer ++ seg).length + o = (pre ++ seg).length := by
              rw [hb2, List.length_drop]; omega
            omega
          · rw [hcat]
            have hoff : o + off ≤ (pre ++ seg).length := by omega
            rw [List.drop_append_of_le_length hoff, ← List.drop_drop, ← hb2]
            exact (extractOne_spec _ ss.flatten _ hx (by simp)).1
        · cases hcl : (drainRaw ((s.buffer ++ seg).length + 1) (s.buffer ++ seg)).2.1 with
          | true =>
            rw [hcl] at h2
            rw [srvFeedRaw_dead ss _ (by simp)] at h2
            simp at h2
          | false =>
            have := ih { buffer := (drainRaw ((s.buffer ++ seg).length + 1) (s.buffer ++ seg)).2.2, alive := true }
              (pre ++ seg) (o + k) (by omega) (by simp only; rw [hrest, hb2, List.drop_drop]) raw
              (by rw [hcl] at h2; simpa using h2)
            rw [hcat]; exact this

/-! ### the per-step cap hypothesis -/

/-- every read, when it arrives, fits the buffer cap together with what the session still holds (the check
`buffer.size() + dataStr.size() > MAX_BUFFER_SIZE` of `handleIncomingData` never fires) -/
def fits : Sess → List Bytes → Prop
  | _, [] => True
  | s, seg :: ss =>
    (s.alive = true → s.buffer.length + seg.length ≤ Gen.Http.serverMaxBufferSize) ∧ fits (handleIncomingData s seg).1 ss

theorem fits_dead : ∀ (ss : List Bytes) (s : Sess), s.alive = false → fits s ss := by
  intro ss
  induction ss with
  | nil => intro s _; trivial
  | cons seg ss ih =>
    intro s hs
    refine ⟨fun h => (by rw [hs] at h; cases h), ?_⟩
    have h1 : handleIncomingData s seg = (s, [], false) := by simp [handleIncomingData, hs]
    rw [h1]; exact ih s hs

/-- `srvFeed_eq_feed` with the per-step hypothesis instead of a bound on the whole stream -/
theorem srvFeed_eq_feed_fits : ∀ (ss : List Bytes) (s : Sess) (c : Framing.Carry), Corr s c → fits s ss →
    (srvFeed s ss).1 = (Framing.feed stableParser c ss).1.filterMap id ∧
    Corr (srvFeed s ss).2 (Framing.feed stableParser c ss).2 := by
  intro ss
  induction ss with
  | nil => intro s c hc _; simp [srvFeed, Framing.feed, hc]
  | cons seg ss ih =>
    intro s c hc hf
    cases c with
    | dead =>
      simp only [Corr] at hc
      rw [srvFeed_dead _ s hc, Framing.feed_dead]
      exact ⟨rfl, hc⟩
    | alive r =>
      simp only [Corr] at hc
      subst hc
      have hlim : ¬ (r.length + seg.length > Gen.Http.serverMaxBufferSize) := by
        have := hf.1 rfl
        simp only at this
        omega
      obtain ⟨h1, h2, h3⟩ := drainLoop_eq ((r ++ seg).length + 1) (r ++ seg)
      have hh := hid_open r seg hlim
      have hf2 := hf.2
      rw [hh] at hf2
      simp only [srvFeed, hh, Framing.feed, Framing.resume]
      have hd : Framing.drain stableParser (r ++ seg) = Framing.drainF stableParser ((r ++ seg).length + 1) (r ++ seg) := rfl
      rw [hd]
      cases hcar : (Framing.drainF stableParser ((r ++ seg).length + 1) (r ++ seg)).2 with
      | dead =>
        have hclosed := h2.mpr hcar
        simp only [hclosed, Bool.not_true]
        rw [srvFeed_dead ss _ rfl, Framing.feed_dead]
        simp only [List.append_nil, List.filterMap_nil, h1]
        exact ⟨trivial, rfl⟩
      | alive r2 =>
        have hopen : (drainLoop ((r ++ seg).length + 1) (r ++ seg)).2.1 = false := by
          cases hb' : (drainLoop ((r ++ seg).length + 1) (r ++ seg)).2.1 with
          | false => rfl
          | true => have := h2.mp hb'; rw [hcar] at this; cases this
        have hr2 := h3 r2 hcar
        simp only [hopen, Bool.not_false, hr2.1] at hf2
        have := ih { buffer := r2, alive := true } (.alive r2) rfl hf2
        simp only [hopen, Bool.not_false, hr2.1, List.filterMap_append, h1]
        exact ⟨by rw [this.1], this.2⟩

theorem hid_buffer_le (s : Sess) (seg : Bytes) :
    (handleIncomingData s seg).1.buffer.length ≤ s.buffer.length + seg.length := by
  unfold handleIncomingData
  split
  · simp
  · split
    · simp
    · have := drainLoop_rest_le ((s.buffer ++ seg).length + 1) (s.buffer ++ seg)
      simp only [List.length_append] at this ⊢
      omega

/-- a stream that fits the cap as a whole fits it step by step -/
theorem fits_of_total : ∀ (ss : List Bytes) (s : Sess),
    s.buffer.length + ss.flatten.length ≤ Gen.Http.serverMaxBufferSize → fits s ss := by
  intro ss
  induction ss with
  | nil => intro s _; trivial
  | cons seg ss ih =>
    intro s hb
    simp only [List.flatten_cons, List.length_append] at hb
    refine ⟨fun _ => by omega, ?_⟩
    apply ih
    have := hid_buffer_le s seg
    omega

/-! ### long keep-alive connections -/

/-- what the extraction loop leaves of a pipeline: nothing, or a proper prefix of its first request -/
def Partial (b : Bytes) (rs : List ReqSpec) : Prop :=
  b = [] ∨ ∃ r rest, rs = r :: rest ∧ b.length < r.render.length

theorem extractOne_nil : extractOne [] = .needMore := by
  simp [extractOne, find, findAux]

/-- a proper prefix of a well-formed request is "need more data" - never a close, never a request -/
theorem extract_proper_prefix (r : ReqSpec) (hr : r.OK) (b x y : Bytes) (h : b ++ x = r.render ++ y)
    (hlt : b.length < r.render.length) : extractOne b = .needMore := by
  have hx : extractOne (r.render ++ y) = .request r.raw r.render.length :=
    extract_exact r.line r.before r.after r.body hr.1 hr.2 y
  cases he : extractOne b with
  | needMore => rfl
  | close =>
    have := (extractOne_spec b x _ he (by simp)).1
    rw [h, hx] at this; cases this
  | request raw n =>
    have hs := extractOne_spec b x _ he (by simp)
    have h1 := hs.1
    rw [h, hx] at h1
    cases h1
    have := (hs.2 r.raw r.render.length rfl).2
    omega

theorem render_pos (r : ReqSpec) : 0 < r.render.length := by
  simp [ReqSpec.render, reqRender, crlf2]; omega

/-- the extraction loop on ANY prefix `buf` of a pipeline of well-formed requests: it extracts the requests that are complete
in `buf`, does not close, and leaves a proper prefix of the next request -/
theorem drain_pipeline_prefix : ∀ (rs : List ReqSpec) (f : Nat) (buf tail : Bytes), (∀ r ∈ rs, r.OK) →
    buf.length < f → buf ++ tail = renderAll rs →
    ∃ m b', drainRaw f buf = ((rs.take m).map ReqSpec.raw, false, b') ∧ b' ++ tail = renderAll (rs.drop m) ∧
      Partial b' (rs.drop m) := by
  intro rs
  induction rs with
  | nil =>
    intro f buf tail _ hf h
    have hb : buf = [] := by
      have : (buf ++ tail).length = 0 := by rw [h]; rfl
      simp only [List.length_append] at this
      exact List.eq_nil_of_length_eq_zero (by omega)
    subst hb
    cases f with
    | zero => omega
    | succ f =>
      refine ⟨0, [], ?_, by simpa using h, Or.inl rfl⟩
      simp [drainRaw, extractOne_nil]
  | cons r rs ih =>
    intro f buf tail hall hf h
    have hr := hall r (by simp)
    have e : renderAll (r :: rs) = r.render ++ renderAll rs := by simp [renderAll]
    rw [e] at h
    cases f with
    | zero => omega
    | succ f =>
      by_cases hlt : buf.length < r.render.length
      · have hn := extract_proper_prefix r hr buf tail (renderAll rs) h hlt
        refine ⟨0, buf, ?_, by simpa [e] using h, Or.inr ⟨r, rs, rfl, hlt⟩⟩
        simp [drainRaw, hn]
      · have hle : r.render.length ≤ buf.length := by omega
        have ht : buf.take r.render.length = r.render := by
          have h1 : (buf ++ tail).take r.render.length = buf.take r.render.length :=
            List.take_append_of_le_length hle
          rw [← h1, h, List.take_left']
          rfl
        have hdt : buf.drop r.render.length ++ tail = renderAll rs := by
          have h1 : (buf ++ tail).drop r.render.length = buf.drop r.render.length ++ tail :=
            List.drop_append_of_le_length hle
          rw [← h1, h, List.drop_left']
          rfl
        have hbuf : buf = r.render ++ buf.drop r.render.length := by
          conv => lhs; rw [← List.take_append_drop r.render.length buf, ht]
        have hx : extractOne buf = .request r.raw r.render.length := by
          rw [hbuf]
          exact extract_exact r.line r.before r.after r.body hr.1 hr.2 _
        have hpos := render_pos r
        have hne : r.render.length ≠ 0 := by omega
        obtain ⟨m, b', h1, h2, h3⟩ := ih f (buf.drop r.render.length) tail (fun r' hr' => hall r' (by simp [hr']))
          (by simp only [List.length_drop]; omega) hdt
        refine ⟨m + 1, b', ?_, by simpa using h2, by simpa using h3⟩
        simp only [drainRaw, hx, hne, ↓reduceIte, h1, List.take_succ_cons, List.map_cons]

theorem renderAll_nil_iff (rs : List ReqSpec) (h : renderAll rs = []) : rs = [] := by
  have := renderAll_length rs
  rw [h] at this
  exact List.eq_nil_of_length_eq_zero (by simpa using this)

/-- long keep-alive connections: requests of at most `R` bytes in reads of at most `L` bytes with `R + L ≤ MAX_BUFFER_SIZE`,
started with what an earlier pass left (`Partial`), with more of the pipeline still to come (`tail`) -/
theorem keepalive_feed : ∀ (ss : List Bytes) (rs : List ReqSpec) (b tail : Bytes) (R L : Nat),
    (∀ r ∈ rs, r.OK ∧ r.render.length ≤ R) → (∀ seg ∈ ss, seg.length ≤ L) → R + L ≤ Gen.Http.serverMaxBufferSize →
    Partial b rs → b ++ ss.flatten ++ tail = renderAll rs →
    ∃ m b', srvFeedRaw { buffer := b, alive := true } ss = ((rs.take m).map ReqSpec.raw, { buffer := b', alive := true }) ∧
      b' ++ tail = renderAll (rs.drop m) ∧ Partial b' (rs.drop m) := by
  intro ss
  induction ss with
  | nil =>
    intro rs b tail R L _ _ _ hp h
    exact ⟨0, b, by simp [srvFeedRaw], by simpa using h, by simpa using hp⟩
  | cons seg ss ih =>
    intro rs b tail R L hall hseg hRL hp h
    have hsl : seg.length ≤ L := hseg seg (by simp)
    have hbl : b.length + seg.length ≤ Gen.Http.serverMaxBufferSize := by
      rcases hp with hb | ⟨r, rest, hrs, hlt⟩
      · subst hb; simp only [List.length_nil]; omega
      · have := (hall r (by rw [hrs]; simp)).2
        omega
    have hlim : ¬ (b.length + seg.length > Gen.Http.serverMaxBufferSize) := by omega
    have hcat : (b ++ seg) ++ (ss.flatten ++ tail) = renderAll rs := by
      rw [← h]; simp [List.append_assoc]
    obtain ⟨m1, b1, hd, ht1, hp1⟩ := drain_pipeline_prefix rs ((b ++ seg).length + 1) (b ++ seg) (ss.flatten ++ tail)
      (fun r hr => (hall r hr).1) (by omega) hcat
    have hio : ioStep { buffer := b, alive := true } seg = ({ buffer := b1, alive := true }, (rs.take m1).map ReqSpec.raw, false) := by
      simp only [List.length_append] at hd
      simp [ioStep, hlim, hd]
    obtain ⟨m2, b2, hf2, ht2, hp2⟩ := ih (rs.drop m1) b1 tail R L
      (fun r hr => hall r (List.mem_of_mem_drop hr)) (fun s hs => hseg s (by simp [hs])) hRL hp1
      (by rw [List.append_assoc]; exact ht1)
    refine ⟨m1 + m2, b2, ?_, by rw [ht2, List.drop_drop], by rw [← List.drop_drop]; exact hp2⟩
    simp only [srvFeedRaw, hio, hf2, List.take_add, List.map_append]

/-! ### pool oracle, worker schedule, close landing -/

theorem extracted_append (a b : List Out) : extracted (a ++ b) = extracted a ++ extracted b := by
  induction a with
  | nil => rfl
  | cons o t ih => cases o <;> simp [extracted, ih]

theorem accepted_append (a b : List Out) : accepted (a ++ b) = accepted a ++ accepted b := by
  induction a with
  | nil => rfl
  | cons o t ih => cases o <;> simp [accepted, ih]

theorem workerEvs_append (a b : List Out) : workerEvs (a ++ b) = workerEvs a ++ workerEvs b := by
  induction a with
  | nil => rfl
  | cons o t ih => cases o <;> simp [workerEvs, ih]

/-- whatever the pool answers, every extracted request appears exactly once, in order: accepted or refused -/
theorem route_extracted : ∀ (raws : List Bytes) (k : Nat), extracted (route raws k).1 = raws := by
  intro raws
  induction raws with
  | nil => intro k; rfl
  | cons raw t ih =>
    intro k
    cases k with
    | zero => simp [route, extracted, ih]
    | succ k => simp [route, extracted, ih]

theorem route_accepted : ∀ (raws : List Bytes) (k : Nat),
    accepted (route raws k).1 = (route raws k).2.1 ∧ workerEvs (route raws k).1 = [] := by
  intro raws
  induction raws with
  | nil => intro k; exact ⟨rfl, rfl⟩
  | cons raw t ih =>
    intro k
    cases k with
    | zero => simp [route, accepted, workerEvs, ih]
    | succ k => simp [route, accepted, workerEvs, ih]

theorem route_all_accepted : ∀ (raws : List Bytes) (k : Nat), raws.length ≤ k →
    (route raws k).1 = raws.map Out.enqueued ∧ (route raws k).2.1 = raws ∧ (route raws k).2.2.2 = false := by
  intro raws
  induction raws with
  | nil => intro k _; exact ⟨rfl, rfl, rfl⟩
  | cons raw t ih =>
    intro k hk
    cases k with
    | zero => simp at hk
    | succ k =>
      obtain ⟨a, b, c⟩ := ih k (by simpa using hk)
      simp [route, a, b, c]

/-- **the extraction does not depend on the pool, the workers or the close callback** (generalised over the start state) -/
theorem crun_extracted : ∀ (ops : List COp) (c : Conn),
    ∃ j, j ≤ (segsOf ops).length ∧ extracted (crun c ops).1 = (srvFeedRaw c.sess ((segsOf ops).take j)).1 := by
  intro ops
  induction ops with
  | nil => intro c; exact ⟨0, Nat.le_refl _, rfl⟩
  | cons op ops ih =>
    intro c
    cases op with
    | data seg slots =>
      obtain ⟨j, hj, hje⟩ := ih (connData c seg slots).1
      simp only [crun, cstep, segsOf, extracted_append]
      have hx : extracted (connData c seg slots).2.1 = (ioStep c.sess seg).2.1 := by
        simp only [connData, extracted_append, route_extracted]
        split <;> simp [extracted]
      rw [hx, hje]
      cases hr : (route (ioStep c.sess seg).2.1 slots).2.2.2 with
      | true =>
        refine ⟨1, by simp, ?_⟩
        have hs : (connData c seg slots).1.sess.alive = false := by simp [connData, hr]
        rw [srvFeedRaw_dead _ _ hs]
        simp [srvFeedRaw]
      | false =>
        refine ⟨j + 1, by simp; omega, ?_⟩
        have hs : (connData c seg slots).1.sess = (ioStep c.sess seg).1 := by simp [connData, hr]
        simp only [List.take_succ_cons, srvFeedRaw, hs]
    | work =>
      obtain ⟨j, hj, hje⟩ := ih (connWork c).1
      simp only [crun, cstep, segsOf, extracted_append]
      have hx : extracted (connWork c).2 = [] ∧ (connWork c).1.sess = c.sess := by
        unfold connWork; split <;> simp [extracted]
      rw [hx.1, hje, List.nil_append, hx.2]
      exact ⟨j, hj, rfl⟩
    | closed =>
      obtain ⟨j, hj, hje⟩ := ih (connClosed c)
      simp only [crun, cstep, segsOf, extracted, List.nil_append]
      refine ⟨0, Nat.zero_le _, ?_⟩
      rw [hje, srvFeedRaw_dead _ _ (by simp [connClosed])]
      simp [srvFeedRaw]

/-- workers run what the pool accepted, in acceptance order, each request once -/
theorem crun_workers : ∀ (ops : List COp) (c : Conn),
    workerEvs (crun c ops).1 ++ (crun c ops).2.pending.map dispatch =
      (c.pending ++ accepted (crun c ops).1).map dispatch := by
  intro ops
  induction ops with
  | nil => intro c; simp [crun, workerEvs, accepted]
  | cons op ops ih =>
    intro c
    cases op with
    | data seg slots =>
      have := ih (connData c seg slots).1
      simp only [crun, cstep, workerEvs_append, accepted_append]
      have ha : accepted (connData c seg slots).2.1 = (route (ioStep c.sess seg).2.1 slots).2.1 ∧
          workerEvs (connData c seg slots).2.1 = [] := by
        simp only [connData, accepted_append, workerEvs_append, route_accepted]
        split <;> simp [accepted, workerEvs]
      rw [ha.1, ha.2, List.nil_append, this]
      simp [connData, List.append_assoc]
    | work =>
      have := ih (connWork c).1
      simp only [crun, cstep, workerEvs_append, accepted_append]
      cases hp : c.pending with
      | nil =>
        have h1 : connWork c = (c, []) := by simp [connWork, hp]
        rw [h1] at this ⊢
        simpa [workerEvs, accepted, hp] using this
      | cons raw t =>
        have h2 : (connWork c).2 = [.worker (dispatch raw)] ∧ (connWork c).1.pending = t := by
          simp [connWork, hp]
        rw [h2.1, List.append_assoc, this, h2.2]
        simp [workerEvs, accepted]
    | closed =>
      have := ih (connClosed c)
      simpa [crun, cstep, workerEvs, accepted, connClosed] using this

/-! ### the upgrade hold (FC18f): `connDataU` / `crunU` -/

theorem chainTo_shift : ∀ (raws : List Bytes) (d : Bytes) (o a b : Nat), o ≤ d.length →
    chainTo (d.drop o) a raws b → chainTo d (o + a) raws (o + b) := by
  intro raws
  induction raws with
  | nil => intro d o a b _ h; simp only [chainTo] at h ⊢; omega
  | cons raw t ih =>
    intro d o a b ho h
    obtain ⟨n, hn, hle, hx, hrest⟩ := h
    simp only [List.length_drop] at hle
    refine ⟨n, hn, by omega, by rw [List.drop_drop] at hx; exact hx, ?_⟩
    have := ih d o (a + n) b ho hrest
    rw [← Nat.add_assoc] at this
    exact this

theorem chainTo_ext : ∀ (raws : List Bytes) (d x : Bytes) (o o' : Nat),
    chainTo d o raws o' → chainTo (d ++ x) o raws o' := by
  intro raws
  induction raws with
  | nil => intro d x o o' h; exact h
  | cons raw t ih =>
    intro d x o o' h
    obtain ⟨n, hn, hle, hx, hrest⟩ := h
    refine ⟨n, hn, by simp only [List.length_append]; omega, ?_, ih d x _ _ hrest⟩
    rw [List.drop_append_of_le_length (by omega)]
    exact (extractOne_spec _ x _ hx (by simp)).1

theorem chainTo_append : ∀ (a b : List Bytes) (d : Bytes) (o m o' : Nat),
    chainTo d o a m → chainTo d m b o' → chainTo d o (a ++ b) o' := by
  intro a
  induction a with
  | nil => intro b d o m o' h1 h2; simp only [chainTo] at h1; subst h1; exact h2
  | cons raw t ih =>
    intro b d o m o' h1 h2
    obtain ⟨n, hn, hle, hx, hrest⟩ := h1
    exact ⟨n, hn, hle, hx, ih b d _ m o' hrest h2⟩

/-- one pass of the request loop (with the `break` behind an Upgrade request): the extracted requests are the greedy chain
from the front of the buffer, the remainder is what follows the chain -/
theorem drainRawU_chain (f : Nat) : ∀ buf : Bytes,
    ∃ k, k ≤ buf.length ∧ (drainRawU f buf).2.2.1 = buf.drop k ∧ chainTo buf 0 (drainRawU f buf).1 k := by
  induction f with
  | zero => intro buf; exact ⟨0, Nat.zero_le _, by simp [drainRawU], by simp [drainRawU, chainTo]⟩
  | succ f ih =>
    intro buf
    simp only [drainRawU]
    cases he : extractOne buf with
    | needMore => exact ⟨0, Nat.zero_le _, by simp, by simp [chainTo]⟩
    | close => exact ⟨0, Nat.zero_le _, by simp, by simp [chainTo]⟩
    | request raw0 n0 =>
      by_cases hn : n0 = 0
      · simp only [hn, ↓reduceIte]; exact ⟨0, Nat.zero_le _, by simp, by simp [chainTo]⟩
      · simp only [hn, ↓reduceIte]
        have hle := ((extractOne_spec buf [] _ he (by simp)).2 raw0 n0 rfl).2
        by_cases hu : hasUpgrade buf = true
        · simp only [hu, ↓reduceIte]
          exact ⟨n0, hle, rfl, n0, by omega, by omega, by simpa using he, by simp [chainTo]⟩
        · simp only [hu, Bool.false_eq_true, ↓reduceIte]
          obtain ⟨k, hk, hrest, hch⟩ := ih (buf.drop n0)
          simp only [List.length_drop] at hk
          refine ⟨n0 + k, by omega, by rw [hrest, List.drop_drop], n0, by omega, by omega, by simpa using he, ?_⟩
          have := chainTo_shift _ buf n0 0 k hle hch
          simpa using this

theorem tagLast_fst : ∀ (raws : List Bytes) (stop : Bool), (tagLast raws stop).map Prod.fst = raws := by
  intro raws
  induction raws with
  | nil => intro _; rfl
  | cons raw t ih =>
    intro stop
    cases t with
    | nil => rfl
    | cons r2 t2 => simp only [tagLast, List.map_cons]; rw [ih stop]

theorem routeU_extracted : ∀ (l : List (Bytes × Bool)) (k : Nat), extracted (routeU l k).1 = l.map Prod.fst := by
  intro l
  induction l with
  | nil => intro k; rfl
  | cons p t ih =>
    intro k
    obtain ⟨raw, f⟩ := p
    cases k with
    | zero => simp [routeU, extracted, ih]
    | succ k => simp [routeU, extracted, ih]

/-- a session that is gone extracts nothing, whatever follows -/
theorem crunU_dead : ∀ (ops : List COp) (c : ConnU), c.sess.alive = false → extracted (crunU c ops).1 = [] := by
  intro ops
  induction ops with
  | nil => intro c _; rfl
  | cons op ops ih =>
    intro c hd
    cases op with
    | data seg slots =>
      have h1 : connDataU c seg slots = (c, [], slots) := by
        unfold connDataU; split <;> simp [hd]
      simp only [crunU, cstepU, h1, extracted_append, extracted, List.nil_append]
      exact ih c hd
    | work =>
      have hx : extracted (connWorkU c).2 = [] ∧ (connWorkU c).1.sess = c.sess := by
        unfold connWorkU; split <;> simp [extracted]
      simp only [crunU, cstepU, extracted_append, hx.1, List.nil_append]
      exact ih _ (by rw [hx.2]; exact hd)
    | closed =>
      simp only [crunU, cstepU, extracted, List.nil_append]
      exact ih _ (by simp [connClosedU])

/-- while the hold is set, a read extracts nothing -/
theorem connDataU_hold (c : ConnU) (seg : Bytes) (slots : Nat) (h : c.hold = true) :
    extracted (connDataU c seg slots).2.1 = [] := by
  unfold connDataU
  simp only [h, ↓reduceIte]
  split
  · rfl
  · split <;> simp [extracted]

/-- **what is extracted is the greedy chain of the true stream** - for every interleaving of reads, pool answers, worker runs,
close callbacks and upgrade holds (generalised over the start state: the session buffer is the tail `pre.drop o` of what has
been received) -/
theorem crunU_chain : ∀ (ops : List COp) (c : ConnU) (pre : Bytes) (o : Nat), o ≤ pre.length →
    (c.sess.alive = true → c.sess.buffer = pre.drop o) →
    ∃ o', chainTo (pre ++ (segsOf ops).flatten) o (extracted (crunU c ops).1) o' := by
  intro ops
  induction ops with
  | nil => intro c pre o _ _; exact ⟨o, rfl⟩
  | cons op ops ih =>
    intro c pre o ho hbuf
    cases op with
    | work =>
      have hx : extracted (connWorkU c).2 = [] ∧ (connWorkU c).1.sess = c.sess := by
        unfold connWorkU; split <;> simp [extracted]
      simp only [crunU, cstepU, segsOf, extracted_append, hx.1, List.nil_append]
      exact ih _ pre o ho (by rw [hx.2]; exact hbuf)
    | closed =>
      simp only [crunU, cstepU, segsOf, extracted, List.nil_append]
      rw [crunU_dead ops _ (by simp [connClosedU])]
      exact ⟨o, rfl⟩
    | data seg slots =>
      have hcat : pre ++ (segsOf (COp.data seg slots :: ops)).flatten = (pre ++ seg) ++ (segsOf ops).flatten := by
        simp [segsOf, List.append_assoc]
      rw [hcat]
      simp only [crunU, cstepU, extracted_append]
      have hpl : o ≤ (pre ++ seg).length := by simp only [List.length_append]; omega
      by_cases hal : c.sess.alive = true
      · have hb := hbuf hal
        have hb2 : c.sess.buffer ++ seg = (pre ++ seg).drop o := by
          rw [hb, List.drop_append_of_le_length ho]
        by_cases hlim : c.sess.buffer.length + seg.length > Gen.Http.serverMaxBufferSize
        · -- the read is dropped, the session is gone (hold or not)
          have h1 : (connDataU c seg slots).1.sess.alive = false ∧ extracted (connDataU c seg slots).2.1 = [] := by
            unfold connDataU; split <;> simp [hal, hlim, extracted]
          rw [h1.2, crunU_dead ops _ h1.1]
          exact ⟨o, rfl⟩
        · by_cases hh : c.hold = true
          · have h1 : connDataU c seg slots =
                ({ c with sess := { c.sess with buffer := c.sess.buffer ++ seg } }, [], slots) := by
              unfold connDataU; simp [hh, hal, hlim]
            rw [h1]
            simp only [extracted, List.nil_append]
            exact ih _ (pre ++ seg) o hpl (fun _ => hb2)
          · have hh' : c.hold = false := by cases h : c.hold <;> simp_all
            obtain ⟨k, hk, hrest, hch⟩ := drainRawU_chain ((c.sess.buffer ++ seg).length + 1) (c.sess.buffer ++ seg)
            have hx : extracted (connDataU c seg slots).2.1 =
                (drainRawU ((c.sess.buffer ++ seg).length + 1) (c.sess.buffer ++ seg)).1 := by
              unfold connDataU
              simp only [hh', hal, hlim, Bool.false_eq_true, ↓reduceIte, Bool.not_true, extracted_append,
                routeU_extracted, tagLast_fst]
              split <;> simp [extracted]
            have hs : (connDataU c seg slots).1.sess.alive = true →
                (connDataU c seg slots).1.sess.buffer = (pre ++ seg).drop (o + k) := by
              intro _
              unfold connDataU
              simp only [hh', hal, hlim, Bool.false_eq_true, ↓reduceIte, Bool.not_true]
              rw [hrest, hb2, List.drop_drop]
            have hlen : (c.sess.buffer ++ seg).length + o = (pre ++ seg).length := by
              rw [hb2, List.length_drop]; omega
            obtain ⟨o', hrestc⟩ := ih (connDataU c seg slots).1 (pre ++ seg) (o + k) (by omega) hs
            rw [hx]
            generalize (drainRawU ((c.sess.buffer ++ seg).length + 1) (c.sess.buffer ++ seg)).1 = R at hch ⊢
            rw [hb2] at hch
            have c1 := chainTo_shift _ (pre ++ seg) o 0 k hpl hch
            have c2 := chainTo_ext _ (pre ++ seg) (segsOf ops).flatten _ _ c1
            exact ⟨o', chainTo_append _ _ _ _ _ _ (by simpa using c2) hrestc⟩
      · have hd : c.sess.alive = false := by cases h : c.sess.alive <;> simp_all
        have h1 : connDataU c seg slots = (c, [], slots) := by
          unfold connDataU; split <;> simp [hd]
        rw [h1]
        simp only [extracted, List.nil_append]
        rw [crunU_dead ops c hd]
        exact ⟨o, rfl⟩

/-- a pass that does not stop behind an Upgrade request is the HTTP-only request loop -/
theorem drainRawU_no_stop (f : Nat) : ∀ buf : Bytes, (drainRawU f buf).2.2.2 = false →
    drainRaw f buf = ((drainRawU f buf).1, (drainRawU f buf).2.1, (drainRawU f buf).2.2.1) := by
  induction f with
  | zero => intro buf _; rfl
  | succ f ih =>
    intro buf h
    simp only [drainRawU, drainRaw] at h ⊢
    cases he : extractOne buf with
    | needMore => rfl
    | close => rfl
    | request raw n =>
      rw [he] at h
      by_cases hn : n = 0
      · simp [hn]
      · simp only [hn, ↓reduceIte] at h ⊢
        by_cases hu : hasUpgrade buf = true
        · simp [hu] at h
        · simp only [hu, Bool.false_eq_true, ↓reduceIte] at h ⊢
          rw [ih (buf.drop n) h]

end Iora.Http.Srv
