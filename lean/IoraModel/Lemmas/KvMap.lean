import IoraModel.Model.KvMap
/-! Lemmas about the association-list maps of `Model/KvMap.lean`. -/
namespace Iora.Kv.Map
variable {β : Type}

@[simp] theorem get?_nil (k : Key) : get? ([] : Map β) k = none := rfl

theorem get?_cons (k' : Key) (v : β) (r : Map β) (k : Key) :
    get? ((k', v) :: r) k = if k' = k then some v else get? r k := rfl

theorem get?_erase (m : Map β) (k k' : Key) :
    get? (erase m k) k' = if k = k' then none else get? m k' := by
  induction m with
  | nil => simp [erase]
  | cons x r ih =>
    obtain ⟨a, v⟩ := x
    simp only [erase]
    by_cases h : a = k
    · subst h
      simp only [↓reduceIte, ih, get?_cons]
      by_cases h2 : a = k' <;> simp [h2]
    · simp only [h, ↓reduceIte, get?_cons, ih]
      by_cases h2 : a = k'
      · subst h2
        have : ¬ k = a := fun e => h e.symm
        simp [this]
      · simp [h2]

theorem get?_put (m : Map β) (k : Key) (v : β) (k' : Key) :
    get? (put m k v) k' = if k = k' then some v else get? m k' := by
  simp only [put, get?_cons, get?_erase]
  by_cases h : k = k' <;> simp [h]

@[simp] theorem get?_erase_self (m : Map β) (k : Key) : get? (erase m k) k = none := by
  simp [get?_erase]

@[simp] theorem get?_put_self (m : Map β) (k : Key) (v : β) : get? (put m k v) k = some v := by
  simp [get?_put]

/-- filtering by a predicate on the key -/
theorem get?_filter_key (m : Map β) (q : Key → Bool) (k : Key) :
    get? (m.filter (fun x => q x.1)) k = if q k then get? m k else none := by
  induction m with
  | nil => simp
  | cons x r ih =>
    obtain ⟨a, v⟩ := x
    simp only [List.filter_cons]
    by_cases hq : q a = true
    · simp only [hq, ↓reduceIte, get?_cons, ih]
      by_cases h : a = k
      · subst h; simp [hq]
      · simp [h]
    · have hq' : q a = false := by simpa using hq
      simp only [hq', Bool.false_eq_true, ↓reduceIte, get?_cons]
      by_cases h : a = k
      · subst h; simp [hq', ih]
      · simp [h, ih]

theorem has_iff (m : Map β) (k : Key) : has m k = true ↔ ∃ v, get? m k = some v := by
  simp [has, Option.isSome_iff_exists]

theorem mem_keys_iff (m : Map β) (k : Key) : k ∈ keys m ↔ ∃ v, get? m k = some v := by
  induction m with
  | nil => simp [keys]
  | cons x r ih =>
    obtain ⟨a, v⟩ := x
    simp only [keys, List.map_cons, List.mem_cons, get?_cons] at *
    by_cases h : a = k
    · subst h; simp
    · have : ¬ k = a := fun e => h e.symm
      simp [h, this, ih]

theorem get?_of_mem_nodup (m : Map β) (h : (keys m).Nodup) (k : Key) (v : β) (hm : (k, v) ∈ m) : get? m k = some v := by
  induction m with
  | nil => cases hm
  | cons x r ih =>
    obtain ⟨a, w⟩ := x
    simp only [keys, List.map_cons, List.nodup_cons] at h
    rcases List.mem_cons.mp hm with e | e
    · cases e; simp [get?_cons]
    · have hk : k ∈ keys r := List.mem_map.mpr ⟨(k, v), e, rfl⟩
      have : a ≠ k := fun e => h.1 (e ▸ hk)
      simp [get?_cons, this, ih h.2 e]

theorem mem_of_get? (m : Map β) (k : Key) (v : β) (h : get? m k = some v) : (k, v) ∈ m := by
  induction m with
  | nil => simp at h
  | cons x r ih =>
    obtain ⟨a, w⟩ := x
    simp only [get?_cons] at h
    by_cases e : a = k
    · subst e; simp at h; subst h; simp
    · simp [e] at h; exact List.mem_cons_of_mem _ (ih h)

theorem keys_erase_sublist (m : Map β) (k : Key) : (keys (erase m k)).Sublist (keys m) := by
  induction m with
  | nil => simp [erase, keys]
  | cons x r ih =>
    obtain ⟨a, w⟩ := x
    simp only [erase]
    by_cases e : a = k
    · simp only [e, ↓reduceIte, keys, List.map_cons]; exact List.Sublist.cons _ ih
    · simp only [e, ↓reduceIte, keys, List.map_cons]; exact List.Sublist.cons_cons _ ih

theorem nodup_erase (m : Map β) (k : Key) (h : (keys m).Nodup) : (keys (erase m k)).Nodup :=
  h.sublist (keys_erase_sublist m k)

theorem not_mem_keys_erase (m : Map β) (k : Key) : k ∉ keys (erase m k) := by
  rw [mem_keys_iff]; simp

theorem nodup_put (m : Map β) (k : Key) (v : β) (h : (keys m).Nodup) : (keys (put m k v)).Nodup := by
  simp only [put, keys, List.map_cons, List.nodup_cons]
  exact ⟨not_mem_keys_erase m k, nodup_erase m k h⟩

theorem nodup_filter (m : Map β) (q : Key × β → Bool) (h : (keys m).Nodup) : (keys (m.filter q)).Nodup := by
  unfold keys at *
  exact h.sublist (List.Sublist.map _ List.filter_sublist)

end Iora.Kv.Map
