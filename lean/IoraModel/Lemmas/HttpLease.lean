import IoraModel.Model.HttpLease
import IoraModel.Lemmas.HttpRetryCache
/-! Invariants of the concurrent-callers model (C17, lease part): mutual exclusion, cache/trace invariant, per-thread retry
discipline — preserved by every step of every thread, hence for every schedule. -/
namespace Iora.HttpRetry
open Iora

/-! ### list plumbing -/

theorem sum_map_set {α : Type} (f : α → Nat) :
    ∀ (l : List α) (i : Nat) (x y : α), l[i]? = some x → ((l.set i y).map f).sum + f x = (l.map f).sum + f y := by
  intro l
  induction l with
  | nil => intro i x y h; simp at h
  | cons a t ih =>
    intro i x y h
    cases i with
    | zero =>
      simp only [List.getElem?_cons_zero, Option.some.injEq] at h
      subst h
      simp only [List.set_cons_zero, List.map_cons, List.sum_cons]
      omega
    | succ j =>
      simp only [List.getElem?_cons_succ] at h
      have := ih j x y h
      simp only [List.set_cons_succ, List.map_cons, List.sum_cons]
      omega

theorem mem_set_cases {α : Type} {l : List α} {i : Nat} {y z : α} (h : z ∈ l.set i y) : z = y ∨ z ∈ l := by
  induction l generalizing i with
  | nil => simp at h
  | cons a t ih =>
    cases i with
    | zero =>
      simp only [List.set_cons_zero, List.mem_cons] at h
      rcases h with h | h
      · exact .inl h
      · exact .inr (List.mem_cons_of_mem _ h)
    | succ j =>
      simp only [List.set_cons_succ, List.mem_cons] at h
      rcases h with h | h
      · exact .inr (by rw [h]; exact List.mem_cons_self)
      · rcases ih h with h | h
        · exact .inl h
        · exact .inr (List.mem_cons_of_mem _ h)

/-! ### the retry decision -/

theorem nextAttempt_some {m : String} {r : Int} {n n' : Nat} {res : Except Exn RespInfo}
    (h : nextAttempt m r n res = some n') :
    n' = n + 1 ∧ (n : Int) < r ∧ ∃ e, res = .error e ∧ e ≠ .framing ∧ (isIdempotent m = true ∨ e = .notSent) := by
  unfold nextAttempt at h
  cases res with
  | ok x => simp at h
  | error e =>
    simp only at h
    cases hd : dispatch e with
    | rethrow => simp [hd] at h
    | uncaught => simp [hd] at h
    | retry =>
      simp only [hd] at h
      split at h
      · rename_i hc
        simp only [Option.some.injEq] at h
        rw [retryEligible_eq, budgetExhausted_eq] at hc
        simp only [Bool.and_eq_true, Bool.or_eq_true, decide_eq_true_eq, Bool.not_eq_true', decide_eq_false_iff_not,
          ge_iff_le, Int.not_le] at hc
        refine ⟨h.symm, hc.2, e, rfl, ?_, hc.1⟩
        intro hf; subst hf; rw [dispatch_framing] at hd; cases hd
      · cases h

/-- a log entry is honest about "not sent" -/
def LogOK (lg : AttemptLog) : Prop := lg.result = .error .notSent → lg.reachedSend = false ∧ lg.receives = 0

theorem underLease_logOK (cfg : Cfg) (c : Client) (h : Host) (a : Attempt) : LogOK (underLease cfg c h a).2.1 := by
  unfold LogOK
  rw [underLease_log]
  split
  · intro _; exact ⟨rfl, rfl⟩
  · by_cases hs : a.send = true
    · simp only [hs, Bool.not_true, Bool.false_eq_true, if_false]
      cases hl : loopRes a.recvs with
      | fail e =>
        intro he
        have : e = .notSent := by simpa using he
        subst this
        exact absurd hl (loopRes_ne_notSent _)
      | done r fe cd => intro he; simp at he
    · have hs' : a.send = false := by simpa using hs
      simp [hs']

/-! ### per-thread retry discipline -/

/-- what holds of a thread at every moment -/
def ThreadOK (t : Thread) : Prop :=
  match t.pc with
  | .start n => t.log.length = n ∧ n ≤ t.rq.retries.toNat ∧ ∀ lg ∈ t.log, Retried t.rq.method lg
  | .holding n => t.log.length = n ∧ n ≤ t.rq.retries.toNat ∧ ∀ lg ∈ t.log, Retried t.rq.method lg
  | .done res => t.log.length ≤ t.rq.retries.toNat + 1 ∧ (∀ lg ∈ t.log.dropLast, Retried t.rq.method lg) ∧
      ∃ lg, t.log.getLast? = some lg ∧ lg.result = res

theorem afterAttempt_ok {t : Thread} {n : Nat} {lg : AttemptLog} (hl : LogOK lg)
    (h1 : t.log.length = n) (h2 : n ≤ t.rq.retries.toNat) (h3 : ∀ x ∈ t.log, Retried t.rq.method x) :
    ThreadOK (afterAttempt t n lg) := by
  unfold afterAttempt ThreadOK
  cases hn : nextAttempt t.rq.method t.rq.retries n lg.result with
  | none =>
    simp only [List.length_append, List.length_singleton, List.dropLast_concat, List.getLast?_concat]
    exact ⟨by omega, h3, lg, rfl, rfl⟩
  | some n' =>
    obtain ⟨e1, e2, e, he, hne, hor⟩ := nextAttempt_some hn
    simp only [List.length_append, List.length_singleton]
    refine ⟨by omega, by omega, ?_⟩
    intro x hx
    rcases List.mem_append.1 hx with hx | hx
    · exact h3 x hx
    · simp only [List.mem_singleton] at hx
      subst hx
      refine ⟨e, he, hne, ?_⟩
      rcases hor with hor | hor
      · exact .inl hor
      · subst hor
        have := hl he
        exact .inr ⟨rfl, this.1, this.2⟩

/-! ### the world invariant -/

def traceOf (w : World) : List Ev := w.evs.map (·.2)

structure WorldInv (w : World) : Prop where
  /-- for every host: number of threads inside an exchange = number of lease entries ≤ 1 -/
  lease : ∀ h, holders w.threads h = w.client.leased.count h ∧ w.client.leased.count h ≤ 1
  cache : Inv (closedAfter [] (traceOf w)) w.client
  trace : wellUsed [] (traceOf w)
  threads : ∀ t ∈ w.threads, ThreadOK t

theorem holds_afterAttempt (t : Thread) (n : Nat) (lg : AttemptLog) (h : Host) : (afterAttempt t n lg).holds h = false := by
  unfold afterAttempt Thread.holds
  simp only
  cases nextAttempt t.rq.method t.rq.retries n lg.result <;> rfl

theorem holders_set {ts : List Thread} {i : Nat} {t : Thread} (t' : Thread) (hi : ts[i]? = some t) (h : Host) :
    holders (ts.set i t') h + (if t.holds h then 1 else 0) = holders ts h + (if t'.holds h then 1 else 0) :=
  sum_map_set (fun t => if t.holds h then 1 else 0) ts i t t' hi

theorem holders_set_same {ts : List Thread} {i : Nat} {t t' : Thread} (hi : ts[i]? = some t) (h : Host)
    (he : t'.holds h = t.holds h) : holders (ts.set i t') h = holders ts h := by
  have := sum_map_set (fun t => if t.holds h then 1 else 0) ts i t t' hi
  unfold holders
  simp only [he] at this
  omega

theorem map_snd_tag (i : Nat) (ev : List Ev) : (ev.map fun e => (i, e)).map (·.2) = ev := by
  induction ev with
  | nil => rfl
  | cons e es ih => simp [ih]

theorem traceOf_append (w : World) (c : Client) (ts : List Thread) (i : Nat) (ev : List Ev) :
    traceOf { client := c, threads := ts, evs := w.evs ++ ev.map (fun e => (i, e)) } = traceOf w ++ ev := by
  unfold traceOf
  rw [List.map_append, map_snd_tag]

theorem WorldInv.step (cfg : Cfg) {w : World} (hw : WorldInv w) (i : Nat) : WorldInv (stepThread cfg w i) := by
  unfold stepThread
  cases hti : w.threads[i]? with
  | none => exact hw
  | some t =>
    have htm : t ∈ w.threads := List.mem_of_getElem? hti
    have hto := hw.threads t htm
    simp only
    cases hpc : t.pc with
    | done res => exact hw
    | start n =>
      simp only
      unfold ThreadOK at hto
      rw [hpc] at hto
      have hstart : ∀ h, t.holds h = false := by intro h; simp [Thread.holds, hpc]
      -- an attempt that fails before the lease
      have hfail : ∀ lg, LogOK lg →
          WorldInv { w with threads := w.threads.set i (afterAttempt t n lg) } := by
        intro lg hlg
        refine { lease := ?_, cache := hw.cache, trace := hw.trace, threads := ?_ }
        · intro h
          rw [holders_set_same hti h (by rw [holds_afterAttempt, hstart])]
          exact hw.lease h
        · intro t' ht'
          rcases mem_set_cases ht' with e | e
          · rw [e]; exact afterAttempt_ok hlg hto.1 hto.2.1 hto.2.2
          · exact hw.threads t' e
      by_cases hu : t.rq.urlOk = true
      · simp only [hu, Bool.not_true, Bool.false_eq_true, if_false]
        cases hl : (t.rq.script n).lease with
        | timedOut => exact hfail _ (by intro he; simp [leaseFail_exn] at he)
        | closing => exact hfail _ (by intro he; simp [leaseFail_exn] at he)
        | granted =>
          simp only
          by_cases hc : w.client.leased.contains t.rq.host = true
          · simp only [hc, if_true]; exact hw
          · have hc' : w.client.leased.contains t.rq.host = false := by simpa using hc
            simp only [hc', Bool.false_eq_true, if_false]
            have hnot : t.rq.host ∉ w.client.leased := by simpa using hc'
            refine { lease := ?_, cache := ?_, trace := ?_, threads := ?_ }
            · intro h
              have hs := holders_set { t with pc := .holding n } hti h
              have hl' := hw.lease h
              have hy : ({ t with pc := .holding n } : Thread).holds h = (t.rq.host == h) := rfl
              rw [hstart h, hy] at hs
              show holders (w.threads.set i { t with pc := .holding n }) h = (t.rq.host :: w.client.leased).count h ∧
                   (t.rq.host :: w.client.leased).count h ≤ 1
              by_cases hh : t.rq.host = h
              · subst hh
                have h0 : w.client.leased.count t.rq.host = 0 := List.count_eq_zero.2 hnot
                simp only [beq_self_eq_true, if_true, Bool.false_eq_true, if_false] at hs
                rw [List.count_cons_self]
                omega
              · have hb : (t.rq.host == h) = false := by simpa using hh
                simp only [hb, Bool.false_eq_true, if_false] at hs
                have : (t.rq.host :: w.client.leased).count h = w.client.leased.count h := by
                  rw [List.count_cons]; simp [hb]
                rw [this]
                omega
            · have : traceOf { w with client := { w.client with leased := t.rq.host :: w.client.leased },
                                      threads := w.threads.set i { t with pc := .holding n },
                                      evs := w.evs ++ [(i, Ev.acquire t.rq.host)] } = traceOf w ++ [.acquire t.rq.host] :=
                traceOf_append w _ _ i [.acquire t.rq.host]
              rw [this, closedAfter_append]
              simpa [closedAfter] using hw.cache.setLeased _
            · have : traceOf { w with client := { w.client with leased := t.rq.host :: w.client.leased },
                                      threads := w.threads.set i { t with pc := .holding n },
                                      evs := w.evs ++ [(i, Ev.acquire t.rq.host)] } = traceOf w ++ [.acquire t.rq.host] :=
                traceOf_append w _ _ i [.acquire t.rq.host]
              rw [this, wellUsed_append]
              exact ⟨hw.trace, by simp [wellUsed]⟩
            · intro t' ht'
              rcases mem_set_cases ht' with e | e
              · rw [e]; unfold ThreadOK; exact hto
              · exact hw.threads t' e
      · have hu' : t.rq.urlOk = false := by simpa using hu
        simp only [hu', Bool.not_false, if_true]
        exact hfail _ (by intro he; simp [urlFail_exn] at he)
    | holding n =>
      simp only
      unfold ThreadOK at hto
      rw [hpc] at hto
      have hholds : t.holds t.rq.host = true := by simp [Thread.holds, hpc]
      have hstep := step_underLease cfg hw.cache t.rq.host (t.rq.script n)
      have hlogok := underLease_logOK cfg w.client t.rq.host (t.rq.script n)
      generalize hx : underLease cfg w.client t.rq.host (t.rq.script n) = x at hstep hlogok
      obtain ⟨c1, lg, ev⟩ := x
      have hso := hstep.1
      have htr : traceOf { client := { c1 with leased := c1.leased.erase t.rq.host },
                           threads := w.threads.set i (afterAttempt t n lg),
                           evs := w.evs ++ (ev ++ [Ev.release t.rq.host]).map (fun e => (i, e)) } =
                 traceOf w ++ (ev ++ [.release t.rq.host]) :=
        traceOf_append w _ _ i (ev ++ [.release t.rq.host])
      refine { lease := ?_, cache := ?_, trace := ?_, threads := ?_ }
      · intro h
        have hs := holders_set (afterAttempt t n lg) hti h
        rw [holds_afterAttempt] at hs
        have hl' := hw.lease h
        have hleq : c1.leased = w.client.leased := hso.leased
        show holders (w.threads.set i (afterAttempt t n lg)) h = (c1.leased.erase t.rq.host).count h ∧
             (c1.leased.erase t.rq.host).count h ≤ 1
        rw [hleq]
        by_cases hh : t.rq.host = h
        · subst hh
          rw [hholds] at hs
          simp only [if_true, Bool.false_eq_true, if_false] at hs
          rw [List.count_erase_self]
          omega
        · have hb : (t.rq.host == h) = false := by simpa using hh
          have hf : t.holds h = false := by simp [Thread.holds, hpc, hb]
          rw [hf] at hs
          simp only [Bool.false_eq_true, if_false] at hs
          rw [List.count_erase_of_ne (fun e => hh e.symm)]
          omega
      · rw [htr, closedAfter_append, closedAfter_append]
        simpa [closedAfter] using hso.inv.setLeased _
      · rw [htr, wellUsed_append, wellUsed_append]
        exact ⟨hw.trace, hso.used, by simp [wellUsed]⟩
      · intro t' ht'
        rcases mem_set_cases ht' with e | e
        · rw [e]; exact afterAttempt_ok hlogok hto.1 hto.2.1 hto.2.2
        · exact hw.threads t' e

theorem WorldInv.run (cfg : Cfg) {w : World} (hw : WorldInv w) (sched : List Nat) : WorldInv (runSched cfg w sched) := by
  unfold runSched
  induction sched generalizing w with
  | nil => exact hw
  | cons i is ih => exact ih (hw.step cfg i)

theorem holders_init (rqs : List Request) (h : Host) : holders (World.init rqs).threads h = 0 := by
  unfold holders World.init
  induction rqs with
  | nil => rfl
  | cons r rs ih => simpa [Thread.holds] using ih

theorem WorldInv.init (rqs : List Request) : WorldInv (World.init rqs) where
  lease := fun h => by rw [holders_init]; simp [World.init]
  cache := by simpa [traceOf, World.init, closedAfter] using Inv.init
  trace := by simp [traceOf, World.init, wellUsed]
  threads := by
    intro t ht
    simp only [World.init, List.mem_map] at ht
    obtain ⟨rq, _, rfl⟩ := ht
    simp [ThreadOK]


/-! ### progress: the lease never strands the callers -/

/-- work done so far: events emitted + attempts logged -/
def World.work (w : World) : Nat := w.evs.length + (w.threads.map fun t => t.log.length).sum

theorem exists_holder : ∀ (ts : List Thread) (h : Host), 1 ≤ holders ts h →
    ∃ (j : Nat) (t : Thread), ts[j]? = some t ∧ t.holds h = true := by
  intro ts h
  induction ts with
  | nil => intro hh; simp [holders] at hh
  | cons a rest ih =>
    intro hh
    by_cases ha : a.holds h = true
    · exact ⟨0, a, rfl, ha⟩
    · have ha' : a.holds h = false := by simpa using ha
      have : 1 ≤ holders rest h := by
        simp only [holders, List.map_cons, List.sum_cons, ha', Bool.false_eq_true, if_false, Nat.zero_add] at hh
        exact hh
      obtain ⟨j, t', hj, ht'⟩ := ih this
      exact ⟨j + 1, t', by rw [List.getElem?_cons_succ]; exact hj, ht'⟩

theorem work_set_log {ts : List Thread} {i : Nat} {t : Thread} (hi : ts[i]? = some t) (n : Nat) (lg : AttemptLog) :
    ((ts.set i (afterAttempt t n lg)).map fun t => t.log.length).sum = (ts.map fun t => t.log.length).sum + 1 := by
  have := sum_map_set (fun t => t.log.length) ts i t (afterAttempt t n lg) hi
  have e : (afterAttempt t n lg).log.length = t.log.length + 1 := by simp [afterAttempt]
  simp only [e] at this
  omega

/-- the step of a thread that holds a lease always does work -/
theorem holder_moves (cfg : Cfg) (w : World) (j : Nat) (t : Thread) (h : Host) (hj : w.threads[j]? = some t)
    (ht : t.holds h = true) : w.work < (stepThread cfg w j).work := by
  unfold stepThread
  simp only [hj]
  cases hpc : t.pc with
  | start n => simp [Thread.holds, hpc] at ht
  | done r => simp [Thread.holds, hpc] at ht
  | holding n =>
    simp only
    generalize underLease cfg w.client t.rq.host (t.rq.script n) = x
    obtain ⟨c1, lg, ev⟩ := x
    simp only [World.work, List.length_append, List.length_map, List.length_singleton]
    rw [work_set_log hj]
    omega

/-- **no deadlock**: in every reachable state in which some caller has not finished, some thread can make a step that does
work (a blocked caller waits for a lease whose holder can always move) -/
theorem WorldInv.progress (cfg : Cfg) {w : World} (hw : WorldInv w) (hun : ∃ t ∈ w.threads, t.finished = false) :
    ∃ i, w.work < (stepThread cfg w i).work := by
  obtain ⟨t, htm, hf⟩ := hun
  obtain ⟨i, hi⟩ := List.getElem?_of_mem htm
  cases hpc : t.pc with
  | done r => simp [Thread.finished, hpc] at hf
  | holding n => exact ⟨i, holder_moves cfg w i t t.rq.host hi (by simp [Thread.holds, hpc])⟩
  | start n =>
    -- either this thread moves, or it is blocked on a lease whose holder moves
    by_cases hblocked : t.rq.urlOk = true ∧ (t.rq.script n).lease = .granted ∧ w.client.leased.contains t.rq.host = true
    · obtain ⟨_, _, hc⟩ := hblocked
      have hin : t.rq.host ∈ w.client.leased := by simpa using hc
      have hcount : 1 ≤ w.client.leased.count t.rq.host := List.count_pos_iff.2 hin
      have hh : 1 ≤ holders w.threads t.rq.host := by rw [(hw.lease t.rq.host).1]; exact hcount
      obtain ⟨j, t', hj, ht'⟩ := exists_holder _ _ hh
      exact ⟨j, holder_moves cfg w j t' t.rq.host hj ht'⟩
    · refine ⟨i, ?_⟩
      unfold stepThread
      simp only [hi, hpc]
      by_cases hu : t.rq.urlOk = true
      · simp only [hu, Bool.not_true, Bool.false_eq_true, if_false]
        cases hl : (t.rq.script n).lease with
        | timedOut => simp only [World.work]; rw [work_set_log hi]; omega
        | closing => simp only [World.work]; rw [work_set_log hi]; omega
        | granted =>
          have hc : w.client.leased.contains t.rq.host = false := by
            cases hcc : w.client.leased.contains t.rq.host with
            | false => rfl
            | true => exact absurd ⟨hu, hl, hcc⟩ hblocked
          simp only [hc, Bool.false_eq_true, if_false, World.work, List.length_append, List.length_singleton]
          have := sum_map_set (fun t => t.log.length) w.threads i t { t with pc := .holding n } hi
          simp only at this
          omega
      · have hu' : t.rq.urlOk = false := by simpa using hu
        simp only [hu', Bool.not_false, if_true, World.work]
        rw [work_set_log hi]; omega

end Iora.HttpRetry
