import IoraModel.Model.WsConc
set_option linter.unusedSimpArgs false
set_option linter.unusedVariables false
/-! W5 for ANY number of application threads and ANY schedule, over disciplined programs (`Conc.ok`). -/
namespace Iora.Ws.Conc

/-- what holds for thread `t` (its local state `x`) in global state `st` -/
structure ThrInv (st : St) (t : Nat) (x : Thr) : Prop where
  okp : okProg (decide (st.owner = some t)) x.rd x.armed x.w x.prog = true
  nxt : ∀ p ∈ x.next, ok p = true
  rdI : x.rd = true → st.owner = some t ∧ x.seen = st.flag
  arI : x.armed = true → x.rd = true ∧ st.flag = false
  wI : x.w = true → st.flag = true

structure Inv (st : St) : Prop where
  wireFlag : true ∈ st.wire → st.flag = true
  ndac : NoDataAfterCloseW st.wire
  thr : ∀ t x, st.thr[t]? = some x → ThrInv st t x

theorem ndac_append_close : ∀ (w : List Bool), NoDataAfterCloseW w → NoDataAfterCloseW (w ++ [true]) := by
  intro w
  induction w with
  | nil => intro _; exact ⟨fun _ x hx => (nomatch hx), trivial⟩
  | cons b r ih =>
    intro ⟨h1, h2⟩
    refine ⟨fun hb x hx => ?_, ih h2⟩
    rcases List.mem_append.mp hx with hx | hx
    · exact h1 hb x hx
    · simpa using hx

theorem ndac_append_data : ∀ (w : List Bool), NoDataAfterCloseW w → true ∉ w → NoDataAfterCloseW (w ++ [false]) := by
  intro w
  induction w with
  | nil => intro _ _; exact ⟨fun h => (nomatch h), trivial⟩
  | cons b r ih =>
    intro ⟨h1, h2⟩ hn
    have hb : b ≠ true := fun h => hn (by rw [h]; exact List.mem_cons_self ..)
    exact ⟨fun h => absurd h hb, ih h2 (fun h => hn (List.mem_cons_of_mem _ h))⟩

/-- the other threads are not disturbed by a step of thread `t` that changes the owner only from/to `t` and the flag
only while `t` holds the mutex -/
theorem others (st st' : St) (t : Nat)
    (h1 : ∀ t', t' ≠ t → (st'.owner = some t' ↔ st.owner = some t'))
    (h2 : st'.flag = st.flag ∨ (st.owner = some t ∧ st'.flag = true)) :
    ∀ t' x, t' ≠ t → ThrInv st t' x → ThrInv st' t' x := by
  intro t' x hne h
  have hd : decide (st'.owner = some t') = decide (st.owner = some t') := by
    simp only [decide_eq_decide]; exact h1 t' hne
  refine ⟨by rw [hd]; exact h.okp, h.nxt, ?_, ?_, ?_⟩
  · intro hr
    obtain ⟨r1, r2⟩ := h.rdI hr
    refine ⟨(h1 t' hne).mpr r1, ?_⟩
    rcases h2 with h2 | ⟨h2, _⟩
    · rw [h2]; exact r2
    · rw [r1] at h2; cases h2; exact absurd rfl hne
  · intro ha
    obtain ⟨a1, a2⟩ := h.arI ha
    refine ⟨a1, ?_⟩
    rcases h2 with h2 | ⟨h2, _⟩
    · rw [h2]; exact a2
    · rw [(h.rdI a1).1] at h2; cases h2; exact absurd rfl hne
  · intro hw
    rcases h2 with h2 | ⟨_, h2⟩
    · rw [h2]; exact h.wI hw
    · exact h2

theorem getElem?_set_self' {α : Type} (l : List α) (t : Nat) (x y : α) (h : l[t]? = some y) : (l.set t x)[t]? = some x := by
  have : t < l.length := by
    rcases Nat.lt_or_ge t l.length with h' | h'
    · exact h'
    · rw [List.getElem?_eq_none h'] at h; cases h
  simp [List.getElem?_set, this]

/-- assemble the invariant after a step of thread `t` -/
theorem mkInv (st st' : St) (t : Nat) (x x' : Thr) (hx : st.thr[t]? = some x) (hi : Inv st)
    (hthr : st'.thr = st.thr.set t x')
    (h1 : ∀ t', t' ≠ t → (st'.owner = some t' ↔ st.owner = some t'))
    (h2 : st'.flag = st.flag ∨ (st.owner = some t ∧ st'.flag = true))
    (hw : true ∈ st'.wire → st'.flag = true) (hn : NoDataAfterCloseW st'.wire)
    (ht : ThrInv st' t x') : Inv st' := by
  refine ⟨hw, hn, ?_⟩
  intro t' y hy
  rw [hthr] at hy
  by_cases he : t' = t
  · subst he
    rw [getElem?_set_self' st.thr t' x' x hx] at hy
    cases hy; exact ht
  · rw [List.getElem?_set_ne (fun h => he h.symm)] at hy
    exact others st st' t h1 h2 t' y he (hi.thr t' y hy)

theorem step_inv (st : St) (t : Nat) (c : Bool) (hi : Inv st) : Inv (step st t c) := by
  unfold step
  cases hx : st.thr[t]? with
  | none => exact hi
  | some x =>
    have hT := hi.thr t x hx
    simp only
    cases hp : x.prog with
    | nil =>
      simp only
      cases hq : x.next with
      | nil => exact hi
      | cons p ps =>
        simp only
        -- the thread starts its next call; the finished program ended with the mutex released
        have hok := hT.okp
        rw [hp] at hok
        simp only [okProg, Bool.not_eq_true', decide_eq_false_iff_not] at hok
        refine mkInv st _ t x { prog := p, next := ps } hx hi rfl (fun _ _ => Iff.rfl) (.inl rfl) hi.wireFlag hi.ndac ?_
        have hdec : decide ((setThr st t { prog := p, next := ps }).owner = some t) = false := by
          simp only [setThr]; exact decide_eq_false hok
        refine ⟨?_, ?_, (fun h => nomatch h), (fun h => nomatch h), (fun h => nomatch h)⟩
        · rw [hdec]; exact hT.nxt p (by rw [hq]; exact List.mem_cons_self ..)
        · intro q hqm; exact hT.nxt q (by rw [hq]; exact List.mem_cons_of_mem _ hqm)
    | cons a r =>
      have hok := hT.okp
      rw [hp] at hok
      -- finishing the program (a `return`): RAII releases the mutex
      have hfin : Inv (finish st t x) := by
        refine mkInv st _ t x { x with prog := [], rd := false, armed := false } hx hi rfl ?_ (.inl rfl) hi.wireFlag hi.ndac ?_
        · intro t' hne
          simp only [finish, setThr]
          by_cases ho : st.owner = some t
          · simp only [ho, ↓reduceIte]
            constructor
            · intro h; cases h
            · intro h; cases h; exact absurd rfl hne
          · simp only [ho, ↓reduceIte]
        · have hdec : decide ((finish st t x).owner = some t) = false := by
            simp only [finish, setThr, decide_eq_false_iff_not]
            by_cases ho : st.owner = some t
            · simp [ho]
            · simp [ho]
          refine ⟨by rw [hdec]; simp [okProg], hT.nxt, (fun h => nomatch h), (fun h => nomatch h), ?_⟩
          intro h; exact hT.wI h
      cases a with
      | lock =>
        simp only
        simp only [okProg, Bool.and_eq_true, Bool.not_eq_true', decide_eq_false_iff_not] at hok
        by_cases ho : st.owner = none
        · simp only [ho, ↓reduceIte]
          refine mkInv st _ t x { x with prog := r, rd := false, armed := false } hx hi rfl ?_ (.inl rfl) hi.wireFlag hi.ndac ?_
          · intro t' hne
            simp only [setThr, ho]
            constructor
            · intro h; cases h; exact absurd rfl hne
            · intro h; cases h
          · refine ⟨by simpa [setThr] using hok.2, hT.nxt, (fun h => nomatch h), (fun h => nomatch h), hT.wI⟩
        · simp only [ho, ↓reduceIte]; exact hi
      | unlock =>
        simp only
        simp only [okProg, Bool.and_eq_true, decide_eq_true_eq] at hok
        refine mkInv st _ t x { x with prog := r, rd := false, armed := false } hx hi rfl ?_ (.inl rfl) hi.wireFlag hi.ndac ?_
        · intro t' hne
          simp only [setThr, hok.1, ↓reduceIte]
          constructor
          · intro h; cases h
          · intro h; cases h; exact absurd rfl hne
        · refine ⟨by simpa [setThr, hok.1] using hok.2, hT.nxt, (fun h => nomatch h), (fun h => nomatch h), hT.wI⟩
      | read =>
        simp only
        simp only [okProg] at hok
        refine mkInv st _ t x { x with prog := r, rd := decide (st.owner = some t), seen := st.flag, armed := false } hx hi rfl
          (fun _ _ => Iff.rfl) (.inl rfl) hi.wireFlag hi.ndac ?_
        refine ⟨hok, hT.nxt, ?_, (fun h => nomatch h), hT.wI⟩
        intro h
        simp only [decide_eq_true_eq] at h
        exact ⟨h, rfl⟩
      | ret =>
        simp only
        simp only [okProg] at hok
        by_cases h1 : (x.rd && x.seen) = true
        · simp only [h1, ↓reduceIte]; exact hfin
        · simp only [h1, Bool.false_eq_true, ↓reduceIte]
          cases c with
          | true => simp only [↓reduceIte]; exact hfin
          | false =>
            simp only [Bool.false_eq_true, ↓reduceIte]
            refine mkInv st _ t x { x with prog := r, armed := x.rd } hx hi rfl (fun _ _ => Iff.rfl) (.inl rfl) hi.wireFlag hi.ndac ?_
            refine ⟨hok, hT.nxt, hT.rdI, ?_, hT.wI⟩
            intro ha
            simp only at ha
            refine ⟨ha, ?_⟩
            obtain ⟨_, hs⟩ := hT.rdI ha
            simp only [ha, Bool.true_and, Bool.not_eq_true] at h1
            simp only [setThr]
            rw [← hs]; exact h1
      | write =>
        simp only
        simp only [okProg, Bool.and_eq_true, decide_eq_true_eq] at hok
        refine mkInv st _ t x { x with prog := r, rd := false, armed := false, w := true } hx hi rfl (fun _ _ => Iff.rfl)
          (.inr ⟨hok.1, rfl⟩) (fun _ => rfl) hi.ndac ?_
        refine ⟨by simpa [setThr, hok.1] using hok.2, hT.nxt, (fun h => nomatch h), (fun h => nomatch h), fun _ => rfl⟩
      | sendData =>
        simp only
        simp only [okProg, Bool.and_eq_true, decide_eq_true_eq] at hok
        obtain ⟨⟨⟨hl, hrd⟩, hrt⟩, hrest⟩ := hok
        have hflag : st.flag = false := (hT.arI hrt).2
        have hno : true ∉ st.wire := fun h => by rw [hi.wireFlag h] at hflag; cases hflag
        refine mkInv st _ t x { x with prog := r } hx hi rfl (fun _ _ => Iff.rfl) (.inl rfl) ?_ (ndac_append_data _ hi.ndac hno) ?_
        · intro h
          simp only [setThr, List.mem_append, List.mem_singleton] at h
          rcases h with h | h
          · exact absurd h hno
          · cases h
        · exact ⟨by simpa [setThr, hl, hrd, hrt] using hrest, hT.nxt, hT.rdI, hT.arI, hT.wI⟩
      | sendClose =>
        simp only
        simp only [okProg, Bool.and_eq_true] at hok
        refine mkInv st _ t x { x with prog := r } hx hi rfl (fun _ _ => Iff.rfl) (.inl rfl) (fun _ => hT.wI hok.1)
          (ndac_append_close _ hi.ndac) ?_
        exact ⟨hok.2, hT.nxt, hT.rdI, hT.arI, hT.wI⟩
      | other =>
        simp only
        simp only [okProg] at hok
        refine mkInv st _ t x { x with prog := r } hx hi rfl (fun _ _ => Iff.rfl) (.inl rfl) hi.wireFlag hi.ndac ?_
        exact ⟨hok, hT.nxt, hT.rdI, hT.arI, hT.wI⟩

theorem run_inv : ∀ (sched : List (Nat × Bool)) (st : St), Inv st → Inv (run st sched) := by
  intro sched
  induction sched with
  | nil => intro st h; exact h
  | cons a rest ih => intro st h; obtain ⟨t, c⟩ := a; exact ih _ (step_inv st t c h)

theorem start_inv (flag : Bool) (calls : List (List (List Act))) (h : ∀ cs ∈ calls, ∀ p ∈ cs, ok p = true) :
    Inv (start flag calls) := by
  refine ⟨(fun h => nomatch h), trivial, ?_⟩
  intro t x hx
  simp only [start, List.getElem?_map, Option.map_eq_some_iff] at hx
  obtain ⟨cs, hcs, rfl⟩ := hx
  have hmem : cs ∈ calls := List.mem_of_getElem? hcs
  exact ⟨by simp [start, okProg], h cs hmem, (fun h => nomatch h), (fun h => nomatch h), (fun h => nomatch h)⟩

/-- **W5, concurrently.** Any number of threads, each making any sequence of calls whose programs are disciplined, under
ANY schedule (and any resolution of the early returns the skeleton leaves open): no data frame is handed to the transport
after a close frame. -/
theorem noDataAfterClose (flag : Bool) (calls : List (List (List Act))) (h : ∀ cs ∈ calls, ∀ p ∈ cs, ok p = true)
    (sched : List (Nat × Bool)) : NoDataAfterCloseW (run (start flag calls) sched).wire :=
  (run_inv sched _ (start_inv flag calls h)).ndac

end Iora.Ws.Conc
