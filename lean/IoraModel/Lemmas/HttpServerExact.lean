import IoraModel.Lemmas.HttpServer
import IoraModel.Lemmas.HttpExact
/-
Exactness of the server's request extraction (`extractOne`) on rendered requests of the reference syntax:
Content-Length, body-less and chunked (extensions, trailers) requests are cut exactly at their end and handed to the
request parser as header section + DECODED body (S1/S4/S5 at the framing level).
-/
namespace Iora.Http.Srv
open Iora Iora.Http Iora.Http.Spec

/-! ### the chunk scan on a rendered chunked body -/

theorem findAux_crlf_skip : ∀ (l r : Bytes) (i : Nat), (∀ c ∈ l, c ≠ 13) →
    findAux crlf (l ++ 13 :: 10 :: r) i = some (i + l.length) := by
  intro l
  induction l with
  | nil => intro r i _; simp [findAux, crlf]
  | cons c cs ih =>
    intro r i h
    have hc : c ≠ 13 := h c (by simp)
    have hne : ¬ (((13 : UInt8) == c) = true) := by simpa using fun h => hc h.symm
    simp only [List.cons_append, findAux, crlf, List.isPrefixOf_cons₂, hne, Bool.false_and, Bool.false_eq_true, ↓reduceIte]
    have := ih r (i + 1) (fun c hc => h c (by simp [hc]))
    simp only [crlf] at this
    rw [this]
    simp only [List.length_cons]
    congr 1; omega

theorem sizeDigits_exact (mb : Nat) : ∀ (tok ext : Bytes) (acc k n : Nat), tokFold 16 tok acc = some n → n ≤ mb →
    (∀ c, ext.head? = some c → isHexDigit c = false) →
    sizeDigits mb (tok ++ ext) acc k = some (n, k + tok.length, ext) := by
  intro tok
  induction tok with
  | nil =>
    intro ext acc k n h _ hext
    simp only [tokFold, Option.some.injEq] at h
    subst h
    cases ext with
    | nil => simp [sizeDigits]
    | cons c cs =>
      have hnh := hext c rfl
      have hdv : digitVal 16 c = none := by
        cases hd : digitVal 16 c with
        | none => rfl
        | some v => have := (digitVal16_hex c v hd).1; rw [hnh] at this; cases this
      simp [sizeDigits, hdv]
  | cons c cs ih =>
    intro ext acc k n h hn hext
    simp only [tokFold] at h
    cases hd : digitVal 16 c with
    | none => rw [hd] at h; cases h
    | some v =>
      rw [hd] at h
      have hge := tokFold_ge 16 (by omega) _ _ _ h
      have hle : ¬ (acc * 16 + v > mb) := by omega
      simp only [List.cons_append, sizeDigits, hd, hle, ↓reduceIte]
      rw [ih ext _ (k + 1) n h hn hext]
      have e : k + 1 + cs.length = k + (cs.length + 1) := by omega
      simp only [List.length_cons, e]

theorem sizeLine_exact (mb : Nat) (tok ext : Bytes) (n : Nat) (ht : tokValue 16 tok = some n) (hn : n ≤ mb)
    (he : ExtOK ext) : sizeLine mb (tok ++ ext) = some n := by
  obtain ⟨htne, _, _⟩ := tokValue16_facts tok n ht
  obtain ⟨_, hehead, hetail⟩ := ext_facts ext he
  have hf : tokFold 16 tok 0 = some n := by
    unfold tokValue at ht
    split at ht
    · cases ht
    · exact ht
  unfold sizeLine
  rw [sizeDigits_exact mb tok ext 0 0 n hf hn hehead]
  have : 0 + tok.length ≠ 0 := by
    have := List.length_pos_iff.mpr htne; omega
  simp only [this, ↓reduceIte, hetail]

/-- bytes of a chunk-size line: no CR -/
theorem sizeLine_noCR (tok ext : Bytes) (n : Nat) (ht : tokValue 16 tok = some n) (he : ExtOK ext) :
    ∀ c ∈ tok ++ ext, c ≠ 13 := by
  intro c hc
  rcases List.mem_append.mp hc with hc | hc
  · unfold tokValue at ht
    split at ht
    · cases ht
    · obtain ⟨v, hv⟩ := tokFold_digits 16 tok 0 n ht c hc
      exact (digitVal16_hex c v hv).2.2
  · rcases he with rfl | ⟨bws, rest, rfl, hb, hr⟩
    · cases hc
    · rcases List.mem_append.mp hc with hc | hc
      · rcases isOWS_cases c (hb c hc) with rfl | rfl <;> decide
      · rcases List.mem_cons.mp hc with rfl | hc
        · decide
        · exact (hr c hc).1

theorem trailerEnd_line (pre t rest : Bytes) (hne : t ≠ []) (ht : NoCRLF t) :
    trailerEnd (pre ++ (t ++ crlf ++ rest)) pre.length = trailerEnd (pre ++ (t ++ crlf ++ rest)) (pre.length + t.length + 2) := by
  have htl : 0 < t.length := List.length_pos_iff.mpr hne
  have hlt : pre.length < (pre ++ (t ++ crlf ++ rest)).length := by simp; omega
  have hdrop : (pre ++ (t ++ crlf ++ rest)).drop pre.length = t ++ 13 :: 10 :: rest := by
    rw [List.drop_left']; simp [crlf]; rfl
  have hfind := findAux_crlf_skip t rest 0 (fun c hc => (ht c hc).1)
  rw [trailerEnd]
  simp only [hlt, ↓reduceDIte, hdrop, hfind]
  have : ¬ (0 + t.length = 0) := by omega
  simp only [this, ↓reduceIte]
  congr 1; omega

theorem trailerEnd_end (pre rest : Bytes) : trailerEnd (pre ++ (crlf ++ rest)) pre.length = some (pre.length + 2) := by
  have hlt : pre.length < (pre ++ (crlf ++ rest)).length := by simp [crlf]
  have hdrop : (pre ++ (crlf ++ rest)).drop pre.length = [] ++ 13 :: 10 :: rest := by
    rw [List.drop_left']; simp [crlf]; rfl
  have hfind := findAux_crlf_skip [] rest 0 (by intro c hc; cases hc)
  rw [trailerEnd]
  simp only [hlt, ↓reduceDIte, hdrop, hfind]
  simp

theorem trailerEnd_exact : ∀ (ts : List Bytes) (pre rest : Bytes), (∀ t ∈ ts, t ≠ [] ∧ NoCRLF t) →
    trailerEnd (pre ++ ((ts.map (· ++ crlf)).flatten ++ crlf ++ rest)) pre.length =
      some (pre.length + ((ts.map (· ++ crlf)).flatten).length + 2) := by
  intro ts
  induction ts with
  | nil => intro pre rest _; simpa using trailerEnd_end pre rest
  | cons t ts ih =>
    intro pre rest h
    have ht := h t (by simp)
    have e : pre ++ (((t :: ts).map (· ++ crlf)).flatten ++ crlf ++ rest) =
        pre ++ (t ++ crlf ++ ((ts.map (· ++ crlf)).flatten ++ crlf ++ rest)) := by simp
    rw [e, trailerEnd_line pre t _ ht.1 ht.2]
    have e2 : pre ++ (t ++ crlf ++ ((ts.map (· ++ crlf)).flatten ++ crlf ++ rest)) =
        (pre ++ t ++ crlf) ++ ((ts.map (· ++ crlf)).flatten ++ crlf ++ rest) := by simp
    have l2 : pre.length + t.length + 2 = (pre ++ t ++ crlf).length := by simp [crlf]; omega
    rw [e2, l2, ih (pre ++ t ++ crlf) rest (fun t' ht' => h t' (by simp [ht']))]
    simp [crlf]; omega

theorem scanStep_data (mb : Nat) (pre rest : Bytes) (c : Chunk) (hc : c.WF mb) :
    scanStep mb (pre ++ (c.render ++ rest)) pre.length = .next (pre.length + c.render.length) c.data := by
  have hn0 : c.data.length ≠ 0 := by
    have := hc.nonempty
    cases hd : c.data with
    | nil => exact absurd hd this
    | cons a b => simp
  have hbuf : pre ++ (c.render ++ rest) = pre ++ ((c.tok ++ c.ext) ++ 13 :: 10 :: (c.data ++ crlf ++ rest)) := by
    simp [Chunk.render, crlf]
  have hdrop : (pre ++ ((c.tok ++ c.ext) ++ 13 :: 10 :: (c.data ++ crlf ++ rest))).drop pre.length =
      (c.tok ++ c.ext) ++ 13 :: 10 :: (c.data ++ crlf ++ rest) := by rw [List.drop_left']; rfl
  have hfind := findAux_crlf_skip (c.tok ++ c.ext) (c.data ++ crlf ++ rest) 0 (sizeLine_noCR c.tok c.ext _ hc.size hc.ext_ok)
  have htake : ((c.tok ++ c.ext) ++ 13 :: 10 :: (c.data ++ crlf ++ rest)).take (0 + (c.tok ++ c.ext).length) = c.tok ++ c.ext := by
    rw [Nat.zero_add, List.take_left']; rfl
  unfold scanStep
  rw [hbuf, hdrop, hfind]
  simp only [htake, sizeLine_exact mb c.tok c.ext _ hc.size hc.small hc.ext_ok, hn0, ↓reduceIte]
  -- the buffer as P ++ data ++ CR LF rest with |P| = pre.length + |tok++ext| + 2
  have hP : pre ++ ((c.tok ++ c.ext) ++ 13 :: 10 :: (c.data ++ crlf ++ rest)) =
      (pre ++ (c.tok ++ c.ext) ++ crlf) ++ (c.data ++ (13 :: 10 :: rest)) := by simp [crlf]
  have hPl : (pre ++ (c.tok ++ c.ext) ++ crlf).length = pre.length + (0 + (c.tok ++ c.ext).length) + 2 := by
    simp [crlf]; omega
  have hlen : ¬ ((pre ++ ((c.tok ++ c.ext) ++ 13 :: 10 :: (c.data ++ crlf ++ rest))).length -
      (pre.length + (0 + (c.tok ++ c.ext).length) + 2) < c.data.length + 2) := by
    simp [crlf]; omega
  simp only [hlen, ↓reduceIte]
  have hg1 : (pre ++ ((c.tok ++ c.ext) ++ 13 :: 10 :: (c.data ++ crlf ++ rest)))[pre.length + (0 + (c.tok ++ c.ext).length) + 2 + c.data.length]? = some 13 := by
    have e : pre ++ ((c.tok ++ c.ext) ++ 13 :: 10 :: (c.data ++ crlf ++ rest)) =
        ((pre ++ (c.tok ++ c.ext) ++ crlf) ++ c.data) ++ 13 :: (10 :: rest) := by simp [crlf]
    have l : pre.length + (0 + (c.tok ++ c.ext).length) + 2 + c.data.length = ((pre ++ (c.tok ++ c.ext) ++ crlf) ++ c.data).length := by
      simp [crlf]; omega
    rw [e, l]; exact getElem?_append_cons _ _ _
  have hg2 : (pre ++ ((c.tok ++ c.ext) ++ 13 :: 10 :: (c.data ++ crlf ++ rest)))[pre.length + (0 + (c.tok ++ c.ext).length) + 2 + c.data.length + 1]? = some 10 := by
    have e : pre ++ ((c.tok ++ c.ext) ++ 13 :: 10 :: (c.data ++ crlf ++ rest)) =
        (((pre ++ (c.tok ++ c.ext) ++ crlf) ++ c.data) ++ [13]) ++ 10 :: rest := by simp [crlf]
    have l : pre.length + (0 + (c.tok ++ c.ext).length) + 2 + c.data.length + 1 = (((pre ++ (c.tok ++ c.ext) ++ crlf) ++ c.data) ++ [13]).length := by
      simp [crlf]; omega
    rw [e, l]; exact getElem?_append_cons _ _ _
  have hd : ((pre ++ ((c.tok ++ c.ext) ++ 13 :: 10 :: (c.data ++ crlf ++ rest))).drop (pre.length + (0 + (c.tok ++ c.ext).length) + 2)).take c.data.length = c.data := by
    rw [hP, ← hPl, List.drop_left', List.take_left']
    · rfl
    · rfl
  simp only [hg1, hg2, hd, ne_eq, not_true_eq_false, or_self, ↓reduceIte]
  congr 1
  simp [Chunk.render, crlf]; omega

theorem scanStep_last (mb : Nat) (pre rest : Bytes) (l : LastChunk) (hl : l.WF) :
    scanStep mb (pre ++ (l.render ++ rest)) pre.length = .last (pre.length + l.render.length) := by
  have hbuf : pre ++ (l.render ++ rest) =
      pre ++ ((l.tok ++ l.ext) ++ 13 :: 10 :: ((l.trailers.map (· ++ crlf)).flatten ++ crlf ++ rest)) := by
    simp [LastChunk.render, crlf]
  have hdrop : (pre ++ ((l.tok ++ l.ext) ++ 13 :: 10 :: ((l.trailers.map (· ++ crlf)).flatten ++ crlf ++ rest))).drop pre.length =
      (l.tok ++ l.ext) ++ 13 :: 10 :: ((l.trailers.map (· ++ crlf)).flatten ++ crlf ++ rest) := by rw [List.drop_left']; rfl
  have hfind := findAux_crlf_skip (l.tok ++ l.ext) ((l.trailers.map (· ++ crlf)).flatten ++ crlf ++ rest) 0
    (sizeLine_noCR l.tok l.ext _ hl.size hl.ext_ok)
  have htake : ((l.tok ++ l.ext) ++ 13 :: 10 :: ((l.trailers.map (· ++ crlf)).flatten ++ crlf ++ rest)).take (0 + (l.tok ++ l.ext).length) = l.tok ++ l.ext := by
    rw [Nat.zero_add, List.take_left']; rfl
  unfold scanStep
  rw [hbuf, hdrop, hfind]
  simp only [htake, sizeLine_exact mb l.tok l.ext 0 hl.size (Nat.zero_le _) hl.ext_ok, ↓reduceIte]
  have e : pre ++ ((l.tok ++ l.ext) ++ 13 :: 10 :: ((l.trailers.map (· ++ crlf)).flatten ++ crlf ++ rest)) =
      (pre ++ (l.tok ++ l.ext) ++ crlf) ++ ((l.trailers.map (· ++ crlf)).flatten ++ crlf ++ rest) := by simp [crlf]
  have ln : pre.length + (0 + (l.tok ++ l.ext).length) + 2 = (pre ++ (l.tok ++ l.ext) ++ crlf).length := by simp [crlf]; omega
  rw [e, ln, trailerEnd_exact l.trailers _ rest hl.trailers_ok]
  simp only
  congr 1
  simp [LastChunk.render, crlf]; omega

theorem chunkScan_exact (mb : Nat) (l : LastChunk) (hl : l.WF) (rest : Bytes) :
    ∀ (cs : List Chunk) (pre dec : Bytes), (∀ c ∈ cs, c.WF mb) →
    chunkScan mb (pre ++ (renderChunks cs ++ l.render ++ rest)) pre.length dec =
      .done (pre.length + (renderChunks cs).length + l.render.length) (dec ++ chunksData cs) := by
  have hlne : 0 < l.render.length := by simp [LastChunk.render, crlf]; omega
  intro cs
  induction cs with
  | nil =>
    intro pre dec _
    have e : pre ++ (renderChunks [] ++ l.render ++ rest) = pre ++ (l.render ++ rest) := by simp [renderChunks]
    have hlt : pre.length < (pre ++ (l.render ++ rest)).length := by simp; omega
    rw [e, chunkScan_last mb _ pre.length _ dec hlt (scanStep_last mb pre rest l hl)]
    simp [renderChunks, chunksData]
  | cons c cs ih =>
    intro pre dec hcs
    have hc := hcs c (by simp)
    have e : pre ++ (renderChunks (c :: cs) ++ l.render ++ rest) =
        pre ++ (c.render ++ (renderChunks cs ++ l.render ++ rest)) := by simp [renderChunks]
    have hlt : pre.length < (pre ++ (c.render ++ (renderChunks cs ++ l.render ++ rest))).length := by simp; omega
    rw [e, chunkScan_next mb _ pre.length _ c.data dec hlt (scanStep_data mb pre _ c hc)]
    have e2 : pre ++ (c.render ++ (renderChunks cs ++ l.render ++ rest)) =
        (pre ++ c.render) ++ (renderChunks cs ++ l.render ++ rest) := by simp
    have l2 : pre.length + c.render.length = (pre ++ c.render).length := by simp
    rw [e2, l2, ih (pre ++ c.render) _ (fun c' hc' => hcs c' (by simp [hc']))]
    simp [renderChunks, chunksData]
    omega

/-! ### the header scan of handleIncomingData on a rendered header section -/

theorem splitOn_line (sep : UInt8) : ∀ (l r : Bytes), (∀ c ∈ l, c ≠ sep) → splitOn sep (l ++ sep :: r) = l :: splitOn sep r := by
  intro l
  induction l with
  | nil => intro r _; simp [splitOn]
  | cons c cs ih =>
    intro r h
    simp only [List.cons_append, splitOn, h c (by simp), ↓reduceIte, ih r (fun c hc => h c (by simp [hc]))]

theorem stripCR_cr (l : Bytes) : stripCR (l ++ [13]) = l := by
  unfold stripCR
  simp

theorem stripCR_none (l : Bytes) (h : ∀ c ∈ l, c ≠ 13) : stripCR l = l := by
  unfold stripCR
  cases hg : l.getLast? with
  | none => rfl
  | some c =>
    have hc : c ≠ 13 := h c (List.mem_of_getLast? hg)
    split
    · rename_i heq; cases heq; exact absurd rfl hc
    · rfl

/-- a line of a header section: no CR, no LF -/
def PlainLine (l : Bytes) : Prop := ∀ c ∈ l, c ≠ 13 ∧ c ≠ 10

theorem getLines_join : ∀ (ls : List Bytes), ls ≠ [] → (∀ l ∈ ls, PlainLine l) → getLines (joinCRLF ls) = ls := by
  intro ls
  induction ls with
  | nil => intro h; exact absurd rfl h
  | cons l ls ih =>
    intro _ hall
    have hl := hall l (by simp)
    cases ls with
    | nil =>
      simp only [joinCRLF, getLines]
      rw [splitOn_none 10 l (fun c hc => (hl c hc).2)]
      simp [stripCR_none l (fun c hc => (hl c hc).1)]
    | cons l2 ls2 =>
      have e : joinCRLF (l :: l2 :: ls2) = (l ++ [13]) ++ 10 :: joinCRLF (l2 :: ls2) := by simp [joinCRLF, crlf]
      have := ih (by simp) (fun l' hl' => hall l' (by simp [hl']))
      unfold getLines at this ⊢
      rw [e, splitOn_line 10 (l ++ [13]) _ (by
        intro c hc
        rcases List.mem_append.mp hc with hc | hc
        · exact (hl c hc).2
        · simp at hc; subst hc; decide)]
      simp only [List.map_cons, stripCR_cr, this]

theorem lower_clName : lower clName = ascii "content-length" := by decide
theorem lower_teName : lower teName = ascii "transfer-encoding" := by decide
theorem cl_ne_te : ascii "content-length" ≠ ascii "transfer-encoding" := by decide

theorem plain_key (f : Field) (hf : PlainField f) :
    lower f.name ≠ ascii "content-length" ∧ lower f.name ≠ ascii "transfer-encoding" := by
  constructor
  · intro h
    have := hf.2.1
    unfold ciEq at this
    rw [h, lower_clName] at this
    simp at this
  · intro h
    have := hf.2.2
    unfold ciEq at this
    rw [h, lower_teName] at this
    simp at this

theorem scan_plain : ∀ (fs : List Field) (rest : List Bytes) (hs : HdrScan), (∀ f ∈ fs, PlainField f) →
    scanHeaderLines (fs.map Field.line ++ rest) hs = scanHeaderLines rest hs := by
  intro fs
  induction fs with
  | nil => intro rest hs _; rfl
  | cons f fs ih =>
    intro rest hs h
    have hf := h f (by simp)
    obtain ⟨_, _, hidx, hname, hval⟩ := fieldLine_parse f hf.1
    obtain ⟨k1, k2⟩ := plain_key f hf
    simp only [List.map_cons, List.cons_append, scanHeaderLines, hidx, hname, k1, k2, ↓reduceIte]
    exact ih rest hs (fun g hg => h g (by simp [hg]))

/-- what the header scan must compute for a body -/
def scanOf : Body → HdrScan
  | .sized _ b => { contentLength := b.length, haveCL := true, isChunked := false }
  | .chunked _ _ _ => { contentLength := 0, haveCL := false, isChunked := true, haveTE := true }
  | _ => {}

structure ReqWF (line : Bytes) (before after : List Field) (body : Body) : Prop where
  line_ne : line ≠ []
  line_ok : ∀ c ∈ line, c ≠ 13 ∧ c ≠ 10
  /-- the request line may contain `:` (absolute-form / authority-form targets); what precedes its first `:` is not read
  as a framing field name by the header scan -/
  line_key : ∀ colon, indexOf? (· == 58) line = some colon →
    lower (trim (line.take colon)) ≠ ascii "content-length" ∧ lower (trim (line.take colon)) ≠ ascii "transfer-encoding"
  before_ok : ∀ f ∈ before, PlainField f
  after_ok : ∀ f ∈ after, PlainField f
  body_ok :
    match body with
    | .empty => True
    | .sized tok b => tokValue 10 tok = some b.length ∧ b.length ≤ Gen.Http.serverMaxBodySize
    | .chunked te cs l =>
      lastToken (splitOn 44 (lower te)) [] = ascii "chunked" ∧ NoCRLF te ∧ Trimmed te ∧
        (∀ c ∈ cs, c.WF Gen.Http.serverMaxBodySize) ∧ l.WF
    | .untilClose _ => False

def reqFields (before after : List Field) (body : Body) : List Field :=
  before ++ (match body.field with | none => [] | some f => [f]) ++ after

theorem scan_request (line : Bytes) (before after : List Field) (body : Body) (h : ReqWF line before after body) :
    scanHeaderLines (line :: (reqFields before after body).map Field.line) {} = some (scanOf body) := by
  have hskip : ∀ (rest : List Bytes) (hs : HdrScan), scanHeaderLines (line :: rest) hs = scanHeaderLines rest hs := by
    intro rest hs
    cases hc : indexOf? (· == 58) line with
    | none => simp only [scanHeaderLines, hc]
    | some colon =>
      obtain ⟨k1, k2⟩ := h.line_key colon hc
      simp only [scanHeaderLines, hc, k1, k2, ↓reduceIte]
  have hbody := h.body_ok
  rw [hskip]
  simp only [reqFields, List.map_append]
  rw [List.append_assoc, scan_plain before _ _ h.before_ok]
  cases hbd : body with
  | empty =>
    simp only [Body.field, List.map_nil, List.nil_append]
    have := scan_plain after [] {} h.after_ok
    simp only [List.append_nil] at this
    rw [this]; rfl
  | untilClose b => rw [hbd] at hbody; exact absurd hbody (by simp)
  | sized tok b =>
    rw [hbd] at hbody; simp only at hbody
    have hfw := clName_wf tok _ hbody.1
    obtain ⟨_, _, hidx, hname, hval⟩ := fieldLine_parse _ hfw
    simp only at hidx hname hval
    simp only [Body.field, List.map_cons, List.map_nil, List.cons_append, List.nil_append, scanHeaderLines, hidx,
      hname, hval, lower_clName, ↓reduceIte]
    have hp : parseFullUInt 10 tok = some b.length :=
      parseFullUInt_of_tokValue 10 (by omega) tok _ hbody.1 (by
        have := hbody.2; simp only [Gen.Http.serverMaxBodySize] at this; omega)
    have hnb : ¬ (b.length > Gen.Http.serverMaxBodySize) := by omega
    simp only [hp, Bool.false_eq_true, false_and, ↓reduceIte, hnb]
    have := scan_plain after [] { contentLength := b.length, haveCL := true, isChunked := false } h.after_ok
    simp only [List.append_nil] at this
    rw [this]; rfl
  | chunked te cs l =>
    rw [hbd] at hbody; simp only at hbody
    have hfw := teName_wf te hbody.2.1 hbody.2.2.1
    obtain ⟨_, _, hidx, hname, hval⟩ := fieldLine_parse _ hfw
    simp only at hidx hname hval
    simp only [Body.field, List.map_cons, List.map_nil, List.cons_append, List.nil_append, scanHeaderLines, hidx,
      hname, hval, lower_teName, ↓reduceIte, cl_ne_te.symm, hbody.1, beq_self_eq_true]
    have := scan_plain after [] { contentLength := 0, haveCL := false, isChunked := true, haveTE := true } h.after_ok
    simp only [List.append_nil] at this
    rw [this]; rfl

/-! ### extractOne on a rendered request -/

theorem fieldLine_plain (f : Field) (hf : f.WF) : PlainLine f.line := by
  intro c hc
  refine ⟨(fieldLine_lineOK f hf).2 c hc, ?_⟩
  simp only [Field.line, List.mem_append, List.mem_cons] at hc
  rcases hc with hc | rfl | (hc | hc) | hc
  · exact (hf.name_tok c hc).2.2.1
  · decide
  · rcases isOWS_cases c (hf.ows1_ok c hc) with rfl | rfl <;> decide
  · exact (hf.value_ok c hc).2
  · rcases isOWS_cases c (hf.ows2_ok c hc) with rfl | rfl <;> decide

theorem reqFields_wf (line : Bytes) (before after : List Field) (body : Body) (h : ReqWF line before after body) :
    ∀ f ∈ reqFields before after body, f.WF := by
  intro f hf
  have hbody := h.body_ok
  unfold reqFields at hf
  rcases List.mem_append.mp hf with hf | hf
  · rcases List.mem_append.mp hf with hf | hf
    · exact (h.before_ok f hf).1
    · cases hbd : body with
      | empty => rw [hbd] at hf; cases hf
      | untilClose b => rw [hbd] at hf; cases hf
      | sized tok b =>
        rw [hbd] at hf hbody; simp only [Body.field, List.mem_singleton] at hf; subst hf
        exact clName_wf tok _ hbody.1
      | chunked te cs l =>
        rw [hbd] at hf hbody; simp only [Body.field, List.mem_singleton] at hf; subst hf
        exact teName_wf te hbody.2.1 hbody.2.2.1
  · exact (h.after_ok f hf).1

/-- header section / wire form / what the request parser is handed -/
def reqHead (line : Bytes) (before after : List Field) (body : Body) : Bytes :=
  joinCRLF (line :: (reqFields before after body).map Field.line)
def reqRender (line : Bytes) (before after : List Field) (body : Body) : Bytes :=
  reqHead line before after body ++ crlf2 ++ body.wire
def reqRaw (line : Bytes) (before after : List Field) (body : Body) : Bytes :=
  reqHead line before after body ++ crlf2 ++ body.content

theorem extract_exact (line : Bytes) (before after : List Field) (body : Body) (h : ReqWF line before after body)
    (hhead : (reqHead line before after body).length ≤ Gen.Http.serverMaxHeaderSize) (rest : Bytes) :
    extractOne (reqRender line before after body ++ rest) =
      .request (reqRaw line before after body) (reqRender line before after body).length := by
  have hwf := reqFields_wf line before after body h
  have hlines1 : ∀ l ∈ line :: (reqFields before after body).map Field.line, LineOK l := by
    intro l hl
    rcases List.mem_cons.mp hl with rfl | hl
    · exact ⟨h.line_ne, fun c hc => (h.line_ok c hc).1⟩
    · obtain ⟨f, hf, rfl⟩ := List.mem_map.mp hl
      exact fieldLine_lineOK f (hwf f hf)
  have hlines2 : ∀ l ∈ line :: (reqFields before after body).map Field.line, PlainLine l := by
    intro l hl
    rcases List.mem_cons.mp hl with rfl | hl
    · exact fun c hc => ⟨(h.line_ok c hc).1, (h.line_ok c hc).2⟩
    · obtain ⟨f, hf, rfl⟩ := List.mem_map.mp hl
      exact fieldLine_plain f (hwf f hf)
  have hbuf : reqRender line before after body ++ rest =
      reqHead line before after body ++ crlf2 ++ (body.wire ++ rest) := by simp [reqRender]
  have hfind : find crlf2 (reqHead line before after body ++ crlf2 ++ (body.wire ++ rest)) 0 =
      some (reqHead line before after body).length := by
    have := find_header_end _ (body.wire ++ rest) 0 (by simp) hlines1
    simpa [find, reqHead] using this
  have htake : (reqHead line before after body ++ crlf2 ++ (body.wire ++ rest)).take (reqHead line before after body).length =
      reqHead line before after body := by rw [List.append_assoc, List.take_left']; rfl
  have hgl : getLines (reqHead line before after body) = line :: (reqFields before after body).map Field.line :=
    getLines_join _ (by simp) hlines2
  have hscan := scan_request line before after body h
  have hbody := h.body_ok
  have hnh : ¬ ((reqHead line before after body).length > Gen.Http.serverMaxHeaderSize) := by omega
  unfold extractOne
  rw [hbuf, hfind]
  simp only [hnh, ↓reduceIte, htake, hgl, hscan]
  have h4 : (reqHead line before after body ++ crlf2 ++ (body.wire ++ rest)).take ((reqHead line before after body).length + 4) =
      reqHead line before after body ++ crlf2 := by
    have l : (reqHead line before after body).length + 4 = (reqHead line before after body ++ crlf2).length := by simp [crlf2]
    rw [l, List.take_left']; rfl
  cases hbd : body with
  | untilClose b => rw [hbd] at hbody; exact absurd hbody (by simp)
  | empty =>
    simp only [scanOf, Bool.false_eq_true, false_and, ↓reduceIte, Nat.add_zero, Body.wire, List.nil_append]
    have hl : ¬ ((reqHead line before after Body.empty ++ crlf2 ++ rest).length < (reqHead line before after Body.empty).length + 4) := by
      simp [crlf2]
    rw [hbd] at h4
    simp only [Body.wire, List.nil_append] at h4
    simp only [hl, ↓reduceIte, h4]
    simp [reqRaw, reqRender, Body.content, Body.wire, crlf2]
  | sized tok b =>
    simp only [scanOf, Bool.false_eq_true, false_and, and_false, ↓reduceIte, Body.wire]
    have hl : ¬ ((reqHead line before after (Body.sized tok b) ++ crlf2 ++ (b ++ rest)).length <
        (reqHead line before after (Body.sized tok b)).length + 4 + b.length) := by
      simp [crlf2]; omega
    have ht : (reqHead line before after (Body.sized tok b) ++ crlf2 ++ (b ++ rest)).take
        ((reqHead line before after (Body.sized tok b)).length + 4 + b.length) =
        reqHead line before after (Body.sized tok b) ++ crlf2 ++ b := by
      have e : reqHead line before after (Body.sized tok b) ++ crlf2 ++ (b ++ rest) =
          (reqHead line before after (Body.sized tok b) ++ crlf2 ++ b) ++ rest := by simp
      have l : (reqHead line before after (Body.sized tok b)).length + 4 + b.length =
          (reqHead line before after (Body.sized tok b) ++ crlf2 ++ b).length := by simp [crlf2]; omega
      rw [e, l, List.take_left']; rfl
    simp only [hl, ↓reduceIte, ht]
    simp [reqRaw, reqRender, Body.content, Body.wire, crlf2]
    omega
  | chunked te cs l =>
    rw [hbd] at hbody; simp only at hbody
    simp only [scanOf, Bool.false_eq_true, and_false, not_true_eq_false, and_self, ↓reduceIte, Body.wire]
    have e : reqHead line before after (Body.chunked te cs l) ++ crlf2 ++ (renderChunks cs ++ l.render ++ rest) =
        (reqHead line before after (Body.chunked te cs l) ++ crlf2) ++ (renderChunks cs ++ l.render ++ rest) := rfl
    have l4 : (reqHead line before after (Body.chunked te cs l)).length + 4 =
        (reqHead line before after (Body.chunked te cs l) ++ crlf2).length := by simp [crlf2]
    have hcs := chunkScan_exact Gen.Http.serverMaxBodySize l hbody.2.2.2.2 rest cs
      (reqHead line before after (Body.chunked te cs l) ++ crlf2) [] hbody.2.2.2.1
    unfold findChunkedRequestEnd
    rw [l4, hcs]
    simp only [List.nil_append]
    have ht : ((reqHead line before after (Body.chunked te cs l) ++ crlf2) ++ (renderChunks cs ++ l.render ++ rest)).take
        (reqHead line before after (Body.chunked te cs l) ++ crlf2).length =
        reqHead line before after (Body.chunked te cs l) ++ crlf2 := by rw [List.take_left']; rfl
    rw [e, ht]
    congr 1
    simp [reqRender, Body.wire, crlf2]
    omega

/-! ### pipelines -/

/-- a request of the reference syntax (framing level: the request line is any colon-free line) -/
structure ReqSpec where
  line : Bytes
  before : List Field := []
  after : List Field := []
  body : Body

def ReqSpec.render (r : ReqSpec) : Bytes := reqRender r.line r.before r.after r.body
/-- header section + decoded body: what `HttpRequest::fromWireFormat` is handed -/
def ReqSpec.raw (r : ReqSpec) : Bytes := reqRaw r.line r.before r.after r.body
def ReqSpec.OK (r : ReqSpec) : Prop :=
  ReqWF r.line r.before r.after r.body ∧ (reqHead r.line r.before r.after r.body).length ≤ Gen.Http.serverMaxHeaderSize

def renderAll (rs : List ReqSpec) : Bytes := (rs.map ReqSpec.render).flatten

theorem pipeline_exact : ∀ (rs : List ReqSpec) (f : Nat), (∀ r ∈ rs, r.OK) → rs.length ≤ f →
    drainLoop f (renderAll rs) = (rs.map (fun r => dispatch r.raw), false, []) := by
  intro rs
  induction rs with
  | nil =>
    intro f _ _
    cases f with
    | zero => rfl
    | succ f => simp [renderAll, drainLoop, extractOne, find, findAux]
  | cons r rs ih =>
    intro f hall hf
    cases f with
    | zero => simp at hf
    | succ f =>
      have hr := hall r (by simp)
      have e : renderAll (r :: rs) = r.render ++ renderAll rs := by simp [renderAll]
      have hx := extract_exact r.line r.before r.after r.body hr.1 hr.2 (renderAll rs)
      have hpos : (reqRender r.line r.before r.after r.body).length ≠ 0 := by simp [reqRender, crlf2]
      simp only [drainLoop, e, ReqSpec.render, hx, hpos, ↓reduceIte]
      rw [List.drop_left' rfl, ih f (fun r' hr' => hall r' (by simp [hr'])) (by simpa using hf)]
      simp [ReqSpec.raw]

theorem renderAll_length : ∀ (rs : List ReqSpec), rs.length ≤ (renderAll rs).length := by
  intro rs
  induction rs with
  | nil => simp
  | cons r rs ih =>
    have : 0 < r.render.length := by simp [ReqSpec.render, reqRender, crlf2]; omega
    simp only [renderAll, List.map_cons, List.flatten_cons, List.length_append, List.length_cons] at ih ⊢
    omega

/-- any segmentation of a rendered pipeline dispatches exactly its requests, in order -/
theorem pipeline_any_segmentation (rs : List ReqSpec) (hall : ∀ r ∈ rs, r.OK) (ss : List Bytes)
    (hss : ss.flatten = renderAll rs) (hb : (renderAll rs).length ≤ Gen.Http.serverMaxBufferSize) :
    (srvFeed {} ss).1 = rs.map (fun r => dispatch r.raw) ∧ (srvFeed {} ss).2 = { buffer := [], alive := true } := by
  have a := srvFeed_eq_feed ss {} (.alive []) rfl (by rw [hss]; simpa [carryLen] using hb)
  have hw := Framing.feed_eq_whole stableParser rfl ss trivial
  rw [hw, hss] at a
  obtain ⟨h1, h2, h3⟩ := drainLoop_eq ((renderAll rs).length + 1) (renderAll rs)
  have hp := pipeline_exact rs ((renderAll rs).length + 1) hall (by have := renderAll_length rs; omega)
  have hd : Framing.drain stableParser (renderAll rs) =
      Framing.drainF stableParser ((renderAll rs).length + 1) (renderAll rs) := rfl
  rw [hd] at a
  constructor
  · rw [a.1, ← h1, hp]
  · cases hc : (Framing.drainF stableParser ((renderAll rs).length + 1) (renderAll rs)).2 with
    | dead =>
      have := h2.mpr hc
      rw [hp] at this; cases this
    | alive r =>
      have hr := (h3 r hc).1
      rw [hp] at hr
      simp only at hr
      have := a.2
      rw [hc] at this
      simp only [Corr] at this
      rw [this, ← hr]

/-! ### the request parser on the extracted bytes -/

structure ReqLine where
  method : Nat          -- index into the method table = `enum class HttpMethod`
  target : Bytes
  minor : Nat

def methodName (i : Nat) : Bytes := ((Gen.Http.methods.map ascii)[i]?).getD []
def versionBytes (minor : Nat) : Bytes := [72, 84, 84, 80, 47, 49, 46, b8 (48 + minor)]
def ReqLine.render (l : ReqLine) : Bytes := methodName l.method ++ 32 :: (l.target ++ 32 :: versionBytes l.minor)

structure ReqLine.WF (l : ReqLine) : Prop where
  method_ok : l.method < 9
  target_ne : l.target ≠ []
  target_ok : ∀ c ∈ l.target, 0x21 ≤ c.toNat ∧ c.toNat ≠ 0x7F
  target_len : l.target.length ≤ Gen.Http.maxRequestTargetSize
  minor_ok : l.minor ≤ 9

theorem method_table0 : ∀ i, i < 9 →
    methodName i ≠ [] ∧ (∀ c ∈ methodName i, (c == 32) = false ∧ ¬ (c.toNat < 0x21)) ∧
      (parseMethod (methodName i)).toOption = some i := by
  decide

theorem method_table (i : Nat) (hi : i < 9) :
    methodName i ≠ [] ∧ (∀ c ∈ methodName i, (c == 32) = false ∧ ¬ (c.toNat < 0x21)) ∧ parseMethod (methodName i) = .ok i := by
  obtain ⟨a, b, c⟩ := method_table0 i hi
  refine ⟨a, b, ?_⟩
  cases hp : parseMethod (methodName i) with
  | error e => rw [hp] at c; cases c
  | ok j => rw [hp] at c; simp [Except.toOption] at c; rw [c]

theorem version_facts (minor : Nat) (h : minor ≤ 9) :
    (versionBytes minor).any (fun c => decide (c.toNat < 0x21)) = false ∧ parseVersion (versionBytes minor) = some (1, minor) := by
  have ht : (b8 (48 + minor)).toNat = 48 + minor := by simp [b8_toNat]; omega
  constructor
  · simp only [versionBytes, List.any_cons, List.any_nil, ht]
    simp (config := { decide := true })
    omega
  · simp only [versionBytes, parseVersion, isDigit, ht]
    have h1 : 48 ≤ 48 + minor ∧ 48 + minor ≤ 57 := by omega
    simp (config := { decide := true }) [h1]

theorem parseRequestLine_exact (l : ReqLine) (h : l.WF) :
    parseRequestLine l.render = .ok (l.method, l.target, l.minor) := by
  obtain ⟨hmne, hmch, hpm⟩ := method_table l.method h.method_ok
  obtain ⟨hv1, hv2⟩ := version_facts l.minor h.minor_ok
  have htsp : ∀ c ∈ l.target, (c == 32) = false := by
    intro c hc
    have := (h.target_ok c hc).1
    simp only [beq_eq_false_iff_ne, ne_eq]
    intro h32; subst h32; simp at this
  have hp1 : indexOf? (· == 32) l.render = some (methodName l.method).length :=
    indexOf_skip _ _ 32 _ (fun c hc => (hmch c hc).1) (by decide)
  have hd1 : l.render.drop ((methodName l.method).length + 1) = l.target ++ 32 :: versionBytes l.minor := by
    have e : l.render = (methodName l.method ++ [32]) ++ (l.target ++ 32 :: versionBytes l.minor) := by simp [ReqLine.render]
    rw [e, List.drop_left']; simp
  have hp2 : indexOf? (· == 32) (l.target ++ 32 :: versionBytes l.minor) = some l.target.length :=
    indexOf_skip _ _ 32 _ htsp (by decide)
  have hml : 0 < (methodName l.method).length := List.length_pos_iff.mpr hmne
  have htl : 0 < l.target.length := List.length_pos_iff.mpr h.target_ne
  have hlen : l.render.length = (methodName l.method).length + 1 + l.target.length + 1 + 8 := by
    simp [ReqLine.render, versionBytes]; omega
  have htake1 : l.render.take (methodName l.method).length = methodName l.method := by
    unfold ReqLine.render; rw [List.take_left']; rfl
  have htake2 : (l.target ++ 32 :: versionBytes l.minor).take l.target.length = l.target := by
    rw [List.take_left']; rfl
  have hd2 : l.render.drop ((methodName l.method).length + 1 + l.target.length + 1) = versionBytes l.minor := by
    have e : l.render = (methodName l.method ++ [32] ++ l.target ++ [32]) ++ versionBytes l.minor := by simp [ReqLine.render]
    rw [e, List.drop_left']; simp; omega
  have hmany : (methodName l.method).any (fun c => decide (c.toNat < 0x21)) = false := by
    rw [List.any_eq_false]; intro c hc; simpa using (hmch c hc).2
  have htany : l.target.any (fun c => decide (c.toNat < 0x20 ∨ c.toNat = 0x7F)) = false := by
    rw [List.any_eq_false]; intro c hc
    have := h.target_ok c hc
    simp only [decide_eq_true_eq]; omega
  unfold parseRequestLine
  simp only [hp1, hd1, hp2]
  have hc : ¬ ((methodName l.method).length = 0 ∨
      (methodName l.method).length + 1 + l.target.length = (methodName l.method).length + 1 ∨
      (methodName l.method).length + 1 + l.target.length + 1 ≥ l.render.length) := by omega
  have htl' : ¬ (l.target.length > Gen.Http.maxRequestTargetSize) := by have := h.target_len; omega
  simp only [hc, ↓reduceIte, htake1, htake2, hd2, hmany, hv1, Bool.false_eq_true, htl', htany, hpm, hv2]
  simp

/-- the header map and Host count `fromWireFormat` builds from field lines -/
def reqHeaders (fs : List Field) (h : Headers) : Headers := fs.foldl (fun h f => addOrCombine h f.name f.value) h
def hostCount (fs : List Field) : Nat := (fs.filter (fun f => ciEq f.name (ascii "Host"))).length

/-- a field line of the reference syntax has no whitespace between its name and the colon -/
theorem fieldLine_name_noOWS (f : Field) (hf : f.WF) : nameEndsWithOWS (f.line.take f.name.length) = false := by
  unfold Field.line
  rw [List.take_left' rfl]
  unfold nameEndsWithOWS
  cases h : f.name.getLast? with
  | none => rfl
  | some c => exact (hf.name_tok c (List.mem_of_getLast? h)).2.2.2

theorem parseReqLines_exact : ∀ (fs : List Field) (h : Headers) (n : Nat), (∀ f ∈ fs, f.WF) →
    parseReqLines (fs.map Field.line) h n = .ok (reqHeaders fs h, n + hostCount fs) := by
  intro fs
  induction fs with
  | nil => intro h n _; simp [parseReqLines, reqHeaders, hostCount]
  | cons f fs ih =>
    intro h n hwf
    obtain ⟨hne, hhead, hidx, hname, hval⟩ := fieldLine_parse f (hwf f (by simp))
    simp only [List.map_cons]
    cases hl : f.line with
    | nil => exact absurd hl hne
    | cons c0 tl =>
      have hows := fieldLine_name_noOWS f (hwf f (by simp))
      rw [hl] at hidx hname hval hows
      have h0 : ¬ (c0 = 32 ∨ c0 = 9) := hhead c0 (by rw [hl]; rfl)
      unfold parseReqLines
      simp only [h0, ↓reduceIte, hidx, hname, hval, hows, Bool.false_eq_true]
      rw [ih _ _ (fun g hg => hwf g (by simp [hg]))]
      simp only [reqHeaders, List.foldl_cons, hostCount, List.filter_cons]
      by_cases hh : ciEq f.name (ascii "Host") = true
      · simp [hh]; omega
      · simp [hh]

/-- a complete request of the reference syntax -/
structure FullReq where
  rl : ReqLine
  before : List Field := []
  after : List Field := []
  body : Body

def FullReq.spec (r : FullReq) : ReqSpec := { line := r.rl.render, before := r.before, after := r.after, body := r.body }
def FullReq.fields (r : FullReq) : List Field := reqFields r.before r.after r.body

theorem fromWireFormat_exact (r : FullReq) (hrl : r.rl.WF) (hok : r.spec.OK)
    (hhost : hostCount r.fields = 1) (hhv : hdrFind (reqHeaders r.fields []) (ascii "Host") ≠ some []) :
    fromWireFormat r.spec.raw =
      .ok { method := r.rl.method, uri := r.rl.target, minor := r.rl.minor, headers := reqHeaders r.fields [],
            body := r.body.content } := by
  have h := hok.1
  have hwf := reqFields_wf r.rl.render r.before r.after r.body h
  have hlines1 : ∀ l ∈ r.rl.render :: (reqFields r.before r.after r.body).map Field.line, LineOK l := by
    intro l hl
    rcases List.mem_cons.mp hl with rfl | hl
    · exact ⟨h.line_ne, fun c hc => (h.line_ok c hc).1⟩
    · obtain ⟨f, hf, rfl⟩ := List.mem_map.mp hl
      exact fieldLine_lineOK f (hwf f hf)
  have hlines2 : ∀ l ∈ r.rl.render :: (reqFields r.before r.after r.body).map Field.line, PlainLine l := by
    intro l hl
    rcases List.mem_cons.mp hl with rfl | hl
    · exact fun c hc => ⟨(h.line_ok c hc).1, (h.line_ok c hc).2⟩
    · obtain ⟨f, hf, rfl⟩ := List.mem_map.mp hl
      exact fieldLine_plain f (hwf f hf)
  have hraw : r.spec.raw = reqHead r.rl.render r.before r.after r.body ++ crlf2 ++ r.body.content := rfl
  have hfind : find crlf2 (reqHead r.rl.render r.before r.after r.body ++ crlf2 ++ r.body.content) 0 =
      some (reqHead r.rl.render r.before r.after r.body).length := by
    have := find_header_end _ r.body.content 0 (by simp) hlines1
    simpa [find, reqHead] using this
  have htake : (reqHead r.rl.render r.before r.after r.body ++ crlf2 ++ r.body.content).take
      (reqHead r.rl.render r.before r.after r.body).length = reqHead r.rl.render r.before r.after r.body := by
    rw [List.append_assoc, List.take_left']; rfl
  have hdrop : (reqHead r.rl.render r.before r.after r.body ++ crlf2 ++ r.body.content).drop
      ((reqHead r.rl.render r.before r.after r.body).length + 4) = r.body.content := by
    have l : (reqHead r.rl.render r.before r.after r.body).length + 4 =
        (reqHead r.rl.render r.before r.after r.body ++ crlf2).length := by simp [crlf2]
    rw [l, List.drop_left']; rfl
  have hgl : getLines (reqHead r.rl.render r.before r.after r.body) =
      r.rl.render :: (reqFields r.before r.after r.body).map Field.line := getLines_join _ (by simp) hlines2
  unfold fromWireFormat
  rw [hraw, hfind]
  simp only [htake, hdrop, hgl, parseRequestLine_exact r.rl hrl, parseReqLines_exact _ [] 0 hwf]
  have hh : hostCount (reqFields r.before r.after r.body) = 1 := hhost
  have hv : hdrFind (reqHeaders (reqFields r.before r.after r.body) []) (ascii "Host") ≠ some [] := hhv
  simp [hh, hv, FullReq.fields]

/-! ### the request line never looks like a framing field to the header scan (absolute-form and authority-form targets included) -/

theorem exists_first (p : UInt8 → Bool) : ∀ (l : Bytes), (∃ x ∈ l, p x = true) →
    ∃ l1 l2 y, l = l1 ++ y :: l2 ∧ p y = true ∧ ∀ x ∈ l1, p x = false := by
  intro l
  induction l with
  | nil => intro ⟨x, hx, _⟩; cases hx
  | cons a as ih =>
    intro ⟨x, hx, hpx⟩
    by_cases ha : p a = true
    · exact ⟨[], as, a, rfl, ha, by intro x hx; cases hx⟩
    · rcases List.mem_cons.mp hx with rfl | hx
      · exact absurd hpx ha
      · obtain ⟨l1, l2, y, he, hy, hall⟩ := ih ⟨x, hx, hpx⟩
        refine ⟨a :: l1, l2, y, by rw [he]; rfl, hy, ?_⟩
        intro z hz
        rcases List.mem_cons.mp hz with rfl | hz
        · simpa using ha
        · exact hall z hz

theorem method_table1 : ∀ i, i < 9 →
    (∀ c ∈ methodName i, (c == 58) = false ∧ isOWS c = false) ∧
    lower (methodName i) ≠ ascii "content-length" ∧ lower (methodName i) ≠ ascii "transfer-encoding" := by
  decide

theorem names_no_space : (32 : UInt8) ∉ ascii "content-length" ∧ (32 : UInt8) ∉ ascii "transfer-encoding" := by decide

theorem version_no_colon (minor : Nat) (h : minor ≤ 9) : ∀ c ∈ versionBytes minor, (c == 58) = false ∧ c ≠ 13 ∧ c ≠ 10 := by
  intro c hc
  have ht : (b8 (48 + minor)).toNat = 48 + minor := by simp [b8_toNat]; omega
  simp only [versionBytes, List.mem_cons, List.not_mem_nil, or_false] at hc
  rcases hc with rfl | rfl | rfl | rfl | rfl | rfl | rfl | rfl
  any_goals decide
  refine ⟨?_, ?_, ?_⟩
  · simp only [beq_eq_false_iff_ne, ne_eq]; intro h'; have := congrArg UInt8.toNat h'; rw [ht] at this; simp at this; omega
  · intro h'; have := congrArg UInt8.toNat h'; rw [ht] at this; simp at this; omega
  · intro h'; have := congrArg UInt8.toNat h'; rw [ht] at this; simp at this; omega

theorem target_char (c : UInt8) (h : 0x21 ≤ c.toNat ∧ c.toNat ≠ 0x7F) : c ≠ 13 ∧ c ≠ 10 ∧ isOWS c = false ∧ (c == 32) = false := by
  refine ⟨?_, ?_, ?_, ?_⟩
  · intro hc; subst hc; simp at h
  · intro hc; subst hc; simp at h
  · unfold isOWS
    have h1 : c ≠ 32 := by intro hc; subst hc; simp at h
    have h2 : c ≠ 9 := by intro hc; subst hc; simp at h
    simp [h1, h2]
  · simp only [beq_eq_false_iff_ne, ne_eq]; intro hc; subst hc; simp at h

/-- for EVERY well-formed request line - whatever colons its target contains - the header scan of `handleIncomingData`
does not take it for a `Content-Length` / `Transfer-Encoding` line -/
theorem reqLine_facts (l : ReqLine) (h : l.WF) :
    l.render ≠ [] ∧ (∀ c ∈ l.render, c ≠ 13 ∧ c ≠ 10) ∧
    ∀ colon, indexOf? (· == 58) l.render = some colon →
      lower (trim (l.render.take colon)) ≠ ascii "content-length" ∧
      lower (trim (l.render.take colon)) ≠ ascii "transfer-encoding" := by
  obtain ⟨hmne, hmch, _⟩ := method_table l.method h.method_ok
  obtain ⟨hm1, hm2, hm3⟩ := method_table1 l.method h.method_ok
  have hv := version_no_colon l.minor h.minor_ok
  refine ⟨by simp [ReqLine.render], ?_, ?_⟩
  · intro c hc
    simp only [ReqLine.render, List.mem_append, List.mem_cons] at hc
    rcases hc with hc | rfl | hc | rfl | hc
    · have := (hmch c hc).2
      constructor <;> (intro hcc; subst hcc; simp at this)
    · decide
    · exact ⟨(target_char c (h.target_ok c hc)).1, (target_char c (h.target_ok c hc)).2.1⟩
    · decide
    · exact (hv c hc).2
  · intro colon hc
    by_cases hT : ∃ x ∈ l.target, (x == 58) = true
    · obtain ⟨t1, t2, y, he, hy, ht1⟩ := exists_first (· == 58) l.target hT
      have hy58 : y = 58 := by simpa using hy
      subst hy58
      have hline : l.render = (methodName l.method ++ 32 :: t1) ++ 58 :: (t2 ++ 32 :: versionBytes l.minor) := by
        simp [ReqLine.render, he]
      have hK : ∀ c ∈ methodName l.method ++ 32 :: t1, (c == 58) = false := by
        intro c hcm
        rcases List.mem_append.mp hcm with hcm | hcm
        · exact (hm1 c hcm).1
        · rcases List.mem_cons.mp hcm with rfl | hcm
          · decide
          · exact ht1 c hcm
      have hidx := indexOf_skip (· == 58) (methodName l.method ++ 32 :: t1) 58 (t2 ++ 32 :: versionBytes l.minor) hK (by decide)
      rw [hline] at hc
      rw [hidx] at hc
      cases hc
      rw [hline, List.take_left' rfl]
      cases ht : t1 with
      | nil =>
        have : trim (methodName l.method ++ [32]) = methodName l.method := by
          have := trim_padded [] (methodName l.method) [32] (by intro c hc; cases hc) sp_ows
            (trimmed_of_noOWS _ (fun c hc => (hm1 c hc).2))
          simpa using this
        rw [this]
        exact ⟨hm2, hm3⟩
      | cons a as =>
        have ht1T : ∀ c ∈ a :: as, c ∈ l.target := by
          intro c hc; rw [he, ht]; exact List.mem_append_left _ hc
        have htrim : Trimmed (methodName l.method ++ 32 :: a :: as) := by
          constructor
          · intro c hcc
            cases hmn : methodName l.method with
            | nil => exact absurd hmn hmne
            | cons m0 ms =>
              rw [hmn] at hcc; simp at hcc; rw [← hcc]
              exact (hm1 m0 (by rw [hmn]; simp)).2
          · intro c hcc
            have hlast : c ∈ a :: as := by
              have : (methodName l.method ++ 32 :: a :: as).getLast? = (a :: as).getLast? := by
                rw [show methodName l.method ++ 32 :: a :: as = (methodName l.method ++ [32]) ++ (a :: as) by simp]
                rw [List.getLast?_append]
                cases hg : (a :: as).getLast? with
                | none => simp at hg
                | some z => rfl
              rw [this] at hcc
              exact List.mem_of_getLast? hcc
            exact (target_char c (h.target_ok c (ht1T c hlast))).2.2.1
        rw [trim_self _ htrim]
        have h32 : (32 : UInt8) ∈ lower (methodName l.method ++ 32 :: a :: as) := by
          unfold lower
          exact List.mem_map.mpr ⟨32, by simp, by decide⟩
        constructor
        · intro heq; rw [heq] at h32; exact names_no_space.1 h32
        · intro heq; rw [heq] at h32; exact names_no_space.2 h32
    · have hnone : indexOf? (· == 58) l.render = none := by
        apply indexOf_none
        intro c hcm
        simp only [ReqLine.render, List.mem_append, List.mem_cons] at hcm
        rcases hcm with hcm | rfl | hcm | rfl | hcm
        · exact (hm1 c hcm).1
        · decide
        · cases hb : (c == 58) with
          | false => rfl
          | true => exact absurd ⟨c, hcm, hb⟩ hT
        · decide
        · exact (hv c hcm).1
      rw [hnone] at hc; cases hc

/-- a complete request: everything `ReqWF` asks of the request line follows from `ReqLine.WF` -/
theorem reqWF_of_line (l : ReqLine) (h : l.WF) (before after : List Field) (body : Body)
    (hb : ∀ f ∈ before, PlainField f) (ha : ∀ f ∈ after, PlainField f)
    (hbody : match body with
      | .empty => True
      | .sized tok b => tokValue 10 tok = some b.length ∧ b.length ≤ Gen.Http.serverMaxBodySize
      | .chunked te cs l =>
        lastToken (splitOn 44 (lower te)) [] = ascii "chunked" ∧ NoCRLF te ∧ Trimmed te ∧
          (∀ c ∈ cs, c.WF Gen.Http.serverMaxBodySize) ∧ l.WF
      | .untilClose _ => False) :
    ReqWF l.render before after body :=
  { line_ne := (reqLine_facts l h).1, line_ok := (reqLine_facts l h).2.1, line_key := (reqLine_facts l h).2.2,
    before_ok := hb, after_ok := ha, body_ok := hbody }

end Iora.Http.Srv
