import IoraModel.Lemmas.TpWorkers
/-! # C09 — the worker-map invariants hold in every reachable state -/
namespace Iora.ThreadPool

theorem winv_init (cfg : Cfg) : WInv (init cfg) := by
  refine ⟨?_, ?_, ?_, ?_, ?_⟩
  · intro w th h hw
    simp [init] at h
    cases w with
    | zero => simp at h; rw [← h] at hw; simp [isWorker] at hw
    | succ k => simp at h
  · intro h; simp [init] at h
  · intro _ w hm; simp [init] at hm
  · intro w hm; simp [init] at hm
  · simp [init]

/-- from the controller invariants: the acting thread is the only one with a join target -/
theorem target_unique (s : St) (hc : CInv s) (t : Nat) (th : Thread) (hget : s.thr[t]? = some th)
    (j : Nat) (x : Thread) (w : Tid) (hx : s.thr[j]? = some x) (htg : targetOf x = some w) (hth : targetOf th ≠ none) : j = t := by
  have own_of_target : ∀ (y : Thread), targetOf y ≠ none → ∃ pc r, y = .main pc r ∧ ownsPc pc = true := by
    intro y hy
    cases y with
    | main pc r => cases pc <;> simp [targetOf] at hy <;> exact ⟨_, _, rfl, by simp [ownsPc, seqPc]⟩
    | sub z => simp [targetOf] at hy
    | worker z => simp [targetOf] at hy
  obtain ⟨pc, r, e, o⟩ := own_of_target x (by rw [htg]; simp)
  obtain ⟨pc', r', e', o'⟩ := own_of_target th hth
  rw [e] at hx; rw [e'] at hget
  exact hc.oneOwner j t pc pc' r r' hx hget o o'

theorem winv_step (cfg : Cfg) (s : St) (c : Choice)
    (hmx : MutexOk s) (hc : CInv s) (h : WInv s) : WInv (step cfg s c) := by
  apply step_cases cfg s c WInv
  · exact h
  · intro t th b hget ha
    have hth : th = .worker .asleep := by
      cases th with
      | worker w => cases w <;> simp [isAsleep] at ha; rfl
      | main pc r => simp [isAsleep] at ha
      | sub x => simp [isAsleep] at ha
    exact winv_of_eff cfg s s.sh t th (wake th b) .none 0 (s.thr.set t (wake th b)) h hmx hget
      (by rw [hth]; rfl) (by rw [hth]; intro e; simp [locksM, locksW] at e) (by rw [hth]; intro w r e; cases e)
      (fun j x w hx htg hne => by rw [hth] at hne; simp [targetOf] at hne) (by rw [hth]; intro w r e; cases e) (by rw [hth]; rfl)
      (.quiet (SameQ.rfl' _) (fun nt e => by cases e) (by rw [hth]; rfl) (by rw [hth]; rfl) (by simp) (by simp) (by simp) (by simp)
        (by rw [hth]; intro e; simp [wake] at e))
      (threadsStep_of_set s.thr t th _ hget) (fun nt e => by cases e)
  · intro t th to late hget hw ho
    have hth : th = .worker (.woken to) := by
      cases th with
      | worker w => cases w <;> simp [wokenBy] at hw; rw [hw]
      | main pc r => simp [wokenBy] at hw
      | sub x => simp [wokenBy] at hw
    have heff : StepEff cfg s.sh s.thr.length t th 0 (reacq cfg s.sh t late).1 (.worker (reacq cfg s.sh t late).2) .none := by
      rcases reacq_eff cfg s.sh t late with he | ⟨hq, hwr⟩
      · exact waitEff_lift cfg s.sh s.sh s.thr.length t 0 th _ _ (SameQ.rfl' _) he (by rw [hth]; exact ⟨rfl, rfl, rfl⟩)
          (by rw [hth]; rfl) (by rw [hth]; rfl)
      · rw [hwr]
        exact .quiet hq (fun nt e => by cases e) (by rw [hth]; rfl) rfl (by rw [hth]; rfl) (by rw [hth]; rfl) (by rw [hth]; rfl)
          (by rw [hth]; rfl) (by intro e; cases e)
    exact winv_of_eff cfg s _ t th _ .none 0 _ h hmx hget (by rw [hth]; rfl)
      (by rw [hth]; intro e; simp [locksM, locksW] at e) (by rw [hth]; intro w r e; cases e)
      (fun j x w hx htg hne => by rw [hth] at hne; simp [targetOf] at hne) (by rw [hth]; intro w r e; cases e) (by rw [hth]; rfl)
      heff (threadsStep_of_set s.thr t th _ hget) (fun nt e => by cases e)
  · intro t th alt l hget _ _ hf he hp
    exact winv_of_eff cfg s _ t th _ _ alt l h hmx hget hf (enabled_locks s th he)
      (fun w r e => enabled_join s w r (by rw [← e]; exact he))
      (fun j x w hx htg hne => target_unique s hc t th hget j x w hx htg hne)
      (fun w r e => hc.noDetach t w r (by rw [← e]; exact hget))
      (hc.nors t th hget)
      (trans_eff cfg s.sh s.thr.length t th alt) (threadsStep_of_run cfg s t th alt l hget hp)
      (fun nt e => trans_spawn cfg s.sh s.thr.length t th alt nt e)

end Iora.ThreadPool
