import IoraModel.Lemmas.TpWorkers
/-! # C09 — the worker-map invariants hold in every reachable state -/
namespace Iora.ThreadPool

theorem trans_isMain (cfg : Cfg) (sh : Shared) (n t : Nat) (th : Thread) (alt : Nat) :
    isMain (trans cfg sh n t th alt).2.1 = isMain th := by
  cases th <;> rfl

theorem calm_not_detach (pc : MPc) (w : Tid) (h : calmPc pc = true) : pc ≠ .jDetach w := by
  intro e; rw [e] at h; simp [calmPc] at h

theorem transM_noDetach (cfg : Cfg) (hdet : cfg.detached = false) (sh : Shared) (n t : Nat) (pc : MPc) (r : MRegs) (alt : Nat) (w : Tid) :
    (transM cfg sh n t pc r alt).2.1.1 ≠ .jDetach w := by
  cases pc with
  | inCall c =>
    simp only [transM]
    cases (callStep cfg sh n t c).2.1 <;> simp
  | jU w' => simp [transM, hdet]
  | mYield => simp only [transM]; exact calm_not_detach _ w (stepMYield_calm sh r)
  | dInfU => simp only [transM]; exact calm_not_detach _ w (pollHead_calm _ _ _)
  | pollZ k => simp only [transM]; exact calm_not_detach _ w (pollHead_calm _ _ _)
  | p2Grace => simp only [transM]; exact calm_not_detach _ w (pollHead_calm _ _ _)
  | p5U => simp only [transM]; exact calm_not_detach _ w (dtorReturn_calm { sh with owner := none } r)
  | pollU k =>
    simp only [transM]; split
    · exact calm_not_detach _ w (pollExit_calm _ _ _ _)
    · simp
  | finU k =>
    cases k <;> simp only [transM]
    · exact calm_not_detach _ w (drainReturn_calm { sh with owner := none } r false)
    all_goals simp
  | sFlagUA =>
    simp only [transM]; split
    · exact calm_not_detach _ w (dtorReturn_calm { sh with owner := none } r)
    · exact calm_not_detach _ w (shutdownReturn_calm { sh with owner := none } r)
  | sBcast =>
    simp only [transM]; split
    · simp
    · exact calm_not_detach _ w (pollHead_calm _ _ _)
  | sChkU =>
    simp only [transM]; split
    · exact calm_not_detach _ w (pollHead_calm _ _ _)
    · simp
  | jUnone =>
    simp only [transM]; split
    · simp
    · exact calm_not_detach _ w (shutdownReturn_calm { sh with owner := none } r)
  | p2Z =>
    simp only [transM]; split
    · simp
    · split
      · simp
      · exact calm_not_detach _ w (pollHead_calm _ _ _)
  | _ => simp only [transM] <;> (repeat' split) <;> simp

theorem trans_noDetach (cfg : Cfg) (hdet : cfg.detached = false) (sh : Shared) (n t : Nat) (th : Thread) (alt : Nat) (w : Tid) (r : MRegs) :
    (trans cfg sh n t th alt).2.1 ≠ .main (.jDetach w) r := by
  cases th with
  | main pc r0 =>
    simp only [trans]
    intro e
    injection e with e1 _
    exact transM_noDetach cfg hdet sh n t pc r0 alt w e1
  | sub x => simp [trans]
  | worker x => simp [trans]

theorem enabled_join (s : St) (w : Tid) (r : MRegs) (h : enabled s (.main (.jJoin w) r) = true) :
    ∃ tj, s.thr[w]? = some tj ∧ isFinished tj = true := by
  simp only [enabled] at h
  cases hx : s.thr[w]? with
  | none => rw [hx] at h; simp at h
  | some tj => rw [hx] at h; exact ⟨tj, rfl, h⟩

theorem winv_init (cfg : Cfg) : WInv (init cfg) := by
  refine ⟨?_, ?_, ?_, ?_, ?_, ?_, ?_⟩
  · intro t th h _
    simp [init] at h
    cases t with
    | zero => rfl
    | succ k => simp at h
  · intro t w r h
    simp [init] at h
    cases t with
    | zero => simp at h
    | succ k => simp at h
  · intro w th h hw
    simp [init] at h
    cases w with
    | zero => simp at h; rw [← h] at hw; simp [isWorker] at hw
    | succ k => simp at h
  · intro h; simp [init] at h
  · intro _ w hm; simp [init] at hm
  · intro w hm; simp [init] at hm
  · simp [init]

/-- mode ≠ DETACHED and `maxSize ≥ 1`: the worker-map invariants are preserved by every step -/
theorem winv_step (cfg : Cfg) (hdet : cfg.detached = false) (hmax : 1 ≤ cfg.maxSize) (s : St) (c : Choice)
    (hmx : MutexOk s) (h : WInv s) : WInv (step cfg s c) := by
  apply step_cases cfg s c WInv
  · exact h
  · -- wake-up of a sleeper: a quiet step
    intro t th b hget ha
    have hth : th = .worker .asleep := by
      cases th with
      | worker w => cases w <;> simp [isAsleep] at ha; rfl
      | main pc r => simp [isAsleep] at ha
      | sub x => simp [isAsleep] at ha
    have := winv_of_eff cfg hmax s s.sh t th (wake th b) .none 0 (s.thr.set t (wake th b)) h hmx hget
      (by rw [hth]; rfl) (by rw [hth]; intro e; simp [locksM, locksW] at e) (by rw [hth]; intro w r e; cases e)
      (by simp) (by rw [hth]; intro w r e; simp [wake] at e)
      (.quiet (SameQ.rfl' _) (fun nt e => by cases e) (by rw [hth]; rfl) (by rw [hth]; rfl) (by simp) (by simp) (by simp) (by simp)
        (by rw [hth]; intro e; simp [wake] at e))
      (threadsStep_of_set s.thr t th _ hget) (fun nt e => by cases e)
    exact this
  · -- re-acquisition after a wake-up
    intro t th to late hget hw ho
    have hth : th = .worker (.woken to) := by
      cases th with
      | worker w => cases w <;> simp [wokenBy] at hw; rw [hw]
      | main pc r => simp [wokenBy] at hw
      | sub x => simp [wokenBy] at hw
    have heff : StepEff cfg s.sh s.thr.length t th 0 (reacq cfg s.sh t late).1 (.worker (reacq cfg s.sh t late).2) .none := by
      rcases reacq_eff cfg s.sh t late with he | ⟨hq, hwr⟩
      · exact waitEff_lift cfg s.sh s.sh s.thr.length t 0 th _ _ (SameQ.rfl' _) he (by rw [hth]; exact ⟨rfl, rfl, rfl⟩)
          (by rw [hth]; rfl) (by rw [hth]; rfl)
      · rw [hwr]
        exact .quiet hq (fun nt e => by cases e) (by rw [hth]; rfl) rfl (by rw [hth]; rfl) (by rw [hth]; rfl) (by rw [hth]; rfl)
          (by rw [hth]; rfl) (by intro e; cases e)
    exact winv_of_eff cfg hmax s _ t th _ .none 0 _ h hmx hget (by rw [hth]; rfl)
      (by rw [hth]; intro e; simp [locksM, locksW] at e) (by rw [hth]; intro w r e; cases e) (by rw [hth]; rfl)
      (by intro w r e; cases e) heff (threadsStep_of_set s.thr t th _ hget) (fun nt e => by cases e)
  · -- the pending operation of a runnable thread
    intro t th alt l hget _ _ hf he hp
    exact winv_of_eff cfg hmax s _ t th _ _ alt l h hmx hget hf (enabled_locks s th he)
      (fun w r e => enabled_join s w r (by rw [← e]; exact he)) (trans_isMain cfg s.sh s.thr.length t th alt)
      (fun w r e => trans_noDetach cfg hdet s.sh s.thr.length t th alt w r e)
      (trans_eff cfg s.sh s.thr.length t th alt) (threadsStep_of_run cfg s t th alt l hget hp)
      (fun nt e => trans_spawn cfg s.sh s.thr.length t th alt nt e)

/-- both families together -/
theorem winv_run (cfg : Cfg) (hdet : cfg.detached = false) (hmax : 1 ≤ cfg.maxSize) (sched : List Choice) :
    MutexOk (run cfg sched) ∧ WInv (run cfg sched) := by
  apply inv_run cfg (fun s => MutexOk s ∧ WInv s) ⟨mutexOk_init cfg, winv_init cfg⟩
  intro s c ⟨h1, h2⟩
  exact ⟨mutexOk_step cfg s c h1, winv_step cfg hdet hmax s c h1 h2⟩

end Iora.ThreadPool
