import IoraModel.Lemmas.ConnectSyncBase
namespace Iora.ConnectSync
set_option linter.unusedSimpArgs false
set_option linter.unusedVariables false

theorem doEnter_a {s : State} (h : Inv s) (c : Nat) (hpc : (s.callers c).pc = .start) (hl : s.lock = none) (hsd : s.shuttingDown = false) :
    Inv ({ s with lock := some c, callers := setC s.callers c { s.callers c with pc := .haveLock } }) := by
  constructor
  case F_log => first | exact h.F_log | (pick h [F_log]; inv_grind [evSid])
  case F_att => first | exact h.F_att | (pick h [F_att]; inv_grind)
  case F_pend => first | exact h.F_pend | (pick h [F_pend]; inv_grind)
  case F_fifo => first | exact h.F_fifo | (pick h [F_fifo]; inv_grind [cmdSid])
  case F_eng => first | exact h.F_eng | (pick h [F_eng]; inv_grind)
  case F_io => first | exact h.F_io | (pick h [F_io]; inv_grind [ioSid])
  case U_att => first | exact h.U_att | (pick h [U_att]; inv_grind)
  case A_cr => first | exact h.A_cr | (pick h [A_cr]; inv_grind)
  case U_cr => first | exact h.U_cr | (pick h [U_cr]; inv_grind)
  case RC => first | exact h.RC | (pick h [RC]; inv_grind)
  case E2 => first | exact h.E2 | (pick h [E2]; inv_grind)
  case K => first | exact h.K | (pick h [K]; inv_grind)
  case S1 => first | exact h.S1 | (pick h [S1]; inv_grind)
  case REG => first | exact h.REG | (pick h [REG]; inv_grind)
  case ACC => first | exact h.ACC | (pick h [ACC]; inv_grind)
  case P1 => first | exact h.P1 | (pick h [P1]; inv_grind)
  case P2 => first | exact h.P2 | (pick h [P2]; inv_grind)
  case P3 => first | exact h.P3 | (pick h [P3]; inv_grind)
  case P4 => first | exact h.P4 | (pick h [P4]; inv_grind)
  case P5 => first | exact h.P5 | (pick h [P5]; inv_grind)
  case P8 => first | exact h.P8 | (pick h [P8]; inv_grind)
  case D1 => first | exact h.D1 | (pick h [D1]; inv_grind)
  case E3 => first | exact h.E3 | (pick h [E3]; inv_grind)
  case E5 => first | exact h.E5 | (pick h [E5]; inv_grind)
  case H1 => first | exact h.H1 | (pick h [H1]; inv_grind)
  case H2 => first | exact h.H2 | (pick h [H2]; inv_grind)
  case E1 => first | exact h.E1 | (pick h [E1]; inv_grind)
  case E6 => first | exact h.E6 | (pick h [E6]; inv_grind)
  case R1 => first | exact h.R1 | (pick h [R1]; inv_grind)
  case T1 => first | exact h.T1 | (pick h [T1]; inv_grind)
  case FIX => first | exact h.FIX | (pick h [FIX]; inv_grind)
  case T3a => first | exact h.T3a | (pick h [T3a]; inv_grind)
  case T6a => first | exact h.T6a | (pick h [T6a]; inv_grind)
  case T6b => first | exact h.T6b | (pick h [T6b]; inv_grind)
  case G1 => first | exact h.G1 | (pick h [G1]; inv_grind)
  case G2 => first | exact h.G2 | (pick h [G2]; inv_grind)
  case T4 => first | exact h.T4 | (pick h [T4]; inv_grind)
  case Q1 => first | exact h.Q1 | (pick h [Q1]; inv_grind)
  case Q3 => first | exact h.Q3 | (pick h [Q3]; inv_grind)
  case ORD => first | exact h.ORD | (pick h [ORD]; inv_grind)
  case W => first | exact h.W | (pick h [W]; inv_grind)

theorem doEnter_b {s : State} (h : Inv s) (c : Nat) (hpc : (s.callers c).pc = .start) (hl : s.lock = none) (hsd : s.shuttingDown = true) :
    Inv (ret s c none (.err .shuttingDown)) := by
  unfold ret
  constructor
  case F_log => first | exact h.F_log | (pick h [F_log]; ret_grind [evSid])
  case F_att => first | exact h.F_att | (pick h [F_att]; ret_grind)
  case F_pend => first | exact h.F_pend | (pick h [F_pend]; ret_grind)
  case F_fifo => first | exact h.F_fifo | (pick h [F_fifo]; ret_grind [cmdSid])
  case F_eng => first | exact h.F_eng | (pick h [F_eng]; ret_grind)
  case F_io => first | exact h.F_io | (pick h [F_io]; ret_grind [ioSid])
  case U_att => first | exact h.U_att | (pick h [U_att]; ret_grind)
  case A_cr => first | exact h.A_cr | (pick h [A_cr]; ret_grind)
  case U_cr => first | exact h.U_cr | (pick h [U_cr]; ret_grind)
  case RC => first | exact h.RC | (pick h [RC]; ret_grind)
  case E2 => first | exact h.E2 | (pick h [E2]; ret_grind)
  case K => first | exact h.K | (pick h [K]; ret_grind)
  case S1 => first | exact h.S1 | (pick h [S1]; ret_grind)
  case REG => first | exact h.REG | (pick h [REG]; ret_grind)
  case ACC => first | exact h.ACC | (pick h [ACC]; ret_grind)
  case P1 => first | exact h.P1 | (pick h [P1]; ret_grind)
  case P2 => first | exact h.P2 | (pick h [P2]; ret_grind)
  case P3 => first | exact h.P3 | (pick h [P3]; ret_grind)
  case P4 => first | exact h.P4 | (pick h [P4]; ret_grind)
  case P5 => first | exact h.P5 | (pick h [P5]; ret_grind)
  case P8 => first | exact h.P8 | (pick h [P8]; ret_grind)
  case D1 => first | exact h.D1 | (pick h [D1]; ret_grind)
  case E3 => first | exact h.E3 | (pick h [E3]; ret_grind)
  case E5 => first | exact h.E5 | (pick h [E5]; ret_grind)
  case H1 => first | exact h.H1 | (pick h [H1]; ret_grind)
  case H2 => first | exact h.H2 | (pick h [H2]; ret_grind)
  case E1 => first | exact h.E1 | (pick h [E1]; ret_grind)
  case E6 => first | exact h.E6 | (pick h [E6]; ret_grind)
  case R1 => first | exact h.R1 | (pick h [R1]; ret_grind)
  case T1 => first | exact h.T1 | (pick h [T1]; ret_grind)
  case FIX => first | exact h.FIX | (pick h [FIX]; ret_grind)
  case T3a => first | exact h.T3a | (pick h [T3a]; ret_grind)
  case T6a => first | exact h.T6a | (pick h [T6a]; ret_grind)
  case T6b => first | exact h.T6b | (pick h [T6b]; ret_grind)
  case G1 => first | exact h.G1 | (pick h [G1]; ret_grind)
  case G2 => first | exact h.G2 | (pick h [G2]; ret_grind)
  case T4 => first | exact h.T4 | (pick h [T4]; ret_grind)
  case Q1 => first | exact h.Q1 | (pick h [Q1]; ret_grind)
  case Q3 => first | exact h.Q3 | (pick h [Q3]; ret_grind)
  case ORD => first | exact h.ORD | (pick h [ORD]; ret_grind)
  case W => first | exact h.W | (pick h [W]; ret_grind)

theorem doRegister_core {s : State} (h : Inv s) (c sid : Nat) (hpc : (s.callers c).pc = .connected sid) :
    Inv ({ s with pend := setP s.pend sid (some { owner := c }), activeConnects := s.activeConnects + 1, callers := setC s.callers c { s.callers c with pc := .registered sid, done := none }, log := s.log ++ [.registered c sid] }) := by
  have hatt : att (s.callers c).pc = some sid := by simp [hpc, att]
  constructor
  case F_log => first | exact h.F_log | (pick h [F_log, F_att]; inv_grind [evSid])
  case F_att => first | exact h.F_att | (pick h [F_att]; inv_grind)
  case F_pend => first | exact h.F_pend | (pick h [F_pend, F_att]; inv_grind)
  case F_fifo => first | exact h.F_fifo | (pick h [F_fifo]; inv_grind [cmdSid])
  case F_eng => first | exact h.F_eng | (pick h [F_eng]; inv_grind)
  case F_io => first | exact h.F_io | (pick h [F_io]; inv_grind [ioSid])
  case U_att => first | exact h.U_att | (pick h [U_att]; inv_grind)
  case A_cr => first | exact h.A_cr | (pick h [A_cr]; inv_grind)
  case U_cr => first | exact h.U_cr | (pick h [U_cr]; inv_grind)
  case RC => first | exact h.RC | (pick h [RC, A_cr]; inv_grind)
  case E2 => first | exact h.E2 | (pick h [E2]; inv_grind)
  case K => first | exact h.K | (pick h [K]; inv_grind)
  case S1 => first | exact h.S1 | (pick h [S1]; inv_grind)
  case REG => first | exact h.REG | (pick h [REG]; inv_grind)
  case ACC => first | exact h.ACC | (pick h [ACC]; inv_grind)
  case P1 => first | exact h.P1 | (pick h [P1]; inv_grind)
  case P2 => first | exact h.P2 | (pick h [P2]; inv_grind)
  case P3 => first | exact h.P3 | (pick h [P3, U_att]; inv_grind)
  case P4 => first | exact h.P4 | (pick h [P4, U_att]; inv_grind)
  case P5 => first | exact h.P5 | (pick h [P5, U_att]; inv_grind)
  case P8 => first | exact h.P8 | (pick h [P8, P4]; inv_grind)
  case D1 => first | exact h.D1 | (pick h [D1]; inv_grind)
  case E3 => first | exact h.E3 | (pick h [E3]; inv_grind)
  case E5 => first | exact h.E5 | (pick h [E5]; inv_grind)
  case H1 => first | exact h.H1 | (pick h [H1]; inv_grind)
  case H2 => first | exact h.H2 | (pick h [H2]; inv_grind)
  case E1 => first | exact h.E1 | (pick h [E1]; inv_grind)
  case E6 => first | exact h.E6 | (pick h [E6]; inv_grind)
  case R1 => first | exact h.R1 | (pick h [R1]; inv_grind)
  case T1 => first | exact h.T1 | (pick h [T1]; inv_grind)
  case FIX => first | exact h.FIX | (pick h [FIX]; inv_grind)
  case T3a => first | exact h.T3a | (pick h [T3a]; inv_grind)
  case T6a => first | exact h.T6a | (pick h [T6a]; inv_grind)
  case T6b => first | exact h.T6b | (pick h [T6b]; inv_grind)
  case G1 => first | exact h.G1 | (pick h [G1]; inv_grind)
  case G2 => first | exact h.G2 | (pick h [G2]; inv_grind)
  case T4 => first | exact h.T4 | (pick h [T4]; inv_grind)
  case Q1 => first | exact h.Q1 | (pick h [Q1]; inv_grind)
  case Q3 => first | exact h.Q3 | (pick h [Q3]; inv_grind)
  case ORD => first | exact h.ORD | (pick h [ORD]; inv_grind)
  case W => first | exact h.W | (pick h [W]; inv_grind)

theorem doClose_core {s : State} (h : Inv s) (c sid : Nat) (hpc : (s.callers c).pc = .closing sid) :
    Inv ({ s with fifo := s.fifo ++ [.close sid], callers := setC s.callers c { s.callers c with pc := .relock sid }, log := s.log ++ [.engineClose c sid] }) := by
  have hatt : att (s.callers c).pc = some sid := by simp [hpc, att]
  constructor
  case F_log => first | exact h.F_log | (pick h [F_log, F_att]; inv_grind [evSid])
  case F_att => first | exact h.F_att | (pick h [F_att]; inv_grind)
  case F_pend => first | exact h.F_pend | (pick h [F_pend]; inv_grind)
  case F_fifo => first | exact h.F_fifo | (pick h [F_fifo, F_att]; inv_grind [cmdSid])
  case F_eng => first | exact h.F_eng | (pick h [F_eng]; inv_grind)
  case F_io => first | exact h.F_io | (pick h [F_io]; inv_grind [ioSid])
  case U_att => first | exact h.U_att | (pick h [U_att]; inv_grind)
  case A_cr => first | exact h.A_cr | (pick h [A_cr]; inv_grind)
  case U_cr => first | exact h.U_cr | (pick h [U_cr]; inv_grind)
  case RC => first | exact h.RC | (pick h [RC]; inv_grind)
  case E2 => first | exact h.E2 | (pick h [E2, A_cr]; inv_grind)
  case K => first | exact h.K | (pick h [K]; inv_grind)
  case S1 => first | exact h.S1 | (pick h [S1]; inv_grind)
  case REG => first | exact h.REG | (pick h [REG]; inv_grind)
  case ACC => first | exact h.ACC | (pick h [ACC]; inv_grind)
  case P1 => first | exact h.P1 | (pick h [P1]; inv_grind)
  case P2 => first | exact h.P2 | (pick h [P2]; inv_grind)
  case P3 => first | exact h.P3 | (pick h [P3]; inv_grind)
  case P4 => first | exact h.P4 | (pick h [P4]; inv_grind)
  case P5 => first | exact h.P5 | (pick h [P5]; inv_grind)
  case P8 => first | exact h.P8 | (pick h [P8]; inv_grind)
  case D1 => first | exact h.D1 | (pick h [D1]; inv_grind)
  case E3 => first | exact h.E3 | (pick h [E3]; inv_grind)
  case E5 => first | exact h.E5 | (pick h [E5]; inv_grind)
  case H1 => first | exact h.H1 | (pick h [H1]; inv_grind)
  case H2 => first | exact h.H2 | (pick h [H2]; inv_grind)
  case E1 => first | exact h.E1 | (pick h [E1]; inv_grind)
  case E6 => first | exact h.E6 | (pick h [E6]; inv_grind)
  case R1 => first | exact h.R1 | (pick h [R1]; inv_grind)
  case T1 => first | exact h.T1 | (pick h [T1, P8, P4]; inv_grind)
  case FIX => first | exact h.FIX | (pick h [FIX]; inv_grind)
  case T3a => first | exact h.T3a | (pick h [T3a]; inv_grind)
  case T6a => first | exact h.T6a | (pick h [T6a]; inv_grind)
  case T6b => first | exact h.T6b | (pick h [T6b]; inv_grind)
  case G1 => first | exact h.G1 | (pick h [G1]; inv_grind)
  case G2 => first | exact h.G2 | (pick h [G2]; inv_grind)
  case T4 => first | exact h.T4 | (pick h [T4]; inv_grind)
  case Q1 => first | exact h.Q1 | (pick h [Q1]; inv_grind)
  case Q3 => first | exact h.Q3 | (pick h [Q3]; inv_grind)
  case ORD => exact OrdP_snoc h.ORD (by intro sid hx; cases hx)
  case W => first | exact h.W | (pick h [W]; inv_grind)

theorem doRelock_core {s : State} (h : Inv s) (c sid : Nat) (hpc : (s.callers c).pc = .relock sid) (hl : s.lock = none) :
    Inv (ret { s with activeConnects := s.activeConnects - 1 } c (some sid) (.err (if s.shuttingDown then .shuttingDown else .timeout))) := by
  have hatt : att (s.callers c).pc = some sid := by simp [hpc, att]
  unfold ret
  constructor
  case F_log => first | exact h.F_log | (pick h [F_log, F_att]; ret_grind [evSid])
  case F_att => first | exact h.F_att | (pick h [F_att]; ret_grind)
  case F_pend => first | exact h.F_pend | (pick h [F_pend]; ret_grind)
  case F_fifo => first | exact h.F_fifo | (pick h [F_fifo]; ret_grind [cmdSid])
  case F_eng => first | exact h.F_eng | (pick h [F_eng]; ret_grind)
  case F_io => first | exact h.F_io | (pick h [F_io]; ret_grind [ioSid])
  case U_att => first | exact h.U_att | (pick h [U_att]; ret_grind)
  case A_cr => first | exact h.A_cr | (pick h [A_cr]; ret_grind)
  case U_cr => first | exact h.U_cr | (pick h [U_cr]; ret_grind)
  case RC => first | exact h.RC | (pick h [RC]; ret_grind)
  case E2 => first | exact h.E2 | (pick h [E2]; ret_grind)
  case K => first | exact h.K | (pick h [K]; ret_grind)
  case S1 => first | exact h.S1 | (pick h [S1]; ret_grind)
  case REG => first | exact h.REG | (pick h [REG]; ret_grind)
  case ACC => first | exact h.ACC | (pick h [ACC]; ret_grind)
  case P1 => first | exact h.P1 | (pick h [P1]; ret_grind)
  case P2 => first | exact h.P2 | (pick h [P2]; ret_grind)
  case P3 => first | exact h.P3 | (pick h [P3]; ret_grind)
  case P4 => first | exact h.P4 | (pick h [P4]; ret_grind)
  case P5 => first | exact h.P5 | (pick h [P5]; ret_grind)
  case P8 => first | exact h.P8 | (pick h [P8]; ret_grind)
  case D1 => first | exact h.D1 | (pick h [D1]; ret_grind)
  case E3 => first | exact h.E3 | (pick h [E3]; ret_grind)
  case E5 => first | exact h.E5 | (pick h [E5]; ret_grind)
  case H1 => first | exact h.H1 | (pick h [H1]; ret_grind)
  case H2 => first | exact h.H2 | (pick h [H2]; ret_grind)
  case E1 => first | exact h.E1 | (pick h [E1]; ret_grind)
  case E6 => first | exact h.E6 | (pick h [E6]; ret_grind)
  case R1 => first | exact h.R1 | (pick h [R1, A_cr]; ret_grind)
  case T1 => first | exact h.T1 | (pick h [T1]; ret_grind)
  case FIX => first | exact h.FIX | (pick h [FIX, P8, P4]; ret_grind)
  case T3a => first | exact h.T3a | (pick h [T3a, E6]; ret_grind)
  case T6a => first | exact h.T6a | (pick h [T6a]; ret_grind)
  case T6b => first | exact h.T6b | (pick h [T6b]; ret_grind)
  case G1 => first | exact h.G1 | (pick h [G1]; ret_grind)
  case G2 => first | exact h.G2 | (pick h [G2]; ret_grind)
  case T4 => first | exact h.T4 | (pick h [T4]; ret_grind)
  case Q1 => first | exact h.Q1 | (pick h [Q1]; ret_grind)
  case Q3 => first | exact h.Q3 | (pick h [Q3]; ret_grind)
  case ORD => first | exact h.ORD | (pick h [ORD]; ret_grind)
  case W => first | exact h.W | (pick h [W]; ret_grind)

theorem doConnect_core {s : State} (h : Inv s) (c : Nat) (hpc : (s.callers c).pc = .haveLock) :
    Inv ({ s with nextSid := s.nextSid + 1, fifo := s.fifo ++ [.connect s.nextSid], callers := setC s.callers c { s.callers c with pc := .connected s.nextSid }, log := s.log ++ [.created c s.nextSid] }) := by
  constructor
  case F_log => first | exact h.F_log | (pick h [F_log]; inv_grind [evSid])
  case F_att => first | exact h.F_att | (pick h [F_att]; inv_grind)
  case F_pend => first | exact h.F_pend | (pick h [F_pend]; inv_grind)
  case F_fifo => first | exact h.F_fifo | (pick h [F_fifo]; inv_grind [cmdSid])
  case F_eng => first | exact h.F_eng | (pick h [F_eng]; inv_grind)
  case F_io => first | exact h.F_io | (pick h [F_io]; inv_grind [ioSid])
  case U_att => first | exact h.U_att | (pick h [U_att, F_att]; inv_grind)
  case A_cr => first | exact h.A_cr | (pick h [A_cr]; inv_grind)
  case U_cr => first | exact h.U_cr | (pick h [U_cr, F_created]; inv_grind)
  case RC => first | exact h.RC | (pick h [RC]; inv_grind)
  case E2 => first | exact h.E2 | (pick h [E2]; inv_grind)
  case K => first | exact h.K | (pick h [K]; inv_grind)
  case S1 => first | exact h.S1 | (pick h [S1]; inv_grind)
  case REG => first | exact h.REG | (pick h [REG]; inv_grind)
  case ACC => first | exact h.ACC | (pick h [ACC]; inv_grind)
  case P1 => first | exact h.P1 | (pick h [P1]; inv_grind)
  case P2 => first | exact h.P2 | (pick h [P2]; inv_grind)
  case P3 => first | exact h.P3 | (pick h [P3]; inv_grind)
  case P4 => first | exact h.P4 | (pick h [P4]; inv_grind)
  case P5 => first | exact h.P5 | (pick h [P5]; inv_grind)
  case P8 => first | exact h.P8 | (pick h [P8, F_delivered]; inv_grind)
  case D1 => first | exact h.D1 | (pick h [D1]; inv_grind)
  case E3 => first | exact h.E3 | (pick h [E3]; inv_grind)
  case E5 => first | exact h.E5 | (pick h [E5]; inv_grind)
  case H1 => first | exact h.H1 | (pick h [H1]; inv_grind)
  case H2 => first | exact h.H2 | (pick h [H2]; inv_grind)
  case E1 => first | exact h.E1 | (pick h [E1, F_engineClose]; inv_grind)
  case E6 => first | exact h.E6 | (pick h [E6]; inv_grind)
  case R1 => first | exact h.R1 | (pick h [R1, F_aret]; inv_grind)
  case T1 => first | exact h.T1 | (pick h [T1]; inv_grind)
  case FIX => first | exact h.FIX | (pick h [FIX]; inv_grind)
  case T3a => first | exact h.T3a | (pick h [T3a]; inv_grind)
  case T6a => first | exact h.T6a | (pick h [T6a]; inv_grind)
  case T6b => first | exact h.T6b | (pick h [T6b]; inv_grind)
  case G1 => first | exact h.G1 | (pick h [G1, F_connGlobal, F_gConnect]; inv_grind)
  case G2 => first | exact h.G2 | (pick h [G2, F_closeGlobal, F_gClose]; inv_grind)
  case T4 => first | exact h.T4 | (pick h [T4, F_hConnect]; inv_grind)
  case Q1 => first | exact h.Q1 | (pick h [Q1]; inv_grind)
  case Q3 => first | exact h.Q3 | (pick h [Q3]; inv_grind)
  case ORD => exact OrdP_snoc h.ORD (by intro sid hx hm; cases hx; exact absurd (h.F_fclose _ hm) (Nat.lt_irrefl _))
  case W => first | exact h.W | (pick h [W]; inv_grind)

theorem doEnter_inv {s : State} (h : Inv s) (c : Nat) : Inv (doEnter s c) := by
  unfold doEnter
  split
  · rename_i hpc hl
    split
    · rename_i hsd; exact doEnter_b h c hpc hl hsd
    · rename_i hsd; exact doEnter_a h c hpc hl (by simpa using hsd)
  · exact h

theorem doConnect_inv {s : State} (h : Inv s) (c : Nat) : Inv (doConnect s c) := by
  unfold doConnect
  split
  · rename_i hpc; exact doConnect_core h c hpc
  · exact h

theorem doRegister_inv {s : State} (h : Inv s) (c : Nat) : Inv (doRegister s c) := by
  unfold doRegister
  split
  · rename_i sid hpc; exact doRegister_core h c sid hpc
  · exact h

theorem doClose_inv {s : State} (h : Inv s) (c : Nat) : Inv (doClose s c) := by
  unfold doClose
  split
  · rename_i sid hpc; exact doClose_core h c sid hpc
  · exact h

theorem doRelock_inv {s : State} (h : Inv s) (c : Nat) : Inv (doRelock s c) := by
  unfold doRelock
  split
  · rename_i sid hpc hl; exact doRelock_core h c sid hpc hl
  · exact h


end Iora.ConnectSync
