import IoraModel.Lemmas.TpCtlStep
/-!
# C09 — the worker-map invariants: every live worker is registered (or being joined), a non-empty queue always has a
guardian (a registered worker that will look at the queue again, or a submitter about to create one), and the entries of
`_threads` are live workers until shutdown.
-/
namespace Iora.ThreadPool

/-- `w` is the worker some controller has taken out of `_threads` and is joining -/
def isTarget (l : List Thread) (w : Tid) : Prop := ∃ (t : Nat) (th : Thread), l[t]? = some th ∧ targetOf th = some w

/-- worker `w` (state `th`) is accounted for: in `_threads`, being joined, or self-removed and about to return -/
def Accounted (threads : List Tid) (l : List Thread) (w : Tid) (th : Thread) : Prop :=
  w ∈ threads ∨ isTarget l w ∨ th = .worker .unlockExit

/-- worker `w` (state `th`) guards the queue: it is registered (or being joined) and will look at the queue again -/
def Guardian (threads : List Tid) (l : List Thread) (w : Tid) (th : Thread) : Prop :=
  isWorker th = true ∧ tailW th = false ∧ (w ∈ threads ∨ isTarget l w)

structure WInv (s : St) : Prop where
  /-- every worker that has not returned is accounted for -/
  reg : ∀ (w : Nat) (th : Thread), s.thr[w]? = some th → isWorker th = true → th ≠ .worker .done → Accounted s.sh.threads s.thr w th
  /-- P5: a non-empty queue has a guardian, or a submitter that is about to create one -/
  guard : s.sh.tasks ≠ [] →
      (∃ (w : Nat) (th : Thread), s.thr[w]? = some th ∧ Guardian s.sh.threads s.thr w th) ∨
      (∃ (t : Nat) (th : Thread), s.thr[t]? = some th ∧ atCreate th = true)
  /-- until shutdown every entry of `_threads` is a worker that has neither removed itself nor returned -/
  live : s.sh.shutdown = false → ∀ w, w ∈ s.sh.threads → ∃ th, s.thr[w]? = some th ∧ isWorker th = true ∧ goneW th = false
  bound : ∀ w, w ∈ s.sh.threads → w < s.thr.length
  nodup : s.sh.threads.Nodup

theorem fresh_class (nt : Thread) (h : isFresh nt = true) :
    targetOf nt = none ∧ True ∧ atCreate nt = false ∧ tailW nt = false ∧ goneW nt = false ∧ nt ≠ .worker .done := by
  cases nt with
  | main pc r => cases pc <;> simp [isFresh] at h; simp [targetOf, atCreate, tailW, goneW]
  | sub x => cases x <;> simp [isFresh] at h; simp [targetOf, atCreate, tailW, goneW]
  | worker w => cases w <;> simp [isFresh] at h; simp [targetOf, atCreate, tailW, goneW]

section plumbing
variable {l0 l : List Thread} {t : Tid} {th th' : Thread} {post : Post}

/-- a target survives the step unless it was the acting thread's and that thread dropped it -/
theorem isTarget_keep (hts : ThreadsStep l0 l t th' post) (hget : l0[t]? = some th) (w : Tid)
    (h : isTarget l0 w) (hk : targetOf th = some w → targetOf th' = some w) : isTarget l w := by
  obtain ⟨j, x, hx, htg⟩ := h
  by_cases e : j = t
  · rw [e] at hx; rw [hget] at hx
    have e2 : th = x := Option.some.inj hx
    rw [← e2] at htg
    exact ⟨t, th', hts.self, hk htg⟩
  · obtain ⟨y, hy, hw⟩ := hts.old j x e hx
    exact ⟨j, y, hy, by rw [(wokeFrom_class hw).2.2.2.2.1]; exact htg⟩

/-- a target after the step was one before (of another thread), or is the acting thread's new one -/
theorem isTarget_back (hts : ThreadsStep l0 l t th' post) (hfresh : ∀ nt, post = .spawn nt → isFresh nt = true) (w : Tid)
    (h : isTarget l w) : targetOf th' = some w ∨ (∃ (j : Nat) (x : Thread), j ≠ t ∧ l0[j]? = some x ∧ targetOf x = some w) := by
  obtain ⟨j, y, hy, htg⟩ := h
  rcases hts.new j y hy with ⟨_, e⟩ | ⟨ne, x, hx, hw⟩ | ⟨nt, hnt, _, e⟩
  · left; rw [← e]; exact htg
  · right; exact ⟨j, x, ne, hx, by rw [← (wokeFrom_class hw).2.2.2.2.1]; exact htg⟩
  · rw [e] at htg; rw [(fresh_class nt (hfresh nt hnt)).1] at htg; cases htg

/-- plumbing for `reg` -/
theorem reg_step {threads threads' : List Tid} (hts : ThreadsStep l0 l t th' post)
    (hreg : ∀ (w : Nat) (x : Thread), l0[w]? = some x → isWorker x = true → x ≠ .worker .done → Accounted threads l0 w x)
    (hself : isWorker th' = true → th' ≠ .worker .done → Accounted threads' l t th')
    (hother : ∀ (w : Nat) (x : Thread), w ≠ t → l0[w]? = some x → isWorker x = true → x ≠ .worker .done →
        Accounted threads l0 w x → Accounted threads' l w x)
    (hspawn : ∀ nt, post = .spawn nt → isWorker nt = true → l0.length ∈ threads') :
    ∀ (w : Nat) (y : Thread), l[w]? = some y → isWorker y = true → y ≠ .worker .done → Accounted threads' l w y := by
  intro w y hy hwk hnd
  rcases hts.new w y hy with ⟨e1, e2⟩ | ⟨ne, x, hx, hwf⟩ | ⟨nt, hnt, e1, e2⟩
  · rw [e1, e2]; rw [e2] at hwk hnd; exact hself hwk hnd
  · have hc := wokeFrom_class hwf
    have hxnd : x ≠ .worker .done := fun e => hnd (hc.2.2.2.2.2.2.1.mpr e)
    have := hother w x ne hx (by rw [← hc.1]; exact hwk) hxnd (hreg w x hx (by rw [← hc.1]; exact hwk) hxnd)
    rcases this with r | r | r
    · exact Or.inl r
    · exact Or.inr (Or.inl r)
    · exact Or.inr (Or.inr (hc.2.2.2.2.2.2.2.mpr r))
  · rw [e2] at hwk; rw [e1]; exact Or.inl (hspawn nt hnt hwk)

/-- plumbing for `guard`: an old guardian / creator other than the acting thread is still there -/
theorem old_thread (hts : ThreadsStep l0 l t th' post) (w : Nat) (x : Thread) (ne : w ≠ t) (hx : l0[w]? = some x) :
    ∃ y, l[w]? = some y ∧ isWorker y = isWorker x ∧ tailW y = tailW x ∧ goneW y = goneW x ∧ atCreate y = atCreate x := by
  obtain ⟨y, hy, hwf⟩ := hts.old w x ne hx
  have hc := wokeFrom_class hwf
  exact ⟨y, hy, hc.1, hc.2.1, hc.2.2.1, hc.2.2.2.1⟩

end plumbing

/-- the step lemma: every kind of step (described by `StepEff` + `ThreadsStep`) keeps the worker-map invariants -/
theorem effMax_pos (cfg : Cfg) : 1 ≤ cfg.effMax := by
  unfold Cfg.effMax; simp only []; (repeat' split) <;> omega

theorem effMax_init (cfg : Cfg) : cfg.initialSize ≤ cfg.effMax := by
  unfold Cfg.effMax; simp only []; (repeat' split) <;> omega

theorem winv_of_eff (cfg : Cfg)
    (s : St) (sh' : Shared) (t : Tid) (th th' : Thread) (post : Post) (alt : Nat) (l : List Thread)
    (hinv : WInv s) (hmx : MutexOk s) (hget : s.thr[t]? = some th) (hnf : isFinished th = false)
    (hen : locksM th = true → s.sh.owner = none)
    (hjoin : ∀ w r, th = .main (.jJoin w) r → ∃ tj, s.thr[w]? = some tj ∧ isFinished tj = true)
    (htgt1 : ∀ (j : Nat) (x : Thread) (w : Tid), s.thr[j]? = some x → targetOf x = some w → targetOf th ≠ none → j = t)
    (hnd0 : ∀ w r, th ≠ .main (.jDetach w) r)
    (hnr : restartTh th = false)
    (heff : StepEff cfg s.sh s.thr.length t th alt sh' th' post)
    (hts : ThreadsStep s.thr l t th' post)
    (hfresh : ∀ nt, post = .spawn nt → isFresh nt = true) :
    WInv { sh := sh', thr := l } := by
  have hmax := effMax_pos cfg
  have hlt : t < s.thr.length := lt_length_of_getElem? hget
  have hth_nd : th ≠ .worker .done := fun e => by rw [e] at hnf; simp [isFinished] at hnf
  have tgt_same : targetOf th' = targetOf th → ∀ w, isTarget l w ↔ isTarget s.thr w := by
    intro htgt w; constructor
    · intro hh
      rcases isTarget_back hts hfresh w hh with e | ⟨j, x, _, hx, htg⟩
      · exact ⟨t, th, hget, by rw [← htgt]; exact e⟩
      · exact ⟨j, x, hx, htg⟩
    · intro hh; exact isTarget_keep hts hget w hh (by rw [htgt]; exact id)
  -- generic proof for steps that keep `_threads` (or extend it), keep all targets and keep the acting thread's class
  have keep_case : ∀ (hthreads : ∀ w, w ∈ s.sh.threads → w ∈ sh'.threads)
      (htgt : targetOf th' = targetOf th) (hw : isWorker th' = isWorker th)
      (hself : isWorker th' = true → th' ≠ .worker .done → Accounted s.sh.threads s.thr t th → Accounted sh'.threads l t th')
      (hspawn : ∀ nt, post = .spawn nt → isWorker nt = true → s.thr.length ∈ sh'.threads),
      ∀ (w : Nat) (y : Thread), l[w]? = some y → isWorker y = true → y ≠ .worker .done → Accounted sh'.threads l w y := by
    intro hthreads htgt hw hself hspawn
    apply reg_step hts hinv.reg
    · intro h1 h2; exact hself h1 h2 (hinv.reg t th hget (by rw [← hw]; exact h1) hth_nd)
    · intro w x _ _ _ _ hacc
      rcases hacc with r | r | r
      · exact Or.inl (hthreads w r)
      · exact Or.inr (Or.inl ((tgt_same htgt w).mpr r))
      · exact Or.inr (Or.inr r)
    · exact hspawn
  -- generic proof of `guard` for steps after which a non-empty queue was non-empty before
  have guard_case : ∀ (htasks : sh'.tasks ≠ [] → s.sh.tasks ≠ []) (hthreads : ∀ w, w ∈ s.sh.threads → w ≠ t → w ∈ sh'.threads)
      (htg : ∀ w, w ≠ t → isTarget s.thr w → isTarget l w)
      (hselfG : Guardian s.sh.threads s.thr t th → (∃ (w : Nat) (y : Thread), l[w]? = some y ∧ Guardian sh'.threads l w y) ∨
          (∃ (j : Nat) (y : Thread), l[j]? = some y ∧ atCreate y = true))
      (hselfC : atCreate th = true → (∃ (w : Nat) (y : Thread), l[w]? = some y ∧ Guardian sh'.threads l w y) ∨
          (∃ (j : Nat) (y : Thread), l[j]? = some y ∧ atCreate y = true)),
      sh'.tasks ≠ [] → (∃ (w : Nat) (y : Thread), l[w]? = some y ∧ Guardian sh'.threads l w y) ∨
          (∃ (j : Nat) (y : Thread), l[j]? = some y ∧ atCreate y = true) := by
    intro htasks hthreads htg hselfG hselfC hne
    rcases hinv.guard (htasks hne) with ⟨w, x, hx, hg⟩ | ⟨j, x, hx, h1⟩
    · by_cases e : w = t
      · rw [e, hget] at hx
        have e2 : th = x := Option.some.inj hx
        rw [e, ← e2] at hg
        exact hselfG hg
      · left
        obtain ⟨y, hy, c1, c2, _, _⟩ := old_thread hts w x e hx
        refine ⟨w, y, hy, by rw [c1]; exact hg.1, by rw [c2]; exact hg.2.1, ?_⟩
        rcases hg.2.2 with r | r
        · exact Or.inl (hthreads w r e)
        · exact Or.inr (htg w e r)
    · by_cases e : j = t
      · rw [e, hget] at hx
        have e2 : th = x := Option.some.inj hx
        rw [← e2] at h1
        exact hselfC h1
      · right
        obtain ⟨y, hy, _, _, _, c4⟩ := old_thread hts j x e hx
        exact ⟨j, y, hy, by rw [c4]; exact h1⟩
  -- generic proof of `live`
  have live_case : ∀ (hs : sh'.shutdown = false → s.sh.shutdown = false)
      (hsub : ∀ w, w ∈ sh'.threads → w ≠ t → w ∈ s.sh.threads ∨ (w = s.thr.length ∧ post = .spawn newWorker))
      (hself : sh'.shutdown = false → t ∈ sh'.threads → isWorker th' = true ∧ goneW th' = false),
      sh'.shutdown = false → ∀ w, w ∈ sh'.threads → ∃ y, l[w]? = some y ∧ isWorker y = true ∧ goneW y = false := by
    intro hs hsub hself hsd w hm
    by_cases e : w = t
    · rw [e] at hm ⊢
      exact ⟨th', hts.self, hself hsd hm⟩
    · rcases hsub w hm e with r | ⟨r1, r2⟩
      · obtain ⟨x, hx, h1, h2⟩ := hinv.live (hs hsd) w r
        obtain ⟨y, hy, c1, _, c3, _⟩ := old_thread hts w x e hx
        exact ⟨y, hy, by rw [c1]; exact h1, by rw [c3]; exact h2⟩
      · rw [r1]
        exact ⟨newWorker, (hts.spawned newWorker r2).1, rfl, rfl⟩
  have worker_no_target : isWorker th = true → targetOf th = none := by
    intro h; cases th with
    | worker w => rfl
    | main pc r => simp [isWorker] at h
    | sub x => simp [isWorker] at h
  have acting_guardian_acc : Guardian s.sh.threads s.thr t th → t ∈ s.sh.threads ∨ isTarget s.thr t := fun h => h.2.2
  cases heff with
  | quiet h hp hc hc' hw htail hgone htgt hdone =>
    refine ⟨?_, ?_, ?_, ?_, ?_⟩
    · apply keep_case (by intro w hm; simp only [h.threads]; exact hm) htgt hw
      · intro _ hnd' hacc
        rcases hacc with r | r | r
        · exact Or.inl (by simp only [h.threads]; exact r)
        · exact Or.inr (Or.inl ((tgt_same htgt t).mpr r))
        · right; right
          have hg : goneW th' = true := by rw [hgone, r]; rfl
          cases th' with
          | worker ws =>
            cases ws <;> simp [goneW] at hg
            · rfl
            · exact absurd rfl hnd'
          | main pc r => simp [goneW] at hg
          | sub z => simp [goneW] at hg
      · intro nt hnt hwk
        rw [(hp nt hnt).1] at hwk; cases hwk
    · apply guard_case (by simp only [h.tasks]; exact id) (by intro w hm _; simp only [h.threads]; exact hm)
        (fun w _ r => (tgt_same htgt w).mpr r)
      · intro hg; left
        refine ⟨t, th', hts.self, by rw [hw]; exact hg.1, by rw [htail]; exact hg.2.1, ?_⟩
        rcases hg.2.2 with r | r
        · exact Or.inl (by simp only [h.threads]; exact r)
        · exact Or.inr ((tgt_same htgt t).mpr r)
      · intro hh; rw [hc] at hh; cases hh
    · apply live_case (by simp only [h.shutdown]; exact id) (by intro w hm _; simp only [h.threads] at hm; exact Or.inl hm)
      intro hsd hm
      simp only [h.threads] at hm; simp only [h.shutdown] at hsd
      obtain ⟨x, hx, h1, h2⟩ := hinv.live hsd t hm
      rw [hget] at hx
      have e2 : th = x := Option.some.inj hx
      rw [← e2] at h1 h2
      exact ⟨by rw [hw]; exact h1, by rw [hgone]; exact h2⟩
    · intro w hm; simp only [h.threads] at hm
      exact Nat.lt_of_lt_of_le (hinv.bound w hm) hts.len
    · simp only [h.threads]; exact hinv.nodup
  | push cid hs ht h2 h3 h4 hp hc hc' hw htail hgone htgt hdone hl =>
    refine ⟨?_, ?_, ?_, ?_, ?_⟩
    · apply keep_case (by intro w hm; simp only [h2]; exact hm) htgt hw
      · intro _ hnd' hacc
        rcases hacc with r | r | r
        · exact Or.inl (by simp only [h2]; exact r)
        · exact Or.inr (Or.inl ((tgt_same htgt t).mpr r))
        · right; right
          have hg : goneW th' = true := by rw [hgone, r]; rfl
          cases th' with
          | worker ws =>
            cases ws <;> simp [goneW] at hg
            · rfl
            · exact absurd rfl hnd'
          | main pc r => simp [goneW] at hg
          | sub z => simp [goneW] at hg
      · intro nt hnt; rw [hp] at hnt; cases hnt
    · intro _
      rcases hc' with ⟨hat, _⟩ | ⟨_, hge⟩
      · right; exact ⟨t, th', hts.self, hat⟩
      · left
        -- `_threads.size() >= _maxSize >= 1`: some registered worker exists; it is live (not shut down) and cannot be
        -- in its exit path, because that would mean it holds the mutex the submitter has just acquired
        have hne : s.sh.threads ≠ [] := by
          intro e; rw [e] at hge; simp at hge; omega
        obtain ⟨w, hwm⟩ := List.exists_mem_of_ne_nil _ hne
        obtain ⟨x, hx, h1, hg⟩ := hinv.live hs w hwm
        have hown := hen hl
        have htl : tailW x = false := by
          cases x with
          | worker ws =>
            cases ws <;> simp [goneW] at hg <;> simp [tailW]
            have := hmx w _ hx detach_holds
            rw [hown] at this; cases this
          | main pc r => simp [isWorker] at h1
          | sub z => simp [isWorker] at h1
        by_cases e : w = t
        · rw [e] at hx hwm; rw [hget] at hx
          have e2 : th = x := Option.some.inj hx
          rw [← e2] at h1 htl
          exact ⟨t, th', hts.self, by rw [hw]; exact h1, by rw [htail]; exact htl, Or.inl (by simp only [h2]; exact hwm)⟩
        · obtain ⟨y, hy, c1, c2, _, _⟩ := old_thread hts w x e hx
          exact ⟨w, y, hy, by rw [c1]; exact h1, by rw [c2]; exact htl, Or.inl (by simp only [h2]; exact hwm)⟩
    · apply live_case (by simp only [h3]; exact id) (by intro w hm _; simp only [h2] at hm; exact Or.inl hm)
      intro _ hm
      simp only [h2] at hm
      obtain ⟨x, hx, h1, hg⟩ := hinv.live hs t hm
      rw [hget] at hx
      have e2 : th = x := Option.some.inj hx
      rw [← e2] at h1 hg
      exact ⟨by rw [hw]; exact h1, by rw [hgone]; exact hg⟩
    · intro w hm; simp only [h2] at hm
      exact Nat.lt_of_lt_of_le (hinv.bound w hm) hts.len
    · simp only [h2]; exact hinv.nodup
  | create hc hc' h1 ht h3 h4 hp hw htail hgone htgt hdone =>
    have hsp := hts.spawned newWorker hp
    have hnew_mem : s.thr.length ∈ sh'.threads := by simp only [ht]; simp
    refine ⟨?_, ?_, ?_, ?_, ?_⟩
    · apply keep_case (by intro w hm; simp only [ht]; exact List.mem_append_left _ hm) htgt hw
      · intro _ hnd' hacc
        rcases hacc with r | r | r
        · exact Or.inl (by simp only [ht]; exact List.mem_append_left _ r)
        · exact Or.inr (Or.inl ((tgt_same htgt t).mpr r))
        · right; right
          have hg : goneW th' = true := by rw [hgone, r]; rfl
          cases th' with
          | worker ws =>
            cases ws <;> simp [goneW] at hg
            · rfl
            · exact absurd rfl hnd'
          | main pc r => simp [goneW] at hg
          | sub z => simp [goneW] at hg
      · intro nt _ _; exact hnew_mem
    · apply guard_case (by simp only [h1]; exact id) (by intro w hm _; simp only [ht]; exact List.mem_append_left _ hm)
        (fun w _ r => (tgt_same htgt w).mpr r)
      · intro hg; left
        refine ⟨t, th', hts.self, by rw [hw]; exact hg.1, by rw [htail]; exact hg.2.1, ?_⟩
        rcases hg.2.2 with r | r
        · exact Or.inl (by simp only [ht]; exact List.mem_append_left _ r)
        · exact Or.inr ((tgt_same htgt t).mpr r)
      · intro _; left
        exact ⟨s.thr.length, newWorker, hsp.1, rfl, rfl, Or.inl hnew_mem⟩
    · apply live_case (by simp only [h3]; exact id)
      · intro w hm _
        simp only [ht] at hm
        rcases List.mem_append.mp hm with r | r
        · exact Or.inl r
        · right; simp at r; exact ⟨r, hp⟩
      · intro hsd hm
        simp only [ht] at hm; simp only [h3] at hsd
        rcases List.mem_append.mp hm with r | r
        · obtain ⟨x, hx, g1, g2⟩ := hinv.live hsd t r
          rw [hget] at hx
          have e2 : th = x := Option.some.inj hx
          rw [← e2] at g1 g2
          exact ⟨by rw [hw]; exact g1, by rw [hgone]; exact g2⟩
        · simp at r; rw [r] at hlt; exact absurd hlt (Nat.lt_irrefl _)
    · intro w hm; simp only [ht] at hm
      rcases List.mem_append.mp hm with r | r
      · exact Nat.lt_of_lt_of_le (hinv.bound w r) hts.len
      · simp at r; rw [r, hsp.2]; exact Nat.lt_succ_self _
    · simp only [ht]
      rw [List.nodup_append]
      refine ⟨hinv.nodup, by simp, ?_⟩
      intro a ha b hb
      simp at hb; rw [hb]
      intro e; rw [e] at ha
      exact Nat.lt_irrefl _ (hinv.bound _ ha)
  | exitIdle h hp hth he hs hw =>
    have htgt : targetOf th' = targetOf th := by
      rw [worker_no_target hth.1]; rcases hw with ⟨e, _⟩ | ⟨e, _⟩ <;> rw [e] <;> rfl
    have hwk : isWorker th' = isWorker th := by
      rw [hth.1]; rcases hw with ⟨e, _⟩ | ⟨e, _⟩ <;> rw [e] <;> rfl
    refine ⟨?_, ?_, ?_, ?_, ?_⟩
    · apply keep_case (by intro w hm; simp only [h.threads]; exact hm) htgt hwk
      · intro _ _ _
        rcases hw with ⟨e, hm⟩ | ⟨e, _⟩
        · exact Or.inl (by simp only [h.threads]; exact hm)
        · exact Or.inr (Or.inr e)
      · intro nt hnt; rw [hp] at hnt; cases hnt
    · intro hne; simp only [h.tasks] at hne; exact absurd he hne
    · apply live_case (by simp only [h.shutdown]; exact id) (by intro w hm _; simp only [h.threads] at hm; exact Or.inl hm)
      intro _ hm
      simp only [h.threads] at hm
      rcases hw with ⟨e, _⟩ | ⟨_, hnm⟩
      · rw [e]; exact ⟨rfl, rfl⟩
      · exact absurd hm hnm
    · intro w hm; simp only [h.threads] at hm
      exact Nat.lt_of_lt_of_le (hinv.bound w hm) hts.len
    · simp only [h.threads]; exact hinv.nodup
  | exitShutdown h hp hth he hs hw =>
    have htgt : targetOf th' = targetOf th := by rw [worker_no_target hth.1, hw]; rfl
    have hwk : isWorker th' = isWorker th := by rw [hth.1, hw]; rfl
    refine ⟨?_, ?_, ?_, ?_, ?_⟩
    · apply keep_case (by intro w hm; simp only [h.threads]; exact hm) htgt hwk
      · intro _ _ _; exact Or.inr (Or.inr hw)
      · intro nt hnt; rw [hp] at hnt; cases hnt
    · intro hne; simp only [h.tasks] at hne; exact absurd he hne
    · intro hsd; simp only [h.shutdown] at hsd; rw [hs] at hsd; cases hsd
    · intro w hm; simp only [h.threads] at hm
      exact Nat.lt_of_lt_of_le (hinv.bound w hm) hts.len
    · simp only [h.threads]; exact hinv.nodup
  | pop tid ht h2 h3 h4 hp hth hw =>
    have htgt : targetOf th' = targetOf th := by rw [worker_no_target hth.1, hw]; rfl
    have hwk : isWorker th' = isWorker th := by rw [hth.1, hw]; rfl
    have hacc : t ∈ s.sh.threads ∨ isTarget s.thr t := by
      rcases hinv.reg t th hget hth.1 hth_nd with r | r | r
      · exact Or.inl r
      · exact Or.inr r
      · rw [r] at hth; simp [tailW] at hth
    refine ⟨?_, ?_, ?_, ?_, ?_⟩
    · apply keep_case (by intro w hm; simp only [h2]; exact hm) htgt hwk
      · intro _ _ _
        rcases hacc with r | r
        · exact Or.inl (by simp only [h2]; exact r)
        · exact Or.inr (Or.inl ((tgt_same htgt t).mpr r))
      · intro nt hnt; rw [hp] at hnt; cases hnt
    · intro _; left
      refine ⟨t, th', hts.self, by rw [hw]; rfl, by rw [hw]; rfl, ?_⟩
      rcases hacc with r | r
      · exact Or.inl (by simp only [h2]; exact r)
      · exact Or.inr ((tgt_same htgt t).mpr r)
    · apply live_case (by simp only [h3]; exact id) (by intro w hm _; simp only [h2] at hm; exact Or.inl hm)
      intro _ _; rw [hw]; exact ⟨rfl, rfl⟩
    · intro w hm; simp only [h2] at hm
      exact Nat.lt_of_lt_of_le (hinv.bound w hm) hts.len
    · simp only [h2]; exact hinv.nodup
  | selfErase hth hw h1 ht h3 h4 hp =>
    have htgt : targetOf th' = targetOf th := by rw [hth, hw]; rfl
    refine ⟨?_, ?_, ?_, ?_, ?_⟩
    · apply reg_step hts hinv.reg
      · intro _ _; exact Or.inr (Or.inr hw)
      · intro w x ne _ _ _ hacc
        rcases hacc with r | r | r
        · exact Or.inl (by simp only [ht]; exact (List.mem_erase_of_ne ne).mpr r)
        · exact Or.inr (Or.inl ((tgt_same htgt w).mpr r))
        · exact Or.inr (Or.inr r)
      · intro nt hnt; rw [hp] at hnt; cases hnt
    · apply guard_case (by simp only [h1]; exact id)
        (by intro w hm ne; simp only [ht]; exact (List.mem_erase_of_ne ne).mpr hm)
        (fun w _ r => (tgt_same htgt w).mpr r)
      · intro hg; rw [hth] at hg; have := hg.2.1; simp [tailW] at this
      · intro hh; rw [hth] at hh; simp [atCreate] at hh
    · apply live_case (by simp only [h3]; exact id)
        (by intro w hm _; simp only [ht] at hm; exact Or.inl (List.mem_of_mem_erase hm))
      intro _ hm
      simp only [ht] at hm
      exact absurd hm (List.Nodup.not_mem_erase hinv.nodup)
    · intro w hm; simp only [ht] at hm
      exact Nat.lt_of_lt_of_le (hinv.bound w (List.mem_of_mem_erase hm)) hts.len
    · simp only [ht]; exact hinv.nodup.erase _
  | finishW hth hw h hp =>
    have htgt : targetOf th' = targetOf th := by rw [hth, hw]; rfl
    have hwk : isWorker th' = isWorker th := by rw [hth, hw]; rfl
    refine ⟨?_, ?_, ?_, ?_, ?_⟩
    · apply keep_case (by intro w hm; simp only [h.threads]; exact hm) htgt hwk
      · intro _ hnd' _; exact absurd hw hnd'
      · intro nt hnt; rw [hp] at hnt; cases hnt
    · apply guard_case (by simp only [h.tasks]; exact id) (by intro w hm _; simp only [h.threads]; exact hm)
        (fun w _ r => (tgt_same htgt w).mpr r)
      · intro hg; rw [hth] at hg; have := hg.2.1; simp [tailW] at this
      · intro hh; rw [hth] at hh; simp [atCreate] at hh
    · apply live_case (by simp only [h.shutdown]; exact id) (by intro w hm _; simp only [h.threads] at hm; exact Or.inl hm)
      intro hsd hm
      simp only [h.threads] at hm; simp only [h.shutdown] at hsd
      obtain ⟨x, hx, _, g2⟩ := hinv.live hsd t hm
      rw [hget] at hx
      have e2 : th = x := Option.some.inj hx
      rw [← e2, hth] at g2; simp [goneW] at g2
    · intro w hm; simp only [h.threads] at hm
      exact Nat.lt_of_lt_of_le (hinv.bound w hm) hts.len
    · simp only [h.threads]; exact hinv.nodup
  | pick r hth hw ha h1 ht h3 h4 hp =>
    have tgt_alt : isTarget l alt := ⟨t, th', hts.self, by rw [hw]; rfl⟩
    have tgt_keep : ∀ w, isTarget s.thr w → isTarget l w := by
      intro w hh; exact isTarget_keep hts hget w hh (by rw [hth]; intro e; simp [targetOf] at e)
    refine ⟨?_, ?_, ?_, ?_, ?_⟩
    · apply reg_step hts hinv.reg
      · intro hwk; rw [hw] at hwk; simp [isWorker] at hwk
      · intro w x _ _ _ _ hacc
        rcases hacc with r1 | r1 | r1
        · by_cases e : w = alt
          · rw [e]; exact Or.inr (Or.inl tgt_alt)
          · exact Or.inl (by simp only [ht]; exact (List.mem_erase_of_ne e).mpr r1)
        · exact Or.inr (Or.inl (tgt_keep w r1))
        · exact Or.inr (Or.inr r1)
      · intro nt hnt; rw [hp] at hnt; cases hnt
    · intro hne
      simp only [h1] at hne
      rcases hinv.guard hne with ⟨w, x, hx, hg⟩ | ⟨j, x, hx, g1⟩
      · left
        have ne : w ≠ t := by
          intro e; rw [e, hget] at hx
          have e2 : th = x := Option.some.inj hx
          rw [← e2, hth] at hg; have := hg.1; simp [isWorker] at this
        obtain ⟨y, hy, c1, c2, _, _⟩ := old_thread hts w x ne hx
        refine ⟨w, y, hy, by rw [c1]; exact hg.1, by rw [c2]; exact hg.2.1, ?_⟩
        rcases hg.2.2 with r1 | r1
        · by_cases e : w = alt
          · rw [e]; exact Or.inr tgt_alt
          · exact Or.inl (by simp only [ht]; exact (List.mem_erase_of_ne e).mpr r1)
        · exact Or.inr (tgt_keep w r1)
      · right
        have ne : j ≠ t := by
          intro e; rw [e, hget] at hx
          have e2 : th = x := Option.some.inj hx
          rw [← e2, hth] at g1; simp [atCreate] at g1
        obtain ⟨y, hy, _, _, _, c4⟩ := old_thread hts j x ne hx
        exact ⟨j, y, hy, by rw [c4]; exact g1⟩
    · apply live_case (by simp only [h3]; exact id)
        (by intro w hm _; simp only [ht] at hm; exact Or.inl (List.mem_of_mem_erase hm))
      intro hsd hm
      simp only [ht] at hm; simp only [h3] at hsd
      obtain ⟨x, hx, g1, _⟩ := hinv.live hsd t (List.mem_of_mem_erase hm)
      rw [hget] at hx
      have e2 : th = x := Option.some.inj hx
      rw [← e2, hth] at g1; simp [isWorker] at g1
    · intro w hm; simp only [ht] at hm
      exact Nat.lt_of_lt_of_le (hinv.bound w (List.mem_of_mem_erase hm)) hts.len
    · simp only [ht]; exact hinv.nodup.erase _
  | quiesce r hth hw he h1 ht h3 h4 hp =>
    have htgt : targetOf th' = targetOf th := by rw [hth, hw]; rfl
    have hwk : isWorker th' = isWorker th := by rw [hth, hw]; rfl
    refine ⟨?_, ?_, ?_, ?_, ?_⟩
    · apply keep_case (by intro w hm; simp only [ht]; exact hm) htgt hwk
      · intro hh; rw [hw] at hh; simp [isWorker] at hh
      · intro nt hnt; rw [hp] at hnt; cases hnt
    · apply guard_case (by simp only [h1]; exact id) (by intro w hm _; simp only [ht]; exact hm)
        (fun w _ r => (tgt_same htgt w).mpr r)
      · intro hg; rw [hth] at hg; have := hg.1; simp [isWorker] at this
      · intro hh; rw [hth] at hh; simp [atCreate] at hh
    · apply live_case (by simp only [h3]; exact id) (by intro w hm _; simp only [ht] at hm; exact Or.inl hm)
      intro _ hm; simp only [ht] at hm; rw [he] at hm; cases hm
    · intro w hm; simp only [ht] at hm
      exact Nat.lt_of_lt_of_le (hinv.bound w hm) hts.len
    · simp only [ht]; exact hinv.nodup
  | joined w0 r hth hw h hp =>
    have hth' : th = .main (.jJoin w0) r := by
      rcases hth with e | e
      · exact e
      · exact absurd e (hnd0 w0 r)
    obtain ⟨tj, htj, hfin⟩ := hjoin w0 r hth'
    -- the only target before the step is `w0`
    have only_w0 : ∀ w, isTarget s.thr w → w = w0 := by
      intro w ⟨j, x, hx, htg⟩
      have hj := htgt1 j x w hx htg (by rw [hth']; simp [targetOf])
      rw [hj, hget] at hx
      have e2 : th = x := Option.some.inj hx
      rw [← e2, hth'] at htg; simp [targetOf] at htg; exact htg.symm
    refine ⟨?_, ?_, ?_, ?_, ?_⟩
    · apply reg_step hts hinv.reg
      · intro hwk; rw [hw] at hwk; simp [isWorker] at hwk
      · intro w x _ hx hwk hxnd hacc
        rcases hacc with r1 | r1 | r1
        · exact Or.inl (by simp only [h.threads]; exact r1)
        · exfalso
          rw [only_w0 w r1, htj] at hx
          have e2 : tj = x := Option.some.inj hx
          rw [← e2] at hwk hxnd
          exact hxnd (finished_worker tj hfin hwk)
        · exact Or.inr (Or.inr r1)
      · intro nt hnt; rw [hp] at hnt; cases hnt
    · intro hne
      simp only [h.tasks] at hne
      rcases hinv.guard hne with ⟨w, x, hx, hg⟩ | ⟨j, x, hx, g1⟩
      · left
        have ne : w ≠ t := by
          intro e; rw [e, hget] at hx
          have e2 : th = x := Option.some.inj hx
          rw [← e2, hth'] at hg; have := hg.1; simp [isWorker] at this
        obtain ⟨y, hy, c1, c2, _, _⟩ := old_thread hts w x ne hx
        refine ⟨w, y, hy, by rw [c1]; exact hg.1, by rw [c2]; exact hg.2.1, ?_⟩
        rcases hg.2.2 with r1 | r1
        · exact Or.inl (by simp only [h.threads]; exact r1)
        · exfalso
          rw [only_w0 w r1, htj] at hx
          have e2 : tj = x := Option.some.inj hx
          rw [← e2] at hg
          have := finished_worker tj hfin hg.1
          rw [this] at hg; have := hg.2.1; simp [tailW] at this
      · right
        have ne : j ≠ t := by
          intro e; rw [e, hget] at hx
          have e2 : th = x := Option.some.inj hx
          rw [← e2, hth'] at g1; simp [atCreate] at g1
        obtain ⟨y, hy, _, _, _, c4⟩ := old_thread hts j x ne hx
        exact ⟨j, y, hy, by rw [c4]; exact g1⟩
    · apply live_case (by simp only [h.shutdown]; exact id) (by intro w hm _; simp only [h.threads] at hm; exact Or.inl hm)
      intro hsd hm
      simp only [h.threads] at hm; simp only [h.shutdown] at hsd
      obtain ⟨x, hx, g1, _⟩ := hinv.live hsd t hm
      rw [hget] at hx
      have e2 : th = x := Option.some.inj hx
      rw [← e2, hth'] at g1; simp [isWorker] at g1
    · intro w hm; simp only [h.threads] at hm
      exact Nat.lt_of_lt_of_le (hinv.bound w hm) hts.len
    · simp only [h.threads]; exact hinv.nodup
  | restart hth => rw [hnr] at hth; cases hth
  | setShut r r' hth hw hs h1 ht h3 h4 hp =>
    have htgt : targetOf th' = targetOf th := by rw [hth, hw]; rfl
    have hwk : isWorker th' = isWorker th := by rw [hth, hw]; rfl
    refine ⟨?_, ?_, ?_, ?_, ?_⟩
    · apply keep_case (by intro w hm; simp only [ht]; exact hm) htgt hwk
      · intro hh; rw [hw] at hh; simp [isWorker] at hh
      · intro nt hnt; rw [hp] at hnt; cases hnt
    · apply guard_case (by simp only [h1]; exact id) (by intro w hm _; simp only [ht]; exact hm)
        (fun w _ r => (tgt_same htgt w).mpr r)
      · intro hg; rw [hth] at hg; have := hg.1; simp [isWorker] at this
      · intro hh; rw [hth] at hh; simp [atCreate] at hh
    · intro hsd; simp only [h3] at hsd; cases hsd
    · intro w hm; simp only [ht] at hm
      exact Nat.lt_of_lt_of_le (hinv.bound w hm) hts.len
    · simp only [ht]; exact hinv.nodup

end Iora.ThreadPool
