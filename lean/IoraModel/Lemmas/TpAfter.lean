import IoraModel.Lemmas.TpAll
/-!
# C09 — after a join loop has completed nothing starts any more; at that point every accepted task has run exactly once
-/
namespace Iora.ThreadPool

theorem callStep_startCnt (cfg : Cfg) (sh : Shared) (n t : Nat) (c : CallSt) : (callStep cfg sh n t c).1.startCnt = sh.startCnt := by
  cases c with
  | yield_ sc =>
    cases sc with
    | nil => rfl
    | cons a rest => simp only [callStep]; split <;> rfl
  | inCall rest cid e => cases e <;> simp only [callStep] <;> (repeat' split) <;> rfl

theorem bodyEnd_startCnt (cfg : Cfg) (sh : Shared) (id : Nat) : (bodyEnd cfg sh id).1.startCnt = sh.startCnt := by
  unfold bodyEnd; split <;> rfl

theorem afterWait_startCnt (cfg : Cfg) (sh : Shared) (t : Tid) (res : Bool) : (afterWait cfg sh t res).1.startCnt = sh.startCnt := by
  unfold afterWait; (repeat' split) <;> rfl

theorem reacq_startCnt (cfg : Cfg) (sh : Shared) (t : Tid) (late : Bool) : (reacq cfg sh t late).1.startCnt = sh.startCnt := by
  unfold reacq; (repeat' split) <;> simp [afterWait_startCnt]

/-- a body starts only in a step of a worker that has a popped task in hand -/
theorem transW_startCnt (cfg : Cfg) (sh : Shared) (n t : Nat) (w : WSt) :
    (transW cfg sh n t w).1.startCnt = sh.startCnt ∨ (∃ id, w = .unlockTask id) ∨ (∃ id, w = .popped id) := by
  cases w with
  | unlockTask id => right; left; exact ⟨id, rfl⟩
  | popped id => right; right; exact ⟨id, rfl⟩
  | body id c =>
    left; simp only [transW]
    cases hx : (callStep cfg sh n t c).2.1 with
    | more c' => exact callStep_startCnt cfg sh n t c
    | done => simp only []; rw [bodyEnd_startCnt]; exact callStep_startCnt cfg sh n t c
  | lock => left; simp only [transW]; split <;> simp [afterWait_startCnt]
  | bYield id sc => left; simp only [transW]; split <;> simp [bodyEnd_startCnt]
  | cfgUnlock id again => left; simp only [transW, taskDone]; split <;> rfl
  | _ => left; simp [transW, taskDone]

theorem transS_startCnt (cfg : Cfg) (sh : Shared) (n t : Nat) (x : SSt) : (transS cfg sh n t x).1.startCnt = sh.startCnt := by
  cases x with
  | run c => simp only [transS]; cases hx : (callStep cfg sh n t c).2.1 <;> exact callStep_startCnt cfg sh n t c
  | start sc => simp only [transS]; split <;> rfl
  | done => rfl

theorem pollExit_startCnt (sh : Shared) (r : MRegs) (k : Poll) (d : Bool) : (pollExit sh r k d).1.startCnt = sh.startCnt := by
  unfold pollExit drainReturn; (repeat' split) <;> rfl
theorem pollHead_startCnt (sh : Shared) (r : MRegs) (k : Poll) : (pollHead sh r k).1.startCnt = sh.startCnt := by
  unfold pollHead; split
  · rfl
  · exact pollExit_startCnt sh r k false
theorem stepMYield_startCnt (cfg : Cfg) (sh : Shared) (r : MRegs) : (stepMYield cfg sh r).1.startCnt = sh.startCnt := by
  unfold stepMYield drainEnter; (repeat' split) <;> rfl
theorem drainReturn_startCnt (sh : Shared) (r : MRegs) (b : Bool) : (drainReturn sh r b).1.startCnt = sh.startCnt := by
  unfold drainReturn; (repeat' split) <;> rfl
theorem shutdownReturn_startCnt (sh : Shared) (r : MRegs) : (shutdownReturn sh r).1.startCnt = sh.startCnt := by
  unfold shutdownReturn; (repeat' split) <;> rfl
theorem dtorReturn_startCnt (sh : Shared) (r : MRegs) : (dtorReturn sh r).1.startCnt = sh.startCnt := by
  unfold dtorReturn; rfl
theorem dtorEarly_startCnt (sh : Shared) (r : MRegs) : (dtorEarly sh r).1.startCnt = sh.startCnt := by
  unfold dtorEarly; split <;> simp [dtorReturn_startCnt]

theorem transM_startCnt (cfg : Cfg) (sh : Shared) (n t : Nat) (pc : MPc) (r : MRegs) (alt : Nat) :
    (transM cfg sh n t pc r alt).1.startCnt = sh.startCnt := by
  cases pc with
  | inCall c => simp only [transM]; cases hx : (callStep cfg sh n t c).2.1 <;> exact callStep_startCnt cfg sh n t c
  | _ =>
    simp only [transM] <;> (repeat' split) <;>
    simp [pollExit_startCnt, pollHead_startCnt, stepMYield_startCnt, drainReturn_startCnt, shutdownReturn_startCnt, dtorReturn_startCnt, dtorEarly_startCnt]

theorem trans_startCnt (cfg : Cfg) (sh : Shared) (n t : Nat) (th : Thread) (alt : Nat) :
    (trans cfg sh n t th alt).1.startCnt = sh.startCnt ∨ (∃ id, th = .worker (.unlockTask id)) ∨ (∃ id, th = .worker (.popped id)) := by
  cases th with
  | main pc r => left; exact transM_startCnt cfg sh n t pc r alt
  | sub x => left; exact transS_startCnt cfg sh n t x
  | worker w =>
    rcases transW_startCnt cfg sh n t w with h | ⟨id, h⟩ | ⟨id, h⟩
    · left; exact h
    · right; left; exact ⟨id, by rw [h]⟩
    · right; right; exact ⟨id, by rw [h]⟩

/-- every step keeps `quiesced` once it is set -/
theorem stepEff_quiesced (cfg : Cfg) (sh : Shared) (n t : Nat) (th : Thread) (alt : Nat) (sh' : Shared) (th' : Thread) (post : Post)
    (h : StepEff cfg sh n t th alt sh' th' post) (hnr : restartTh th = false) (hq : sh.quiesced = true) : sh'.quiesced = true := by
  cases h with
  | quiet h => rw [h.quiesced]; exact hq
  | push _ _ _ _ _ h4 => rw [h4]; exact hq
  | create _ _ _ _ _ h4 => rw [h4]; exact hq
  | exitIdle h => rw [h.quiesced]; exact hq
  | exitShutdown h => rw [h.quiesced]; exact hq
  | pop _ _ _ _ h4 => rw [h4]; exact hq
  | selfErase _ _ _ _ _ h4 => rw [h4]; exact hq
  | finishW _ _ h => rw [h.quiesced]; exact hq
  | pick _ _ _ _ _ _ _ h4 => rw [h4]; exact hq
  | quiesce _ _ _ _ _ _ _ h4 => exact h4
  | joined _ _ _ _ h => rw [h.quiesced]; exact hq
  | setShut _ _ _ _ _ _ _ _ h4 => rw [h4]; exact hq
  | restart hth => rw [hth] at hnr; cases hnr

/-- P3 (one step): from a state in which a join loop has completed, no step starts a task body -/
theorem quiet_step (cfg : Cfg) (s : St) (c : Choice) (hq : s.sh.quiesced = true) (hQ : QOk s) (hN : NoRs s) :
    (step cfg s c).sh.quiesced = true ∧ (step cfg s c).sh.startCnt = s.sh.startCnt := by
  have Q := hQ hq
  apply step_cases cfg s c (fun s' => s'.sh.quiesced = true ∧ s'.sh.startCnt = s.sh.startCnt)
  · exact ⟨hq, rfl⟩
  · intro t th b _ _; exact ⟨hq, rfl⟩
  · intro t th to late _ _ _
    exact ⟨by rw [(reacq_flags cfg s.sh t late).quiesced]; exact hq, reacq_startCnt cfg s.sh t late⟩
  · intro t th alt l hget _ _ _ _ _
    refine ⟨stepEff_quiesced cfg s.sh s.thr.length t th alt _ _ _ (trans_eff cfg s.sh s.thr.length t th alt) (hN t th hget) hq, ?_⟩
    rcases trans_startCnt cfg s.sh s.thr.length t th alt with h | ⟨id, h⟩ | ⟨id, h⟩
    · exact h
    · have := (Q.thr t th hget).2 (by rw [h]; rfl); rw [h] at this; simp [goneW] at this
    · have := (Q.thr t th hget).2 (by rw [h]; rfl); rw [h] at this; simp [goneW] at this

theorem quiet_no_hand (s : St) (Q : Quiet s) (id : Nat) : handCnt s.thr id = 0 ∧ runCnt s.thr id = 0 := by
  have hc : ∀ th, th ∈ s.thr → cur th = none ∧ running th = none := by
    intro th hm
    obtain ⟨t, hlt, hget⟩ := List.getElem_of_mem hm
    have hq := (Q.thr t th (by rw [List.getElem?_eq_getElem hlt, hget])).2
    cases th with
    | main pc r => exact ⟨rfl, rfl⟩
    | sub x => exact ⟨rfl, rfl⟩
    | worker w =>
      have := hq rfl
      cases w <;> simp [goneW] at this <;> exact ⟨rfl, rfl⟩
  constructor
  · simp only [handCnt]
    rw [List.countP_eq_zero]
    intro th hm; simp [(hc th hm).1]
  · simp only [runCnt]
    rw [List.countP_eq_zero]
    intro th hm; simp [(hc th hm).2]

end Iora.ThreadPool
