import IoraModel.Lemmas.EngineSteps
/-!
# An accepted close() request is honoured (C02, T2 while running - review F3)

`Hon sid g`: the id is closed already, or a `Close sid` command issued by the application is still pending in the I/O thread's work
list (`batch ++ queue`, the FIFO order in which process() takes commands) and NO Connect / Via command for the same id stands behind
it.  Every step of both engines preserves it for an id the application has seen; when the command reaches the head of the list the
session is in the table (its Connect was queued earlier and has been processed) or the id is closed, so `closeCmd` closes it.
-/
namespace Iora.Lifecycle

/-- the trace only grows -/
def TrExt (t0 : List Out) (g : G) : Prop := ∃ ext, g.tr = t0 ++ ext

theorem TrExt.refl (g : G) : TrExt g.tr g := ⟨[], by simp⟩
theorem TrExt.emit {t0 : List Out} {g : G} (o : Out) (h : TrExt t0 g) : TrExt t0 (emit o g) := by
  obtain ⟨e, he⟩ := h; exact ⟨e ++ [o], by simp [Iora.Lifecycle.emit, he]⟩
theorem TrExt.same {t0 : List Out} {g g' : G} (h : TrExt t0 g) (ht : g'.tr = g.tr) : TrExt t0 g' := by
  obtain ⟨e, he⟩ := h; exact ⟨e, by rw [ht, he]⟩
theorem TrExt.trans {t0 : List Out} {g g' : G} (h : TrExt t0 g) (h2 : TrExt g.tr g') : TrExt t0 g' := by
  obtain ⟨e, he⟩ := h; obtain ⟨e2, he2⟩ := h2; exact ⟨e ++ e2, by rw [he2, he]; simp⟩

/-- the handlers (everything after the pop) leave the work list alone and only append to the trace -/
def Fr (b q : List Cmd) (t0 : List Out) (g : G) : Prop := g.batch = b ∧ g.queue = q ∧ TrExt t0 g

theorem fr_of (g : G) : Fr g.batch g.queue g.tr g := ⟨rfl, rfl, TrExt.refl g⟩

theorem Fr.emit {b q : List Cmd} {t0 : List Out} {g : G} (o : Out) (h : Fr b q t0 g) : Fr b q t0 (emit o g) :=
  ⟨h.1, h.2.1, h.2.2.emit o⟩
theorem Fr.same {b q : List Cmd} {t0 : List Out} {g g' : G} (h : Fr b q t0 g) (hb : g'.batch = g.batch) (hq : g'.queue = g.queue)
    (ht : g'.tr = g.tr) : Fr b q t0 g' := ⟨hb.trans h.1, hq.trans h.2.1, h.2.2.same ht⟩

instance (b q : List Cmd) (t0 : List Out) : Closed0 (Fr b q t0) where
  closeNow := by
    intro sid site g h; unfold closeNow; split
    · exact h
    · split
      · exact h
      · exact Fr.emit _ (h.same rfl rfl rfl)
  failConnect := by
    intro site g h; unfold failConnect; split
    · exact h.same rfl rfl rfl
    · exact Fr.emit _ (h.same rfl rfl rfl)
  insertCur := by intro t k o g h; unfold insertCur; split <;> exact h.same rfl rfl rfl
  acceptFresh := by intro t k o g h; unfold acceptFresh; exact Fr.emit _ (h.same rfl rfl rfl)
  burnId := by intro g h; exact h.same rfl rfl rfl
  announceConnect := by
    intro sid c g h; unfold announceConnect withLive; split
    · exact h.same rfl rfl rfl
    · split
      · exact h.same rfl rfl rfl
      · exact Fr.emit _ (h.same rfl rfl rfl)
  dataCb := by
    intro sid g h; unfold dataCb withLive; split
    · exact h.same rfl rfl rfl
    · split
      · exact h.same rfl rfl rfl
      · exact Fr.emit _ (h.same rfl rfl rfl)
  setWq := by
    intro sid n g h; unfold setWq withLive; split
    · exact h.same rfl rfl rfl
    · split <;> exact h.same rfl rfl rfl
  viaIndex := by
    intro sid k g h; unfold viaIndex withLive; split
    · exact h.same rfl rfl rfl
    · split
      · exact h.same rfl rfl rfl
      · dsimp only; split <;> exact h.same rfl rfl rfl
  stale := by intro g h; exact h.same rfl rfl rfl
  bp := by intro n g h; exact h.same rfl rfl rfl
  listeners := by intro l g h; exact h.same rfl rfl rfl
  running := by intro b g h; exact h.same rfl rfl rfl

/-! ## membership in the projections of the trace is monotone -/
theorem closes_mono {t0 : List Out} {g : G} (h : TrExt t0 g) {sid : Sid} (hm : sid ∈ closesOf t0) : sid ∈ closesOf g.tr := by
  obtain ⟨e, he⟩ := h; rw [he]; unfold closesOf at *; rw [List.filterMap_append]; exact List.mem_append_left _ hm
theorem ret_mono {t0 : List Out} {g : G} (h : TrExt t0 g) {sid : Sid} (hm : sid ∈ retOf t0) : sid ∈ retOf g.tr := by
  obtain ⟨e, he⟩ := h; rw [he]; unfold retOf at *; rw [List.filterMap_append]; exact List.mem_append_left _ hm
theorem ann_mono {t0 : List Out} {g : G} (h : TrExt t0 g) {sid : Sid} (hm : sid ∈ annOf t0) : sid ∈ annOf g.tr := by
  obtain ⟨e, he⟩ := h; rw [he]; unfold annOf at *; rw [List.filterMap_append]; exact List.mem_append_left _ hm

/-- the application has seen the id: connect()/connectViaListener() returned it, or an accept / connect callback announced it -/
def Seen (sid : Sid) (g : G) : Prop := sid ∈ retOf g.tr ∨ sid ∈ annOf g.tr

theorem Seen.mono {sid : Sid} {g g' : G} (h : Seen sid g) (ht : TrExt g.tr g') : Seen sid g' := by
  rcases h with h | h
  · exact Or.inl (ret_mono ht h)
  · exact Or.inr (ann_mono ht h)

theorem Seen.lt {sid : Sid} {g : G} (h : Seen sid g) (hi : Inv g) : sid < g.nextId := by
  rcases h with h | h
  · rcases hi.ret_dom sid h with h1 | ⟨s, hs⟩ | h3
    · exact hi.pend_lt sid h1
    · exact hi.tbl_lt sid s hs
    · exact hi.cl_lt sid h3
  · exact hi.ann_lt sid h

/-- **the close request is pending or honoured** -/
def Hon (sid : Sid) (g : G) : Prop :=
  sid ∈ closesOf g.tr ∨ ∃ pre post, g.batch ++ g.queue = pre ++ Cmd.close sid .app :: post ∧ sid ∉ connSids post

/-- the work list grew at its tail by commands that are not a connect of `sid`; the trace grew -/
theorem Hon.grow {sid : Sid} {g g' : G} (h : Hon sid g) (tail : List Cmd) (hq : g'.batch ++ g'.queue = g.batch ++ g.queue ++ tail)
    (ht : sid ∉ connSids tail) (htr : TrExt g.tr g') : Hon sid g' := by
  rcases h with h | ⟨pre, post, he, hn⟩
  · exact Or.inl (closes_mono htr h)
  · refine Or.inr ⟨pre, post ++ tail, by rw [hq, he]; simp, ?_⟩
    unfold connSids at *
    rw [List.filterMap_append]
    intro hm
    rcases List.mem_append.1 hm with h1 | h1
    · exact hn h1
    · exact ht h1

theorem Hon.of_fr {sid : Sid} {g g' : G} (h : Hon sid g) (hf : Fr g.batch g.queue g.tr g') : Hon sid g' :=
  h.grow [] (by rw [hf.1, hf.2.1]; simp) (by simp [connSids]) hf.2.2

/-- the head of the work list was taken and handled: the request itself (then the id must be closed now), or an earlier command -/
theorem Hon.pop {sid : Sid} {g g' : G} (h : Hon sid g) (c : Cmd) (rest : List Cmd) (hb : g.batch = c :: rest)
    (hf : Fr rest g.queue g.tr g') (hclose : c = Cmd.close sid .app → sid ∉ connSids (rest ++ g.queue) → sid ∈ closesOf g'.tr) :
    Hon sid g' := by
  rcases h with h | ⟨pre, post, he, hn⟩
  · exact Or.inl (closes_mono hf.2.2 h)
  · rw [hb] at he
    cases pre with
    | nil =>
      simp only [List.nil_append, List.cons_append, List.cons.injEq] at he
      obtain ⟨hc, hr⟩ := he
      exact Or.inl (hclose hc (by rw [hr]; exact hn))
    | cons p pre' =>
      simp only [List.cons_append, List.cons.injEq] at he
      exact Or.inr ⟨pre', post, by rw [hf.1, hf.2.1]; exact he.2, hn⟩

/-- when the request is at the head and no connect of the id is pending, the session is in the table and open (or the id is
closed): the `Cmd::Close` arm closes it -/
theorem closeCmd_honours {sid : Sid} {g : G} (hi : Inv g) (hseen : Seen sid g) (hp : sid ∉ pend g) :
    sid ∈ closesOf (closeCmd sid .app g).tr := by
  have hcl : ∀ g' : G, g'.tr = g.tr → sid ∈ closesOf g.tr → sid ∈ closesOf g'.tr := fun g' e h => by rw [e]; exact h
  have key : (∃ s, g.table sid = some s) ∨ sid ∈ closesOf g.tr := by
    rcases hseen with h | h
    · rcases hi.ret_dom sid h with h1 | h2 | h3
      · exact absurd h1 hp
      · exact Or.inl h2
      · exact Or.inr h3
    · exact hi.ann_dom sid h
  unfold closeCmd
  rcases key with ⟨s, hs⟩ | h3
  · rw [hs]; dsimp only
    unfold closeNow
    rw [hs]; dsimp only
    cases hc : s.closed with
    | true => simp only [if_true]; exact (hi.tbl_cl sid s hs).1 hc
    | false =>
      simp only [Bool.false_eq_true, if_false]
      simp [emit, closesOf, closeSid, List.filterMap_append]
  · have : TrExt g.tr (closeCmd sid .app g) := (closeCmd_pres (P := Fr g.batch g.queue g.tr) sid .app g (fr_of g)).2.2
    unfold closeCmd at this
    exact closes_mono this h3

/-! ## the shared steps -/

theorem drainClose_fr (sid : Sid) (g : G) : Fr g.batch g.queue g.tr (drainClose sid g) := by
  unfold drainClose; split
  · exact fr_of g
  · split
    · exact fr_of g
    · exact Fr.emit _ ((fr_of g).same rfl rfl rfl)

theorem drainAll_trext (l : List Sid) (g : G) : TrExt g.tr (drainAll l g) := by
  induction l generalizing g with
  | nil => exact TrExt.refl g
  | cons sid r ih => exact (drainClose_fr sid g).2.2.trans (ih _)

theorem failConnect_trext (site : Site) (g : G) : TrExt g.tr (failConnect site g) :=
  (Closed0.failConnect (P := Fr g.batch g.queue g.tr) site g (fr_of g)).2.2

theorem popCmd_tr {g g' : G} {c : Option Cmd} (he : popCmd g = (c, g')) : g'.tr = g.tr := by
  unfold popCmd at he
  split at he
  · cases he; rfl
  · rename_i c0 rest hb; cases c0 <;> simp at he <;> obtain ⟨_, rfl⟩ := he <;> rfl

theorem residualLoop_trext (n : Nat) (g : G) : TrExt g.tr (residualLoop n g) := by
  induction n generalizing g with
  | zero => exact TrExt.refl g
  | succ n ih =>
    unfold residualLoop
    split
    · rename_i g' he; exact (TrExt.refl g).same (popCmd_tr he)
    · rename_i g' he
      exact (((TrExt.refl g).same (popCmd_tr he)).trans (failConnect_trext _ g')).trans (ih _)
    · rename_i g' he
      exact (((TrExt.refl g).same (popCmd_tr he)).trans (failConnect_trext _ g')).trans (ih _)
    · rename_i g' he
      exact ((TrExt.refl g).same (popCmd_tr he)).trans (ih _)

theorem drainFinish_trext (g : G) : TrExt g.tr (drainFinish g) := by
  rw [drainFinish_eq]
  refine TrExt.trans ?_ (residualLoop_trext _ _)
  exact (drainAll_trext (List.range g.nextId) g).same rfl

/-- after the drain everything the application has seen is closed -/
theorem stopped_closed {sid : Sid} {g : G} (h : SInv g) (hs : g.phase = .stopped) (hseen : Seen sid g) : sid ∈ closesOf g.tr := by
  obtain ⟨_, hb, hq, ht⟩ := h.stop.stopped hs
  have hpend : pend g = [] := by simp [pend, h.cur, hb, hq, connSids]
  rcases hseen with hr | ha
  · rcases h.inv.ret_dom sid hr with h1 | ⟨s, hs⟩ | h3
    · rw [hpend] at h1; cases h1
    · rw [ht sid] at hs; cases hs
    · exact h3
  · rcases h.inv.ann_dom sid ha with ⟨s, hs⟩ | h3
    · rw [ht sid] at hs; cases hs
    · exact h3

theorem enqueue_hon {sid : Sid} {g : G} (c : Cmd) (hc : connSid c = none) (h : Hon sid g) :
    Hon sid (apiPlain c g) ∧ TrExt g.tr (apiPlain c g) := by
  unfold apiPlain enqueue
  split
  · exact ⟨h, TrExt.refl g⟩
  · exact ⟨h.grow [c] (by simp) (by simp [connSids, hc]) (TrExt.refl g), TrExt.refl g⟩

theorem hon_shared {sid : Sid} {g g' : G} (i : In) (hs : SInv g) (hs' : SInv g') (he : stepShared g i = some g')
    (hseen : Seen sid g) (h : Hon sid g) : Hon sid g' ∧ TrExt g.tr g' := by
  have hlt := hseen.lt hs.inv
  cases i <;> simp only [stepShared] at he <;> (try cases he)
  case apiConnect tls named =>
    unfold apiConnect; dsimp only
    split
    · have ht : TrExt g.tr (emit (.ret g.nextId false) { g with nextId := g.nextId + 1 }) := TrExt.emit _ ((TrExt.refl g).same rfl)
      exact ⟨h.grow [] (by simp [emit]) (by simp [connSids]) ht, ht⟩
    · have ht : TrExt g.tr (emit (.ret g.nextId true) { g with nextId := g.nextId + 1, queue := g.queue ++ [.connect g.nextId tls named] }) :=
        TrExt.emit _ ((TrExt.refl g).same rfl)
      exact ⟨h.grow [.connect g.nextId tls named] (by simp [emit]) (by intro hm; simp [connSids, connSid] at hm; exact absurd hm (Nat.ne_of_lt hlt)) ht, ht⟩
  case apiClose s => exact enqueue_hon _ rfl h
  case apiSend s => exact enqueue_hon _ rfl h
  case apiAddListener lid tls => exact enqueue_hon _ rfl h
  case apiStop =>
    unfold apiStop
    split
    · have h0 : Hon sid { g with running := false } := h
      exact enqueue_hon (g := { g with running := false }) _ rfl h0
    · exact ⟨h, TrExt.refl g⟩
  case apiStart =>
    unfold apiStart
    split
    · exact ⟨h, TrExt.refl g⟩
    · exact ⟨h, TrExt.refl g⟩
  case ioSwap =>
    split
    · unfold ioSwap
      split
      · rename_i hb
        have ht : TrExt g.tr { g with batch := g.queue, queue := [] } := (TrExt.refl g).same rfl
        exact ⟨h.grow [] (by simp [hb]) (by simp [connSids]) ht, ht⟩
      · exact ⟨h, TrExt.refl g⟩
    · exact ⟨h, TrExt.refl g⟩
  case ioGc picks =>
    split
    · have hf := runGc_pres (P := Fr g.batch g.queue g.tr) picks g (fr_of g)
      exact ⟨h.of_fr hf, hf.2.2⟩
    · exact ⟨h, TrExt.refl g⟩
  case ioDrainBegin =>
    split
    · rename_i hg
      have hb := hg.2.2.1
      have ht : TrExt g.tr { g with phase := .drainProc, batch := g.queue, queue := [] } := (TrExt.refl g).same rfl
      exact ⟨h.grow [] (by simp [hb]) (by simp [connSids]) ht, ht⟩
    · exact ⟨h, TrExt.refl g⟩
  case ioDrainClose s =>
    split
    · have hf := drainClose_fr s { g with phase := .drainSess }
      have h0 : Hon sid { g with phase := .drainSess } := h
      exact ⟨h0.of_fr hf, hf.2.2⟩
    · exact ⟨h, TrExt.refl g⟩
  case ioDrainFinish =>
    split
    · rename_i hg
      rw [if_pos hg] at hs'
      have ht := drainFinish_trext g
      exact ⟨Or.inl (stopped_closed hs' (drainFinish_stopped g).1 (hseen.mono ht)), ht⟩
    · exact ⟨h, TrExt.refl g⟩

/-! ## process(): one command -/

theorem Tcp.dispatch_nil (as : List A) (g : G) (hb : g.batch = []) : (Tcp.dispatch as g).1 = g := by
  unfold Tcp.dispatch popCmd; rw [hb]

theorem Udp.dispatch_nil (as : List A) (g : G) (hb : g.batch = []) : (Udp.dispatch as g).1 = g := by
  unfold Udp.dispatch popCmd; rw [hb]

theorem Tcp.dispatch_hon {sid : Sid} (as : List A) (g : G) (hs : SInv g) (hseen : Seen sid g) (h : Hon sid g) :
    Hon sid (Tcp.dispatch as g).1 ∧ TrExt g.tr (Tcp.dispatch as g).1 := by
  cases hb : g.batch with
  | nil => rw [Tcp.dispatch_nil as g hb]; exact ⟨h, TrExt.refl g⟩
  | cons c rest =>
    have hpend : sid ∉ connSids (rest ++ g.queue) → c = Cmd.close sid .app → sid ∉ pend g := by
      intro hn hc
      simp only [pend, hs.cur, hb, hc, connSids, Option.toList] at *
      simpa [connSid, List.filterMap_append] using hn
    have main : Fr rest g.queue g.tr (Tcp.dispatch as g).1 ∧
        (c = Cmd.close sid .app → sid ∉ connSids (rest ++ g.queue) → sid ∈ closesOf (Tcp.dispatch as g).1.tr) := by
      unfold Tcp.dispatch popCmd
      rw [hb]
      cases c with
      | shutdown => exact ⟨⟨rfl, rfl, TrExt.refl g⟩, by intro hc; cases hc⟩
      | addListener lid t =>
        refine ⟨?_, by intro hc; cases hc⟩
        dsimp only
        split <;> exact ⟨rfl, rfl, TrExt.refl g⟩
      | connect s t n =>
        exact ⟨Tcp.doConnect_pres (P := Fr rest g.queue g.tr) _ _ _ _ ⟨rfl, rfl, TrExt.refl g⟩, by intro hc; cases hc⟩
      | via s l k =>
        exact ⟨Closed0.failConnect (P := Fr rest g.queue g.tr) _ _ ⟨rfl, rfl, TrExt.refl g⟩, by intro hc; cases hc⟩
      | send s =>
        exact ⟨Tcp.doSend_pres (P := Fr rest g.queue g.tr) _ _ _ ⟨rfl, rfl, TrExt.refl g⟩, by intro hc; cases hc⟩
      | close s o =>
        refine ⟨closeCmd_pres (P := Fr rest g.queue g.tr) _ _ _ ⟨rfl, rfl, TrExt.refl g⟩, ?_⟩
        intro hc hn
        cases hc
        have hi : Inv { g with batch := rest } := hs.inv.frame rfl rfl (by
          simp [pend, hb, connSids, List.filterMap_cons, connSid]) rfl rfl rfl rfl
        exact closeCmd_honours (g := { g with batch := rest }) hi hseen (by
          have := hpend hn rfl
          simpa [pend, hb, connSids, List.filterMap_cons, connSid] using this)
    exact ⟨h.pop c rest hb main.1 main.2, main.1.2.2⟩

theorem Udp.dispatch_hon {sid : Sid} (as : List A) (g : G) (hs : SInv g) (hseen : Seen sid g) (h : Hon sid g) :
    Hon sid (Udp.dispatch as g).1 ∧ TrExt g.tr (Udp.dispatch as g).1 := by
  cases hb : g.batch with
  | nil => rw [Udp.dispatch_nil as g hb]; exact ⟨h, TrExt.refl g⟩
  | cons c rest =>
    have hpend : sid ∉ connSids (rest ++ g.queue) → c = Cmd.close sid .app → sid ∉ pend g := by
      intro hn hc
      simp only [pend, hs.cur, hb, hc, connSids, Option.toList] at *
      simpa [connSid, List.filterMap_append] using hn
    have main : Fr rest g.queue g.tr (Udp.dispatch as g).1 ∧
        (c = Cmd.close sid .app → sid ∉ connSids (rest ++ g.queue) → sid ∈ closesOf (Udp.dispatch as g).1.tr) := by
      unfold Udp.dispatch popCmd
      rw [hb]
      cases c with
      | shutdown => exact ⟨⟨rfl, rfl, TrExt.refl g⟩, by intro hc; cases hc⟩
      | addListener lid t =>
        refine ⟨?_, by intro hc; cases hc⟩
        dsimp only
        split <;> exact ⟨rfl, rfl, TrExt.refl g⟩
      | connect s t n =>
        exact ⟨Udp.connectDo_pres (P := Fr rest g.queue g.tr) _ _ ⟨rfl, rfl, TrExt.refl g⟩, by intro hc; cases hc⟩
      | via s l k =>
        exact ⟨Udp.viaDo_pres (P := Fr rest g.queue g.tr) _ _ _ _ ⟨rfl, rfl, TrExt.refl g⟩, by intro hc; cases hc⟩
      | send s =>
        exact ⟨Udp.sendDo_pres (P := Fr rest g.queue g.tr) _ _ _ ⟨rfl, rfl, TrExt.refl g⟩, by intro hc; cases hc⟩
      | close s o =>
        refine ⟨Udp.closeCmdU_pres (P := Fr rest g.queue g.tr) _ _ _ ⟨rfl, rfl, TrExt.refl g⟩, ?_⟩
        intro hc hn
        cases hc
        have hi : Inv { g with batch := rest } := hs.inv.frame rfl rfl (by
          simp [pend, hb, connSids, List.filterMap_cons, connSid]) rfl rfl rfl rfl
        exact closeCmd_honours (g := { g with batch := rest }) hi hseen (by
          have := hpend hn rfl
          simpa [pend, hb, connSids, List.filterMap_cons, connSid] using this)
    exact ⟨h.pop c rest hb main.1 main.2, main.1.2.2⟩

/-! ## every step -/

theorem Tcp.hon_step {sid : Sid} (g : G) (i : In) (hs : SInv g) (hseen : Seen sid g) (h : Hon sid g) :
    Hon sid (Tcp.step g i) ∧ TrExt g.tr (Tcp.step g i) := by
  have hs' := Tcp.sinv_step g i hs
  unfold Tcp.step at hs' ⊢
  split
  · rename_i g' he
    simp only [he] at hs'
    exact hon_shared i hs hs' he hseen h
  · split
    · exact enqueue_hon _ rfl h
    · split
      · exact Tcp.dispatch_hon _ g hs hseen h
      · exact ⟨h, TrExt.refl g⟩
    · split
      · exact ⟨h.of_fr (Tcp.onListener_pres _ _ g (fr_of g)), (Tcp.onListener_pres (P := Fr g.batch g.queue g.tr) _ _ g (fr_of g)).2.2⟩
      · exact ⟨h, TrExt.refl g⟩
    · split
      · exact ⟨h.of_fr (Tcp.onSession_pres _ _ _ _ _ g (fr_of g)), (Tcp.onSession_pres (P := Fr g.batch g.queue g.tr) _ _ _ _ _ g (fr_of g)).2.2⟩
      · exact ⟨h, TrExt.refl g⟩
    · exact ⟨h, TrExt.refl g⟩

theorem Udp.hon_step {sid : Sid} (g : G) (i : In) (hs : SInv g) (hseen : Seen sid g) (h : Hon sid g) :
    Hon sid (Udp.step g i) ∧ TrExt g.tr (Udp.step g i) := by
  have hs' := Udp.sinv_step g i hs
  have hlt := hseen.lt hs.inv
  unfold Udp.step at hs' ⊢
  split
  · rename_i g' he
    simp only [he] at hs'
    exact hon_shared i hs hs' he hseen h
  · split
    · unfold apiVia; dsimp only
      split
      · have ht : TrExt g.tr (emit (.ret g.nextId false) { g with nextId := g.nextId + 1 }) := TrExt.emit _ ((TrExt.refl g).same rfl)
        exact ⟨h.grow [] (by simp [emit]) (by simp [connSids]) ht, ht⟩
      · refine ⟨h.grow _ (List.append_assoc g.batch g.queue _).symm ?_ (TrExt.emit _ ((TrExt.refl g).same rfl)), TrExt.emit _ ((TrExt.refl g).same rfl)⟩
        intro hm; simp [connSids, connSid] at hm; exact absurd hm (Nat.ne_of_lt hlt)
    · split
      · exact Udp.dispatch_hon _ g hs hseen h
      · exact ⟨h, TrExt.refl g⟩
    · split
      · exact ⟨h.of_fr (Udp.listener_pres _ _ _ _ g (fr_of g)), (Udp.listener_pres (P := Fr g.batch g.queue g.tr) _ _ _ _ g (fr_of g)).2.2⟩
      · exact ⟨h, TrExt.refl g⟩
    · split
      · exact ⟨h.of_fr (Udp.onClient_pres _ _ _ _ g (fr_of g)), (Udp.onClient_pres (P := Fr g.batch g.queue g.tr) _ _ _ _ g (fr_of g)).2.2⟩
      · exact ⟨h, TrExt.refl g⟩
    · exact ⟨h, TrExt.refl g⟩

theorem hon_run (stepf : G → In → G) (hsinv : ∀ g i, SInv g → SInv (stepf g i))
    (hstep : ∀ (sid : Sid) g i, SInv g → Seen sid g → Hon sid g → Hon sid (stepf g i) ∧ TrExt g.tr (stepf g i))
    (sid : Sid) (g : G) (hs : SInv g) (hseen : Seen sid g) (h : Hon sid g) (is : List In) : Hon sid (run stepf g is) := by
  unfold run
  induction is generalizing g with
  | nil => exact h
  | cons i r ih =>
    have := hstep sid g i hs hseen h
    exact ih _ (hsinv g i hs) (hseen.mono this.2) this.1

/-- the state right after an accepted `close(sid)`: the request is pending at the tail of the work list -/
theorem hon_after_apiClose (sid : Sid) (g : G) (hopen : g.cmdsClosed = false) : Hon sid (apiPlain (.close sid .app) g) := by
  unfold apiPlain enqueue
  simp only [hopen, Bool.false_eq_true, if_false]
  exact Or.inr ⟨g.batch ++ g.queue, [], by simp, by simp [connSids]⟩

end Iora.Lifecycle
