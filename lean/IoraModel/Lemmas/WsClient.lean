import IoraModel.Model.WsClient
import IoraModel.Lemmas.WsStream
set_option linter.unusedSimpArgs false
set_option linter.unusedVariables false
/-! Helper lemmas about the WebSocket client session model (same structure as `Lemmas/WsServer.lean`). -/
namespace Iora.Ws
open Iora Iora.Framing

def isDataSendC : CEv → Bool
  | .sent op _ _ => op = 0 || op = 1 || op = 2
  | _ => false

def isCloseSendC : CEv → Bool
  | .sent op _ _ => op = 8
  | _ => false

def NoDataC (evs : List CEv) : Prop := ∀ e ∈ evs, isDataSendC e = false

def NoDataAfterCloseC : List CEv → Prop
  | [] => True
  | e :: rest => (isCloseSendC e = true → NoDataC rest) ∧ NoDataAfterCloseC rest

theorem NoDataC_iff (evs : List CEv) : NoDataC evs ↔ evs.all (fun e => !isDataSendC e) = true := by
  simp [NoDataC]

theorem NoDataC_append {a b : List CEv} (ha : NoDataC a) (hb : NoDataC b) : NoDataC (a ++ b) := by
  intro e h
  rcases List.mem_append.mp h with h | h
  · exact ha e h
  · exact hb e h

theorem NoDataAfterCloseC_of_NoData : ∀ evs : List CEv, NoDataC evs → NoDataAfterCloseC evs := by
  intro evs
  induction evs with
  | nil => intro _; trivial
  | cons e rest ih =>
    intro h
    have hr : NoDataC rest := fun e' h' => h e' (List.mem_cons_of_mem _ h')
    exact ⟨fun _ => hr, ih hr⟩

theorem NoDataAfterCloseC_append : ∀ (a b : List CEv), NoDataAfterCloseC a → NoDataAfterCloseC b →
    ((∃ e ∈ a, isCloseSendC e = true) → NoDataC b) → NoDataAfterCloseC (a ++ b) := by
  intro a
  induction a with
  | nil => intro b _ hb _; simpa using hb
  | cons e rest ih =>
    intro b ha hb hc
    obtain ⟨h1, h2⟩ := ha
    refine ⟨?_, ih b h2 hb (fun ⟨e', he', hce⟩ => hc ⟨e', List.mem_cons_of_mem _ he', hce⟩)⟩
    intro hce
    exact NoDataC_append (h1 hce) (hc ⟨e, List.mem_cons_self .., hce⟩)

theorem cHandleFrame_noData (s : CSess) (f : Frame) : NoDataC (cHandleFrame s f).2 := by
  rw [NoDataC_iff]
  unfold cHandleFrame cHandleDataFrame cSendClose
  simp only
  repeat' split
  all_goals simp [isDataSendC]

theorem cHandleFrame_closed (s : CSess) (f : Frame) (h : s.closeSent = true) : (cHandleFrame s f).1.closeSent = true := by
  unfold cHandleFrame cHandleDataFrame cSendClose
  simp only
  repeat' split
  all_goals simp_all

theorem cHandleFrame_close (s : CSess) (f : Frame) (h : (cHandleFrame s f).2.any isCloseSendC = true) :
    (cHandleFrame s f).1.closeSent = true := by
  unfold cHandleFrame cHandleDataFrame cSendClose at *
  simp only at *
  repeat' split
  all_goals (repeat' split at h)
  all_goals simp_all [isCloseSendC]

theorem cLoop_spec : ∀ (fuel : Nat) (s : CSess) (d : Bytes),
    NoDataC (cLoop fuel s d).2.1 ∧
    (s.closeSent = true → (cLoop fuel s d).1.closeSent = true) ∧
    ((cLoop fuel s d).2.1.any isCloseSendC = true → (cLoop fuel s d).1.closeSent = true) := by
  intro fuel
  induction fuel with
  | zero => intro s d; simp [cLoop, NoDataC]
  | succ fuel ih =>
    intro s d
    unfold cLoop
    split
    · simp [NoDataC]
    · split
      · simp [NoDataC]
      · refine ⟨?_, ?_, ?_⟩
        · rw [NoDataC_iff]; simp [cFail, cSendClose, isDataSendC]
        · intro _; simp [cFail, cSendClose]
        · intro _; simp [cFail, cSendClose]
      · refine ⟨?_, ?_, ?_⟩
        · rw [NoDataC_iff]; simp [cFail, cSendClose, isDataSendC]
        · intro _; simp [cFail, cSendClose]
        · intro _; simp [cFail, cSendClose]
      · rename_i f n hp
        obtain ⟨i1, i2, i3⟩ := ih (cHandleFrame s f).1 (d.drop n)
        refine ⟨NoDataC_append (cHandleFrame_noData s f) i1, fun h => i2 (cHandleFrame_closed s f h), ?_⟩
        intro h
        simp only [List.any_append, Bool.or_eq_true] at h
        rcases h with h | h
        · exact i2 (cHandleFrame_close s f h)
        · exact i3 h

theorem cOnData_spec (s : CSess) (data : Bytes) :
    NoDataC (cOnData s data).2 ∧
    (s.closeSent = true → (cOnData s data).1.closeSent = true) ∧
    ((cOnData s data).2.any isCloseSendC = true → (cOnData s data).1.closeSent = true) := by
  unfold cOnData
  simp only
  split
  · simp [NoDataC]
  · obtain ⟨i1, i2, i3⟩ := cLoop_spec ((s.buffer ++ data).length + 1) { s with buffer := [] } (s.buffer ++ data)
    split
    · exact ⟨i1, fun h => by simpa using i2 h, fun h => by simpa using i3 h⟩
    · exact ⟨i1, i2, i3⟩

theorem cStep_spec (s : CSess) (op : COp) :
    (s.closeSent = true → NoDataC (cStep s op).2) ∧
    (s.closeSent = true → (cStep s op).1.closeSent = true) ∧
    ((cStep s op).2.any isCloseSendC = true → (cStep s op).1.closeSent = true) ∧
    NoDataAfterCloseC (cStep s op).2 := by
  cases op with
  | data bs =>
    obtain ⟨i1, i2, i3⟩ := cOnData_spec s bs
    exact ⟨fun _ => i1, i2, i3, NoDataAfterCloseC_of_NoData _ i1⟩
  | sendClose c r =>
    refine ⟨fun _ => ?_, fun _ => rfl, fun _ => rfl, ?_⟩
    · rw [NoDataC_iff]; simp [cStep, cSendClose, isDataSendC]
    · apply NoDataAfterCloseC_of_NoData; rw [NoDataC_iff]; simp [cStep, cSendClose, isDataSendC]
  | sendText bs =>
    simp only [cStep, cSend]
    refine ⟨?_, ?_, ?_, ?_⟩
    · intro h; repeat' split
      all_goals simp_all [NoDataC]
    · intro h; repeat' split
      all_goals exact h
    · intro h; repeat' split at h
      all_goals simp_all [isCloseSendC]
    · repeat' split
      all_goals simp [NoDataAfterCloseC, NoDataC]
  | sendBinary bs =>
    simp only [cStep, cSend]
    refine ⟨?_, ?_, ?_, ?_⟩
    · intro h; repeat' split
      all_goals simp_all [NoDataC]
    · intro h; repeat' split
      all_goals exact h
    · intro h; repeat' split at h
      all_goals simp_all [isCloseSendC]
    · repeat' split
      all_goals simp [NoDataAfterCloseC, NoDataC]
  | sendPing bs =>
    simp only [cStep, cSend]
    refine ⟨?_, ?_, ?_, ?_⟩
    · intro h; repeat' split
      all_goals simp_all [NoDataC]
    · intro h; repeat' split
      all_goals exact h
    · intro h; repeat' split at h
      all_goals simp_all [isCloseSendC]
    · repeat' split
      all_goals simp [NoDataAfterCloseC, NoDataC]

/-- client: for every operation history, after a close frame has been handed to the transport no data frame follows -/
theorem cRun_noDataAfterClose : ∀ (ops : List COp) (s : CSess),
    (s.closeSent = true → NoDataC (cRun s ops).2) ∧ NoDataAfterCloseC (cRun s ops).2 := by
  intro ops
  induction ops with
  | nil => intro s; simp [cRun, NoDataC, NoDataAfterCloseC]
  | cons op ops ih =>
    intro s
    obtain ⟨j1, j2, j3, j4⟩ := cStep_spec s op
    obtain ⟨k1, k2⟩ := ih (cStep s op).1
    simp only [cRun]
    refine ⟨fun h => NoDataC_append (j1 h) (k1 (j2 h)), ?_⟩
    apply NoDataAfterCloseC_append _ _ j4 k2
    intro ⟨e, he, hce⟩
    apply k1
    apply j3
    simp only [List.any_eq_true]
    exact ⟨e, he, hce⟩

end Iora.Ws

namespace Iora.Ws
open Iora Iora.Framing

abbrev cmax : Nat := clientMaxPayload

def cInterp1 (s : CSess) : PRes → CSess × List CEv
  | .frame f _ => cHandleFrame s f
  | .protocolError => cFail s false
  | .tooLarge => cFail s true
  | .incomplete => (s, [])

def cInterp : CSess → List PRes → CSess × List CEv
  | s, [] => (s, [])
  | s, r :: rs =>
    let (s1, e1) := cInterp1 s r
    let (s2, e2) := cInterp s1 rs
    (s2, e1 ++ e2)

theorem cLoop_eq_interp : ∀ (fuel : Nat) (s : CSess) (d : Bytes),
    cLoop fuel s d =
      ((cInterp s (drainF (wsStable cmax) fuel d).1).1, (cInterp s (drainF (wsStable cmax) fuel d).1).2,
        carryOpt (drainF (wsStable cmax) fuel d).2) := by
  intro fuel
  induction fuel with
  | zero => intro s d; simp [cLoop, drainF, cInterp, carryOpt]
  | succ fuel ih =>
    intro s d
    unfold cLoop drainF
    by_cases he : d.isEmpty = true
    · have : d = [] := by simpa using he
      subst this
      simp [wsStable, pws, parse, cInterp, carryOpt]
    · simp only [he, Bool.false_eq_true, ↓reduceIte]
      simp only [wsStable, pws]
      cases hp : parse clientMaxPayload d with
      | incomplete => simp [cInterp, carryOpt, cmax, hp]
      | protocolError => simp [cInterp, cInterp1, carryOpt, cmax, hp]
      | tooLarge => simp [cInterp, cInterp1, carryOpt, cmax, hp]
      | frame f n =>
        simp only [cmax, hp]
        rw [ih]
        simp [cInterp, cInterp1, wsStable, pws, cmax]

theorem cInterp_append : ∀ (a b : List PRes) (s : CSess),
    cInterp s (a ++ b) = ((cInterp (cInterp s a).1 b).1, (cInterp s a).2 ++ (cInterp (cInterp s a).1 b).2) := by
  intro a
  induction a with
  | nil => intro b s; simp [cInterp]
  | cons r rs ih => intro b s; simp [cInterp, ih, List.append_assoc]

theorem cHandleFrame_keeps (s : CSess) (f : Frame) :
    (cHandleFrame s f).1.buffer = s.buffer ∧ (cHandleFrame s f).1.protocolFailed = s.protocolFailed := by
  unfold cHandleFrame cHandleDataFrame cSendClose
  simp only
  repeat' split
  all_goals simp_all

theorem cInterp_keeps : ∀ (fs : List Frame) (s : CSess),
    (cInterp s (fs.map toP)).1.buffer = s.buffer ∧ (cInterp s (fs.map toP)).1.protocolFailed = s.protocolFailed := by
  intro fs
  induction fs with
  | nil => intro s; simp [cInterp]
  | cons f fs ih =>
    intro s
    simp only [List.map_cons, cInterp, toP, cInterp1]
    have h1 := cHandleFrame_keeps s f
    have h2 := ih (cHandleFrame s f).1
    exact ⟨h2.1.trans h1.1, h2.2.trans h1.2⟩

theorem cOnData_eq (s : CSess) (data : Bytes) (hf : s.protocolFailed = false) :
    cOnData s data =
      (match carryOpt (drain (wsStable cmax) (s.buffer ++ data)).2 with
        | some rest => { (cInterp { s with buffer := [] } (drain (wsStable cmax) (s.buffer ++ data)).1).1 with buffer := rest }
        | none => (cInterp { s with buffer := [] } (drain (wsStable cmax) (s.buffer ++ data)).1).1,
       (cInterp { s with buffer := [] } (drain (wsStable cmax) (s.buffer ++ data)).1).2) := by
  unfold cOnData
  simp only [hf, Bool.false_eq_true, ↓reduceIte]
  rw [cLoop_eq_interp]
  simp only [drain]
  cases carryOpt (drainF (wsStable cmax) ((s.buffer ++ data).length + 1) (s.buffer ++ data)).2 <;> rfl

/-- **Client-level segmentation independence** (no restriction on where CLOSE frames are: the client keeps parsing). -/
theorem cRun_data_eq : ∀ (ss : List Bytes) (s : CSess) (fs : List Frame),
    ValidFrames cmax fs → s.protocolFailed = false → s.buffer ++ ss.flatten = stream fs →
    parse cmax s.buffer = .incomplete →
    (cRun s (ss.map COp.data)).2 = (cInterp { s with buffer := [] } (fs.map toP)).2 := by
  intro ss
  induction ss with
  | nil =>
    intro s fs hv hpf hb hinc
    simp only [List.flatten_nil, List.append_nil] at hb
    have : fs = [] := by
      cases fs with
      | nil => rfl
      | cons f fs' =>
        obtain ⟨hf, hfm⟩ := hv f (List.mem_cons_self ..)
        have hrt := roundtrip cmax f (stream fs') hf hfm
        simp only [stream, List.flatMap_cons] at hb hrt
        rw [hb, hrt] at hinc; cases hinc
    subst this
    simp [cRun, cInterp]
  | cons seg ss ih =>
    intro s fs hv hpf hb hinc
    simp only [List.flatten_cons, ← List.append_assoc] at hb
    have hgood : Good cmax (s.buffer ++ seg ++ ss.flatten) := hb ▸ good_stream cmax fs hv
    have hgd : Good cmax (s.buffer ++ seg) := (wsStable cmax).g_prefix _ _ hgood
    obtain ⟨fs1, rest1, e1, e2, e3⟩ := drainF_good cmax ((s.buffer ++ seg).length + 1) (s.buffer ++ seg) (by omega) hgd
    have hd1 : drain (wsStable cmax) (s.buffer ++ seg) = (fs1.map toP, .alive rest1) := e1
    have hg2 : Good cmax (rest1 ++ ss.flatten) :=
      drainF_carry_good (wsStable cmax) ((s.buffer ++ seg).length + 1) (s.buffer ++ seg) ss.flatten (by omega) hgood rest1 (by rw [e1])
    obtain ⟨fs2, rest2, f1, f2, f3⟩ := drainF_good cmax ((rest1 ++ ss.flatten).length + 1) (rest1 ++ ss.flatten) (by omega) hg2
    have hd2 : drain (wsStable cmax) (rest1 ++ ss.flatten) = (fs2.map toP, .alive rest2) := f1
    have happ := drainF_append (wsStable cmax) ((s.buffer ++ seg).length + 1) (s.buffer ++ seg) ss.flatten (by omega) hgood
    rw [e1] at happ
    simp only [resume, hd2] at happ
    rw [hb, drain_stream cmax fs hv] at happ
    simp only [Prod.mk.injEq, Carry.alive.injEq] at happ
    obtain ⟨hfr, hr2⟩ := happ
    have hfs : fs = fs1 ++ fs2 := map_toP_inj _ _ (by rw [List.map_append]; exact hfr)
    subst hr2
    simp only [List.append_nil] at f2
    simp only [List.map_cons, cRun, cStep]
    rw [cOnData_eq s seg hpf, hd1]
    simp only [carryOpt]
    have hk := cInterp_keeps fs1 { s with buffer := [] }
    have hv2 : ValidFrames cmax fs2 := fun f hf => hv f (by rw [hfs]; exact List.mem_append_right _ hf)
    rw [hfs, List.map_append, cInterp_append]
    generalize cInterp { s with buffer := [] } (fs1.map toP) = I at hk ⊢
    obtain ⟨s1, ev1⟩ := I
    obtain ⟨bf, fb, fo, ce, pf, cs, cn⟩ := s1
    simp only at hk ⊢
    obtain ⟨hk1, hk2⟩ := hk
    subst hk1
    congr 1
    exact ih { buffer := rest1, fragBuf := fb, fragOp := fo, closeEchoed := ce, protocolFailed := pf, closeSent := cs, connected := cn }
      fs2 hv2 (by simpa [hpf] using hk2) f2 e3

/-- client reassembly: same statement as the server's, without a size limit on the message -/
def cDeliverEv (op : Nat) (pl : Bytes) : List CEv :=
  if op = 1 then (if isValidUtf8 pl then [.text pl] else [.sent 8 true (b8 (1007 / 256) :: b8 1007 :: cstr "Invalid UTF-8")])
  else [.binary pl]

def cPongsOf : List Frame → List CEv
  | [] => []
  | c :: cs => (if c.opcode = 9 then [CEv.sent 10 true c.payload] else []) ++ cPongsOf cs

theorem cReassembly_tail (op : Nat) (hop : op = 1 ∨ op = 2) :
    ∀ (fs : List Frame) (acc : Bytes), Tail acc fs → ∀ (s : CSess), s.fragOp = op →
      (cInterp s (fs.map toP)).2 = cPongsOf fs ++ cDeliverEv op (s.fragBuf ++ acc) := by
  intro fs acc ht
  induction ht with
  | last f h0 hfin =>
    intro s hfo
    rcases hop with hop | hop <;> subst hop
    · by_cases hu : isValidUtf8 (s.fragBuf ++ f.payload) = true
      · simp [cInterp, cInterp1, toP, cHandleFrame, cHandleDataFrame, h0, hfin, hfo, cPongsOf, cDeliverEv, hu]
      · simp [cInterp, cInterp1, toP, cHandleFrame, cHandleDataFrame, h0, hfin, hfo, cPongsOf, cDeliverEv, hu, cSendClose]
    · simp [cInterp, cInterp1, toP, cHandleFrame, cHandleDataFrame, h0, hfin, hfo, cPongsOf, cDeliverEv]
  | cont f acc rest h0 hfin _ ih =>
    intro s hfo
    have := ih { s with fragBuf := s.fragBuf ++ f.payload } hfo
    simp [cInterp, toP, cInterp1, cHandleFrame, cHandleDataFrame, h0, hfin, cPongsOf, List.append_assoc] at this ⊢
    exact this
  | ctl c acc rest hc _ ih =>
    intro s hfo
    have := ih s hfo
    rcases hc with hc | hc
    · simp only [List.map_cons, cInterp, toP, cInterp1, cHandleFrame, hc, cPongsOf]
      simp [this]
    · simp only [List.map_cons, cInterp, toP, cInterp1, cHandleFrame, hc, cPongsOf]
      simp [this]

end Iora.Ws

namespace Iora.Ws
open Iora Iora.Framing

theorem cLoop_rest : ∀ (fuel : Nat) (s : CSess) (d : Bytes), d.length < fuel → s.buffer = [] →
    (cLoop fuel s d).1.buffer = [] ∧ ∀ r, (cLoop fuel s d).2.2 = some r → r.length < 14 + cmax := by
  intro fuel
  induction fuel with
  | zero => intro s d h; omega
  | succ fuel ih =>
    intro s d hf hb
    unfold cLoop
    split
    · rename_i he
      refine ⟨hb, ?_⟩
      intro r hr; cases hr
      simp at he; subst he; simp; omega
    · split
      · rename_i hp
        refine ⟨hb, ?_⟩
        intro r hr; cases hr
        exact parse_incomplete_short' cmax d hp
      · refine ⟨by simp [cFail, cSendClose, hb], ?_⟩
        intro r hr; cases hr
      · refine ⟨by simp [cFail, cSendClose, hb], ?_⟩
        intro r hr; cases hr
      · rename_i f n hp
        obtain ⟨h2, hnl, _, _⟩ := parse_frame_bounds clientMaxPayload d f n hp
        have hl : (d.drop n).length < fuel := by simp [List.length_drop]; omega
        exact ih (cHandleFrame s f).1 (d.drop n) hl ((cHandleFrame_keeps s f).1.trans hb)

theorem cOnData_buffer (s : CSess) (data : Bytes) : (cOnData s data).1.buffer.length < 14 + cmax := by
  unfold cOnData
  simp only
  split
  · simp; omega
  · obtain ⟨h1, h2⟩ := cLoop_rest ((s.buffer ++ data).length + 1) { s with buffer := [] } (s.buffer ++ data) (by omega) rfl
    split
    · rename_i rest hr
      exact h2 rest hr
    · rw [h1]; simp; omega

theorem cStep_buffer (s : CSess) (op : COp) (h : s.buffer.length < 14 + cmax) :
    (cStep s op).1.buffer.length < 14 + cmax := by
  cases op with
  | data bs => exact cOnData_buffer s bs
  | sendClose c r => exact h
  | sendText bs => simp only [cStep, cSend]; repeat' split
                   all_goals exact h
  | sendBinary bs => simp only [cStep, cSend]; repeat' split
                     all_goals exact h
  | sendPing bs => simp only [cStep, cSend]; repeat' split
                   all_goals exact h

theorem cRun_buffer : ∀ (ops : List COp) (s : CSess), s.buffer.length < 14 + cmax →
    (cRun s ops).1.buffer.length < 14 + cmax := by
  intro ops
  induction ops with
  | nil => intro s h; exact h
  | cons op ops ih => intro s h; simp only [cRun]; exact ih _ (cStep_buffer s op h)

end Iora.Ws
