import IoraModel.Model.WsClient
import IoraModel.Lemmas.WsStream
set_option linter.unusedSimpArgs false
set_option linter.unusedVariables false
/-! Helper lemmas about the WebSocket client session model (same structure as `Lemmas/WsServer.lean`). -/
namespace Iora.Ws
open Iora Iora.Framing

def isDataSendC : CEv → Bool
  | .sent op _ _ => op = 0 || op = 1 || op = 2
  | _ => false

def isCloseSendC : CEv → Bool
  | .sent op _ _ => op = 8
  | _ => false

def NoDataC (evs : List CEv) : Prop := ∀ e ∈ evs, isDataSendC e = false

def NoDataAfterCloseC : List CEv → Prop
  | [] => True
  | e :: rest => (isCloseSendC e = true → NoDataC rest) ∧ NoDataAfterCloseC rest

theorem NoDataC_iff (evs : List CEv) : NoDataC evs ↔ evs.all (fun e => !isDataSendC e) = true := by
  simp [NoDataC]

theorem NoDataC_append {a b : List CEv} (ha : NoDataC a) (hb : NoDataC b) : NoDataC (a ++ b) := by
  intro e h
  rcases List.mem_append.mp h with h | h
  · exact ha e h
  · exact hb e h

theorem NoDataAfterCloseC_of_NoData : ∀ evs : List CEv, NoDataC evs → NoDataAfterCloseC evs := by
  intro evs
  induction evs with
  | nil => intro _; trivial
  | cons e rest ih =>
    intro h
    have hr : NoDataC rest := fun e' h' => h e' (List.mem_cons_of_mem _ h')
    exact ⟨fun _ => hr, ih hr⟩

theorem NoDataAfterCloseC_append : ∀ (a b : List CEv), NoDataAfterCloseC a → NoDataAfterCloseC b →
    ((∃ e ∈ a, isCloseSendC e = true) → NoDataC b) → NoDataAfterCloseC (a ++ b) := by
  intro a
  induction a with
  | nil => intro b _ hb _; simpa using hb
  | cons e rest ih =>
    intro b ha hb hc
    obtain ⟨h1, h2⟩ := ha
    refine ⟨?_, ih b h2 hb (fun ⟨e', he', hce⟩ => hc ⟨e', List.mem_cons_of_mem _ he', hce⟩)⟩
    intro hce
    exact NoDataC_append (h1 hce) (hc ⟨e, List.mem_cons_self .., hce⟩)

/-! ### sends touch nothing but `closeSent` -/

/-- the fields a send can not change -/
def CSame (s s' : CSess) : Prop :=
  s'.buffer = s.buffer ∧ s'.fragBuf = s.fragBuf ∧ s'.fragOp = s.fragOp ∧ s'.closeEchoed = s.closeEchoed ∧
  s'.protocolFailed = s.protocolFailed ∧ s'.connected = s.connected ∧ s'.upgraded = s.upgraded

theorem CSame.rfl' (s : CSess) : CSame s s := ⟨rfl, rfl, rfl, rfl, rfl, rfl, rfl⟩
theorem CSame.trans {a b c : CSess} (h1 : CSame a b) (h2 : CSame b c) : CSame a c :=
  ⟨h2.1.trans h1.1, h2.2.1.trans h1.2.1, h2.2.2.1.trans h1.2.2.1, h2.2.2.2.1.trans h1.2.2.2.1,
   h2.2.2.2.2.1.trans h1.2.2.2.2.1, h2.2.2.2.2.2.1.trans h1.2.2.2.2.2.1, h2.2.2.2.2.2.2.trans h1.2.2.2.2.2.2⟩

@[simp] theorem cSend_state (s : CSess) (op : Nat) (pl : Bytes) : (cSend s op pl).1 = s := by
  unfold cSend; repeat' split
  all_goals rfl
@[simp] theorem cSendPing_state (s : CSess) (pl : Bytes) : (cSendPing s pl).1 = s := by
  unfold cSendPing; split <;> simp

theorem cSendClose_same (s : CSess) (c : Nat) (r : Bytes) : CSame s (cSendClose s c r).1 := ⟨rfl, rfl, rfl, rfl, rfl, rfl, rfl⟩

theorem cSendStep_same (s : CSess) (a : Send) : CSame s (cSendStep s a).1 := by
  cases a with
  | text bs => simp only [cSendStep, cSend_state]; exact CSame.rfl' s
  | binary bs => simp only [cSendStep, cSend_state]; exact CSame.rfl' s
  | ping bs => simp only [cSendStep, cSendPing_state]; exact CSame.rfl' s
  | close c r => exact cSendClose_same s c r

theorem cRunSends_same : ∀ (as : List Send) (s : CSess), CSame s (cRunSends s as).1 := by
  intro as
  induction as with
  | nil => intro s; exact CSame.rfl' s
  | cons a as ih => intro s; simp only [cRunSends]; exact (cSendStep_same s a).trans (ih _)

theorem cFire_same (s : CSess) (e : CEv) (sc : List Send) : CSame s (cFire s e sc).1 := by
  simp only [cFire]; exact cRunSends_same sc s

theorem cDeliver_same (cb : CCbs) (s : CSess) (op : Nat) (pl : Bytes) : CSame s (cDeliver cb s op pl).1 := by
  unfold cDeliver
  split
  · split
    · exact cSendClose_same ..
    · exact cFire_same ..
  · split
    · exact cFire_same ..
    · exact CSame.rfl' s

/-! ### the close discipline, compositionally (same scheme as the server's `Tr`) -/

structure CTr (s : CSess) (ev : List CEv) (s' : CSess) : Prop where
  nodata : s.closeSent = true → NoDataC ev
  mono : s.closeSent = true → s'.closeSent = true
  close : ev.any isCloseSendC = true → s'.closeSent = true
  ndac : NoDataAfterCloseC ev

theorem NoDataC_nil : NoDataC [] := by intro e h; cases h
theorem NoDataC_cons {e : CEv} {a : List CEv} (he : isDataSendC e = false) (ha : NoDataC a) : NoDataC (e :: a) := by
  intro e' h
  rcases List.mem_cons.mp h with h | h
  · subst h; exact he
  · exact ha e' h

theorem CTr.comp {s s1 s2 : CSess} {e1 e2 : List CEv} (h1 : CTr s e1 s1) (h2 : CTr s1 e2 s2) : CTr s (e1 ++ e2) s2 where
  nodata h := NoDataC_append (h1.nodata h) (h2.nodata (h1.mono h))
  mono h := h2.mono (h1.mono h)
  close h := by
    simp only [List.any_append, Bool.or_eq_true] at h
    rcases h with h | h
    · exact h2.mono (h1.close h)
    · exact h2.close h
  ndac := by
    apply NoDataAfterCloseC_append _ _ h1.ndac h2.ndac
    intro ⟨e, he, hce⟩
    exact h2.nodata (h1.close (List.any_eq_true.mpr ⟨e, he, hce⟩))

theorem CTr.state {s s' : CSess} (h : s.closeSent = true → s'.closeSent = true) : CTr s [] s' where
  nodata _ := NoDataC_nil
  mono := h
  close h := by simp at h
  ndac := trivial

theorem CTr.refl (s : CSess) : CTr s [] s := CTr.state id

theorem CTr.ev (s : CSess) (e : CEv) (hd : isDataSendC e = false) (hc : isCloseSendC e = false) : CTr s [e] s where
  nodata _ := NoDataC_cons hd NoDataC_nil
  mono := id
  close h := by simp [hc] at h
  ndac := ⟨fun _ => NoDataC_nil, trivial⟩

theorem CTr.cSendClose (s : CSess) (c : Nat) (r : Bytes) : CTr s (cSendClose s c r).2 (cSendClose s c r).1 where
  nodata _ := NoDataC_cons rfl NoDataC_nil
  mono _ := rfl
  close _ := rfl
  ndac := ⟨fun _ => NoDataC_nil, trivial⟩

theorem CTr.cSend (s : CSess) (op : Nat) (pl : Bytes) (h8 : op ≠ 8) : CTr s (cSend s op pl).2 (cSend s op pl).1 := by
  rw [cSend_state]
  unfold Iora.Ws.cSend
  split
  · exact CTr.refl s
  · split
    · exact CTr.refl s
    · rename_i hc
      refine ⟨fun h => absurd h hc, id, ?_, ⟨fun _ => NoDataC_nil, trivial⟩⟩
      intro h; simp [isCloseSendC, h8] at h

theorem CTr.cSendStep (s : CSess) (a : Send) : CTr s (cSendStep s a).2 (cSendStep s a).1 := by
  cases a with
  | text bs => exact CTr.cSend s 1 bs (by omega)
  | binary bs => exact CTr.cSend s 2 bs (by omega)
  | ping bs =>
    simp only [Iora.Ws.cSendStep, cSendPing]
    split
    · exact CTr.refl s
    · exact CTr.cSend s 9 bs (by omega)
  | close c r => exact CTr.cSendClose s c r

theorem CTr.cRunSends : ∀ (as : List Send) (s : CSess), CTr s (cRunSends s as).2 (cRunSends s as).1 := by
  intro as
  induction as with
  | nil => intro s; exact CTr.refl s
  | cons a as ih => intro s; simp only [Iora.Ws.cRunSends]; exact (CTr.cSendStep s a).comp (ih _)

theorem CTr.cFire (s : CSess) (e : CEv) (sc : List Send) (hd : isDataSendC e = false) (hc : isCloseSendC e = false) :
    CTr s (cFire s e sc).2 (cFire s e sc).1 := by
  simp only [Iora.Ws.cFire]
  exact (CTr.ev s e hd hc).comp (CTr.cRunSends sc s)

theorem CTr.cDeliver (cb : CCbs) (s : CSess) (op : Nat) (pl : Bytes) : CTr s (cDeliver cb s op pl).2 (cDeliver cb s op pl).1 := by
  unfold Iora.Ws.cDeliver
  split
  · split
    · exact CTr.cSendClose ..
    · exact CTr.cFire _ _ _ rfl rfl
  · split
    · exact CTr.cFire _ _ _ rfl rfl
    · exact CTr.refl s

theorem CTr.cFail (cb : CCbs) (s : CSess) (tl : Bool) : CTr s (cFail cb s tl).2 (cFail cb s tl).1 := by
  simp only [Iora.Ws.cFail]
  have h0 : CTr s [] { s with protocolFailed := true } := CTr.state id
  have h1 := CTr.cSendClose { s with protocolFailed := true } (if tl then 1009 else 1002) (cstr (if tl then "Message Too Big" else "Protocol error"))
  have h2 : CTr (Iora.Ws.cSendClose { s with protocolFailed := true } (if tl then 1009 else 1002) (cstr (if tl then "Message Too Big" else "Protocol error"))).1 []
      { (Iora.Ws.cSendClose { s with protocolFailed := true } (if tl then 1009 else 1002) (cstr (if tl then "Message Too Big" else "Protocol error"))).1 with connected := false } := CTr.state id
  have := ((h0.comp h1).comp h2).comp (CTr.cFire _ .onError cb.onError rfl rfl)
  simpa using this

@[simp] theorem cAccumulate_closeSent (s : CSess) (f : Frame) : (cAccumulate s f).closeSent = s.closeSent := by
  unfold cAccumulate; split
  · rfl
  · split <;> rfl

theorem CTr.cHandleDataFrame (cfg : CCfg) (s : CSess) (f : Frame) :
    CTr s (cHandleDataFrame cfg s f).2 (cHandleDataFrame cfg s f).1 := by
  unfold Iora.Ws.cHandleDataFrame
  simp only
  have hst : ∀ s1 : CSess, s1.closeSent = s.closeSent → CTr s [] s1 := by
    intro s1 h1; apply CTr.state; rw [h1]; exact id
  split
  · have := (hst { cAccumulate s f with fragBuf := [], fragOp := 0 } (by simp)).comp (CTr.cFail cfg.cb _ true)
    simpa using this
  · split
    · have := (hst { cAccumulate s f with fragBuf := [], fragOp := 0 } (by simp)).comp
        (CTr.cDeliver cfg.cb _ (cAccumulate s f).fragOp (cAccumulate s f).fragBuf)
      simpa using this
    · exact hst _ (by simp)

theorem CTr.cHandleFrame (cfg : CCfg) (s : CSess) (f : Frame) :
    CTr s (cHandleFrame cfg s f).2 (cHandleFrame cfg s f).1 := by
  unfold Iora.Ws.cHandleFrame
  split
  · exact CTr.cHandleDataFrame cfg s f
  · split
    · exact CTr.ev s _ (by simp [isDataSendC]) (by simp [isCloseSendC])
    · split
      · exact CTr.refl s
      · split
        · simp only
          have hecho : CTr s (if !s.closeEchoed then Iora.Ws.cSendClose { s with closeEchoed := true } (closePayload f.payload).1 (closePayload f.payload).2 else (s, [])).2
              (if !s.closeEchoed then Iora.Ws.cSendClose { s with closeEchoed := true } (closePayload f.payload).1 (closePayload f.payload).2 else (s, [])).1 := by
            split
            · have h0 : CTr s [] { s with closeEchoed := true } := CTr.state id
              simpa using h0.comp (CTr.cSendClose _ _ _)
            · exact CTr.refl s
          generalize (if !s.closeEchoed then Iora.Ws.cSendClose { s with closeEchoed := true } (closePayload f.payload).1 (closePayload f.payload).2 else (s, [])) = E at hecho ⊢
          obtain ⟨s1, ev⟩ := E
          have h2 : CTr s1 [] { s1 with connected := false } := CTr.state id
          have := (hecho.comp h2).comp (CTr.cFire { s1 with connected := false } (.onClose (closePayload f.payload).1 (closePayload f.payload).2) cfg.cb.onClose rfl rfl)
          simpa using this
        · exact CTr.refl s

theorem CTr.cLoop (cfg : CCfg) : ∀ (fuel : Nat) (s : CSess) (d : Bytes),
    CTr s (cLoop cfg fuel s d).2.1 (cLoop cfg fuel s d).1 := by
  intro fuel
  induction fuel with
  | zero => intro s d; exact CTr.refl s
  | succ fuel ih =>
    intro s d
    unfold Iora.Ws.cLoop
    split
    · exact CTr.refl s
    · split
      · exact CTr.refl s
      · exact CTr.cFail cfg.cb s false
      · exact CTr.cFail cfg.cb s true
      · rename_i f n hp
        simp only
        split
        · exact CTr.cHandleFrame cfg s f
        · exact (CTr.cHandleFrame cfg s f).comp (ih _ _)

theorem CTr.cFrames (cfg : CCfg) (s : CSess) (d : Bytes) : CTr s (cFrames cfg s d).2 (cFrames cfg s d).1 := by
  unfold Iora.Ws.cFrames
  split
  · exact CTr.refl s
  · have h := CTr.cLoop cfg (d.length + 1) s d
    rcases hL : Iora.Ws.cLoop cfg (d.length + 1) s d with ⟨s1, ev, r⟩
    rw [hL] at h
    simp only
    cases r with
    | none => exact h
    | some rest => simpa using h.comp (CTr.state (s' := { s1 with buffer := rest }) id)

/-- the upgrade-response step sends nothing and changes neither the close flag nor the reassembly state -/
theorem cHandshake_spec (cfg : CCfg) (s : CSess) (d : Bytes) :
    match cHandshake cfg s d with
    | .wait s1 => s1 = { s with buffer := d } ∧ d.length ≤ Gen.Ws.clientMaxUpgradeResponse
    | .failed s1 ev => s1 = { s with connected := false } ∧ ev = [.onError]
    | .ok s1 ev _ => s1 = { s with upgraded := true, connected := true } ∧ ev = [.connected] := by
  unfold cHandshake
  cases findSub crlf2 d with
  | none =>
    simp only
    by_cases hl : d.length > Gen.Ws.clientMaxUpgradeResponse
    · simp [hl]
    · simp [hl]; omega
  | some he =>
    simp only
    by_cases h1 : statusOk.isPrefixOf d = true
    · by_cases h2 : acceptValue d he = cfg.accept
      · simp [h1, h2]
      · simp [h1, h2]
    · simp [h1]

theorem CTr.cOnData (cfg : CCfg) (s : CSess) (data : Bytes) : CTr s (cOnData cfg s data).2 (cOnData cfg s data).1 := by
  unfold Iora.Ws.cOnData
  simp only
  have h0 : CTr s [] { s with buffer := [] } := CTr.state id
  split
  · simpa using h0.comp (CTr.cFrames cfg _ _)
  · have hs := cHandshake_spec cfg { s with buffer := [] } (s.buffer ++ data)
    cases hh : cHandshake cfg { s with buffer := [] } (s.buffer ++ data) with
    | wait s1 =>
      rw [hh] at hs
      simp only
      rw [hs.1]
      exact CTr.state id
    | failed s1 ev =>
      rw [hh] at hs
      obtain ⟨rfl, rfl⟩ := hs
      simp only
      simpa using (CTr.state (s := s) (s' := { { s with buffer := [] } with connected := false }) id).comp (CTr.ev _ .onError rfl rfl)
    | ok s1 ev rest =>
      rw [hh] at hs
      obtain ⟨rfl, rfl⟩ := hs
      simp only
      have h1 : CTr s [] { { s with buffer := [] } with upgraded := true, connected := true } := CTr.state id
      simpa using h1.comp ((CTr.ev _ .connected rfl rfl).comp (CTr.cFrames cfg _ rest))

theorem CTr.cStep (cfg : CCfg) (s : CSess) (op : COp) : CTr s (cStep cfg s op).2 (cStep cfg s op).1 := by
  cases op with
  | data bs => exact CTr.cOnData cfg s bs
  | sendClose c r => exact CTr.cSendStep s _
  | sendText bs => exact CTr.cSendStep s _
  | sendBinary bs => exact CTr.cSendStep s _
  | sendPing bs => exact CTr.cSendStep s _
  | disconnect c r =>
    simp only [Iora.Ws.cStep, Iora.Ws.cDisconnect]
    split
    · have h2 : CTr (Iora.Ws.cSendClose s c r).1 [] { (Iora.Ws.cSendClose s c r).1 with connected := false } := CTr.state id
      simpa using (CTr.cSendClose s c r).comp h2
    · exact CTr.state id

theorem CTr.cRun (cfg : CCfg) : ∀ (ops : List COp) (s : CSess), CTr s (cRun cfg s ops).2 (cRun cfg s ops).1 := by
  intro ops
  induction ops with
  | nil => intro s; exact CTr.refl s
  | cons op ops ih => intro s; simp only [Iora.Ws.cRun]; exact (CTr.cStep cfg s op).comp (ih _)

/-- client: for every operation history (incl. re-entrant sends from callbacks and the upgrade response), after a close
frame has been handed to the transport no data frame follows -/
theorem cRun_noDataAfterClose (cfg : CCfg) (ops : List COp) (s : CSess) : NoDataAfterCloseC (cRun cfg s ops).2 :=
  (CTr.cRun cfg ops s).ndac

/-! ### the frame loop as a fold of the per-frame handler -/

def cInterp1 (cfg : CCfg) (s : CSess) : PRes → CSess × List CEv
  | .frame f _ => cHandleFrame cfg s f
  | .protocolError => cFail cfg.cb s false
  | .tooLarge => cFail cfg.cb s true
  | .incomplete => (s, [])

/-- the per-frame handler folded over parse outcomes; whatever reaches a connection that has been failed is ignored -/
def cInterp (cfg : CCfg) : CSess → List PRes → CSess × List CEv
  | s, [] => (s, [])
  | s, r :: rs =>
    if s.protocolFailed then (s, []) else
    let (s1, e1) := cInterp1 cfg s r
    let (s2, e2) := cInterp cfg s1 rs
    (s2, e1 ++ e2)

theorem cInterp_failed (cfg : CCfg) (s : CSess) (rs : List PRes) (h : s.protocolFailed = true) : cInterp cfg s rs = (s, []) := by
  cases rs <;> simp [cInterp, h]

theorem cFail_failed (cb : CCbs) (s : CSess) (tl : Bool) : (cFail cb s tl).1.protocolFailed = true := by
  simp only [cFail]
  rw [(cFire_same _ _ _).2.2.2.2.1]
  rfl

theorem cLoop_eq_interp (cfg : CCfg) : ∀ (fuel : Nat) (s : CSess) (d : Bytes), s.protocolFailed = false →
    (cLoop cfg fuel s d).1 = (cInterp cfg s (drainF (wsStable cfg.max) fuel d).1).1 ∧
    (cLoop cfg fuel s d).2.1 = (cInterp cfg s (drainF (wsStable cfg.max) fuel d).1).2 ∧
    ((cInterp cfg s (drainF (wsStable cfg.max) fuel d).1).1.protocolFailed = false →
      (cLoop cfg fuel s d).2.2 = carryOpt (drainF (wsStable cfg.max) fuel d).2) := by
  intro fuel
  induction fuel with
  | zero => intro s d _; simp [cLoop, drainF, cInterp, carryOpt]
  | succ fuel ih =>
    intro s d hpf
    unfold cLoop drainF
    by_cases he : d.isEmpty = true
    · have : d = [] := by simpa using he
      subst this
      simp [wsStable, pws, parse, cInterp, carryOpt]
    · simp only [he, Bool.false_eq_true, ↓reduceIte]
      simp only [wsStable, pws]
      cases hp : parse cfg.max d with
      | incomplete => simp [cInterp, carryOpt]
      | protocolError =>
        simp only [cInterp, cInterp1, hpf, Bool.false_eq_true, ↓reduceIte, List.append_nil, true_and]
        intro h; rw [cFail_failed] at h; cases h
      | tooLarge =>
        simp only [cInterp, cInterp1, hpf, Bool.false_eq_true, ↓reduceIte, List.append_nil, true_and]
        intro h; rw [cFail_failed] at h; cases h
      | frame f n =>
        simp only [cInterp, cInterp1, hpf, Bool.false_eq_true, ↓reduceIte]
        by_cases hf : (cHandleFrame cfg s f).1.protocolFailed = true
        · simp only [hf, ↓reduceIte]
          rw [cInterp_failed cfg _ _ hf]
          simp only [List.append_nil, true_and]
          intro h; rw [hf] at h; cases h
        · have hf' : (cHandleFrame cfg s f).1.protocolFailed = false := by simpa using hf
          simp only [hf', Bool.false_eq_true, ↓reduceIte]
          obtain ⟨i1, i2, i3⟩ := ih (cHandleFrame cfg s f).1 (d.drop n) hf'
          simp only [wsStable, pws] at i1 i2 i3
          exact ⟨i1, by rw [i2], i3⟩

theorem cInterp_append (cfg : CCfg) : ∀ (a b : List PRes) (s : CSess),
    cInterp cfg s (a ++ b) =
      ((cInterp cfg (cInterp cfg s a).1 b).1, (cInterp cfg s a).2 ++ (cInterp cfg (cInterp cfg s a).1 b).2) := by
  intro a
  induction a with
  | nil => intro b s; simp [cInterp]
  | cons r rs ih =>
    intro b s
    by_cases hpf : s.protocolFailed = true
    · simp [cInterp, hpf, cInterp_failed cfg s b hpf]
    · simp [cInterp, hpf, ih, List.append_assoc]

@[simp] theorem cAccumulate_buffer (s : CSess) (f : Frame) : (cAccumulate s f).buffer = s.buffer := by
  unfold cAccumulate; split
  · rfl
  · split <;> rfl
@[simp] theorem cAccumulate_upgraded (s : CSess) (f : Frame) : (cAccumulate s f).upgraded = s.upgraded := by
  unfold cAccumulate; split
  · rfl
  · split <;> rfl
@[simp] theorem cAccumulate_protocolFailed (s : CSess) (f : Frame) : (cAccumulate s f).protocolFailed = s.protocolFailed := by
  unfold cAccumulate; split
  · rfl
  · split <;> rfl

theorem cFail_keeps (cb : CCbs) (s : CSess) (tl : Bool) :
    (cFail cb s tl).1.buffer = s.buffer ∧ (cFail cb s tl).1.upgraded = s.upgraded ∧
    (cFail cb s tl).1.fragBuf = s.fragBuf := by
  simp only [cFail]
  obtain ⟨h1, h2, _, _, _, _, h7⟩ := cFire_same { (cSendClose { s with protocolFailed := true } (if tl then 1009 else 1002) (cstr (if tl then "Message Too Big" else "Protocol error"))).1 with connected := false } .onError cb.onError
  exact ⟨by rw [h1]; rfl, by rw [h7]; rfl, by rw [h2]; rfl⟩

/-- what every frame handler leaves alone / guarantees -/
theorem cHandleDataFrame_keeps (cfg : CCfg) (s : CSess) (f : Frame) :
    (cHandleDataFrame cfg s f).1.buffer = s.buffer ∧ (cHandleDataFrame cfg s f).1.upgraded = s.upgraded ∧
    ((cHandleDataFrame cfg s f).1.fragBuf.length ≤ cfg.max) := by
  unfold cHandleDataFrame
  simp only
  split
  · obtain ⟨h1, h2, h3⟩ := cFail_keeps cfg.cb { cAccumulate s f with fragBuf := [], fragOp := 0 } true
    exact ⟨by rw [h1]; simp, by rw [h2]; simp, by rw [h3]; simp⟩
  · split
    · obtain ⟨h1, h2, _, _, _, _, h7⟩ := cDeliver_same cfg.cb { cAccumulate s f with fragBuf := [], fragOp := 0 } (cAccumulate s f).fragOp (cAccumulate s f).fragBuf
      exact ⟨by rw [h1]; simp, by rw [h7]; simp, by rw [h2]; simp⟩
    · exact ⟨by simp, by simp, by show (cAccumulate s f).fragBuf.length ≤ cfg.max; omega⟩

theorem cHandleFrame_keeps (cfg : CCfg) (s : CSess) (f : Frame) (hfr : s.fragBuf.length ≤ cfg.max) :
    (cHandleFrame cfg s f).1.buffer = s.buffer ∧ (cHandleFrame cfg s f).1.upgraded = s.upgraded ∧
    ((cHandleFrame cfg s f).1.fragBuf.length ≤ cfg.max) := by
  unfold cHandleFrame
  split
  · exact cHandleDataFrame_keeps cfg s f
  · split
    · exact ⟨rfl, rfl, hfr⟩
    · split
      · exact ⟨rfl, rfl, hfr⟩
      · split
        · simp only
          generalize hE : (if !s.closeEchoed then cSendClose { s with closeEchoed := true } (closePayload f.payload).1 (closePayload f.payload).2 else (s, [])) = E
          have hE' : E.1.buffer = s.buffer ∧ E.1.upgraded = s.upgraded ∧ E.1.fragBuf = s.fragBuf := by
            subst hE; split <;> exact ⟨rfl, rfl, rfl⟩
          obtain ⟨s1, ev⟩ := E
          obtain ⟨h1, h2, _, _, _, _, h7⟩ := cFire_same { s1 with connected := false } (.onClose (closePayload f.payload).1 (closePayload f.payload).2) cfg.cb.onClose
          simp only at hE' ⊢
          exact ⟨by rw [h1]; exact hE'.1, by rw [h7]; exact hE'.2.1, by rw [h2]; simp only; rw [hE'.2.2]; exact hfr⟩
        · exact ⟨rfl, rfl, hfr⟩

theorem cInterp_keeps (cfg : CCfg) : ∀ (fs : List Frame) (s : CSess), s.fragBuf.length ≤ cfg.max →
    (cInterp cfg s (fs.map toP)).1.buffer = s.buffer ∧ (cInterp cfg s (fs.map toP)).1.upgraded = s.upgraded ∧
    (cInterp cfg s (fs.map toP)).1.fragBuf.length ≤ cfg.max := by
  intro fs
  induction fs with
  | nil => intro s h; exact ⟨rfl, rfl, h⟩
  | cons f fs ih =>
    intro s h
    simp only [List.map_cons, cInterp, toP, cInterp1]
    split
    · exact ⟨rfl, rfl, h⟩
    · obtain ⟨h1, h2, h3⟩ := cHandleFrame_keeps cfg s f h
      obtain ⟨g1, g2, g3⟩ := ih (cHandleFrame cfg s f).1 h3
      exact ⟨g1.trans h1, g2.trans h2, g3⟩

/-- a failed loop returns no remainder -/
theorem cLoop_failed_none (cfg : CCfg) : ∀ (fuel : Nat) (s : CSess) (d : Bytes), s.protocolFailed = false →
    (cLoop cfg fuel s d).1.protocolFailed = true → (cLoop cfg fuel s d).2.2 = none := by
  intro fuel
  induction fuel with
  | zero => intro s d h1 h2; simp [cLoop, h1] at h2
  | succ fuel ih =>
    intro s d h1 h2
    rw [cLoop] at h2 ⊢
    by_cases he : d.isEmpty = true
    · simp [he, h1] at h2
    · simp only [he, Bool.false_eq_true, ↓reduceIte] at h2 ⊢
      cases hp : parse cfg.max d with
      | incomplete => simp [hp, h1] at h2
      | protocolError => simp
      | tooLarge => simp
      | frame f n =>
        simp only [hp] at h2 ⊢
        by_cases hh : (cHandleFrame cfg s f).1.protocolFailed = true
        · simp [hh]
        · simp only [hh, Bool.false_eq_true, ↓reduceIte] at h2 ⊢
          exact ih _ _ (by simpa using hh) h2

theorem cFrames_spec (cfg : CCfg) (s : CSess) (d : Bytes) (hf : s.protocolFailed = false) :
    (cFrames cfg s d).2 = (cInterp cfg s (drain (wsStable cfg.max) d).1).2 ∧
    ((cInterp cfg s (drain (wsStable cfg.max) d).1).1.protocolFailed = true →
      (cFrames cfg s d).1 = (cInterp cfg s (drain (wsStable cfg.max) d).1).1) ∧
    ((cInterp cfg s (drain (wsStable cfg.max) d).1).1.protocolFailed = false →
      (cFrames cfg s d).1 = match carryOpt (drain (wsStable cfg.max) d).2 with
        | some rest => { (cInterp cfg s (drain (wsStable cfg.max) d).1).1 with buffer := rest }
        | none => (cInterp cfg s (drain (wsStable cfg.max) d).1).1) := by
  obtain ⟨i1, i2, i3⟩ := cLoop_eq_interp cfg (d.length + 1) s d hf
  have hn := cLoop_failed_none cfg (d.length + 1) s d hf
  unfold cFrames
  simp only [hf, Bool.false_eq_true, ↓reduceIte, drain]
  rcases hL : cLoop cfg (d.length + 1) s d with ⟨s1, ev, r⟩
  rw [hL] at i1 i2 i3 hn
  simp only at i1 i2 i3 hn ⊢
  refine ⟨?_, ?_, ?_⟩
  · rw [← i2]; cases r <;> rfl
  · intro h
    rw [← i1] at h ⊢
    rw [hn h]
  · intro h
    rw [← i3 h, ← i1]
    cases r <;> rfl

theorem cOnData_upgraded (cfg : CCfg) (s : CSess) (data : Bytes) (hu : s.upgraded = true) :
    cOnData cfg s data = cFrames cfg { s with buffer := [] } (s.buffer ++ data) := by
  simp [cOnData, hu]

theorem cRun_failed (cfg : CCfg) : ∀ (ss : List Bytes) (s : CSess), s.protocolFailed = true → s.upgraded = true →
    (cRun cfg s (ss.map COp.data)).2 = [] := by
  intro ss
  induction ss with
  | nil => intro s _ _; rfl
  | cons x xs ih =>
    intro s h hu
    simp only [List.map_cons, cRun, cStep, cOnData_upgraded cfg s x hu]
    have : cFrames cfg { s with buffer := [] } (s.buffer ++ x) = ({ s with buffer := [] }, []) := by
      simp [cFrames, h]
    rw [this]
    exact ih _ h hu

/-- **Client-level segmentation independence** (no restriction on where CLOSE frames are or on message sizes: the client
keeps parsing after a CLOSE, and once it has failed the connection nothing is dispatched any more, in the same read or later). -/
theorem cRun_data_eq (cfg : CCfg) : ∀ (ss : List Bytes) (s : CSess) (fs : List Frame),
    ValidFrames cfg.max fs → s.protocolFailed = false → s.upgraded = true → s.fragBuf.length ≤ cfg.max →
    s.buffer ++ ss.flatten = stream fs → parse cfg.max s.buffer = .incomplete →
    (cRun cfg s (ss.map COp.data)).2 = (cInterp cfg { s with buffer := [] } (fs.map toP)).2 := by
  intro ss
  induction ss with
  | nil =>
    intro s fs hv hpf hu hfr hb hinc
    simp only [List.flatten_nil, List.append_nil] at hb
    have : fs = [] := by
      cases fs with
      | nil => rfl
      | cons f fs' =>
        obtain ⟨hf, hfm⟩ := hv f (List.mem_cons_self ..)
        have hrt := roundtrip cfg.max f (stream fs') hf hfm
        simp only [stream, List.flatMap_cons] at hb hrt
        rw [hb, hrt] at hinc; cases hinc
    subst this
    simp [cRun, cInterp]
  | cons seg ss ih =>
    intro s fs hv hpf hu hfr hb hinc
    simp only [List.flatten_cons, ← List.append_assoc] at hb
    have hgood : Good cfg.max (s.buffer ++ seg ++ ss.flatten) := hb ▸ good_stream cfg.max fs hv
    have hgd : Good cfg.max (s.buffer ++ seg) := (wsStable cfg.max).g_prefix _ _ hgood
    obtain ⟨fs1, rest1, e1, e2, e3⟩ := drainF_good cfg.max ((s.buffer ++ seg).length + 1) (s.buffer ++ seg) (by omega) hgd
    have hd1 : drain (wsStable cfg.max) (s.buffer ++ seg) = (fs1.map toP, .alive rest1) := e1
    have hg2 : Good cfg.max (rest1 ++ ss.flatten) :=
      drainF_carry_good (wsStable cfg.max) ((s.buffer ++ seg).length + 1) (s.buffer ++ seg) ss.flatten (by omega) hgood rest1 (by rw [e1])
    obtain ⟨fs2, rest2, f1, f2, f3⟩ := drainF_good cfg.max ((rest1 ++ ss.flatten).length + 1) (rest1 ++ ss.flatten) (by omega) hg2
    have hd2 : drain (wsStable cfg.max) (rest1 ++ ss.flatten) = (fs2.map toP, .alive rest2) := f1
    have happ := drainF_append (wsStable cfg.max) ((s.buffer ++ seg).length + 1) (s.buffer ++ seg) ss.flatten (by omega) hgood
    rw [e1] at happ
    simp only [resume, hd2] at happ
    rw [hb, drain_stream cfg.max fs hv] at happ
    simp only [Prod.mk.injEq, Carry.alive.injEq] at happ
    obtain ⟨hfr2, hr2⟩ := happ
    have hfs : fs = fs1 ++ fs2 := map_toP_inj _ _ (by rw [List.map_append]; exact hfr2)
    subst hr2
    simp only [List.append_nil] at f2
    simp only [List.map_cons, cRun, cStep, cOnData_upgraded cfg s seg hu]
    obtain ⟨c1, c2, c3⟩ := cFrames_spec cfg { s with buffer := [] } (s.buffer ++ seg) hpf
    rw [hd1] at c1 c2 c3
    simp only [carryOpt] at c3
    have hk := cInterp_keeps cfg fs1 { s with buffer := [] } hfr
    have hv2 : ValidFrames cfg.max fs2 := fun f hf => hv f (by rw [hfs]; exact List.mem_append_right _ hf)
    rw [hfs, List.map_append, cInterp_append, c1]
    generalize cInterp cfg { s with buffer := [] } (fs1.map toP) = I at hk c2 c3 ⊢
    obtain ⟨s1, ev1⟩ := I
    simp only at hk c2 c3 ⊢
    obtain ⟨hk1, hk2, hk3⟩ := hk
    congr 1
    by_cases hpf1 : s1.protocolFailed = true
    · rw [c2 hpf1, cRun_failed cfg ss s1 hpf1 (by rw [hk2]; exact hu), cInterp_failed cfg s1 _ hpf1]
    · have hpf1' : s1.protocolFailed = false := by simpa using hpf1
      rw [c3 hpf1']
      have := ih { s1 with buffer := rest1 } fs2 hv2 hpf1' (by simpa using hk2.trans hu) hk3 f2 e3
      rw [this]
      have hs1 : ({ { s1 with buffer := rest1 } with buffer := [] } : CSess) = s1 := by
        obtain ⟨bf, fb, fo, ce, pf, cs, cn, up⟩ := s1
        simp only at hk1
        simp [hk1]
      rw [hs1]

/-! ### bounded buffering (unparsed remainder, pending upgrade response, fragment buffer) -/

theorem cLoop_bufs (cfg : CCfg) : ∀ (fuel : Nat) (s : CSess) (d : Bytes), d.length < fuel → s.buffer = [] →
    s.fragBuf.length ≤ cfg.max →
    (cLoop cfg fuel s d).1.buffer = [] ∧ (cLoop cfg fuel s d).1.fragBuf.length ≤ cfg.max ∧
    (cLoop cfg fuel s d).1.upgraded = s.upgraded ∧
    ∀ r, (cLoop cfg fuel s d).2.2 = some r → r.length < 14 + cfg.max := by
  intro fuel
  induction fuel with
  | zero => intro s d h; omega
  | succ fuel ih =>
    intro s d hf hb hfr
    unfold cLoop
    split
    · rename_i he
      refine ⟨hb, hfr, rfl, ?_⟩
      intro r hr; cases hr
      simp at he; subst he; simp; omega
    · split
      · rename_i hp
        refine ⟨hb, hfr, rfl, ?_⟩
        intro r hr; cases hr
        exact parse_incomplete_short' cfg.max d hp
      · obtain ⟨h1, h2, h3⟩ := cFail_keeps cfg.cb s false
        exact ⟨h1.trans hb, by rw [h3]; exact hfr, h2, by intro r hr; cases hr⟩
      · obtain ⟨h1, h2, h3⟩ := cFail_keeps cfg.cb s true
        exact ⟨h1.trans hb, by rw [h3]; exact hfr, h2, by intro r hr; cases hr⟩
      · rename_i f n hp
        obtain ⟨h2, hnl, _, _⟩ := parse_frame_bounds cfg.max d f n hp
        have hl : (d.drop n).length < fuel := by simp [List.length_drop]; omega
        obtain ⟨k1, k2, k3⟩ := cHandleFrame_keeps cfg s f hfr
        simp only
        split
        · exact ⟨k1.trans hb, k3, k2, by intro r hr; cases hr⟩
        · obtain ⟨g1, g2, g3, g4⟩ := ih (cHandleFrame cfg s f).1 (d.drop n) hl (k1.trans hb) k3
          exact ⟨g1, g2, g3.trans k2, g4⟩

theorem cFrames_bounded (cfg : CCfg) (s : CSess) (d : Bytes) (hb : s.buffer = []) (hfr : s.fragBuf.length ≤ cfg.max) :
    (cFrames cfg s d).1.buffer.length < 14 + cfg.max ∧ (cFrames cfg s d).1.fragBuf.length ≤ cfg.max ∧
    (cFrames cfg s d).1.upgraded = s.upgraded := by
  unfold cFrames
  split
  · exact ⟨by rw [hb]; simp; omega, hfr, rfl⟩
  · obtain ⟨h1, h2, h3, h4⟩ := cLoop_bufs cfg (d.length + 1) s d (by omega) hb hfr
    rcases hL : cLoop cfg (d.length + 1) s d with ⟨s1, ev, r⟩
    rw [hL] at h1 h2 h3 h4
    simp only at h1 h2 h3 h4 ⊢
    cases r with
    | none => exact ⟨by rw [h1]; simp; omega, h2, h3⟩
    | some rest => exact ⟨h4 rest rfl, h2, h3⟩

/-- the client's invariant: a connected client retains fewer than `14 + max` unparsed bytes, a client still waiting for
the upgrade response at most `kMaxUpgradeResponse`; the fragment buffer never exceeds `max` -/
def CBounded (cfg : CCfg) (s : CSess) : Prop :=
  (s.upgraded = true → s.buffer.length < 14 + cfg.max) ∧
  (s.upgraded = false → s.buffer.length ≤ Gen.Ws.clientMaxUpgradeResponse) ∧
  s.fragBuf.length ≤ cfg.max

theorem cOnData_bounded (cfg : CCfg) (s : CSess) (data : Bytes) (h : CBounded cfg s) :
    CBounded cfg (cOnData cfg s data).1 := by
  obtain ⟨_, _, hfr⟩ := h
  unfold cOnData
  simp only
  split
  · rename_i hu
    obtain ⟨h1, h2, h3⟩ := cFrames_bounded cfg { s with buffer := [] } (s.buffer ++ data) rfl hfr
    exact ⟨fun _ => h1, fun hh => by rw [h3] at hh; simp [hu] at hh, h2⟩
  · rename_i hu
    have hs := cHandshake_spec cfg { s with buffer := [] } (s.buffer ++ data)
    cases hh : cHandshake cfg { s with buffer := [] } (s.buffer ++ data) with
    | wait s1 =>
      rw [hh] at hs
      simp only
      rw [hs.1]
      exact ⟨fun hh => by simp [hu] at hh, fun _ => hs.2, hfr⟩
    | failed s1 ev =>
      rw [hh] at hs
      simp only
      rw [hs.1]
      exact ⟨fun hh => by simp [hu] at hh, fun _ => by simp, hfr⟩
    | ok s1 ev rest =>
      rw [hh] at hs
      simp only
      rw [hs.1]
      obtain ⟨h1, h2, h3⟩ := cFrames_bounded cfg { { s with buffer := [] } with upgraded := true, connected := true } rest rfl hfr
      exact ⟨fun _ => h1, fun hh => (by rw [h3] at hh; cases hh), h2⟩

theorem cSendStep_bounded (cfg : CCfg) (s : CSess) (a : Send) (h : CBounded cfg s) : CBounded cfg (cSendStep s a).1 := by
  obtain ⟨hb, hf, _, _, _, _, hu⟩ := cSendStep_same s a
  unfold CBounded
  rw [hb, hf, hu]; exact h

theorem cStep_bounded (cfg : CCfg) (s : CSess) (op : COp) (h : CBounded cfg s) : CBounded cfg (cStep cfg s op).1 := by
  cases op with
  | data bs => exact cOnData_bounded cfg s bs h
  | sendClose c r => exact cSendStep_bounded cfg s _ h
  | sendText bs => exact cSendStep_bounded cfg s _ h
  | sendBinary bs => exact cSendStep_bounded cfg s _ h
  | sendPing bs => exact cSendStep_bounded cfg s _ h
  | disconnect c r =>
    simp only [cStep, cDisconnect]
    split
    · have := cSendStep_bounded cfg s (.close c r) h
      simpa [CBounded, cSendStep] using this
    · simpa [CBounded] using h

theorem cRun_bounded (cfg : CCfg) : ∀ (ops : List COp) (s : CSess), CBounded cfg s → CBounded cfg (cRun cfg s ops).1 := by
  intro ops
  induction ops with
  | nil => intro s h; exact h
  | cons op ops ih => intro s h; simp only [cRun]; exact ih _ (cStep_bounded cfg s op h)

/-! ### reassembly and message-level exactness (client) -/

def cIsDelivery : CEv → Bool
  | .text _ => true
  | .binary _ => true
  | _ => false

/-- the messages handed to the application, in order -/
def cMsgs (evs : List CEv) : List CEv := evs.filter cIsDelivery

@[simp] theorem cMsgs_nil : cMsgs [] = [] := rfl
@[simp] theorem cMsgs_append (a b : List CEv) : cMsgs (a ++ b) = cMsgs a ++ cMsgs b := by simp [cMsgs]

theorem cSendStep_msgs (s : CSess) (a : Send) : cMsgs (cSendStep s a).2 = [] := by
  cases a <;> simp only [cSendStep, cSend, cSendPing, cSendClose] <;> (repeat' split) <;> simp [cMsgs, cIsDelivery]

theorem cRunSends_msgs : ∀ (as : List Send) (s : CSess), cMsgs (cRunSends s as).2 = [] := by
  intro as
  induction as with
  | nil => intro s; rfl
  | cons a as ih => intro s; simp [cRunSends, cSendStep_msgs, ih]

theorem cFire_msgs (s : CSess) (e : CEv) (sc : List Send) : cMsgs (cFire s e sc).2 = cMsgs [e] := by
  simp only [cFire]
  have : e :: (cRunSends s sc).2 = [e] ++ (cRunSends s sc).2 := rfl
  rw [this, cMsgs_append, cRunSends_msgs]; simp

@[simp] theorem cSendClose_msgs (s : CSess) (c : Nat) (r : Bytes) : cMsgs (cSendClose s c r).2 = [] := by
  simp [cSendClose, cMsgs, cIsDelivery]

def cPongsOf : List Frame → List CEv
  | [] => []
  | c :: cs => (if c.opcode = 9 then [CEv.sent 10 true c.payload] else []) ++ cPongsOf cs

def cCleared (s : CSess) : CSess := { s with fragBuf := [], fragOp := 0 }

theorem cHandleFrame_cont (cfg : CCfg) (s : CSess) (f : Frame) (h0 : f.opcode = 0)
    (hl : (s.fragBuf ++ f.payload).length ≤ cfg.max) :
    cHandleFrame cfg s f =
      if f.fin then cDeliver cfg.cb (cCleared s) s.fragOp (s.fragBuf ++ f.payload)
      else ({ s with fragBuf := s.fragBuf ++ f.payload }, []) := by
  have hgt : ¬ cfg.max < s.fragBuf.length + f.payload.length := by simp at hl; omega
  simp [cHandleFrame, cHandleDataFrame, cAccumulate, h0, hgt, cCleared]

theorem cHandleFrame_start (cfg : CCfg) (s : CSess) (f : Frame)
    (hop : f.opcode = 1 ∨ f.opcode = 2) (hl : f.payload.length ≤ cfg.max) :
    cHandleFrame cfg s f =
      if f.fin then cDeliver cfg.cb (cCleared s) f.opcode f.payload
      else ({ s with fragOp := f.opcode, fragBuf := f.payload }, []) := by
  have hgt : ¬ cfg.max < f.payload.length := by omega
  rcases hop with h | h <;> simp [cHandleFrame, cHandleDataFrame, cAccumulate, h, hgt, cCleared]

theorem cHandleFrame_ping (cfg : CCfg) (s : CSess) (f : Frame) (h : f.opcode = 9) :
    cHandleFrame cfg s f = (s, [.sent 10 true f.payload]) := by
  simp [cHandleFrame, h]

theorem cHandleFrame_pong (cfg : CCfg) (s : CSess) (f : Frame) (h : f.opcode = 10) :
    cHandleFrame cfg s f = (s, []) := by
  simp [cHandleFrame, h]

theorem cInterp_cons_ok (cfg : CCfg) (s : CSess) (r : PRes) (rs : List PRes) (h : s.protocolFailed = false) :
    cInterp cfg s (r :: rs) =
      ((cInterp cfg (cInterp1 cfg s r).1 rs).1, (cInterp1 cfg s r).2 ++ (cInterp cfg (cInterp1 cfg s r).1 rs).2) := by
  simp [cInterp, h]

/-- **Client reassembly**: same statement as the server's -/
theorem cReassembly_tail (cfg : CCfg) :
    ∀ (fs : List Frame) (acc : Bytes), Tail acc fs → ∀ (s : CSess), s.protocolFailed = false →
      (s.fragBuf ++ acc).length ≤ cfg.max →
      cInterp cfg s (fs.map toP) =
        ((cDeliver cfg.cb (cCleared s) s.fragOp (s.fragBuf ++ acc)).1,
         cPongsOf fs ++ (cDeliver cfg.cb (cCleared s) s.fragOp (s.fragBuf ++ acc)).2) := by
  intro fs acc ht
  induction ht with
  | last f h0 hfin =>
    intro s hpf hlen
    rw [List.map_cons, cInterp_cons_ok cfg s _ _ hpf]
    simp [cInterp, cInterp1, toP, cHandleFrame_cont cfg s f h0 hlen, hfin, cPongsOf, h0]
  | cont f acc rest h0 hfin _ ih =>
    intro s hpf hlen
    have hlen' : (s.fragBuf ++ f.payload).length ≤ cfg.max := by simp at hlen ⊢; omega
    have := ih { s with fragBuf := s.fragBuf ++ f.payload } hpf (by simpa [List.append_assoc] using hlen)
    rw [List.map_cons, cInterp_cons_ok cfg s _ _ hpf]
    simp only [toP, cInterp1, cHandleFrame_cont cfg s f h0 hlen', hfin]
    simp [this, cPongsOf, h0, cCleared, List.append_assoc]
  | ctl c acc rest hc _ ih =>
    intro s hpf hlen
    have := ih s hpf hlen
    rw [List.map_cons, cInterp_cons_ok cfg s _ _ hpf]
    rcases hc with hc | hc
    · simp only [toP, cInterp1, cHandleFrame_ping cfg s c hc, cPongsOf]
      simp [this, hc]
    · simp only [toP, cInterp1, cHandleFrame_pong cfg s c hc, cPongsOf]
      simp [this, hc]

def cDeliveryOf : Nat × Bytes → Option CEv
  | (op, pl) => if op = 1 then (if isValidUtf8 pl then some (.text pl) else none) else some (.binary pl)

theorem cDeliver_msgs (cb : CCbs) (s : CSess) (op : Nat) (pl : Bytes) (hop : op = 1 ∨ op = 2) :
    cMsgs (cDeliver cb s op pl).2 = (cDeliveryOf (op, pl)).toList := by
  unfold cDeliver cDeliveryOf
  rcases hop with h | h <;> subst h
  · by_cases hu : isValidUtf8 pl = true
    · simp only [hu, Bool.not_true, Bool.false_eq_true, ↓reduceIte, cFire_msgs]
      simp [cMsgs, cIsDelivery]
    · simp [hu]
  · simp only [show ¬ (2 : Nat) = 1 by omega, ↓reduceIte, cFire_msgs]
    simp [cMsgs, cIsDelivery]

theorem cDeliver_keeps (cb : CCbs) (s : CSess) (op : Nat) (pl : Bytes) (hp : s.protocolFailed = false) (hf : s.fragBuf = []) :
    (cDeliver cb s op pl).1.protocolFailed = false ∧ (cDeliver cb s op pl).1.fragBuf = [] := by
  obtain ⟨_, h2, _, _, h5, _, _⟩ := cDeliver_same cb s op pl
  exact ⟨by rw [h5]; exact hp, by rw [h2]; exact hf⟩

theorem cIsMsg_exact (cfg : CCfg) (op : Nat) (pl : Bytes) (fsm : List Frame) (hm : IsMsg op pl fsm)
    (hfit : pl.length ≤ cfg.max) (s : CSess) (hpf : s.protocolFailed = false) :
    cMsgs (cInterp cfg s (fsm.map toP)).2 = (cDeliveryOf (op, pl)).toList ∧
    (cInterp cfg s (fsm.map toP)).1.protocolFailed = false ∧ (cInterp cfg s (fsm.map toP)).1.fragBuf = [] := by
  cases hm with
  | single f hop hfin =>
    have hk := cDeliver_keeps cfg.cb (cCleared s) f.opcode f.payload (by simpa [cCleared] using hpf) rfl
    rw [List.map_cons, List.map_nil, cInterp_cons_ok cfg s _ _ hpf]
    simp only [cInterp, toP, cInterp1, cHandleFrame_start cfg s f hop hfit, hfin, ↓reduceIte, List.append_nil]
    exact ⟨cDeliver_msgs cfg.cb _ _ _ hop, hk.1, hk.2⟩
  | frag f acc rest hop hfin ht =>
    have hfl : f.payload.length ≤ cfg.max := by simp at hfit; omega
    have hr := cReassembly_tail cfg rest acc ht { s with fragOp := f.opcode, fragBuf := f.payload } hpf hfit
    have hk := cDeliver_keeps cfg.cb (cCleared s) f.opcode (f.payload ++ acc) (by simpa [cCleared] using hpf) rfl
    rw [List.map_cons, cInterp_cons_ok cfg s _ _ hpf]
    simp only [toP, cInterp1, cHandleFrame_start cfg s f hop hfl, hfin, Bool.false_eq_true, ↓reduceIte, List.nil_append]
    rw [hr]
    have hc : cCleared { s with fragOp := f.opcode, fragBuf := f.payload } = cCleared s := rfl
    simp only [hc]
    refine ⟨?_, hk.1, hk.2⟩
    rw [cMsgs_append, cDeliver_msgs cfg.cb _ _ _ hop]
    have : cMsgs (cPongsOf rest) = [] := by
      clear hr ht hfit
      induction rest with
      | nil => rfl
      | cons c cs ih => simp only [cPongsOf, cMsgs_append, ih, List.append_nil]; split <;> simp [cMsgs, cIsDelivery]
    rw [this]; rfl

theorem cHandleFrame_close_msgs (cfg : CCfg) (s : CSess) (f : Frame) (h : f.opcode = 8) :
    cMsgs (cHandleFrame cfg s f).2 = [] := by
  unfold cHandleFrame
  rw [if_neg (by simp [h]), if_neg (by omega), if_neg (by omega), if_pos h]
  simp only
  split <;> simp only [cMsgs_append, cFire_msgs, cSendClose_msgs] <;> simp [cMsgs, cIsDelivery]

/-- **Message-level exactness (client).** -/
theorem cMsgs_exact (cfg : CCfg) : ∀ (ms : List (Nat × Bytes)) (fs : List Frame), Msgs ms fs →
    (∀ m ∈ ms, m.2.length ≤ cfg.max) → ∀ (s : CSess), s.protocolFailed = false → s.fragBuf = [] →
    cMsgs (cInterp cfg s (fs.map toP)).2 = ms.filterMap cDeliveryOf := by
  intro ms fs h
  induction h with
  | nil => intro _ s _ _; rfl
  | close c h8 =>
    intro _ s hpf _
    rw [List.map_cons, List.map_nil, cInterp_cons_ok cfg s _ _ hpf]
    simp only [cInterp, toP, cInterp1, List.append_nil]
    exact cHandleFrame_close_msgs cfg s c h8
  | ctl c ms fs hc _ ih =>
    intro hfit s hpf hf
    have := ih hfit s hpf hf
    rw [List.map_cons, cInterp_cons_ok cfg s _ _ hpf]
    rcases hc with hc | hc
    · simp only [toP, cInterp1, cHandleFrame_ping cfg s c hc, cMsgs_append, this]
      simp [cMsgs, cIsDelivery]
    · simp only [toP, cInterp1, cHandleFrame_pong cfg s c hc, cMsgs_append, this]
      simp
  | msg op pl fsm ms fs hm _ ih =>
    intro hfit s hpf hf
    obtain ⟨e1, e2, e3⟩ := cIsMsg_exact cfg op pl fsm hm (hfit (op, pl) (List.mem_cons_self ..)) s hpf
    rw [List.map_append, cInterp_append]
    simp only [cMsgs_append, e1]
    rw [ih (fun m hm' => hfit m (List.mem_cons_of_mem _ hm')) _ e2 e3]
    simp only [List.filterMap_cons]
    cases cDeliveryOf (op, pl) <;> simp

end Iora.Ws
