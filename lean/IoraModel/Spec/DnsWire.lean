import IoraModel.Model.Dns
/-!
Reference semantics of domain names on the wire (RFC 1035 §3.1, §4.1.4), independent of the decoder:
a relation between a message, an offset, the label sequence found there and the offset at which the enclosing
structure continues.  No visited-set, no fuel, no limits: a compression pointer may point ANYWHERE in the message
(backwards, forwards, to another pointer) as long as the chain it starts is finite — which is exactly what being
derivable in an inductive relation means.
-/
namespace Iora.Dns
open Iora

/-- `Denotes m off ls next`: the bytes of `m` at `off` spell the labels `ls`; the record continues at `next`
(just past the root label, or just past the FIRST compression pointer). -/
inductive Denotes (m : Bytes) : Nat → List Bytes → Nat → Prop
  /-- a zero octet: the root label ends the name -/
  | root {off : Nat} : m[off]? = some 0 → Denotes m off [] (off + 1)
  /-- a length octet 1..63 followed by that many octets, then the rest of the name -/
  | label {off : Nat} {b : UInt8} {ls : List Bytes} {next : Nat} :
      m[off]? = some b → 1 ≤ b.toNat → b.toNat ≤ 63 → off + 1 + b.toNat ≤ m.length →
      Denotes m (off + (b.toNat + 1)) ls next →
      Denotes m off (slice m (off + 1) b.toNat :: ls) next
  /-- two octets `11pppppp pppppppp`: the rest of the name is whatever stands at offset `p` -/
  | ptr {off : Nat} {b b2 : UInt8} {ls : List Bytes} {nx : Nat} :
      m[off]? = some b → 192 ≤ b.toNat → m[off + 1]? = some b2 →
      Denotes m ((b.toNat % 64) * 256 + b2.toNat) ls nx →
      Denotes m off ls (off + 2)

/-- `Denotes` with the number of compression pointers followed made explicit (the walk from an offset is deterministic,
so this number is a function of the message and the offset) -/
inductive DenotesH (m : Bytes) : Nat → List Bytes → Nat → Nat → Prop
  | root {off : Nat} : m[off]? = some 0 → DenotesH m off [] (off + 1) 0
  | label {off : Nat} {b : UInt8} {ls : List Bytes} {next h : Nat} :
      m[off]? = some b → 1 ≤ b.toNat → b.toNat ≤ 63 → off + 1 + b.toNat ≤ m.length →
      DenotesH m (off + (b.toNat + 1)) ls next h →
      DenotesH m off (slice m (off + 1) b.toNat :: ls) next h
  | ptr {off : Nat} {b b2 : UInt8} {ls : List Bytes} {nx h : Nat} :
      m[off]? = some b → 192 ≤ b.toNat → m[off + 1]? = some b2 →
      DenotesH m ((b.toNat % 64) * 256 + b2.toNat) ls nx h →
      DenotesH m off ls (off + 2) (h + 1)

/-- octets the labels occupy on the wire, without the root label -/
def wire : List Bytes → Nat
  | [] => 0
  | l :: ls => (l.length + 1) + wire ls

/-- presentation form the decoder produces: labels appended one by one with a dot in between -/
def joinFrom (name : Bytes) (ls : List Bytes) : Bytes := ls.foldl appendLabel name

def dottedName (ls : List Bytes) : Bytes := joinFrom [] ls

/-- uncompressed wire encoding of a label sequence (RFC 1035 §3.1) -/
def encodeWire : List Bytes → Bytes
  | [] => [0]
  | l :: ls => b8 l.length :: l ++ encodeWire ls

/-- **A well-formed name at `off`**: the bytes denote `ls` (any compression layout), the name obeys the RFC 1035 §2.3.4 limit
of 255 octets on the wire INCLUDING the root label (`wire ls + 1 ≤ 255`), and its decoding follows at most `maxJumps` (128)
compression pointers — the decoder's documented bound on pointers per name; a name has at most 127 labels and a compressor
points at labels, so no encoder comes near it. -/
def WellFormedName (m : Bytes) (off : Nat) (ls : List Bytes) (next : Nat) : Prop :=
  ∃ h, DenotesH m off ls next h ∧ h ≤ Gen.Dns.maxJumps ∧ wire ls + 1 ≤ 255

/-- labels a wire encoder accepts -/
def ValidLabels (ls : List Bytes) : Prop := ∀ l ∈ ls, 1 ≤ l.length ∧ l.length ≤ 63

end Iora.Dns
