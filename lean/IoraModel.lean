import IoraModel.Common.Bytes
import IoraModel.Common.Framing
import IoraModel.Model.WsFrame
import IoraModel.Model.WsServer
import IoraModel.Lemmas.WsFrame
import IoraModel.Props.C18
