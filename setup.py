#!/usr/bin/env python3
"""MANIFEST.setup_cmd: build the Lean library and the native model driver from files on disk (offline).
Every check rebuilds incrementally what it needs, so this only warms the lake workspace."""
import os, subprocess, sys
HERE = os.path.dirname(os.path.abspath(__file__))
sys.path.insert(0, HERE)
sys.path.insert(0, os.path.join(HERE, "tools"))
import translate
from vlib.core import LEAN, LeanLock

repo = os.environ.get("VERIF_REPO", "/repo")
with LeanLock():
    for u in sorted(translate.UNITS):
        try:
            path, text = translate.generate(u, repo)
            full = os.path.join(LEAN, path)
            if not os.path.exists(full) or open(full).read() != text:
                open(full, "w").write(text)
        except translate.TranslateError as e:
            print("setup: translator unit %s failed (%s); keeping the committed Gen file" % (u, e))
    rc = subprocess.call(["lake", "build"], cwd=LEAN)
sys.exit(rc)
