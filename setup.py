#!/usr/bin/env python3
"""MANIFEST.setup_cmd: build the Lean library and the native model driver from files on disk (offline).
Every check rebuilds incrementally what it needs, so this only warms the lake workspace."""
import os, subprocess, sys
HERE = os.path.dirname(os.path.abspath(__file__))
sys.path.insert(0, HERE)
sys.path.insert(0, os.path.join(HERE, "tools"))
import translate
from vlib.core import LEAN, LeanLock, gen_lake

import importlib, json
repo = os.environ.get("VERIF_REPO", "/repo")
manifest = json.load(open(os.path.join(HERE, "MANIFEST.json")))
modules = []
for c in manifest.get("checks", []):
    try:
        mod = importlib.import_module("props.%s" % c["property_id"].lower())
        modules += [m for m in getattr(mod, "MODULES", []) if m not in modules]
    except Exception as e:   # a plugin problem shows up when its check runs; setup only warms the build
        print("setup: cannot import plugin of %s: %s" % (c["property_id"], e))
with LeanLock():
    for u in sorted(translate.UNITS):
        try:
            path, text = translate.generate(u, repo)
            full = os.path.join(LEAN, path)
            if not os.path.exists(full) or open(full).read() != text:
                open(full, "w").write(text)
        except Exception as e:
            print("setup: translator unit %s failed (%s); keeping the committed Gen file" % (u, e))
    comps = gen_lake()
    # only what registered checks need (files of properties still under construction are not built here)
    rc = subprocess.call(["lake", "build"] + modules + ["iora_model_" + c for c, _, _ in comps], cwd=LEAN)
if rc != 0:
    # Setup only warms the lake workspace. A module that does not build (for instance because the working tree of
    # joegen/iora changed and a regenerated Gen file no longer satisfies an obligation) is reported by the check of the
    # property that owns it, with a VIOLATION line and a replay file; it must not keep the other checks from running.
    print("setup: lake build reported failures (rc=%d); each affected check rebuilds its own modules and reports them" % rc)
    rc = subprocess.call(["lake", "--version"], cwd=LEAN)   # only a missing toolchain fails the setup
sys.exit(rc)
